"""C15: spectrum objects — no aliasing / mutation of operands, restructuring round trips."""
import copy
import os
import tempfile
import warnings

import numpy as np

from . import common
from . import spectra as sp

ASSUMPTIONS = [
    "the object-store model states the discipline (every operation builds a fresh dataset; only fillna / multiply(inplace=True) rebind); that the code follows it is observed: byte snapshots of every variable of every live operand before and after each operation",
    "netCDF encode/decode is exercised, not modelled",
    "index theorems (ravel/unravel) are about numpy's C order, which np.unravel_index / reshape implement",
]

RULE = ("seeded random 1D/2D spectra in the four dims layouts; every public operation applied singly and in random sequences of "
        "length <= 6 over a pool of live objects, with byte snapshots of all live objects before/after; concatenation of N in 1..6 "
        "spectra and selection of every index; flatten pairing; netCDF round trips incl. infinite depth and NaN values; one case = "
        "one operation applied; distinct by (operation, layout, kind)")


def snapshot(spec):
    out = {}
    ds = spec.dataset
    for name in list(ds.variables):
        v = ds[name].values
        out[str(name)] = (v.dtype.str, v.shape, v.tobytes(), tuple(ds[name].dims))
    return out


def same(a, b):
    return a.keys() == b.keys() and all(a[k] == b[k] for k in a)


def roughen(spec, rng, run):
    """Field-data features the generators of the other checks do not produce: first-order moments outside the unit disk
    (noisy buoy data), a track that crosses the antimeridian, time stamps with milliseconds. Done before any snapshot."""
    ds = spec.dataset
    if "a1" in ds and rng.random() < 0.4:
        a1, b1 = np.array(ds["a1"].values, dtype=float), np.array(ds["b1"].values, dtype=float)
        flat_a, flat_b = a1.reshape(-1), b1.reshape(-1)
        for _ in range(rng.randint(1, 3)):
            k = rng.randrange(flat_a.size)
            ang = rng.uniform(0, 2 * np.pi)
            flat_a[k], flat_b[k] = 1.03 * np.cos(ang), 1.03 * np.sin(ang)
        ds["a1"] = (ds["a1"].dims, np.ascontiguousarray(a1))
        ds["b1"] = (ds["b1"].dims, np.ascontiguousarray(b1))
        run.count("moments_outside_unit_disk")
    if "longitude" in ds and ds["longitude"].values.size > 1 and rng.random() < 0.4:
        lon = np.array(ds["longitude"].values, dtype=float)
        flat = lon.reshape(-1)
        flat[:] = [((179.2 + 0.5 * i + 180.0) % 360.0) - 180.0 for i in range(flat.size)]      # 179.2, 179.7, -179.8, ...
        ds["longitude"] = (ds["longitude"].dims, lon)
        run.count("track_across_antimeridian")
    if "time" in ds and rng.random() < 0.5:
        t = np.array(ds["time"].values).astype("datetime64[ns]")
        shift = np.array([rng.choice([123, 1, 999, 250]) for _ in range(t.size)], dtype="int64").reshape(t.shape)
        ds["time"] = (ds["time"].dims, t + shift.astype("timedelta64[ms]")) if t.ndim else t + np.timedelta64(int(shift), "ms")
        run.count("millisecond_time_stamps")
    return spec


def ops_for(spec, rng, others):
    """list of (name, callable, inplace?)"""
    f = spec.frequency.values
    two_d = "direction" in spec.dataset.coords
    ops = []
    ops.append(("copy_deep", lambda: spec.copy(deep=True), False))
    ops.append(("copy_shallow", lambda: spec.copy(deep=False), False))
    ops.append(("deepcopy", lambda: copy.deepcopy(spec), False))
    ops.append(("neg", lambda: -spec, False))
    same_kind = [o for o in others if type(o) is type(spec) and o.dataset["variance_density"].shape == spec.dataset["variance_density"].shape]
    if same_kind:
        o = rng.choice(same_kind)
        ops.append(("add", lambda: spec + o, False))
        ops.append(("sub", lambda: spec - o, False))
    shp = spec.shape()
    ops.append(("multiply_full", lambda: spec.multiply(np.full(shp, 2.0)), False))
    ops.append(("multiply_dim", lambda: spec.multiply(np.linspace(1, 2, len(f)), ["frequency"]), False))
    ops.append(("bandpass", lambda: spec.bandpass(float(f[0]), float(f[-1])), False))
    ops.append(("moments", lambda: (spec.m0(), spec.hm0(), spec.tm01(), spec.peak_index()), False))
    dims_st = spec.dims_space_time
    if dims_st:
        d0 = dims_st[0]
        n0 = spec.dataset["variance_density"].shape[0]
        ops.append(("isel", lambda: spec.isel(**{d0: rng.randrange(n0)}), False))
        # selections numpy returns as views: whatever is done to them later must not reach the source
        ops.append(("isel_slice", lambda: spec.isel(**{d0: slice(0, max(1, n0 - 1))}), False))
        ops.append(("getitem_slice", lambda: spec[(slice(0, max(1, n0 - 1)),) + (slice(None),) * (spec.ndims - 1)], False))
        ops.append(("getitem_frequency_slice", lambda: spec[(slice(None),) * (spec.ndims - (2 if two_d else 1)) + (slice(1, None),) + ((slice(None),) if two_d else ())], False))
        ops.append(("getitem", lambda: spec[(rng.randrange(n0),) + (slice(None),) * (spec.ndims - 1)], False))
        if d0 in ("time", "latitude") and d0 in spec.dataset.coords:
            ops.append(("mean", lambda: spec.mean(d0), False))
            ops.append(("sum", lambda: spec.sum(d0), False))
            ops.append(("std", lambda: spec.std(d0), False))
        if d0 == "time":
            ops.append(("sel", lambda: spec.sel(time=spec.dataset["time"].values[0]), False))
            ops.append(("interpolate_time", lambda: spec.interpolate({"time": spec.dataset["time"].values[:1]}), False))
    # onto exactly its own axes (the degenerate target where a shortcut is tempting)
    ops.append(("interpolate_frequency_own", lambda: spec.interpolate_frequency(f.copy()), False))
    if "time" in spec.dims and len(spec.dataset["time"].values) >= 1:
        ops.append(("interpolate_time_own", lambda: spec.interpolate({"time": spec.dataset["time"].values.copy()}), False))
    ops.append(("flatten", lambda: spec.flatten(), False))
    ops.append(("drop_invalid", lambda: spec.drop_invalid() if dims_st else None, False))
    ops.append(("interpolate_frequency", lambda: spec.interpolate_frequency(np.linspace(f[0], f[-1], 5)), False))
    if two_d:
        ops.append(("as_frequency_spectrum", lambda: spec.as_frequency_spectrum(), False))
    else:
        ops.append(("as_frequency_direction_spectrum", lambda: spec.as_frequency_direction_spectrum(12, method="mem", solution_method="scipy"), False))
        ops.append(("as_frequency_direction_spectrum_mem2", lambda: spec.as_frequency_direction_spectrum(12, method="mem2", solution_method="approximate"), False))
        ops.append(("interpolate_frequency_spline", lambda: spec.interpolate_frequency(np.linspace(f[0], f[-1], 4), method="spline"), False))
        ops.append(("interpolate_frequency_nearest", lambda: spec.interpolate_frequency(np.linspace(f[0], f[-1], 4), method="nearest"), False))
    # documented in-place operations
    ops.append(("fillna", lambda: spec.fillna(0.0), True))
    ops.append(("multiply_inplace", lambda: spec.multiply(np.full(shp, 1.5), inplace=True), True))
    ops.append(("multiply_dim_inplace", lambda: spec.multiply(np.linspace(1, 2, len(f)), ["frequency"], inplace=True), True))
    return ops


def check_sequences(run, ncases):
    rng = run.rng
    for case in range(ncases):
        with warnings.catch_warnings():
            warnings.simplefilter("ignore")
            layout = rng.choice(sp.LAYOUTS)
            _, f = sp.freq_grid(rng, rng.choice([4, 6]))
            pool = []
            for _ in range(2):
                if rng.random() < 0.5:
                    s, _m = sp.make_1d(rng, layout=layout, f=f, nan_rate=0.1, depth_mode="deep")
                else:
                    s, _m = sp.make_2d(rng, layout=layout, f=f, d=30.0 * np.arange(12), nan_rate=0.05, depth_mode="deep")
                pool.append(roughen(s, rng, run))
            hist = []
            for step in range(rng.randint(1, 6)):
                tgt = rng.randrange(len(pool))
                spec = pool[tgt]
                name, fn, inplace = rng.choice(ops_for(spec, rng, pool))
                before = [snapshot(p) for p in pool]
                try:
                    res = fn()
                except Exception as ex:
                    # an operation that is not applicable to this layout is not a mutation question; but it must
                    # still leave the operands untouched
                    res = None
                    run.count("op_raised_" + name)
                after = [snapshot(p) for p in pool]
                hist.append(name)
                run.case("op", key=(name, layout, type(spec).__name__), nontrivial=True)
                run.count("op_" + name)
                for i, (b, a) in enumerate(zip(before, after)):
                    if not same(b, a) and not (inplace and i == tgt):
                        changed = [k for k in b if k not in a or b[k] != a.get(k)]
                        run.violation("an operation changed one of its operands (or another live object)",
                                      dict(operation=name, history=hist, layout=layout, object=i, target=tgt, variables=changed[:5]))
                if name in ("copy_deep", "deepcopy") and res is not None:
                    # a deep copy shares no data with its source: data variables do not share memory, and writing
                    # into ANY array of the copy leaves the source untouched
                    for v in spec.dataset.data_vars:
                        if v in res.dataset.data_vars and spec.dataset[v].values.size and \
                                np.shares_memory(spec.dataset[v].values, res.dataset[v].values):
                            run.violation("a deep copy shares memory with its source", dict(variable=str(v), layout=layout))
                    b2 = [snapshot(p) for p in pool]
                    for v in list(res.dataset.variables):
                        try:
                            arr = res.dataset[v].values
                            if arr.dtype.kind == "f":
                                arr[...] = -123.0
                            elif arr.dtype.kind == "M":
                                arr[...] = np.datetime64("1999-01-01", "ns")
                        except Exception:
                            pass
                    a2 = [snapshot(p) for p in pool]
                    for i, (b, a) in enumerate(zip(b2, a2)):
                        if not same(b, a):
                            run.violation("writing into a deep copy changes its source (or another live object)",
                                          dict(operation=name, history=hist, layout=layout, object=i))
                    res = None      # scribbled on: do not keep it
                if res is not None and hasattr(res, "dataset") and len(pool) < 5 and not any(res is p for p in pool):
                    pool.append(res)
                    if name in ("isel_slice", "getitem_slice", "getitem_frequency_slice", "isel", "getitem", "sel", "bandpass", "copy_shallow", "flatten") and rng.random() < 0.6:
                        # write into the selection in place: the source (and every other live object) stays as it is.
                        # Both documented in-place operations are used: scaling, and filling the missing values (which
                        # only acts where the selection has NaNs - the pool is generated with missing bins)
                        before2 = [snapshot(p) for p in pool]
                        try:
                            if rng.random() < 0.5:
                                res.fillna(-7.0)
                                run.count("inplace_fillna_on_selection")
                            else:
                                shp2 = res.shape()
                                res.multiply(np.full(shp2, 3.0), inplace=True)
                                run.count("inplace_on_selection")
                        except Exception:
                            run.count("op_raised_inplace_on_selection")
                        after2 = [snapshot(p) for p in pool]
                        for i, (b, a) in enumerate(zip(before2, after2)):
                            if not same(b, a) and pool[i] is not res:
                                run.violation("an in-place operation on a selection changed the spectrum it was selected from (or another live object)",
                                              dict(selection=name, history=hist, layout=layout, object=i))
            if case < 3:
                run.sample(dict(layout=layout, operations=hist))


def check_reductions(run, ncases):
    """mean / sum / std along the leading dimension on tracks that cross the antimeridian or the prime meridian, with
    noisy moments: the operand is left as it was"""
    rng = run.rng
    for case in range(ncases):
        with warnings.catch_warnings():
            warnings.simplefilter("ignore")
            two_d = rng.random() < 0.4
            layout = rng.choice(["time", "time", "time_lat"])
            spec, meta = (sp.make_2d(rng, layout=layout) if two_d else sp.make_1d(rng, layout=layout))
            ds = spec.dataset
            if "longitude" in ds and ds["longitude"].values.size > 1:
                lon = np.array(ds["longitude"].values, dtype=float)
                flat = lon.reshape(-1)
                centre = rng.choice([180.0, 180.0, 180.0, 0.0, 359.5])
                flat[:] = [((centre - 0.8 + 0.5 * i + 180.0) % 360.0) - 180.0 if centre == 180.0 else (centre - 0.8 + 0.5 * i) % 360.0
                           for i in range(flat.size)]
                ds["longitude"] = (ds["longitude"].dims, lon)
            d0 = spec.dims_space_time[0]
            for name in ("mean", "sum", "std"):
                run.case("reduction", key=(case, name, layout, two_d))
                before = snapshot(spec)
                try:
                    getattr(spec, name)(d0)
                except Exception:
                    run.count("op_raised_" + name)
                if snapshot(spec) != before:
                    b, a = before, snapshot(spec)
                    run.violation("a reduction changed its operand", dict(operation=name, layout=layout,
                                                                          variables=[k for k in b if b[k] != a.get(k)][:5],
                                                                          longitude=np.asarray(ds["longitude"].values).reshape(-1).tolist()[:6]))


def check_concat(run, ncases):
    from ocean_science_utilities.wavespectra.operations import concatenate_spectra
    rng = run.rng
    for case in range(ncases):
        with warnings.catch_warnings():
            warnings.simplefilter("ignore")
            n = rng.randint(1, 6)
            two_d = rng.random() < 0.5
            _, f = sp.freq_grid(rng, rng.choice([4, 6]))
            d = 30.0 * np.arange(12)
            parts = []
            for i in range(n):
                if two_d:
                    s, m = sp.make_2d(rng, layout="scalar", f=f, d=d, nan_rate=0.05)
                else:
                    s, m = sp.make_1d(rng, layout="scalar", f=f, nan_rate=0.1)
                # distinguishable metadata
                s.dataset["time"] = np.datetime64("2022-01-01T00:00:00", "ns") + np.timedelta64(3600 * (i * 7 % 11 + i), "s")
                s.dataset["latitude"] = 10.0 + i
                s.dataset["longitude"] = 20.0 - i
                parts.append(s)
            run.case("concat", key=(n, two_d))
            befores = [snapshot(p) for p in parts]
            cat = concatenate_spectra(parts, dim="time")
            if [snapshot(p) for p in parts] != befores:
                run.violation("concatenate_spectra changed its inputs", dict(n=n))
            if len(cat) != n:
                run.violation("concatenation of N spectra does not contain N spectra", dict(n=n, got=len(cat)))
                continue
            for i in range(n):
                for getter in ("getitem", "isel"):
                    if getter == "getitem":
                        one = cat[(i,) + (slice(None),) * (cat.ndims - 1)]
                    else:
                        one = cat.isel(time=i)
                    for var in parts[i].dataset.variables:
                        a = np.asarray(parts[i].dataset[var].values)
                        if var not in one.dataset.variables:
                            run.violation("selected element lacks a variable of the input", dict(var=str(var), i=i))
                            continue
                        b = np.asarray(one.dataset[var].values)
                        ok = a.shape == b.shape and (np.array_equal(a, b, equal_nan=True) if a.dtype.kind == "f" else np.array_equal(a, b))
                        if not ok:
                            run.violation("selecting element i of a concatenation does not return the i-th input",
                                          dict(i=i, n=n, var=str(var), getter=getter))
            # second stage: the selected single spectra (which now carry what they were selected by) are joined again,
            # in another order, along another new dimension; element j is the j-th spectrum handed in
            try:
                singles = [cat.isel(time=i) for i in range(n)]
                order = list(range(n))
                rng.shuffle(order)
                dim2 = rng.choice(["latitude", "longitude"])
                cat2 = concatenate_spectra([singles[k] for k in order], dim=dim2)
            except Exception as ex:
                run.count("chained_concat_raised_" + type(ex).__name__)
                continue
            run.case("concat_chained", key=(n, two_d, dim2))
            if len(cat2) != n:
                run.violation("chained concatenation of N spectra does not contain N spectra", dict(n=n, got=len(cat2), dim=dim2))
                continue
            for j in range(n):
                one = cat2.isel(**{dim2: j})
                ref = parts[order[j]]
                for var in ref.dataset.variables:
                    if var not in one.dataset.variables:
                        run.violation("element of a chained concatenation lacks a variable of the input", dict(var=str(var), j=j))
                        continue
                    a = np.squeeze(np.asarray(ref.dataset[var].values))
                    b = np.squeeze(np.asarray(one.dataset[var].values))
                    ok = a.shape == b.shape and (np.array_equal(a, b, equal_nan=True) if a.dtype.kind == "f" else np.array_equal(a, b))
                    if not ok:
                        run.violation("selecting element j of a concatenation of selected spectra does not return the j-th input",
                                      dict(j=j, n=n, var=str(var), dim=dim2, order=order))


def check_flatten(run, ncases):
    rng = run.rng
    for case in range(ncases):
        with warnings.catch_warnings():
            warnings.simplefilter("ignore")
            two_d = rng.random() < 0.4
            layout = rng.choice(["time", "time_lat", "scalar"])
            spec, meta = (sp.make_2d(rng, layout=layout) if two_d else sp.make_1d(rng, layout=layout))
            run.case("flatten", key=(layout, two_d))
            flat = spec.flatten()
            shape = tuple(meta["bshape"]) or (1,)
            count = int(np.prod(shape))
            e0 = np.asarray(spec.dataset["variance_density"].values)
            ef = np.asarray(flat.dataset["variance_density"].values)
            if ef.shape[0] != count or len(flat) != count:
                run.violation("flatten changes the spectrum count", dict(layout=layout, got=ef.shape[0], want=count))
                continue
            nspec = 2 if two_d else 1
            e0r = e0.reshape((count,) + e0.shape[e0.ndim - nspec:])
            for k in range(count):
                idx = np.unravel_index(k, shape)
                if not np.array_equal(ef[k], e0r[k], equal_nan=True):
                    run.violation("flatten does not keep the C-order pairing of spectra", dict(layout=layout, k=k))
                for dname in spec.dims_space_time:
                    cv = spec.dataset[dname].values[idx[spec.dims_space_time.index(dname)]]
                    if flat.dataset[dname].values[k] != cv:
                        run.violation("flatten pairs a spectrum with the wrong coordinate", dict(layout=layout, k=k, dim=dname))
                for aux in ("depth", "longitude"):
                    if aux in spec.dataset and spec.dataset[aux].dims == tuple(spec.dims_space_time) and spec.dims_space_time:
                        a = spec.dataset[aux].values[idx]
                        b = flat.dataset[aux].values[k]
                        if not (a == b or (a != a and b != b)):
                            run.violation("flatten pairs a spectrum with the wrong depth/position", dict(layout=layout, k=k, var=aux))


def check_netcdf(run, ncases):
    from ocean_science_utilities.wavespectra.spectrum import load_spectrum_from_netcdf
    rng = run.rng
    tmp = tempfile.mkdtemp(prefix="osu_nc_")
    try:
        for case in range(ncases):
            with warnings.catch_warnings():
                warnings.simplefilter("ignore")
                two_d = rng.random() < 0.5
                layout = rng.choice(["time", "time_lat", "scalar", "flat"])
                spec, meta = (sp.make_2d(rng, layout=layout) if two_d else sp.make_1d(rng, layout=layout))
                spec = roughen(spec, rng, run)
                path = os.path.join(tmp, f"s{case}.nc")
                run.case("netcdf", key=(layout, two_d))
                before = snapshot(spec)
                try:
                    spec.save_as_netcdf(path)
                    back = load_spectrum_from_netcdf(path)
                except Exception as ex:
                    run.violation("netCDF round trip raised", dict(layout=layout, two_d=two_d, error=repr(ex)[:300]))
                    continue
                if snapshot(spec) != before:
                    run.violation("saving changed the spectrum", dict(layout=layout))
                if type(back) is not type(spec):
                    run.violation("loading returns a spectrum of another kind", dict(got=type(back).__name__, want=type(spec).__name__))
                    continue
                for var in spec.dataset.variables:
                    if var not in back.dataset.variables:
                        run.violation("a variable or coordinate is lost in the netCDF round trip", dict(var=str(var), layout=layout))
                        continue
                    a, b = np.asarray(spec.dataset[var].values), np.asarray(back.dataset[var].values)
                    if a.dtype.kind == "M":
                        ok = a.shape == b.shape and np.array_equal(a.astype("datetime64[ns]"), b.astype("datetime64[ns]"))
                    else:
                        ok = a.shape == b.shape and np.array_equal(a.astype(float), b.astype(float), equal_nan=True)
                    if not ok or tuple(spec.dataset[var].dims) != tuple(back.dataset[var].dims):
                        run.violation("netCDF round trip changes coordinates or values", dict(var=str(var), layout=layout))
                back.dataset.close()
                os.remove(path)
    finally:
        import shutil
        shutil.rmtree(tmp, ignore_errors=True)


def main(prop, tier, seed):
    run = common.Run(prop, tier, seed)
    aud = common.audit(prop, thorough=(tier == "thorough"))
    common.use_repo_source()
    thorough = tier == "thorough"
    k = 10 if thorough else 1
    with common.guard(run, "operation sequences"):
        check_sequences(run, 60 * k)
    with common.guard(run, "reductions"):
        check_reductions(run, 12 * k)
    with common.guard(run, "concatenation"):
        check_concat(run, 25 * k)
    with common.guard(run, "flatten"):
        check_flatten(run, 30 * k)
    with common.guard(run, "netcdf"):
        check_netcdf(run, 12 * k)
    return run.finish(aud, ASSUMPTIONS, RULE)
