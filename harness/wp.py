"""Shared pieces of the wavephysics checks (C08-C11): spectra, winds, parameter sets, model context lines."""
import math

import numpy as np

from .numfmt import bits, from_bits

G = 9.81


def jonswap(f, fp, alpha, gamma):
    sig = np.where(f <= fp, 0.07, 0.09)
    with np.errstate(all="ignore"):
        e = alpha * G ** 2 * (2 * np.pi) ** -4 * f ** -5.0 * np.exp(-1.25 * (fp / f) ** 4) * gamma ** np.exp(-0.5 * ((f - fp) / (sig * fp)) ** 2)
    e[~np.isfinite(e)] = 0.0
    return e


def spreading(d, th0, s):
    D = np.cos(np.radians((d - th0 + 180) % 360 - 180) / 2) ** (2 * s)
    return D / (D.sum() * 360.0 / len(d))


def point_spectrum(rng, f, d, kind):
    """one (nf, nd) non-negative variance density in m^2/Hz/deg and the wind-sea direction"""
    th0 = rng.uniform(0, 360)
    if kind in ("jonswap", "pm", "mixed", "young"):
        fp = rng.uniform(0.55, 0.7) if kind == "young" else rng.uniform(0.1, 0.3)      # young: equilibrium range above 0.5 Hz
        alpha = rng.choice([0.0081, 0.012, 0.016, 0.02])
        gamma = 1.0 if kind == "pm" else rng.choice([1.0, 2.0, 3.3, 5.0])
        E = jonswap(f, fp, alpha, gamma)[:, None] * spreading(d, th0, rng.choice([2, 4, 8]))[None, :]
        if kind == "mixed":
            fs = rng.uniform(0.05, 0.09)
            hs = rng.uniform(0.5, 3.0)
            es = np.exp(-0.5 * ((f - fs) / 0.01) ** 2)
            es = es / max(np.trapezoid(es, f), 1e-300) * (hs / 4) ** 2
            E = E + es[:, None] * spreading(d, rng.uniform(0, 360), 20)[None, :]
    elif kind == "veering":
        # a wind sea under a veering wind: the mean direction turns from the peak to the highest frequencies
        # (not mirror-symmetric: the stress direction differs from the dissipation-weighted wave direction)
        fp = rng.uniform(0.12, 0.2)
        alpha = rng.choice([0.012, 0.016, 0.02])
        turn = rng.choice([-40.0, -25.0, 25.0, 40.0])
        e1 = jonswap(f, fp, alpha, 3.3)
        sp_ = rng.choice([2, 4])
        E = np.array([e1[i] * spreading(d, th0 + turn * min(max((f[i] - fp) / (f[-1] - fp), 0.0), 1.0), sp_) for i in range(len(f))])
    elif kind == "random":
        E = np.array([[rng.random() ** 3 * 0.02 for _ in d] for _ in f]) * (f[:, None] / 0.1) ** -4.0
        mask = np.array([[rng.random() < 0.25 for _ in d] for _ in f])
        E[mask] = 0.0
        if rng.random() < 0.5:
            E[:, rng.randrange(len(d))] = 0.0
        if rng.random() < 0.5:
            E[rng.randrange(len(f)), :] = 0.0
    elif kind == "positive":
        E = np.array([[0.2 + rng.random() for _ in d] for _ in f]) * 1e-3 * (f[:, None] / 0.1) ** -4.0
    elif kind == "empty":
        E = np.zeros((len(f), len(d)))
    else:
        raise ValueError(kind)
    return E, th0


def make_spectrum(rng, npts, nf, nd, kinds, depth_mode, nonuniform_directions=False):
    import xarray
    from ocean_science_utilities.wavespectra.spectrum import FrequencyDirectionSpectrum
    f = np.linspace(0.04, rng.choice([0.5, 0.8, 1.0]), nf) if rng.random() < 0.6 else 0.04 * 1.12 ** np.arange(nf)
    if "young" in kinds:
        f = np.linspace(0.04, 1.0, max(nf, 14))
    d = np.linspace(0, 360, nd, endpoint=False)
    if nonuniform_directions:
        # bins of width w on one half plane and 2w on the other (still covering the circle)
        m = 3 * (nd // 3)
        w = 360.0 / (m // 3 * 2 + m // 3 * 2)
        fine = np.arange(m // 3 * 2) * w
        coarse = 180.0 + np.arange(m // 3) * 2 * w
        d = np.concatenate([fine, coarse])[:m]
        d = (d + rng.choice([0.0, 7.5])) % 360
        d = np.sort(d)
    Es, ths = [], []
    for i in range(npts):
        E, th = point_spectrum(rng, f, d, kinds[i % len(kinds)])
        Es.append(E)
        ths.append(th)
    if depth_mode == "deep":
        depth = np.full(npts, np.inf)
    elif depth_mode == "finite":
        depth = np.array([rng.choice([8.0, 20.0, 50.0, 200.0]) for _ in range(npts)])
    else:
        depth = np.array([rng.choice([np.inf, 15.0, 60.0]) for _ in range(npts)])
    ds = xarray.Dataset(
        data_vars={"variance_density": (("time", "frequency", "direction"), np.array(Es)),
                   "latitude": ("time", np.zeros(npts)), "longitude": ("time", np.zeros(npts)), "depth": ("time", depth)},
        coords={"time": np.datetime64("2022-01-01", "ns") + np.arange(npts) * np.timedelta64(3600, "s"), "frequency": f, "direction": d})
    return FrequencyDirectionSpectrum(ds), np.array(ths)


def with_density(spec, E, depth=None):
    import xarray
    from ocean_science_utilities.wavespectra.spectrum import FrequencyDirectionSpectrum
    ds = spec.dataset.copy(deep=True)
    ds["variance_density"] = (("time", "frequency", "direction"), np.array(E, dtype=float))
    if depth is not None:
        ds["depth"] = ("time", np.array(depth, dtype=float))
    return FrequencyDirectionSpectrum(ds)


def subset(spec, idx):
    from ocean_science_utilities.wavespectra.spectrum import FrequencyDirectionSpectrum
    return FrequencyDirectionSpectrum(spec.dataset.isel(time=idx).copy(deep=True))


def da(values):
    import xarray
    return xarray.DataArray(np.array(values, dtype=float), dims="time")


GEN_VARIANTS = [
    {},
    {"growth_parameter_betamax": 1.75, "wave_age_tuning_parameter": 0.008},
    {"charnock_constant": 0.0185, "growth_parameter_betamax": 1.2},
    {"viscous_stress_parameter": 0.1},
    {"vonkarman_constant": 0.41, "air_density": 1.2, "water_density": 1000.0, "wave_age_tuning_parameter": 0.011},
]
ST4_VARIANTS = [
    {},
    {"saturation_breaking_directional_control": 0.3, "saturation_integration_width_degrees": 60},
    {"saturation_threshold": 0.0012, "cumulative_breaking_max_relative_frequency": 0.7, "saturation_breaking_constant": 3.0e-5},
    {"cumulative_breaking_constant": 0.0},
    {"saturation_breaking_constant": 0.0, "cumulative_breaking_constant": 0.6},
]
ST6_VARIANTS = [
    {},
    {"a1": 6e-6, "a2": 5e-5, "saturation_threshold": 0.03 ** 2},
    {"a2": 0.0},
]


def generation(variant):
    from ocean_science_utilities.wavephysics.balance.st4_wind_input import ST4WindInput
    p = dict(ST4WindInput.default_parameters())
    p.update(variant)
    return ST4WindInput(p), p


def dissipation(kind, variant):
    from ocean_science_utilities.wavephysics.balance.st4_wave_breaking import ST4WaveBreaking
    from ocean_science_utilities.wavephysics.balance.st6_wave_breaking import ST6WaveBreaking
    from ocean_science_utilities.wavephysics.balance.romero_wave_breaking import RomeroWaveBreaking
    cls = {"st4": ST4WaveBreaking, "st6": ST6WaveBreaking, "romero": RomeroWaveBreaking}[kind]
    p = dict(cls.default_parameters())
    p.update(variant)
    return cls(p), p


def kinematics(spec, i, for_input):
    """wavenumber, group velocity, phase speed of point i as the code computes them"""
    from ocean_science_utilities.wavetheory.lineardispersion import inverse_intrinsic_dispersion_relation, intrinsic_group_velocity
    om = spec.radian_frequency.values
    depth = float(spec.depth.values[i])
    if for_input and depth == np.inf:
        k = om ** 2 / G
    else:
        k = inverse_intrinsic_dispersion_relation(om, depth)
    cg = intrinsic_group_velocity(k, depth)
    return k, cg, om / k


def L(v):
    return " ".join(bits(float(x)) for x in np.asarray(v, dtype=float).reshape(-1))


def genp_list(p):
    return [p["gravitational_acceleration"], p["charnock_maximum_roughness"], p["charnock_constant"], p["air_density"],
            p["water_density"], p["vonkarman_constant"], p["wave_age_tuning_parameter"], p["growth_parameter_betamax"],
            p["elevation"], p["air_viscosity"], p["viscous_stress_parameter"]]


def ctx_line(spec, i, genp, for_input, E=None):
    k, cg, c = kinematics(spec, i, for_input)
    om = spec.radian_frequency.values
    th = spec.radian_direction.values
    df = spec.frequency_step.values
    dth = spec.direction_step.values
    Ei = spec.variance_density.values[i] if E is None else E
    return (f"st ctx {len(om)} {len(th)} {L(om)} {L(th)} {L(df)} {L(dth)} {L(k)} {L(cg)} {L(c)} {L(Ei)} "
            + " ".join("9218868437227405312" if v == np.inf else bits(float(v)) for v in genp_list(genp)))


def brk_list(p):
    return [p["saturation_breaking_constant"], p["saturation_breaking_directional_control"], p["saturation_cosine_power"],
            p["saturation_integration_width_degrees"], p["saturation_threshold"], p["cumulative_breaking_constant"],
            p["cumulative_breaking_max_relative_frequency"]]


def st6_list(p):
    return [p["p1"], p["p2"], p["a1"], p["a2"], p["saturation_threshold"]]


def floats_of(ans):
    return np.array([float("nan") if t in ("nan", "raised") else from_bits(t) for t in ans.split()])


def close(a, b, tol, scale=None):
    a, b = np.asarray(a, float), np.asarray(b, float)
    if a.shape != b.shape:
        return False
    sc = scale if scale is not None else max(1e-300, float(np.nanmax(np.abs(b))) if b.size and not np.all(np.isnan(b)) else 1.0)
    both_nan = np.isnan(a) & np.isnan(b)
    d = np.where(both_nan, 0.0, np.abs(a - b))
    return not bool(np.any(np.isnan(d))) and bool(np.all(d <= tol * sc))


def ang_diff(a, b):
    return (np.asarray(a, float) - np.asarray(b, float) + 180.0) % 360.0 - 180.0
