"""C13 / C14: interpolation indices, weights, combination, periodic coordinates and angular data."""
import math
import warnings
from fractions import Fraction

import numpy as np

from . import common
from .numfmt import bits, bits_list, frac, close

ASSUMPTIONS = [
    "numpy.searchsorted(side='right') on an ascending array counts the nodes <= x; numpy.rint rounds half to even; numpy fancy indexing / clip / modulo as documented",
    "float rounding is not modelled: coordinates are generated on a 1/64 grid and data on a 1/256 grid so that index and mask decisions are identical in float and exact arithmetic; values are compared at 1e-10 of the data scale",
    "the complex64 unit-vector average of angular data is compared with an independent float64 computation at 1e-3 degrees (single precision in the code); its arctan2 is libm's",
    "datetime64 axes are compared as integer nanosecond counts",
]

RULES = {
    "C13": "seeded random non-uniform grids of 2..40 nodes (ascending and descending), targets inside / outside / exactly on nodes and end points, data of rank 1..4 with the interpolated axis in any position, NaN patterns, datetime64 and numeric axes, linear and nearest modes, two-coordinate grid interpolation, 1D/2D spectra in time and frequency; one case = one (variable, target) pair; distinct by hash of inputs",
    "C14": "seeded random direction/longitude grids of 4..72 nodes with arbitrary start (gaps < 180), targets in [-1000, 1000] incl. exact nodes and +-360 shifts; angular series crossing the seam both ways with jumps below and above 180; data frames, Track.interpolate, interpolate_at_points across the antimeridian; one case = one target",
}


def q64(x):
    return np.round(np.asarray(x, dtype=float) * 64) / 64.0


def rand_grid(rng, n=None, descending=None):
    n = n or rng.choice([2, 2, 3, 4, 5, 8, 13, 25, 40])
    steps = np.array([rng.choice([1, 2, 3, 5, 8, 16, 40]) for _ in range(n - 1)]) / 64.0 * rng.choice([1, 4, 64])
    x0 = rng.choice([0.0, -3.5, 10.25, 1000.0])
    xp = x0 + np.concatenate([[0.0], np.cumsum(steps)])
    if descending is None:
        descending = rng.random() < 0.35
    if descending:
        xp = xp[::-1].copy()
    return xp


def rand_targets(rng, xp, m=None):
    lo, hi = min(xp[0], xp[-1]), max(xp[0], xp[-1])
    m = m or rng.randint(1, 12)
    out = []
    for _ in range(m):
        u = rng.random()
        if u < 0.25:
            out.append(float(rng.choice(list(xp))))
        elif u < 0.35:
            out.append(float(rng.choice([lo, hi])))
        elif u < 0.5:
            out.append(float(rng.choice([lo - 1.0, hi + 0.5, lo - 1 / 64, hi + 1 / 64])))
        elif u < 0.6 and len(xp) > 1:
            i = rng.randrange(len(xp) - 1)
            out.append(float((xp[i] + xp[i + 1]) / 2))
        else:
            out.append(float(q64(lo + (hi - lo) * rng.random())))
    return np.array(out)


def rand_data(rng, shape, nan_rate):
    d = np.array([rng.randint(-512, 512) / 256.0 for _ in range(int(np.prod(shape)))]).reshape(shape)
    if nan_rate > 0 and rng.random() < 0.6:
        mask = np.array([rng.random() < nan_rate for _ in range(d.size)]).reshape(shape)
        d[mask] = np.nan
    return d


def model_at(drv, nearest, period, xp, slab2d, xs):
    """slab2d: (n, np) array; returns (len(xs), np) array of Fractions/None"""
    n, npass = slab2d.shape
    per = "none" if period is None else bits(period)
    line = f"interp at {1 if nearest else 0} {per} {npass} {bits_list(xp)} {bits_list(slab2d.reshape(-1))} {bits_list(xs)}"
    ans = drv.ask(line)
    if ans == "bad-op":
        raise RuntimeError("driver rejected: " + line[:200])
    out = []
    for tok in ans.split(" "):
        out.append([frac(t) for t in tok.split(",")])
    return out


def compare_arrays(run, kernel, impl, model, scale, info):
    """impl: (m, np) floats, model: list of lists of Fraction/None"""
    bad = None
    impl = np.asarray(impl, dtype=float)
    if impl.ndim != 2 or impl.shape[0] != len(model) or (len(model) and impl.shape[1] != len(model[0])):
        run.mismatch(kernel, dict(info, reason="shape", impl_shape=list(impl.shape), model_shape=[len(model), len(model[0]) if model else 0]))
        return False
    for i, row in enumerate(model):
        for j, ex in enumerate(row):
            v = float(impl[i][j])
            if ex is None:
                if v == v:
                    bad = (i, j, v, None)
            elif not close(v, ex, scale):
                bad = (i, j, v, float(ex))
        if bad:
            break
    if bad:
        run.mismatch(kernel, dict(info, target_index=bad[0], element=bad[1], impl=bad[2], model=bad[3]))
    return bad is None


# ------------------------------------------------------------------------------------------------
def check_c13(run, drv, ncases, start=0):
    import xarray
    from ocean_science_utilities.tools.grid import enclosing_points_1d
    from ocean_science_utilities.interpolate.general import interpolation_weights_1d
    from ocean_science_utilities.interpolate.dataset import interpolate_dataset_along_axis, interpolate_dataset_grid
    rng = run.rng
    for case in range(start, start + ncases):
        xp = rand_grid(rng)
        xs = rand_targets(rng, xp)
        desc = xp[-1] < xp[0]
        run.count("descending" if desc else "ascending")
        # (a) indices, (b) fraction
        idx = enclosing_points_1d(xp.copy(), xs.copy())
        ans = drv.ask(f"interp enclosing {bits_list(xp)} {bits_list(xs)}").split()
        got = [f"{int(idx[0, k])},{int(idx[1, k])}" for k in range(len(xs))]
        run.case("enclosing", key=(case, "enc"))
        if got != ans:
            run.mismatch("enclosing", dict(xp=xp.tolist(), x=xs.tolist(), impl=got, model=ans))
        for nearest in (False, True):
            w = interpolation_weights_1d(xp.copy(), xs.copy(), idx, extrapolate_left=False, extrapolate_right=False,
                                         nearest_neighbour=nearest)
            fr = [frac(t) for t in drv.ask(f"interp frac {bits_list(xp)} {bits_list(xs)}").split()]
            run.case("weights", key=(case, nearest))
            for k in range(len(xs)):
                ex = fr[k]
                if ex is not None and nearest:
                    fl = math.floor(ex)
                    r = ex - fl
                    ex = Fraction(fl) if (r < Fraction(1, 2) or (r == Fraction(1, 2) and fl % 2 == 0)) else Fraction(fl + 1)
                v = float(w[1, k])
                ok = (v != v) if ex is None else (close(v, ex, 1.0, rel=1e-12) and close(float(w[0, k]), 1 - ex, 1.0, rel=1e-12))
                if not ok:
                    run.mismatch("weights", dict(xp=xp.tolist(), x=float(xs[k]), nearest=nearest, impl=[float(w[0, k]), v], model=None if ex is None else float(ex)))
        # (c) a dataset variable of rank 1..4 with the axis anywhere
        rank = rng.choice([1, 1, 2, 2, 3, 4])
        axis = rng.randrange(rank)
        names = ["p", "q", "r", "s"][:rank]
        coord_name = rng.choice(["x", "x", "time"])
        names[axis] = coord_name
        shape = [rng.choice([1, 2, 3]) for _ in range(rank)]
        shape[axis] = len(xp)
        nan_rate = rng.choice([0.0, 0.0, 0.1, 0.3])
        data = rand_data(rng, shape, nan_rate)
        stored = data
        if nan_rate == 0.0 and rng.random() < 0.35:
            # counts, flags, whole-metre levels: integer storage; the interpolant is still the real piecewise-linear value
            stored = np.round(data * 7).astype(rng.choice(["int64", "int32"]))
            data = stored.astype(float)
            run.count("integer_variable")
        nearest = rng.random() < 0.3
        if coord_name == "time":
            t0 = np.datetime64("2022-01-01T00:00:00", "ns")
            grid = t0 + (np.round((xp - xp.min()) * 64).astype("int64") * 1_000_000_000).astype("timedelta64[ns]")
            targets = t0 + (np.round((xs - xp.min()) * 64).astype("int64") * 1_000_000_000).astype("timedelta64[ns]")
            gnum = grid.astype("int64").astype(float)
            tnum = targets.astype("int64").astype(float)
        else:
            grid, targets, gnum, tnum = xp, xs, xp, xs
        coords = {coord_name: grid}
        for nm, sz in zip(names, shape):
            if nm != coord_name:
                coords[nm] = np.arange(sz) * 1.0
        ds = xarray.Dataset({"v": (names, stored), "other": (("zz",), np.array([1.0, 2.0]))}, coords=coords)
        try:
            with warnings.catch_warnings():
                warnings.simplefilter("ignore")
                out = interpolate_dataset_along_axis(targets, ds, coordinate_name=coord_name, nearest_neighbour=nearest)
        except Exception as ex:
            run.violation("interpolate_dataset_along_axis raised", dict(rank=rank, axis=axis, coord=coord_name, error=repr(ex)))
            continue
        run.count(f"rank{rank}")
        run.count("coord_" + coord_name)
        res = np.moveaxis(np.asarray(out["v"].values, dtype=float), axis, 0).reshape(len(xs), -1)
        slab = np.moveaxis(data, axis, 0).reshape(len(xp), -1)
        model = model_at(drv, nearest, None, gnum, slab, tnum)
        for k in range(len(xs)):
            run.case("interp_axis", key=(case, k))
        scale = float(np.nanmax(np.abs(data))) if np.isfinite(data).any() else 1.0
        compare_arrays(run, "interp_axis", res, model, scale + 1e-300,
                       dict(xp=xp.tolist(), x=xs.tolist(), rank=rank, axis=axis, coord=coord_name, nearest=nearest, data=data.tolist() if data.size < 60 else "large"))
        if not np.array_equal(out["other"].values, ds["other"].values) or out["v"].dims != ds["v"].dims:
            run.violation("a variable without the coordinate is not passed through unchanged, or dims changed", dict(rank=rank))
        # property oracles directly on the implementation (linear mode, clean slabs)
        if not nearest:
            gx, tx = np.asarray(gnum, dtype=float), np.asarray(tnum, dtype=float)
            lo, hi = min(gx[0], gx[-1]), max(gx[0], gx[-1])
            asc = np.argsort(gx)
            xa, sa = gx[asc], slab[asc]
            for k, x in enumerate(tx):
                if x < lo or x > hi:
                    if not np.isnan(res[k]).all():
                        run.violation("a target outside the grid does not yield missing values (extrapolation)", dict(x=float(x), xp=xp.tolist()))
                    continue
                j = int(np.searchsorted(xa, x, side="right")) - 1
                j = min(j, len(xa) - 1)
                if x == xa[j]:
                    if not np.isnan(sa[j]).any() and not np.array_equal(res[k], sa[j]):
                        run.violation("result at a grid node differs from the data at that node", dict(x=float(x), xp=xp.tolist(), got=res[k].tolist(), want=sa[j].tolist()))
                elif not np.isnan(sa[j]).any() and not np.isnan(sa[j + 1]).any():
                    t = (x - xa[j]) / (xa[j + 1] - xa[j])
                    want = (1 - t) * sa[j] + t * sa[j + 1]
                    if not np.allclose(res[k], want, rtol=1e-10, atol=1e-12 * (1 + scale)):
                        run.violation("result between two nodes is not the piecewise-linear value", dict(x=float(x), xp=xp.tolist(), got=res[k].tolist(), want=want.tolist()))
                else:
                    t = (x - xa[j]) / (xa[j + 1] - xa[j])
                    left_ok, right_ok = not np.isnan(sa[j]).any(), not np.isnan(sa[j + 1]).any()
                    if left_ok and t < 0.5:
                        want = sa[j]
                    elif right_ok and t > 0.5:
                        want = sa[j + 1]
                    else:
                        want = np.full(sa.shape[1], np.nan)
                    if not np.allclose(res[k], want, rtol=1e-10, atol=1e-12 * (1 + scale), equal_nan=True):
                        run.violation("missing-neighbour rule (drop, renormalise if valid weight > 1/2, else missing) violated", dict(x=float(x), t=float(t), got=res[k].tolist(), want=want.tolist()))
        if case < 3:
            run.sample(dict(xp=xp.tolist()[:8], targets=xs.tolist()[:6], rank=rank, axis=axis, coordinate=coord_name, nearest=nearest))
        # (d) two coordinates one after the other
        if case % 4 == 0:
            xa = rand_grid(rng, rng.choice([2, 3, 5]), descending=False)
            xb = rand_grid(rng, rng.choice([2, 3, 4]), descending=False)
            d2 = rand_data(rng, (len(xa), len(xb)), rng.choice([0.0, 0.15]))
            ta, tb = rand_targets(rng, xa, 3), rand_targets(rng, xb, 2)
            ds2 = xarray.Dataset({"v": (("xa", "xb"), d2)}, coords={"xa": xa, "xb": xb})
            with warnings.catch_warnings():
                warnings.simplefilter("ignore")
                out2 = interpolate_dataset_grid({"xa": ta, "xb": tb}, ds2)
            r2 = np.asarray(out2["v"].values, dtype=float)
            if r2.shape != (len(ta), len(tb)):
                run.case("interp_grid", key=(case, "grid"))
                run.violation("interpolating along two coordinates does not return the (targets, targets) grid: a coordinate was left on its own grid",
                              dict(xa=xa.tolist(), xb=xb.tolist(), ta=ta.tolist(), tb=tb.tolist(), got_shape=list(r2.shape)))
                continue
            m1 = model_at(drv, False, None, xa, d2, ta)                       # (len(ta), len(xb))
            inter = np.array([[np.nan if v is None else float(v) for v in row] for row in m1])
            m2 = model_at(drv, False, None, xb, inter.T.copy(), tb)            # (len(tb), len(ta))
            run.case("interp_grid", key=(case, "grid"))
            compare_arrays(run, "interp_grid", r2.T, m2, float(np.nanmax(np.abs(d2))) + 1e-9 if np.isfinite(d2).any() else 1.0,
                           dict(xa=xa.tolist(), xb=xb.tolist(), ta=ta.tolist(), tb=tb.tolist()))
    if start % 8 == 0:
        check_spectrum_interp(run, drv, 1, start=start)


def check_spectrum_interp(run, drv, ncases, start=0):
    """Spectrum objects: time and frequency interpolation, energy-weighted moments, fill value."""
    from . import spectra as sp
    rng = run.rng
    for case in range(start, start + ncases):
        with warnings.catch_warnings():
            warnings.simplefilter("ignore")
            nt = rng.choice([2, 3, 4])
            _, f = sp.freq_grid(rng, rng.choice([4, 6, 9]))
            e = sp.energy(rng, (nt, len(f)), nan_rate=0.0, positive=True)
            mom = tuple(np.array([rng.uniform(-0.6, 0.6) for _ in range(e.size)]).reshape(e.shape) for _ in range(4))
            spec, meta = sp.make_1d(rng, layout="time", f=f, e=e, moments=mom, depth_mode="deep")
            a1 = meta["moments"][0]
            times = spec.dataset["time"].values
            # time interpolation half way and on a node
            k = rng.randrange(nt - 1)
            tmid = times[k] + (times[k + 1] - times[k]) // 2
            for tt, kind in ((tmid, "mid"), (times[k], "node"), (times[-1] + np.timedelta64(1, "h"), "outside")):
                run.case("spectrum_time", key=(case, kind))
                try:
                    out = spec.interpolate({"time": np.array([tt])}, extrapolation_value=-7.0 if kind == "outside" else 0.0)
                except Exception as ex:
                    run.violation("spectrum interpolate raised", dict(kind=kind, error=repr(ex)))
                    continue
                ev = np.asarray(out.variance_density.values, dtype=float).reshape(-1)
                av = np.asarray(out.a1.values, dtype=float).reshape(-1)
                if kind == "mid":
                    want_e = 0.5 * (e[k] + e[k + 1])
                    a1c = np.nan_to_num(a1)
                    want_a = 0.5 * (a1[k] * e[k] + a1[k + 1] * e[k + 1]) / want_e
                    if not np.allclose(ev, want_e, rtol=1e-12):
                        run.violation("1D spectrum time interpolation is not linear in the variance density", dict(got=ev.tolist(), want=want_e.tolist()))
                    ok = np.isnan(want_a) | np.isclose(av, want_a, rtol=1e-9, atol=1e-12)
                    if not ok.all():
                        run.violation("1D spectrum interpolation does not interpolate energy-weighted moments", dict(got=av.tolist(), want=want_a.tolist()))
                elif kind == "node":
                    if not np.allclose(ev, e[k], rtol=1e-12):
                        run.violation("spectrum interpolated at a node differs from the data", {})
                else:
                    if not np.all(ev == -7.0):
                        run.violation("targets outside the grid are not replaced by the extrapolation value", dict(got=ev.tolist()))
            # frequency interpolation: linear and nearest
            fnew = np.concatenate([[f[0] - 0.01], f[:2], [(f[1] + f[2]) / 2, f[-1], f[-1] + 0.5]])
            for method in ("linear", "nearest"):
                run.case("spectrum_frequency", key=(case, method))
                try:
                    out = spec.interpolate_frequency(fnew, extrapolation_value=0.0, method=method)
                except Exception as ex:
                    run.violation("interpolate_frequency raised", dict(method=method, error=repr(ex)))
                    continue
                ev = np.asarray(out.variance_density.values, dtype=float)
                want_mid = 0.5 * (e[:, 1] + e[:, 2]) if method == "linear" else e[:, 1]
                if not (np.allclose(ev[:, 0], 0.0) and np.allclose(ev[:, -1], 0.0) and np.allclose(ev[:, 1], e[:, 0], rtol=1e-12)
                        and np.allclose(ev[:, 2], e[:, 1], rtol=1e-12) and np.allclose(ev[:, 4], e[:, -1], rtol=1e-12)
                        and np.allclose(ev[:, 3], want_mid, rtol=1e-12)):
                    run.violation(f"interpolate_frequency({method}) does not return node values / fill value / the {method} value between nodes",
                                  dict(got=ev.tolist(), f=f.tolist(), fnew=fnew.tolist()))
                if method == "linear":
                    for nm, arr in zip(("a1", "b1", "a2", "b2"), meta["moments"]):
                        gotm = np.asarray(getattr(out, nm).values, dtype=float)[:, 3]
                        wantm = (arr[:, 1] * e[:, 1] + arr[:, 2] * e[:, 2]) / (e[:, 1] + e[:, 2])
                        if not np.allclose(gotm, wantm, rtol=1e-9, atol=1e-12):
                            run.violation("interpolate_frequency of a 1D spectrum does not interpolate energy-weighted moments",
                                          dict(moment=nm, got=gotm.tolist(), want=wantm.tolist()))
            # 2D spectrum in time
            s2, m2 = sp.make_2d(rng, layout="time", nan_rate=0.0)
            E = m2["E"]
            if E.shape[0] >= 2:
                t2 = s2.dataset["time"].values
                tm = t2[0] + (t2[1] - t2[0]) // 4
                run.case("spectrum2d_time", key=(case,))
                try:
                    o2 = s2.interpolate({"time": np.array([tm])})
                    got = np.asarray(o2.variance_density.values, dtype=float)[0]
                    if not np.allclose(got, 0.75 * E[0] + 0.25 * E[1], rtol=1e-12, atol=1e-15):
                        run.violation("2D spectrum time interpolation is not piecewise linear", {})
                except Exception as ex:
                    run.violation("2D spectrum interpolate raised", dict(error=repr(ex)))
            # 2D spectrum in frequency: node values, fill value outside, and the variables without a frequency
            # axis (position, depth; also where they are missing) pass through unchanged
            from ocean_science_utilities.wavespectra.spectrum import FrequencyDirectionSpectrum
            ds2 = s2.dataset.copy(deep=True)
            npt = E.shape[0]
            for nm in ("latitude", "longitude", "depth"):
                v = np.array(ds2[nm].values, dtype=float).copy()
                if npt >= 1 and rng.random() < 0.7:
                    v[rng.randrange(npt)] = np.nan          # no position fix / unknown depth
                ds2[nm] = (ds2[nm].dims, v)
            s2n = FrequencyDirectionSpectrum(ds2)
            f2 = s2n.frequency.values
            keep = {nm: np.array(s2n.dataset[nm].values, dtype=float).copy() for nm in ("latitude", "longitude", "depth")}
            fnew2 = np.concatenate([[f2[0] - 0.01], f2[:2], [(f2[0] + f2[1]) / 2, f2[-1] + 0.5]])
            for fill in (0.0, 1.5):
                run.case("spectrum2d_frequency", key=(case, fill))
                try:
                    o3 = s2n.interpolate_frequency(fnew2, extrapolation_value=fill)
                except Exception as ex:
                    run.violation("interpolate_frequency of a 2D spectrum raised", dict(error=repr(ex)))
                    continue
                g3 = np.asarray(o3.variance_density.values, dtype=float)
                if not (np.all(g3[:, 0] == fill) and np.all(g3[:, -1] == fill) and np.allclose(g3[:, 1], E[:, 0], rtol=1e-12, atol=1e-15)
                        and np.allclose(g3[:, 2], E[:, 1], rtol=1e-12, atol=1e-15)
                        and np.allclose(g3[:, 3], 0.5 * (E[:, 0] + E[:, 1]), rtol=1e-12, atol=1e-15)):
                    run.violation("interpolate_frequency of a 2D spectrum does not return node values / the fill value outside / the linear value between nodes",
                                  dict(fill=fill))
                for nm, v in keep.items():
                    g = np.array(o3.dataset[nm].values, dtype=float)
                    if g.shape != v.shape or not np.array_equal(g, v, equal_nan=True):
                        run.violation("a variable without the interpolated coordinate does not pass through interpolate_frequency unchanged",
                                      dict(variable=nm, before=v.tolist(), after=g.tolist(), fill=fill))
                    if not np.array_equal(np.array(s2n.dataset[nm].values, dtype=float), v, equal_nan=True):
                        run.violation("interpolate_frequency changed its operand", dict(variable=nm))


# ------------------------------------------------------------------------------------------------
def circle_grid(rng):
    if rng.random() < 0.2:
        # regularly spaced sector grid that does not tile the circle: the bin across the wrap is wider than the step
        step = rng.choice([5.0, 10.0, 15.0])
        wrap_bin = rng.choice([2, 3, 6, 9]) * step
        n = int(round((360.0 - wrap_bin) / step)) + 1
        start = rng.choice([0.0, -180.0, 10.5, 200.0])
        return start + step * np.arange(n)
    n = rng.choice([4, 5, 8, 12, 24, 36, 72])
    while True:
        w = np.array([rng.choice([1, 1, 2, 3]) for _ in range(n)], dtype=float)
        gaps = np.round(w / w.sum() * 360 * 8) / 8.0
        gaps[-1] = 360.0 - gaps[:-1].sum()
        if gaps.min() > 0 and gaps.max() < 180:
            break
    start = rng.choice([0.0, -180.0, 10.5, 355.0, rng.randrange(-360 * 8, 360 * 8) / 8.0])
    return start + np.concatenate([[0.0], np.cumsum(gaps[:-1])])


def wrap(x, period=360.0, disc=180.0):
    return (x + period - disc) % period - period + disc


def check_c14(run, drv, ncases, start=0):
    import xarray
    import pandas as pd
    from ocean_science_utilities.tools.grid import enclosing_points_1d
    from ocean_science_utilities.interpolate.general import interpolation_weights_1d, interpolate_periodic
    from ocean_science_utilities.interpolate.dataset import interpolate_dataset_along_axis, interpolate_at_points
    from ocean_science_utilities.interpolate.dataframe import interpolate_dataframe_time
    from ocean_science_utilities.interpolate.geometry import Track
    rng = run.rng
    P = 360.0
    for case in range(start, start + ncases):
        xp = circle_grid(rng)
        if rng.random() < 0.3:
            xp = xp[::-1].copy()           # periodic grid stored descending
            run.count("periodic_descending")
        n = len(xp)
        xs = []
        for _ in range(rng.randint(2, 10)):
            u = rng.random()
            if u < 0.25:
                xs.append(float(rng.choice(list(xp))) + 360.0 * rng.choice([-2, -1, 0, 1, 2]))
            elif u < 0.4:
                hi_, lo_ = max(xp[0], xp[-1]), min(xp[0], xp[-1])
                xs.append(float(hi_ + (lo_ + 360 - hi_) * rng.choice([0.25, 0.5, 0.75])) + 360.0 * rng.choice([-1, 0, 1]))
            else:
                xs.append(float(q64(rng.uniform(-1000, 1000))))
        xs = np.array(xs)
        idx = enclosing_points_1d(xp.copy(), xs.copy(), period=P)
        ans = drv.ask(f"interp enclosingp {bits(P)} {bits_list(xp)} {bits_list(xs)}").split()
        got = [f"{int(idx[0, k])},{int(idx[1, k])}" for k in range(len(xs))]
        run.case("enclosing_periodic", key=(case, "enc"))
        if got != ans:
            run.mismatch("enclosing_periodic", dict(xp=xp.tolist(), x=xs.tolist(), impl=got, model=ans))
        w = interpolation_weights_1d(xp.copy(), xs.copy(), idx, period=P, extrapolate_left=False, extrapolate_right=False)
        fr = [frac(t) for t in drv.ask(f"interp fracp {bits(P)} {bits_list(xp)} {bits_list(xs)}").split()]
        for k in range(len(xs)):
            run.case("weights_periodic", key=(case, k))
            if not close(float(w[1, k]), fr[k], 1.0, rel=1e-10):
                run.mismatch("weights_periodic", dict(xp=xp.tolist(), x=float(xs[k]), impl=float(w[1, k]), model=float(fr[k])))
            if not (0 <= w[1, k] < 1) or idx[1, k] != (idx[0, k] + 1) % n:
                run.violation("a target on a periodic coordinate is not bracketed by two cyclically adjacent nodes with a fraction in [0,1)",
                              dict(xp=xp.tolist(), x=float(xs[k]), idx=[int(idx[0, k]), int(idx[1, k])], frac=float(w[1, k])))
        # dataset variable along a periodic coordinate (direction / longitude), non-angular data
        cname = rng.choice(["direction", "longitude"])
        other = rng.choice([1, 2, 3])
        data = rand_data(rng, (other, n), rng.choice([0.0, 0.0, 0.1]))
        ds = xarray.Dataset({"v": (("z", cname), data)}, coords={"z": np.arange(other) * 1.0, cname: xp})
        with warnings.catch_warnings():
            warnings.simplefilter("ignore")
            out = interpolate_dataset_along_axis(xs, ds, coordinate_name=cname)
            out_shift = interpolate_dataset_along_axis(xs + 360.0 * rng.choice([-2, -1, 1, 3]), ds, coordinate_name=cname)
        res = np.asarray(out["v"].values, dtype=float).T
        model = model_at(drv, False, P, xp, data.T.copy(), xs)
        for k in range(len(xs)):
            run.case("interp_periodic_axis", key=(case, k))
        compare_arrays(run, "interp_periodic_axis", res, model, float(np.nanmax(np.abs(data))) + 1e-9 if np.isfinite(data).any() else 1.0,
                       dict(xp=xp.tolist(), x=xs.tolist(), coord=cname))
        if not np.allclose(res, np.asarray(out_shift["v"].values, dtype=float).T, rtol=1e-9, atol=1e-9, equal_nan=True):
            run.violation("targets differing by a whole number of periods give different results", dict(coord=cname, x=xs.tolist()))
        if not np.isnan(data).any() and np.isnan(res).any():
            run.violation("a target on a periodic coordinate is out of range (missing result)", dict(coord=cname, x=xs.tolist()))
        if not np.isnan(data).any():
            # independent reference: linear between the two cyclic neighbours (the wrap bin included)
            order = np.argsort(xp % 360.0)
            sx = (xp % 360.0)[order]
            for k, x in enumerate(xs):
                xm = x % 360.0
                j = int(np.searchsorted(sx, xm, side="right")) - 1          # -1: before the first node = in the wrap bin
                j0, j1 = order[j % n], order[(j + 1) % n]
                span = (sx[(j + 1) % n] - sx[j % n]) % 360.0
                span = span if span > 0 else 360.0
                t = ((xm - sx[j % n]) % 360.0) / span
                want = (1 - t) * data[:, j0] + t * data[:, j1]
                if not np.allclose(res[k], want, rtol=1e-9, atol=1e-9 * (1 + float(np.max(np.abs(data))))):
                    run.violation("a target on a periodic coordinate is not interpolated linearly between its two cyclic neighbours",
                                  dict(coord=cname, grid=xp.tolist(), x=float(x), got=res[k].tolist(), want=want.tolist()))
        # angular data along a non-periodic coordinate (time): unit-vector average, shorter arc, [0, 360)
        nt = rng.choice([2, 3, 5, 8])
        tt = np.cumsum([rng.choice([1, 2, 3]) for _ in range(nt)]).astype(float)
        ang = np.array([rng.uniform(0, 360)])
        for _ in range(nt - 1):
            jump = rng.choice([rng.uniform(-170, 170), 179.0, -179.0, 178.5, rng.uniform(-60, 60)])
            ang = np.append(ang, (ang[-1] + jump) % 360.0)
        if rng.random() < 0.5:
            ang = wrap(ang)      # stored in [-180, 180)
        targ = np.array([tt[0]] + [float(rng.uniform(tt[0], tt[-1])) for _ in range(5)] + [tt[-1], tt[-1] + 1.0])
        dsd = xarray.Dataset({"mean_direction": (("time2",), ang), "speed": (("time2",), np.arange(nt) * 1.0),
                              "longitude": (("time2",), wrap(ang))}, coords={"time2": tt})
        with warnings.catch_warnings():
            warnings.simplefilter("ignore")
            od = interpolate_dataset_along_axis(targ, dsd, coordinate_name="time2")
        dres = np.asarray(od["mean_direction"].values, dtype=float)
        lres = np.asarray(od["longitude"].values, dtype=float)
        for k, x in enumerate(targ):
            if x > tt[-1] or dres[k] != dres[k]:
                continue
            run.case("longitude_var", key=(case, k))
            if abs(wrap(lres[k] - dres[k])) > 2e-3:
                run.violation("a longitude variable is not interpolated as an angle (it must equal the direction variable's result modulo 360)",
                              dict(direction=float(dres[k]), longitude=float(lres[k])))
        for k, x in enumerate(targ):
            run.case("angle_avg", key=(case, k))
            if x > tt[-1]:
                if dres[k] == dres[k]:
                    run.violation("angular data extrapolated outside the grid", dict(x=float(x)))
                continue
            j = min(int(np.searchsorted(tt, x, side="right")) - 1, nt - 2) if x < tt[-1] else nt - 2
            t = (x - tt[j]) / (tt[j + 1] - tt[j])
            a, b = ang[j], ang[j + 1]
            d = wrap(b - a)
            z = (1 - t) * np.exp(1j * np.radians(a)) + t * np.exp(1j * np.radians(b))
            want = np.degrees(np.angle(z)) % 360.0
            got = dres[k]
            if not (0 <= got < 360.0 + 1e-9):
                run.violation("an interpolated direction variable is not returned in [0, 360)", dict(got=float(got)))
            if abs(wrap(got - want)) > 2e-3:
                run.mismatch("angle_avg", dict(a=float(a), b=float(b), t=float(t), impl=float(got), reference=float(want)))
            # shorter arc: the result lies between the neighbours going the short way
            off = wrap(got - a)
            if abs(abs(d) - 180) > 1.5 and not (min(0, d) - 2e-3 <= off <= max(0, d) + 2e-3):
                run.violation("angular data interpolated the long way around the seam", dict(a=float(a), b=float(b), t=float(t), got=float(got)))
        # interpolate_periodic against the exact model (shortest-arc linear), data frames, tracks
        tsec = np.cumsum([rng.choice([600, 1200, 1800, 3600]) for _ in range(nt)]).astype(float)
        x_new = np.array([tsec[0]] + [float(np.round(rng.uniform(tsec[0], tsec[-1]))) for _ in range(4)] + [tsec[-1], tsec[-1] + 60, tsec[0] - 60])
        for (per, disc) in ((360.0, 360.0), (360.0, None), (None, None)):
            fp = ang if per else rand_data(rng, (nt,), 0.0)
            gotp = interpolate_periodic(tsec, fp.copy(), x_new, fp_period=per, fp_discont=disc)
            line = (f"interp pdata {'none' if per is None else bits(per)} {'none' if disc is None else bits(disc)} none none "
                    f"{bits_list(tsec)} {bits_list(fp)} {bits_list(x_new)}")
            ex = [frac(t) for t in drv.ask(line).split()]
            for k in range(len(x_new)):
                run.case("interp_periodic", key=(case, per, disc, k))
                if not close(float(gotp[k]), ex[k], 360.0, rel=1e-10):
                    run.mismatch("interp_periodic", dict(xp=tsec.tolist(), fp=fp.tolist(), x=float(x_new[k]), period=per, discont=disc,
                                                         impl=float(gotp[k]), model=None if ex[k] is None else float(ex[k])))
        t0 = np.datetime64("2022-03-01T00:00:00", "s")
        times = t0 + tsec.astype("int64").astype("timedelta64[s]")
        new_times = t0 + x_new[:-2].astype("int64").astype("timedelta64[s]")
        df = pd.DataFrame({"time": times, "peak_direction": ang % 360.0, "hs": np.arange(nt) * 1.0,
                           "meanDirection": ang % 360.0, "PeakDirection": ang % 360.0})       # the API's camel-case names too
        with warnings.catch_warnings():
            warnings.simplefilter("ignore")
            odf = interpolate_dataframe_time(df, new_times)
        run.case("dataframe", key=(case,))
        for col in ("peak_direction", "meanDirection", "PeakDirection"):
            dd = odf[col].values.astype(float)
            for k, x in enumerate(x_new[:-2]):
                j = min(int(np.searchsorted(tsec, x, side="right")) - 1, nt - 2) if x < tsec[-1] else nt - 2
                t = (x - tsec[j]) / (tsec[j + 1] - tsec[j])
                a, b = ang[j] % 360.0, ang[j + 1] % 360.0
                want = (a + wrap(b - a) * t) % 360.0
                if not (0 <= dd[k] < 360.0) or abs(wrap(dd[k] - want)) > 1e-6:
                    run.violation("data-frame direction column is not interpolated along the shorter arc into [0, 360)",
                                  dict(column=col, a=float(a), b=float(b), t=float(t), got=float(dd[k]), want=float(want)))
        # drifter track across the antimeridian
        lon = wrap(175.0 + np.cumsum([rng.choice([2.0, 3.5, -1.0, 4.0]) for _ in range(nt)]))
        lat = np.linspace(10, 12, nt)
        from datetime import datetime, timezone
        pts_t = [datetime.fromtimestamp(float(s) + 1.6e9, tz=timezone.utc) for s in tsec]
        tr = Track.from_arrays(lat, lon, pts_t, "id")
        newt = [datetime.fromtimestamp(float(s) + 1.6e9, tz=timezone.utc) for s in x_new[:-2]]
        with warnings.catch_warnings():
            warnings.simplefilter("ignore")
            tri = tr.interpolate(newt)
        run.case("track", key=(case,))
        for k, x in enumerate(x_new[:-2]):
            j = min(int(np.searchsorted(tsec, x, side="right")) - 1, nt - 2) if x < tsec[-1] else nt - 2
            t = (x - tsec[j]) / (tsec[j + 1] - tsec[j])
            want = wrap(lon[j] + wrap(lon[j + 1] - lon[j]) * t)
            if abs(wrap(tri.longitude[k] - want)) > 1e-6 or not (-180 <= tri.longitude[k] < 180 + 1e-9):
                run.violation("Track.interpolate does not interpolate longitude along the shorter arc",
                              dict(lon0=float(lon[j]), lon1=float(lon[j + 1]), t=float(t), got=float(tri.longitude[k]), want=float(want)))
        # gridded data at track points across the antimeridian
        if case % 3 == 0:
            glon = np.arange(-180.0, 180.0, 30.0)
            glat = np.array([0.0, 10.0, 20.0])
            gt = t0 + np.arange(3) * np.timedelta64(3600, "s")
            field = np.array([[[10.0 * a + b + 0.5 * np.cos(np.radians(c)) for c in glon] for b in glat] for a in range(3)])
            gds = xarray.Dataset({"hs": (("time", "latitude", "longitude"), field)},
                                 coords={"time": gt, "latitude": glat, "longitude": glon})
            plon = np.array([170.0, 179.0, -179.0, 185.0 - 360.0, 175.0 + 360.0])
            plat = np.array([5.0, 5.0, 5.0, 15.0, 15.0])
            ptime = np.array([gt[0], gt[0] + np.timedelta64(1800, "s"), gt[1], gt[1], gt[2]])
            run.case("at_points", key=(case,))
            try:
                with warnings.catch_warnings():
                    warnings.simplefilter("ignore")
                    pts = {"time": ptime, "latitude": plat, "longitude": plon}
                    order = rng.choice([("time", "latitude", "longitude"), ("time", "longitude", "latitude"), ("longitude", "latitude", "time")])
                    run.count("points_order_" + "_".join(o[:3] for o in order))
                    op = interpolate_at_points(gds, {k_: pts[k_] for k_ in order},
                                               independent_variable="time", periodic_coordinates={"longitude": 360})
                got = np.asarray(op["hs"].values, dtype=float)
                # reference: trilinear with periodic longitude
                ref = []
                for tq, la, lo in zip(ptime, plat, plon):
                    ft = (tq - gt[0]) / np.timedelta64(3600, "s")
                    it = min(int(ft), 1)
                    wt = ft - it
                    ila = min(int(la // 10), 1)
                    wla = (la - glat[ila]) / 10.0
                    lo2 = (lo + 180.0) % 360.0 - 180.0
                    ilo = int((lo2 + 180.0) // 30.0)
                    wlo = (lo2 - glon[ilo]) / 30.0
                    ilo2 = (ilo + 1) % len(glon)
                    acc = 0.0
                    for a_, wa in ((it, 1 - wt), (it + 1, wt)):
                        for b_, wb in ((ila, 1 - wla), (ila + 1, wla)):
                            for c_, wc in ((ilo, 1 - wlo), (ilo2, wlo)):
                                if wa * wb * wc > 0:
                                    acc += wa * wb * wc * field[a_, b_, c_]
                    ref.append(acc)
                if not np.allclose(got, ref, rtol=1e-9, atol=1e-9):
                    run.violation("interpolate_at_points across the antimeridian differs from periodic trilinear interpolation",
                                  dict(got=got.tolist(), want=ref))
            except Exception as ex:
                run.violation("interpolate_at_points raised", dict(error=repr(ex)))
        if case < 3:
            run.sample(dict(grid=xp.tolist()[:8], targets=xs.tolist()[:6], angles=ang.tolist()[:6]))


def check_integer_axes(run, prop, ncases):
    """An axis stored with an integer type is the same axis: interpolating at non-integer targets gives what the same
    grid stored as floats gives (values, missing results outside the grid, and the targets as output coordinate)."""
    import xarray
    from ocean_science_utilities.interpolate.dataset import interpolate_dataset_along_axis
    rng = run.rng
    for case in range(ncases):
        if prop == "C13":
            n = rng.choice([2, 3, 5, 9])
            xi = np.cumsum([rng.choice([1, 2, 5, 10]) for _ in range(n)]) + rng.choice([-40, -7, 0, 3])
            if rng.random() < 0.3:
                xi = xi[::-1].copy()
            cname, lo, hi = rng.choice(["depth_level", "z"]), float(xi.min()), float(xi.max())
            xs = np.array([float(q64(rng.uniform(lo - 1.0, hi + 1.0))) for _ in range(8)] + [lo - 0.5, hi + 0.5, lo + 0.25, hi - 0.75, lo, hi])
            modes = (False, True)
        else:
            step = rng.choice([5, 10, 30, 45])
            start = rng.choice([-180, -90, 0, 20])
            xi = start + step * np.arange(360 // step)
            if rng.random() < 0.3:
                xi = xi[::-1].copy()
            cname = rng.choice(["direction", "longitude"])
            xs = np.array([float(q64(rng.uniform(-1000, 1000))) for _ in range(10)] +
                          [float(xi[0]) - 0.5, float(xi[0]) - 0.5 + 360.0, float(xi.min()) - 0.25 - 360.0])
            modes = (False,)
        xi = xi.astype(rng.choice(["int64", "int32"]))
        data = rand_data(rng, (2, len(xi)), 0.0)
        dsi = xarray.Dataset({"v": (("k", cname), data)}, coords={"k": [0.0, 1.0], cname: xi})
        dsf = xarray.Dataset({"v": (("k", cname), data)}, coords={"k": [0.0, 1.0], cname: xi.astype(float)})
        for nearest in modes:
            run.case("integer_axis", key=(prop, case, nearest))
            run.count("integer_axis_" + str(xi.dtype))
            info = dict(coordinate=cname, dtype=str(xi.dtype), grid=xi.tolist(), targets=xs.tolist(), nearest=nearest)
            try:
                with warnings.catch_warnings():
                    warnings.simplefilter("ignore")
                    oi = interpolate_dataset_along_axis(xs.copy(), dsi, coordinate_name=cname, nearest_neighbour=nearest)
                    of = interpolate_dataset_along_axis(xs.copy(), dsf, coordinate_name=cname, nearest_neighbour=nearest)
            except Exception as ex:
                run.violation("interpolation along an integer-typed axis raised", dict(info, error=repr(ex)))
                continue
            a, b = np.asarray(oi["v"].values, dtype=float), np.asarray(of["v"].values, dtype=float)
            if a.shape != b.shape or not np.allclose(a, b, rtol=1e-12, atol=1e-12, equal_nan=True):
                run.violation("interpolating along an axis stored as integers differs from the same axis stored as floats",
                              dict(info, got=a.tolist(), want=b.tolist()))
            co = np.asarray(oi[cname].values, dtype=float)
            if co.shape != xs.shape or not np.allclose(co, xs):
                run.violation("the output coordinate is not the requested targets (integer-typed axis)", dict(info, got=co.tolist()))


def check_global_longitude_grids(run):
    """Gridded data at the points of a track that drifts through the bin spanning the wrap of a global longitude grid
    (interpolate_dataset with its defaults): every n in 4..72, one start each; each point lies between its two cyclic
    neighbours, none is out of range."""
    import xarray
    import pandas as pd
    from ocean_science_utilities.interpolate.dataset import interpolate_dataset
    from ocean_science_utilities.interpolate.geometry import Track
    rng = run.rng
    nt = 5
    time = pd.date_range("2022-03-01", periods=nt, freq="3h").values
    lat = np.array([-10.0, 0.0, 10.0])
    for n in range(4, 73):
        start = rng.choice([0.0, -180.0, 12.3, -179.5, 7.0 / 3.0])
        step = 360.0 / n
        lon = start + np.arange(n) * step
        g = np.array([rng.random() * 10.0 for _ in range(n)])
        data = g[None, None, :] + 0.1 * lat[None, :, None] + np.arange(nt, dtype=float)[:, None, None]
        ds = xarray.Dataset({"u": (("time", "latitude", "longitude"), data)}, coords={"time": time, "latitude": lat, "longitude": lon})
        tl = np.linspace(lon[-1] - 0.4 * step, lon[0] + 360 + 0.4 * step, nt)
        tl = (tl + 180.0) % 360.0 - 180.0
        tla = np.linspace(-7.0, 8.0, nt)
        run.case("global_grid_track", key=(n, start))
        info = dict(nodes=n, start=float(start), track_longitude=tl.tolist())
        try:
            with warnings.catch_warnings():
                warnings.simplefilter("ignore")
                res = interpolate_dataset(ds, Track.from_arrays(tla, tl, time, "drifter"))
                out = np.asarray(list(res.values())[0]["u"].values, dtype=float)
        except Exception as ex:
            run.violation("interpolate_dataset raised on a global longitude grid", dict(info, error=repr(ex)))
            continue
        want = []
        for i in range(nt):
            sfrac = ((tl[i] - lon[0]) % 360.0) / step
            k = int(np.floor(sfrac)) % n
            fr = sfrac - np.floor(sfrac)
            want.append((1 - fr) * g[k] + fr * g[(k + 1) % n] + 0.1 * tla[i] + i)
        if out.shape != (nt,) or not np.allclose(out, want, atol=1e-6):
            run.violation("gridded data at track points in the bin spanning the wrap of a global longitude grid is not interpolated between the two cyclic neighbours",
                          dict(info, got=out.tolist(), want=[float(w) for w in want]))


def main(prop, tier, seed):
    run = common.Run(prop, tier, seed)
    if prop == "C14":
        # second tie: wrapped_difference is re-translated from the source on every run
        aud = common.audit_with_spec(prop, ["C02Gen"], thorough=(tier == "thorough"))
    else:
        aud = common.audit(prop, thorough=(tier == "thorough"))
    common.use_repo_source()
    thorough = tier == "thorough"
    drv = common.Driver()
    try:
        def cases(fn, n):
            for i in range(n):
                with common.guard(run, f"{prop} case {i}"):
                    fn(run, drv, 1, start=i)
        if prop == "C13":
            cases(check_c13, 1500 if thorough else 150)
        else:
            cases(check_c14, 1000 if thorough else 100)
            with common.guard(run, "C14 global longitude grids"):
                check_global_longitude_grids(run)
        with common.guard(run, f"{prop} integer-typed axes"):
            check_integer_axes(run, prop, 400 if thorough else 40)
    finally:
        drv.close()
    return run.finish(aud, ASSUMPTIONS, RULES[prop])
