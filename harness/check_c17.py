"""C17: time conversions — every representation of an instant against the integer model."""
import math
import re
import subprocess
import sys
from datetime import datetime, timedelta, timezone
from fractions import Fraction

import numpy as np

from . import common

ASSUMPTIONS = [
    "Python's datetime.fromisoformat / strftime string <-> field conversion is not modelled: a string is represented by the fields it spells (the harness builds and parses the strings)",
    "float epoch seconds are generated with dyadic fractions so that Python's round-half-even to microseconds is exact; the expected microsecond count is computed with exact fractions",
    "numpy datetime64 unit casts floor to whole seconds (counts are >= 0 in the property's range 1970..2100)",
    "instants before 1970 with a fractional second: to_datetime64 keeps the whole second towards 1970 (int() of a negative timestamp), not the floor; the property promises whole seconds only, the oracle follows the code",
    "tools/py2lean.py (130 lines) translates time_from_timeint/date_from_dateint faithfully: Python int = Lean Int, `//` by a positive literal = Int floor division",
]

RULE = ("seeded random instants in 1970..2100 (whole and fractional seconds, year/month/day boundaries, leap days) x UTC "
        "offsets -12h..+14h in 15 min steps x every representation (aware/naive datetime, ISO string with Z / offset / no "
        "zone, int and float epoch, datetime64[s|ms|us|ns], list/tuple/ndarray/DataArray/Series, mixed) ; packed integers: "
        "every hhmmss/hhmm/hh and every calendar day 1970..2100 (thorough) or a seeded sample plus all boundaries (quick); "
        "a case is one (instant, representation) pair; distinct by (instant, offset, representation kind)")

EPOCH = datetime(1970, 1, 1, tzinfo=timezone.utc)
US = timedelta(microseconds=1)


def micros(dt):
    return (dt - EPOCH) // US


def random_instant(rng):
    mode = rng.random()
    if mode < 0.25:
        # boundaries: ends of months/years, leap days
        y = rng.randint(1970, 2099)
        m = rng.choice([1, 2, 2, 3, 12, rng.randint(1, 12)])
        base = datetime(y, m, 1, tzinfo=timezone.utc)
        secs = micros(base) // 1_000_000 + rng.choice([-1, 0, 1, 86399, 86400 * 28, 86400 * 29 - 1, -86400])
        secs = max(0, secs)
    else:
        secs = rng.randint(0, 4102444799)
    frac = rng.choice([0, 0, 0, 500000, 250000, 125000, 999999, 1, rng.randrange(1000000)])
    return secs * 1_000_000 + frac


def iso(dt_local, zone, frac):
    s = dt_local.strftime("%Y-%m-%dT%H:%M:%S")
    if frac:
        s += ".%06d" % dt_local.microsecond
    return s + zone


def zone_str(off_min, style):
    if off_min == 0 and style == "Z":
        return "Z"
    sign = "+" if off_min >= 0 else "-"
    a = abs(off_min)
    return f"{sign}{a // 60:02d}:{a % 60:02d}"


def check_conversions(run, drv, tm, ncases):
    import pandas as pd
    import xarray
    rng = run.rng
    for case in range(ncases):
        us = random_instant(rng)
        off = rng.choice([0, 0, 60, -60, 330, 345, -210, 840, -720, 15 * rng.randint(-48, 56)])
        utc_dt = EPOCH + us * US
        tz = timezone(timedelta(minutes=off))
        local = utc_dt.astimezone(tz)
        f = (local.year, local.month, local.day, local.hour, local.minute, local.second, local.microsecond)
        model_us = int(drv.ask("tc instant " + " ".join(map(str, f)) + f" {off}"))
        # the model must agree with Python's own calendar on the instant (ties daysFromCivil to datetime)
        run.case("instant", key=(us, off))
        if model_us != us:
            run.mismatch("instant", dict(fields=f, off=off, model=model_us, python=us))
            continue
        mf = tuple(map(int, drv.ask(f"tc fields {us}").split()))
        uf = (utc_dt.year, utc_dt.month, utc_dt.day, utc_dt.hour, utc_dt.minute, utc_dt.second, utc_dt.microsecond)
        if mf != uf:
            run.mismatch("fields", dict(us=us, model=mf, python=uf))
        whole = us % 1_000_000 == 0
        reps = []
        reps.append(("aware", local, us))
        reps.append(("naive", utc_dt.replace(tzinfo=None), us))
        reps.append(("iso_offset", iso(local, zone_str(off, "num"), not whole or rng.random() < 0.3), us))
        reps.append(("iso_Z", iso(utc_dt, "Z", not whole or rng.random() < 0.3), us))
        reps.append(("iso_naive", iso(utc_dt, "", not whole), us))
        # a fraction spelled with 1..5 digits (".5", ".250", millisecond strings): the digits are the leading decimals
        nd = rng.randint(1, 5)
        fv = rng.randrange(10 ** nd)
        us_short = (us // 1_000_000) * 1_000_000 + fv * 10 ** (6 - nd)
        loc_short = (EPOCH + us_short * US).astimezone(tz)
        zone = rng.choice([zone_str(off, "num"), "Z", ""])
        base_short = loc_short if zone not in ("Z", "") else EPOCH + us_short * US
        reps.append(("iso_short_fraction", base_short.strftime("%Y-%m-%dT%H:%M:%S") + "." + str(fv).zfill(nd) + zone, us_short))
        if whole:
            reps.append(("epoch_int", us // 1_000_000, us))
            reps.append(("dt64_s", np.datetime64(us // 1_000_000, "s"), us))
        secs = us // 1_000_000
        # float epoch with a dyadic fraction
        k = rng.choice([0, 1, 2, 3, 4, 5])
        num = rng.randrange(2 ** k) if k else 0
        x = secs + num / 2 ** k
        exact = Fraction(secs) + Fraction(num, 2 ** k)
        q = exact * 1_000_000
        fl = q.numerator // q.denominator
        r = q - fl
        exp_us = fl + (1 if (r > Fraction(1, 2) or (r == Fraction(1, 2) and fl % 2 == 1)) else 0)
        reps.append(("epoch_float", float(x), exp_us))
        reps.append(("dt64_ms", np.datetime64(us // 1000, "ms"), (us // 1_000_000) * 1_000_000))
        reps.append(("dt64_us", np.datetime64(us, "us"), (us // 1_000_000) * 1_000_000))
        reps.append(("dt64_ns", np.datetime64(us * 1000 + rng.randrange(1000), "ns"), (us // 1_000_000) * 1_000_000))
        rng.shuffle(reps)
        for kind, rep, expect in reps[: 6]:
            run.case("to_datetime_utc", key=(us, off, kind))
            run.count("rep_" + kind)
            info = dict(kind=kind, rep=str(rep), expect_us=expect)
            try:
                out = tm.to_datetime_utc(rep)
            except Exception as e:
                run.violation("to_datetime_utc raised on a supported representation", dict(info, error=repr(e)))
                continue
            if not isinstance(out, datetime) or out.tzinfo is None or out.utcoffset() != timedelta(0):
                run.violation("result is not a timezone-aware UTC datetime", dict(info, out=repr(out)))
                continue
            if kind.startswith("dt64"):
                unit = {"dt64_s": 1, "dt64_ms": 1000, "dt64_us": 1_000_000, "dt64_ns": 1_000_000_000}[kind]
                cnt = int(rep.astype("int64"))
                expect_model = int(drv.ask(f"tc dt64 {unit} {cnt}"))
                if expect_model != expect:
                    run.mismatch("dt64", dict(info, model=expect_model))
            if micros(out) != expect:
                run.violation("converted datetime denotes a different instant", dict(info, got_us=micros(out), out=out.isoformat()))
                continue
            # datetime64 round trip: whole seconds
            d64 = tm.to_datetime64(rep)
            model64 = int(drv.ask(f"tc todt64 {expect}"))
            got64 = int(d64.astype("datetime64[ns]").astype("int64"))
            if str(d64.dtype) != "datetime64[ns]" or got64 != model64:
                run.mismatch("to_datetime64", dict(info, impl=got64, model=model64, dtype=str(d64.dtype)))
            back = tm.to_datetime_utc(d64)
            if micros(back) != (expect // 1_000_000) * 1_000_000:
                run.violation("datetime64 round trip does not return the whole second of the instant", dict(info, back=back.isoformat()))
            # ISO round trip
            s = tm.datetime_to_iso_time_string(rep)
            m = re.fullmatch(r"(\d{4})-(\d\d)-(\d\d)T(\d\d):(\d\d):(\d\d)\.(\d{6})Z", s)
            if not m:
                run.violation("ISO string is not of the form YYYY-MM-DDTHH:MM:SS.ffffffZ", dict(info, s=s))
            else:
                sf = tuple(map(int, m.groups()))
                mf2 = tuple(map(int, drv.ask(f"tc fields {expect}").split()))
                if sf != mf2:
                    run.mismatch("iso_fields", dict(info, impl=sf, model=mf2))
                if micros(tm.to_datetime_utc(s)) != expect:
                    run.violation("formatting as ISO and parsing again changes the instant", dict(info, s=s))
        run.sample({"instant_us": us, "offset_min": off, "representations": [(k, str(r)) for k, r, _ in reps[:4]]}, limit=3)
        # sequences, mixed
        if case % 4 == 0:
            items = [r for _, r, _ in reps[:4]]
            exps = [e for _, _, e in reps[:4]]
            for wrap in ("list", "tuple"):
                seq = list(items) if wrap == "list" else tuple(items)
                out = tm.to_datetime_utc(seq)
                run.case("sequence", key=(us, wrap))
                if not isinstance(out, list) or [micros(o) for o in out] != exps:
                    run.violation("heterogeneous sequence is not converted element-wise in order", dict(wrap=wrap, items=[str(i) for i in items]))
            arr = np.array([np.datetime64(us // 1_000_000 + i, "s") for i in range(3)])
            for wrap, seq in (("ndarray", arr), ("DataArray", xarray.DataArray(arr)), ("Series", pd.Series(arr))):
                out = tm.to_datetime_utc(seq)
                run.case("sequence", key=(us, wrap))
                if [micros(o) for o in out] != [(us // 1_000_000 + i) * 1_000_000 for i in range(3)]:
                    run.violation("array-like of datetime64 is not converted element-wise", dict(wrap=wrap))
                d64 = tm.to_datetime64(seq)
                if list(d64.astype("datetime64[s]").astype("int64")) != [us // 1_000_000 + i for i in range(3)]:
                    run.violation("to_datetime64 of an array-like is wrong", dict(wrap=wrap))
    if tm.to_datetime_utc(None) is not None or tm.to_datetime64(None) is not None or tm.datetime_to_iso_time_string(None) is not None:
        run.violation("None is not mapped to None", {})
    run.case("none", key="none")


def check_numeric_and_early(run, tm, ncases):
    """Epoch seconds held in numeric arrays / DataArrays / Series (int and float dtype), and instants before 1970
    (negative epoch seconds, whole and fractional), against Python's own calendar arithmetic."""
    import pandas as pd
    import xarray
    rng = run.rng
    for case in range(ncases):
        early = case % 2 == 1
        base = rng.randint(-2208988800, -1) if early else rng.randint(0, 4102444799)        # 1900 .. 1970 | 1970 .. 2100
        secs = [base + rng.randint(0, 100000) * (1 if not early else -1) for _ in range(3)]
        fracs = [rng.choice([0, 0.5, 0.25, 0.75, 0.125]) for _ in range(3)]
        want_int = [EPOCH + timedelta(seconds=sv) for sv in secs]
        want_flt = [EPOCH + timedelta(seconds=sv) + timedelta(microseconds=int(fr * 1_000_000)) for sv, fr in zip(secs, fracs)]
        run.count("early_instants" if early else "late_instants")
        # scalars
        for sv, fr, wi, wf in zip(secs, fracs, want_int, want_flt):
            for kind, rep, want in (("epoch_int", int(sv), wi), ("epoch_float", float(sv) + fr, wf)):
                run.case("epoch_scalar", key=(case, kind, sv))
                got = tm.to_datetime_utc(rep)
                if got != want or got.utcoffset() != timedelta(0):
                    run.violation("epoch seconds convert to a different instant", dict(kind=kind, rep=rep, got=got.isoformat(), want=want.isoformat()))
                s = tm.datetime_to_iso_time_string(rep)
                if tm.to_datetime_utc(s) != want:
                    run.violation("formatting as ISO and parsing again changes the instant", dict(kind=kind, rep=rep, s=s))
                d64 = tm.to_datetime64(rep)
                whole = EPOCH + timedelta(seconds=math.trunc(float(sv) + (fr if kind == "epoch_float" else 0)))     # toward 1970, as coded
                if tm.to_datetime_utc(d64) != whole:
                    run.violation("datetime64 round trip does not return the whole second of the instant",
                                  dict(kind=kind, rep=rep, back=tm.to_datetime_utc(d64).isoformat(), want=whole.isoformat()))
        # array-likes of numbers
        ai = np.array(secs, dtype="int64")
        af = np.array([sv + fr for sv, fr in zip(secs, fracs)], dtype="float64")
        for label, seq, want in (("int ndarray", ai, want_int), ("float ndarray", af, want_flt),
                                 ("DataArray of floats", xarray.DataArray(af, dims="time"), want_flt),
                                 ("DataArray of ints", xarray.DataArray(ai, dims="time"), want_int),
                                 ("Series of ints", pd.Series(ai), want_int), ("Series of floats", pd.Series(af), want_flt),
                                 ("list of floats", [float(v) for v in af], want_flt), ("tuple of ints", tuple(int(v) for v in ai), want_int)):
            run.case("epoch_array", key=(case, label))
            got = tm.to_datetime_utc(seq)
            if list(got) != want:
                run.violation("an array-like of epoch seconds is not converted element-wise to the same instants",
                              dict(container=label, values=[float(v) for v in np.asarray(seq, dtype=float)], got=[g.isoformat() for g in got]))
            d64 = np.asarray(tm.to_datetime64(seq))
            want64 = np.array([np.datetime64(int(math.trunc((w - EPOCH).total_seconds())), "s") for w in want]).astype("datetime64[ns]")
            if d64.dtype != np.dtype("<M8[ns]") or not np.array_equal(d64, want64):
                run.violation("to_datetime64 of an array-like of epoch seconds denotes other instants",
                              dict(container=label, values=[float(v) for v in np.asarray(seq, dtype=float)], got=[str(v) for v in d64], want=[str(v) for v in want64]))


def check_edges(run, tm):
    """Deterministic edge cases, in every run: the epoch itself in every representation (falsy numbers!), numpy scalar
    numbers, and sequences of datetimes of mixed awareness in every order."""
    import pandas as pd
    import xarray
    epoch_reps = [("int 0", 0), ("float 0.0", 0.0), ("np.int32(0)", np.int32(0)), ("np.int64(0)", np.int64(0)),
                  ("np.float64(0.0)", np.float64(0.0)), ("datetime64(0,s)", np.datetime64(0, "s")),
                  ("datetime64(0,ns)", np.datetime64(0, "ns")), ("aware", EPOCH), ("naive", EPOCH.replace(tzinfo=None)),
                  ("iso Z", "1970-01-01T00:00:00Z"), ("iso offset", "1970-01-01T05:30:00+05:30")]
    for label, rep in epoch_reps:
        run.case("epoch_zero", key=label)
        got = tm.to_datetime_utc(rep)
        if got != EPOCH or got is None or got.utcoffset() != timedelta(0):
            run.violation("the epoch instant is not converted to 1970-01-01T00:00:00 UTC", dict(representation=label, got=repr(got)))
        s = tm.datetime_to_iso_time_string(rep)
        if s is None or tm.to_datetime_utc(s) != EPOCH:
            run.violation("formatting the epoch instant as ISO and parsing again does not return it", dict(representation=label, got=repr(s)))
        d64 = tm.to_datetime64(rep)
        if d64 is None or tm.to_datetime_utc(d64) != EPOCH:
            run.violation("the epoch instant does not survive the datetime64 round trip", dict(representation=label, got=repr(d64)))
    for label, rep, secs in (("np.int32", np.int32(1668000042), 1668000042), ("np.int64", np.int64(1668000042), 1668000042),
                             ("np.float64", np.float64(1668000042.5), 1668000042.5)):      # (float32 cannot hold epoch seconds: not a representation of an instant)
        run.case("numpy_scalar_epoch", key=label)
        want = EPOCH + timedelta(seconds=float(secs))
        got = tm.to_datetime_utc(rep)
        if got != want:
            run.violation("a numpy scalar of epoch seconds converts to a different instant", dict(representation=label, got=got.isoformat(), want=want.isoformat()))
    # mixed awareness, every order
    base = datetime(2023, 3, 26, 1, 30, 0)
    items = [("naive", base, base.replace(tzinfo=timezone.utc)),
             ("aware +05:30", base.replace(tzinfo=timezone(timedelta(minutes=330))), base.replace(tzinfo=timezone.utc) - timedelta(minutes=330)),
             ("aware -03:00", base.replace(tzinfo=timezone(timedelta(hours=-3))), base.replace(tzinfo=timezone.utc) + timedelta(hours=3)),
             ("aware utc", base.replace(tzinfo=timezone.utc), base.replace(tzinfo=timezone.utc))]
    import itertools
    for perm in itertools.permutations(range(4)):
        seq = [items[i][1] for i in perm]
        want = [items[i][2] for i in perm]
        for wrap, val in (("list", list(seq)), ("tuple", tuple(seq)), ("object ndarray", np.array(seq, dtype=object))):
            run.case("mixed_awareness", key=(perm, wrap))
            got = tm.to_datetime_utc(val)
            if list(got) != want or any(g.utcoffset() != timedelta(0) for g in got):
                run.violation("a sequence of datetimes of mixed awareness is not converted element by element",
                              dict(container=wrap, order=[items[i][0] for i in perm], got=[g.isoformat() for g in got], want=[w.isoformat() for w in want]))
            d64 = np.asarray(tm.to_datetime64(val))
            want64 = np.array([np.datetime64(int((w - EPOCH).total_seconds()), "s") for w in want]).astype("datetime64[ns]")
            if not np.array_equal(d64, want64):
                run.violation("to_datetime64 of a sequence of datetimes of mixed awareness denotes other instants", dict(container=wrap, order=[items[i][0] for i in perm]))


def check_packed(run, drv, tm, thorough):
    rng = run.rng
    # times
    times = []
    if thorough:
        times = [h * 10000 + m * 100 + s for h in range(1, 24) for m in range(60) for s in range(60)]
    else:
        times = [h * 10000 + m * 100 + s for h in (1, 9, 10, 23) for m in (0, 1, 59) for s in (0, 1, 59)]
        times += [rng.randint(1, 23) * 10000 + rng.randint(0, 59) * 100 + rng.randint(0, 59) for _ in range(300)]
    times += [h * 100 + m for h in range(1, 24) for m in range(60)] + list(range(0, 24))
    lines = [f"tc timeint {t}" for t in times]
    outs = drv.ask_many(lines)
    for t, o in zip(times, outs):
        run.case("timeint", key=t)
        hand, gen = map(int, o.split())
        impl = tm.time_from_timeint(t)
        impl_s = impl.days * 86400 + impl.seconds
        if t >= 10000:
            want = (t // 10000) * 3600 + ((t // 100) % 100) * 60 + t % 100
        elif t >= 100:
            want = (t // 100) * 3600 + (t % 100) * 60
        else:
            want = t * 3600
        if impl_s != want:
            run.violation("packed time decodes to the wrong time of day", dict(t=t, got_s=impl_s, want_s=want))
        if impl_s != hand or impl_s != gen:
            run.mismatch("timeint", dict(t=t, impl=impl_s, model=hand, generated=gen))
    # dates
    days = []
    d0 = datetime(1970, 1, 1)
    n_days = (datetime(2101, 1, 1) - d0).days
    idx = range(n_days) if thorough else sorted(set([0, 1, 58, 59, 60, 365, n_days - 1] + [rng.randrange(n_days) for _ in range(1500)]))
    for i in idx:
        d = d0 + timedelta(days=i)
        days.append((d.year * 10000 + d.month * 100 + d.day, d))
        if 2000 <= d.year <= 2099:
            days.append(((d.year - 2000) * 10000 + d.month * 100 + d.day, d))
    outs = drv.ask_many([f"tc dateint {t}" for t, _ in days])
    for (t, d), o in zip(days, outs):
        run.case("dateint", key=t)
        v = list(map(int, o.split()))
        try:
            impl = tm.date_from_dateint(t)
        except Exception as e:
            run.violation("a valid packed date (yyyymmdd or yymmdd) is rejected", dict(t=t, error=repr(e)))
            continue
        if (impl.year, impl.month, impl.day) != (d.year, d.month, d.day) or impl.utcoffset() != timedelta(0):
            run.violation("packed date decodes to the wrong UTC calendar fields", dict(t=t, got=impl.isoformat()))
        if [impl.year, impl.month, impl.day] != v[:3] or v[:3] != v[3:]:
            run.mismatch("dateint", dict(t=t, impl=[impl.year, impl.month, impl.day], model=v[:3], generated=v[3:]))
    # combined, incl. datetime64 flavour
    for _ in range(400 if thorough else 60):
        t, d = days[rng.randrange(len(days))]
        ti = rng.choice(times)
        run.case("fromints", key=(t, ti))
        got = tm.datetime_from_time_and_date_integers(t, ti)
        model = int(drv.ask(f"tc fromints {t} {ti}"))
        if micros(got) != model:
            run.mismatch("fromints", dict(date=t, time=ti, impl=micros(got), model=model))
        g64 = tm.datetime_from_time_and_date_integers(t, ti, as_datetime64=True)
        if int(g64.astype("datetime64[us]").astype("int64")) != model:
            run.violation("datetime_from_time_and_date_integers(as_datetime64=True) denotes another instant", dict(date=t, time=ti))


def regenerate(run):
    """Second tie: regenerate the Lean text of the packed-integer functions from the source."""
    rc, out, _ = common.sh([sys.executable, str(common.VERIF / "tools" / "py2lean.py"),
                            str(common.SRC / "ocean_science_utilities" / "tools" / "time.py")])
    if rc != 0:
        return ["tools/py2lean.py could not translate tools/time.py (construct outside the supported subset):\n" + out[-1500:]]
    return []


def main(prop, tier, seed):
    run = common.Run(prop, tier, seed)
    problems = regenerate(run)
    aud = common.audit("C17", thorough=(tier == "thorough"), extra_modules=["C17Gen"])
    if problems:
        aud["ok"] = False
        aud["problems"] += problems
    common.use_repo_source()
    from ocean_science_utilities.tools import time as tm
    thorough = tier == "thorough"
    try:
        drv = common.Driver()
    except Exception as e:
        drv = None
        aud["ok"] = False
        aud["problems"].append(f"driver unavailable: {e}")
    if drv is not None:
        try:
            with common.guard(run, "time conversions"):
                check_conversions(run, drv, tm, 6000 if thorough else 500)
            with common.guard(run, "numeric arrays and instants before 1970"):
                check_numeric_and_early(run, tm, 400 if thorough else 60)
            with common.guard(run, "edge cases"):
                check_edges(run, tm)
            with common.guard(run, "packed integers"):
                check_packed(run, drv, tm, thorough)
        finally:
            drv.close()
    return run.finish(aud, ASSUMPTIONS, RULE)
