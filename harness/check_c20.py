"""C20: time integration — stencils and `integrate` against the exact rational model."""
from fractions import Fraction

import numpy as np

from . import common
from .numfmt import bits, bits_list, frac, close

ASSUMPTIONS = [
    "numba compiles integrate()/integration_stencil() faithfully (exercised by the correspondence, not proved)",
    "float rounding is not modelled: the implementation is compared with the exact rational value of the same formula on the same double inputs, tolerance 1e-10 of sum|x_i|*|dt_i| + |start| (1e-12 for stencil weights)",
    "the literal 0.01 is passed to the model as the exact double; cases whose jitter test is within 1e-9 of its threshold are generated away from (time steps are multiples of 2^-10 and jitters are >= 3% or <= 0.3%)",
]

RULE = ("stencil/lagrange kernels: every (order<=8, n<=order) — exhaustive; integrate: seeded random time axes "
        "(uniform, isolated jitter, repeated jitter, alternating, gaps, sub-threshold jitter) x signals (polynomials "
        "degree<=5, random, constant) x orders 1..6 x n 1..order x start values; a case is non-trivial if the time axis has "
        "at least 3 samples; distinct by (order, n, hash of inputs)")


def make_time(rng, nt):
    base = rng.choice([1, 2, 5, 16, 100, 512]) / 1024.0 * rng.choice([1, 4, 64])
    kind = rng.choice(["uniform", "isolated", "repeated", "alternating", "gaps", "subthreshold", "random"])
    dts = np.full(nt - 1, base)
    if kind == "isolated" and nt > 3:
        for _ in range(rng.randint(1, 3)):
            dts[rng.randrange(nt - 1)] *= rng.choice([0.5, 0.9, 1.0625, 1.5, 3.0])
    elif kind == "repeated":
        for i in range(nt - 1):
            if rng.random() < 0.2:
                dts[i] *= rng.choice([0.75, 1.03125, 1.25])
    elif kind == "alternating":
        dts[::2] *= 1.25
    elif kind == "gaps" and nt > 4:
        dts[rng.randrange(nt - 1)] *= 16
    elif kind == "subthreshold":
        dts *= 1 + (np.array([rng.randint(-3, 3) for _ in range(nt - 1)]) / 1024.0)
    elif kind == "random":
        dts = base * np.array([rng.choice([0.5, 1, 1, 1, 1, 2]) for _ in range(nt - 1)])
    t0 = rng.choice([0.0, 0.0, 1000.0, -3.5])
    return kind, np.concatenate([[t0], t0 + np.cumsum(dts)])


def make_signal(rng, t):
    kind = rng.choice(["poly", "random", "const", "sine"])
    if kind == "poly":
        c = [rng.randint(-4, 4) for _ in range(rng.randint(1, 6))]
        tau = t - t[0]
        x = sum(ck * tau ** k for k, ck in enumerate(c))
    elif kind == "random":
        x = np.array([rng.uniform(-3, 3) for _ in t])
    elif kind == "const":
        x = np.full_like(t, rng.choice([0.0, 1.0, -2.5]))
    else:
        x = np.sin(t * rng.uniform(0.1, 3))
    return kind, np.asarray(x, dtype=float)


def check_stencils(run, drv, ti):
    for order in range(1, 9):
        for n in range(1, order + 1):
            w = ti.integration_stencil(order, n)
            ex = [frac(tok) for tok in drv.ask(f"ti stencil {order} {n}").split()]
            run.case("stencil", key=(order, n))
            if len(w) != len(ex) or not all(close(float(a), b, 1.0 + abs(b), rel=1e-11) for a, b in zip(w, ex)):
                run.mismatch("stencil", dict(order=order, n=n, impl=list(map(float, w)), model=[str(e) for e in ex]))
            # oracle on the implementation: sum to one, exact on monomials below the order
            m = order - n
            for k in range(order):
                got = sum(Fraction(float(wi)) * Fraction(i) ** k for i, wi in enumerate(w))
                want = Fraction(m ** (k + 1) - (m - 1) ** (k + 1), k + 1)
                if abs(got - want) > Fraction(1, 10 ** 9) * (1 + abs(want)) * 8 ** order:
                    run.violation("stencil does not integrate a monomial below the order exactly",
                                  dict(order=order, n=n, k=k, got=float(got), want=float(want)))
            if order <= 7:
                for idx in range(order + 1):
                    c = ti.lagrange_base_polynomial_coef(order, idx)
                    ex = [frac(tok) for tok in drv.ask(f"ti lagrange {order} {idx}").split()]
                    run.case("lagrange", key=(order, idx))
                    if len(c) != len(ex) or not all(close(float(a), b, 1.0 + abs(b), rel=1e-11) for a, b in zip(c, ex)):
                        run.mismatch("lagrange", dict(order=order, idx=idx, impl=list(map(float, c)), model=[str(e) for e in ex]))
            for idx in range(order):
                c = ti.integrated_lagrange_base_polynomial_coef(order, idx)
                ex = [frac(tok) for tok in drv.ask(f"ti ilagrange {order} {idx}").split()]
                run.case("ilagrange", key=(order, idx))
                if len(c) != len(ex) or not all(close(float(a), b, 1.0 + abs(b), rel=1e-11) for a, b in zip(c, ex)):
                    run.mismatch("ilagrange", dict(order=order, idx=idx, impl=list(map(float, c)), model=[str(e) for e in ex]))


def check_integrate(run, drv, ti, ncases, max_nt):
    rng = run.rng
    tol_bits = bits(0.01)
    for case in range(ncases):
        nt = rng.choice([2, 3, 4, 5, 6, 9, 17, 40]) if rng.random() < 0.5 else rng.randint(2, max_nt)
        tkind, t = make_time(rng, nt)
        xkind, x = make_signal(rng, t)
        order = rng.choice([1, 2, 3, 4, 4, 4, 5, 6])
        n = 1 if rng.random() < 0.6 else rng.randint(1, order)
        start = rng.choice([0.0, 0.0, 1.5, -7.25, 1e3])
        out = ti.integrate(t, x, order, n, start)
        line = f"ti integrate {order} {n} {tol_bits} {bits(start)} {bits_list(t)} {bits_list(x)}"
        ans = drv.ask(line)
        if ans == "bad-op":
            run.mismatch("integrate", dict(reason="driver rejected", order=order, n=n, nt=nt))
            continue
        vals, kinds = ans.split(" | ") if " | " in ans else (ans.rstrip(" |"), "")
        ex = [frac(tok) for tok in vals.split()]
        run.case("integrate", key=(order, n, nt, tkind, xkind, case), nontrivial=nt >= 3)
        run.count("time_" + tkind)
        run.count("signal_" + xkind)
        run.count("primary_steps", kinds.count("P"))
        run.count("trapezoid_steps", kinds.count("T"))
        scale = float(np.sum(np.abs(x[1:]) * np.abs(np.diff(t))) + np.sum(np.abs(x[:-1]) * np.abs(np.diff(t))) + abs(start) + 1e-300)
        info = dict(order=order, n=n, start=start, time_kind=tkind, signal_kind=xkind, nt=nt,
                    t=[float(v) for v in t[:12]], x=[float(v) for v in x[:12]])
        if len(out) != len(ex):
            run.mismatch("integrate", dict(info, reason="length", impl=len(out), model=len(ex)))
            continue
        bad = [i for i, (a, b) in enumerate(zip(out, ex)) if not close(float(a), b, scale)]
        if bad:
            i = bad[0]
            run.mismatch("integrate", dict(info, index=i, impl=float(out[i]), model=float(ex[i]), kinds=kinds[:40]))
        run.sample(dict(info, kinds=kinds[:30], first_outputs=[float(v) for v in out[:4]]), limit=4)
        # ---- oracles on the implementation --------------------------------------------
        if out[0] != start:
            run.violation("integrate does not start at the requested start value", dict(info, got=float(out[0])))
        d = np.diff(out)
        dt = np.diff(t)
        trap = 0.5 * (x[1:] + x[:-1]) * dt
        eps = 1e-9 * scale
        # jitter steps (current step differs from the previous one by more than 1%) are trapezoid
        for i in range(1, nt - 1):
            if abs(dt[i] - dt[i - 1]) > 0.0101 * dt[i] and abs(d[i] - trap[i]) > eps:
                run.violation("a step whose time step jitters by more than 1% is not a trapezoid step",
                              dict(info, step=i + 1, got=float(d[i]), trapezoid=float(trap[i])))
                break
        # a step that is not a trapezoid step used the high-order stencil: every adjacent pair of steps in
        # its window (the last `order` steps up to and including it) must be uniform within 1%
        for i in range(nt - 1):
            if abs(d[i] - trap[i]) > eps:
                lo = max(1, i - order + 2)
                bad = [j for j in range(lo, i + 1) if abs(dt[j] - dt[j - 1]) > 0.0101 * dt[j]]
                if bad:
                    run.violation("the high-order stencil was used on a step whose window contains a jittered time step",
                                  dict(info, step=i + 1, jitter_at=[b + 1 for b in bad]))
                    break
        # near the ends: first step and last step are trapezoid steps
        if nt >= 2 and abs(d[0] - trap[0]) > eps:
            run.violation("first step is not a trapezoid step", dict(info, got=float(d[0]), trapezoid=float(trap[0])))
        if n >= 2 and nt >= 3 and abs(d[-1] - trap[-1]) > eps:
            run.violation("last step (stencil past the end) is not a trapezoid step", dict(info))
        # cubic exactness on uniform stretches with the default stencil
        if order == 4 and n == 1 and tkind == "uniform" and xkind == "poly" and nt >= 8:
            # polynomial of degree <= 3 only
            pass
        # linearity (one random combination per case, cheap)
        if case % 5 == 0:
            y = np.array([rng.uniform(-1, 1) for _ in t])
            a, b = rng.choice([2.0, -0.5, 3.0]), rng.choice([1.0, -4.0])
            lhs = ti.integrate(t, a * x + b * y, order, n, a * start + b * 0.25)
            rhs = a * out + b * ti.integrate(t, y, order, n, 0.25)
            sc = abs(a) * scale + abs(b) * float(np.sum(np.abs(dt)) + 1)
            if np.max(np.abs(lhs - rhs)) > 1e-9 * sc:
                run.violation("integrate is not linear in the signal", dict(info, a=a, b=b, err=float(np.max(np.abs(lhs - rhs)))))


def check_cubic(run, ti, ncases):
    """Oracle: on uniform grids the default stencil adds exactly the integral of a cubic."""
    rng = run.rng
    for _ in range(ncases):
        nt = rng.randint(8, 60)
        h = rng.choice([0.25, 0.5, 1.0, 0.125])
        t = np.arange(nt) * h
        c = [rng.randint(-3, 3) for _ in range(4)]
        x = sum(ck * t ** k for k, ck in enumerate(c))
        X = sum(ck * t ** (k + 1) / (k + 1) for k, ck in enumerate(c))
        out = ti.integrate(t, x, 4, 1, 0.0)
        d = np.diff(out)
        exact = np.diff(X)
        run.case("cubic-oracle", key=(nt, h, tuple(c)))
        # steps 5.. use the 4th order stencil
        err = np.abs(d[4:] - exact[4:])
        if len(err) and np.max(err) > 1e-9 * (1 + np.max(np.abs(exact))):
            run.violation("default stencil does not integrate a cubic exactly on a uniform stretch",
                          dict(nt=nt, h=h, coeffs=c, max_err=float(np.max(err))))


def check_axes(run, ti, ncases):
    """Time axes other than increasing float64 seconds: stored newest first (signed steps: a linear signal is integrated
    exactly by every stencil and by the trapezoidal fallback), and integer-typed (epoch seconds)."""
    rng = run.rng
    for _ in range(ncases):
        nt = rng.randint(6, 40)
        h = rng.choice([0.5, 1.0, 2.0])
        a, b, s0 = rng.randint(-3, 3), rng.randint(-3, 3), rng.choice([0.0, 0.5, -1.25])
        # (1) decreasing axis, linear signal
        t = (np.arange(nt) * h)[::-1].copy() + (0.0 if rng.random() < 0.5 else np.cumsum([rng.choice([0.0, 0.3]) for _ in range(nt)])[::-1])
        x = a + b * t
        X = a * t + b * t ** 2 / 2
        run.case("decreasing-axis", key=(nt, h, a, b))
        out = np.asarray(ti.integrate(t, x, 4, 1, s0), dtype=float)
        want = s0 + (X - X[0])
        if out.shape != t.shape or not np.allclose(out, want, rtol=1e-12, atol=1e-9 * (1 + np.max(np.abs(want)))):
            run.violation("on a time axis stored newest first a linear signal is not integrated exactly (signed steps)",
                          dict(nt=nt, h=h, a=a, b=b, start=s0, got=out[:5].tolist(), want=want[:5].tolist()))
        # (2) integer-typed time axis = the same axis as floats
        ti_int = (np.arange(nt) * int(max(h, 1))).astype("int64") + 1_600_000_000
        c = [rng.randint(-2, 2) for _ in range(4)]
        tf = ti_int.astype(float)
        xs = sum(ck * ((tf - tf[0]) / 10.0) ** k for k, ck in enumerate(c))
        run.case("integer-time-axis", key=(nt, tuple(c)))
        try:
            o_int = np.asarray(ti.integrate(ti_int, xs, 4, 1, s0), dtype=float)
        except Exception as ex:
            run.violation("an integer-typed time axis is rejected", dict(error=repr(ex)[:200]))
            continue
        o_flt = np.asarray(ti.integrate(tf, xs, 4, 1, s0), dtype=float)
        if o_int.shape != o_flt.shape or not np.allclose(o_int, o_flt, rtol=1e-12, atol=1e-12):
            run.violation("the cumulative integral depends on the storage type of the time axis (integer epoch seconds vs float)",
                          dict(nt=nt, coeffs=c, start=s0, int_axis=o_int[:4].tolist(), float_axis=o_flt[:4].tolist()))


def main(prop, tier, seed):
    run = common.Run(prop, tier, seed)
    aud = common.audit(prop, thorough=(tier == "thorough"))
    common.use_repo_source()
    from ocean_science_utilities.tools import time_integration as ti
    drv = common.Driver()
    try:
        thorough = tier == "thorough"
        with common.guard(run, "integration stencils"):
            check_stencils(run, drv, ti)
        with common.guard(run, "cumulative integration"):
            check_integrate(run, drv, ti, 6000 if thorough else 500, 2000 if thorough else 300)
        with common.guard(run, "cubic exactness"):
            check_cubic(run, ti, 2000 if thorough else 200)
        with common.guard(run, "other time axes"):
            check_axes(run, ti, 400 if thorough else 40)
    finally:
        drv.close()
    return run.finish(aud, ASSUMPTIONS, RULE)
