"""Shared machinery for all checks: Lean build + audit, model driver, evidence, verdict."""
import hashlib
import json
import os
import random
import re
import subprocess
import sys
import time
from pathlib import Path

VERIF = Path(__file__).resolve().parents[1]
LEAN = VERIF / "lean"
DRIVER = LEAN / ".lake" / "build" / "bin" / "osu_driver"
REPO = Path(os.environ.get("OSU_REPO", "/repo"))
SRC = REPO / "src"
EVIDENCE = VERIF / "evidence"
REPLAYS = VERIF / "replays"
KNOWN = VERIF / "known_findings.txt"

ALLOWED_AXIOMS = {"propext", "Classical.choice", "Quot.sound"}
FORBIDDEN = re.compile(
    r"\bsorry\b|\badmit\b|^\s*axiom\s|native_decide|bv_decide|implemented_by|\bunsafe\s|maxHeartbeats\s+0"
)

TRUSTED_BASE = [
    "Lean 4.33.0 kernel (lake build; thorough tier re-checks the .olean with leanchecker)",
    "axioms allowed per theorem: propext, Classical.choice, Quot.sound (audited by #print axioms on every run)",
    "Mathlib v4.33.0 as a library of proved statements (only in OsuProofs/OsuProps, never in OsuModel)",
    "correspondence check (this harness + compiled osu_driver built from the same OsuModel definitions the theorems mention)",
]


def use_repo_source():
    """Import ocean_science_utilities from /repo's current working tree."""
    p = str(SRC)
    if p in sys.path:
        sys.path.remove(p)
    sys.path.insert(0, p)
    os.environ.setdefault("NUMBA_CACHE_DIR", numba_cache_dir())


def src_hash():
    h = hashlib.sha256()
    for f in sorted(SRC.rglob("*.py")):
        h.update(str(f.relative_to(SRC)).encode())
        h.update(f.read_bytes())
    return h.hexdigest()[:16]


def numba_cache_dir():
    d = VERIF / ".numba_cache" / src_hash()
    d.mkdir(parents=True, exist_ok=True)
    return str(d)


# --------------------------------------------------------------------------------------
# Lean side
# --------------------------------------------------------------------------------------

def sh(cmd, cwd=None, timeout=3600):
    t0 = time.time()
    p = subprocess.run(cmd, cwd=cwd, stdout=subprocess.PIPE, stderr=subprocess.STDOUT, text=True,
                       timeout=timeout)
    return p.returncode, p.stdout, time.time() - t0


def lake_build(targets, timeout=3600):
    rc, out, dt = sh(["lake", "build"] + list(targets), cwd=LEAN, timeout=timeout)
    return rc == 0, out, dt


def strip_comments(text):
    # remove /- ... -/ (nested not handled beyond one level, enough for our sources) and -- ...
    text = re.sub(r"/-.*?-/", lambda m: "\n" * m.group(0).count("\n"), text, flags=re.S)
    text = re.sub(r"--.*", "", text)
    return text


def property_theorems(prop):
    """Names (fully qualified) of the theorems stated in OsuProps/<prop>.lean."""
    f = LEAN / "OsuProps" / f"{prop}.lean"
    text = strip_comments(f.read_text())
    names = []
    ns = []
    for line in text.splitlines():
        m = re.match(r"\s*namespace\s+(\S+)", line)
        if m:
            ns.append(m.group(1))
            continue
        m = re.match(r"\s*end\s+(\S+)", line)
        if m and ns and ns[-1] == m.group(1):
            ns.pop()
            continue
        m = re.match(r"\s*(?:private\s+|protected\s+)?theorem\s+(\S+)", line)
        if m:
            names.append(".".join(ns + [m.group(1)]))
    n_examples = len(re.findall(r"^\s*example\b", text, flags=re.M))
    return names, n_examples


def lean_sources_for(prop):
    """All Lean files the property module depends on inside this project (transitively)."""
    seen, todo = set(), [LEAN / "OsuProps" / f"{prop}.lean"]
    while todo:
        f = todo.pop()
        if f in seen or not f.exists():
            continue
        seen.add(f)
        for m in re.finditer(r"^import\s+(\S+)", f.read_text(), flags=re.M):
            mod = m.group(1)
            if mod.split(".")[0] in ("OsuModel", "OsuProofs", "OsuProps"):
                todo.append(LEAN / (mod.replace(".", "/") + ".lean"))
    return sorted(seen)


def regenerate_arith():
    """Second tie for C06 / C07 / C10: re-translate the small arithmetic kernels from /repo's current source
    (tools/py2lean_arith.py); the build that follows re-proves `generated = model`."""
    rc, out, _ = sh([sys.executable, str(VERIF / "tools" / "py2lean_arith.py")])
    if rc != 0:
        return ["tools/py2lean_arith.py could not translate a kernel (construct outside the supported subset):\n" + out[-1500:]]
    return []


def regenerate_spec():
    """Third tie (C01-C04, C07, C08, C09, C14): re-translate the closed-form glue of the spectrum object, the wrapped
    difference and the ST4 wind-input loop body from /repo's current source (tools/py2lean_spec.py)."""
    rc, out, _ = sh([sys.executable, str(VERIF / "tools" / "py2lean_spec.py")])
    if rc != 0:
        return ["tools/py2lean_spec.py could not translate a unit (construct outside the supported subset, or a call "
                "whose arguments are no longer the ones the tie names):\n" + out[-1500:]]
    return []


def audit_with_spec(prop, gen_modules, thorough=False, arith=False):
    problems = regenerate_spec() + (regenerate_arith() if arith else [])
    aud = audit(prop, thorough=thorough, extra_modules=list(gen_modules))
    if problems:
        aud["ok"] = False
        aud["problems"] += problems
    return aud


def audit_with_arith(prop, gen_module, thorough=False):
    problems = regenerate_arith()
    aud = audit(prop, thorough=thorough, extra_modules=[gen_module])
    if problems:
        aud["ok"] = False
        aud["problems"] += problems
    return aud


def audit(prop, thorough=False, extra_modules=()):
    """Build the property module, grep for forbidden constructs, #print axioms of every theorem.
    Returns dict(ok, obligations, discharged, axioms, problems, checker_cmd)."""
    res = {"ok": False, "obligations": 0, "discharged": 0, "axioms": {}, "problems": [],
           "checker_cmd": f"cd lean && lake build OsuProps.{prop} osu_driver && lake env lean <#print axioms of every theorem in OsuProps/{prop}.lean>"}
    mods = [prop] + list(extra_modules)
    okd, outd, dtd = lake_build(["osu_driver"])
    if not okd:
        res["problems"].append("lake build osu_driver failed:\n" + outd[-3000:])
        try:
            DRIVER.unlink()
        except OSError:
            pass
    ok, out, dt = lake_build([f"OsuProps.{m}" for m in mods])
    res["build_s"] = round(dt + dtd, 1)
    if not ok:
        res["problems"].append("lake build failed (a proof obligation no longer checks):\n" + out[-3000:])
        return res
    names, n_ex = [], 0
    for m in mods:
        for f in lean_sources_for(m):
            for i, line in enumerate(strip_comments(f.read_text()).splitlines(), 1):
                if FORBIDDEN.search(line):
                    msg = f"forbidden construct in {f.relative_to(LEAN)}:{i}: {line.strip()}"
                    if msg not in res["problems"]:
                        res["problems"].append(msg)
        nm, ne = property_theorems(m)
        names += nm
        n_ex += ne
    res["obligations"] = len(names)
    res["examples"] = n_ex
    gen = LEAN / ".lake" / f"audit_{prop}.lean"
    gen.write_text("".join(f"import OsuProps.{m}\n" for m in mods) + "".join(f"#print axioms {n}\n" for n in names))
    rc, out, _ = sh(["lake", "env", "lean", str(gen)], cwd=LEAN, timeout=1800)
    if rc != 0:
        res["problems"].append("axiom audit failed to run:\n" + out[-2000:])
        return res
    # parse: 'X' depends on axioms: [a, b]   |   'X' does not depend on any axioms
    flat = re.sub(r"\s+", " ", out)
    for n in names:
        m = re.search(r"'" + re.escape(n) + r"' (does not depend on any axioms|depends on axioms: \[([^\]]*)\])", flat)
        if not m:
            res["problems"].append(f"no axiom report for {n}")
            continue
        ax = [] if m.group(2) is None else [a.strip() for a in m.group(2).split(",") if a.strip()]
        res["axioms"][n] = ax
        if set(ax) <= ALLOWED_AXIOMS:
            res["discharged"] += 1
        else:
            res["problems"].append(f"{n} depends on non-standard axioms {ax}")
    if thorough:
        rc, out, dt = sh(["lake", "env", "leanchecker"] + [f"OsuProps.{m}" for m in mods], cwd=LEAN, timeout=3600)
        res["leanchecker_s"] = round(dt, 1)
        res["checker_cmd"] += f" && lake env leanchecker OsuProps.{prop}"
        if rc != 0:
            res["problems"].append("leanchecker failed:\n" + out[-2000:])
    res["ok"] = not res["problems"] and res["discharged"] == res["obligations"] and res["obligations"] > 0
    return res


class guard:
    """`with guard(run, what):` — an exception escaping from the library under test is a finding for
    the property being checked (recorded as a violation), not a failure of the tool."""

    def __init__(self, run, what, detail=None):
        self.run, self.what, self.detail = run, what, detail or {}

    def __enter__(self):
        return self

    def __exit__(self, et, ev, tb):
        if et is None or not issubclass(et, Exception):
            return False
        import traceback
        text = "".join(traceback.format_exception(et, ev, tb))
        # (jitted library code shows up as numba frames only)
        if "ocean_science_utilities" in text or "/numba/" in text:
            self.run.violation(f"{self.what}: the library raised {et.__name__}",
                               dict(self.detail, error=repr(ev), where=[ln.strip() for ln in text.splitlines() if "ocean_science_utilities" in ln or "harness/" in ln][-3:]))
            return True
        return False


class Driver:
    """Persistent model driver (compiled Lean, line protocol)."""

    def __init__(self):
        if not DRIVER.exists():
            ok, out, _ = lake_build(["osu_driver"])
            if not ok:
                raise RuntimeError("cannot build osu_driver:\n" + out[-2000:])
        self.p = subprocess.Popen([str(DRIVER)], stdin=subprocess.PIPE, stdout=subprocess.PIPE,
                                  text=True, bufsize=1)
        self.n = 0

    def ask(self, line):
        assert "\n" not in line
        self.p.stdin.write(line + "\n")
        self.p.stdin.flush()
        out = self.p.stdout.readline()
        if out == "":
            raise RuntimeError(f"driver died on: {line[:200]}")
        self.n += 1
        return out.rstrip("\n")

    def ask_many(self, lines):
        """Pipelined: write all, then read all (avoids per-line latency)."""
        import threading
        outs = []

        def reader():
            for _ in lines:
                o = self.p.stdout.readline()
                if o == "":
                    raise RuntimeError("driver died")
                outs.append(o.rstrip("\n"))
        t = threading.Thread(target=reader)
        t.start()
        for ln in lines:
            self.p.stdin.write(ln + "\n")
        self.p.stdin.flush()
        t.join()
        self.n += len(lines)
        return outs

    def close(self):
        try:
            self.p.stdin.close()
            self.p.wait(timeout=10)
        except Exception:
            self.p.kill()


# --------------------------------------------------------------------------------------
# Verdict / evidence
# --------------------------------------------------------------------------------------

def known_findings(prop):
    out = []
    if KNOWN.exists():
        for line in KNOWN.read_text().splitlines():
            m = re.match(r"known:\s+property=(\S+)\s+sig=(\S+)\s+(.*)", line)
            if m and m.group(1) == prop:
                out.append((m.group(2), m.group(3)))
    return out


class Run:
    """Collects what one check run did; writes evidence; prints the verdict lines."""

    def __init__(self, prop, tier, seed):
        self.prop, self.tier, self.seed = prop, tier, seed
        self.t0 = time.time()
        self.rng = random.Random(seed * 1000003 + int(hashlib.md5(prop.encode()).hexdigest()[:6], 16))
        self.evaluations = 0
        self.nontrivial = set()
        self.samples = []
        self.dist = {}
        self.violations = []        # dict(kind, detail, replay, sig?)
        self.corr_failures = []     # correspondence disagreements (not yet violations)
        self.known_hit = {}
        self.notes = []
        self.kernels = {}

    # counting helpers
    def count(self, key, n=1):
        self.dist[key] = self.dist.get(key, 0) + n

    def case(self, kernel, key=None, nontrivial=True):
        self.evaluations += 1
        self.kernels[kernel] = self.kernels.get(kernel, 0) + 1
        if nontrivial and key is not None:
            self.nontrivial.add((kernel, key))

    def sample(self, obj, limit=6):
        if len(self.samples) < limit:
            self.samples.append(obj)

    def violation(self, clause, detail, sig=None):
        self.violations.append({"clause": clause, "detail": detail, "sig": sig})

    def mismatch(self, kernel, detail):
        self.corr_failures.append({"kernel": kernel, "detail": detail})

    def finish(self, aud, assumptions, rule, extra_cov=None, level="proof"):
        EVIDENCE.mkdir(exist_ok=True)
        REPLAYS.mkdir(exist_ok=True)
        known = known_findings(self.prop)
        known_sigs = {s for s, _ in known}
        real = [v for v in self.violations if not (v["sig"] and v["sig"] in known_sigs)]
        seen_known = {v["sig"] for v in self.violations if v["sig"] and v["sig"] in known_sigs}
        lines = []
        exit_code = 0
        for sig, text in known:
            if sig in seen_known:
                lines.append(f"KNOWN-FINDING: property={self.prop} {text}")
        replay = None
        if real:
            replay = REPLAYS / f"{self.prop}-{self.tier}-{self.seed}.json"
            replay.write_text(json.dumps({"property": self.prop, "violations": real[:20],
                                          "correspondence_failures": self.corr_failures[:20]},
                                         indent=1, default=str))
            lines.append(f"VIOLATION property={self.prop} replay={replay}")
            exit_code = 1
        elif self.corr_failures or not aud["ok"]:
            # the tie or a proof no longer checks, and no failing input was found
            replay = REPLAYS / f"{self.prop}-{self.tier}-{self.seed}.json"
            replay.write_text(json.dumps({
                "property": self.prop,
                "no_longer_checks": ([f"correspondence kernel {c['kernel']}" for c in self.corr_failures[:20]]
                                     + aud["problems"][:10]),
                "correspondence_failures": self.corr_failures[:20]}, indent=1, default=str))
            lines.append(f"VIOLATION property={self.prop} replay={replay} no-failing-input-found")
            exit_code = 1
        cov = {
            "obligations": aud["obligations"],
            "discharged": aud["discharged"],
            "checker_cmd": aud["checker_cmd"],
            "trusted_base": TRUSTED_BASE,
            "axioms_per_theorem": aud["axioms"],
            "satisfiability_examples": aud.get("examples", 0),
            "evaluations": self.evaluations,
            "distinct_nontrivial": len(self.nontrivial),
            "rule": rule,
            "samples": self.samples if self.samples else ["(no correspondence cases run)"],
            "kernels": self.kernels,
            "generator_distribution": self.dist,
            "correspondence_failures": len(self.corr_failures),
            "known_findings_seen": sorted(seen_known),
            "lean_build_s": aud.get("build_s"),
            "notes": self.notes,
        }
        if extra_cov:
            cov.update(extra_cov)
        ev = {
            "property_id": self.prop, "tier": self.tier, "seed": self.seed, "level": level,
            "coverage": cov, "assumptions": assumptions,
            "wall_s": round(time.time() - self.t0, 2), "violations": len(real),
        }
        (EVIDENCE / f"{self.prop}.json").write_text(json.dumps(ev, indent=1, default=str))
        for ln in lines:
            print(ln)
        print(f"[{self.prop}] tier={self.tier} seed={self.seed} theorems={aud['discharged']}/{aud['obligations']} "
              f"cases={self.evaluations} nontrivial={len(self.nontrivial)} corr_fail={len(self.corr_failures)} "
              f"violations={len(real)} known={len(seen_known)} wall={ev['wall_s']}s")
        return exit_code
