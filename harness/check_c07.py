"""C07: dispersion relation, wavenumber solver, group velocity."""
import math
import warnings

import numpy as np

from . import common
from .numfmt import bits, from_bits

ASSUMPTIONS = [
    "libm tanh/sinh/sqrt of the Lean Float model and of numpy agree to a few ulp; solver outputs are compared at 1e-9 relative, and when the two sides stop after a different number of Newton steps (a convergence test within rounding of its threshold) the case is counted as threshold-adjacent and both results must still satisfy the residual clause",
    "that ten Newton steps reach the 1e-3 tolerance for EVERY (w, d) in the box is a floating-point convergence statement: it is scanned on a log grid, not proved",
    "numba compiles the functions faithfully",
]

RULE = ("log grid of angular frequencies [3e-3, 50] x depths [1e-2, 1e4] plus infinite depth (60x60 quick, 400x400 thorough), random "
        "vectors mixing regimes in one call (the iteration count of a vector is shared), scalars; spectra with per-point depths "
        "incl. NaN and inf; one case = one (w, d) pair or one vector; non-trivial if kd is between 0.05 and 10")

G = 9.81


def dep_tok(d):
    return "inf" if math.isinf(d) else bits(d)


def check_solver(run, drv, ld, thorough):
    rng = run.rng
    n = 400 if thorough else 60
    ws = np.exp(np.linspace(math.log(3e-3), math.log(50.0), n))
    ds = np.exp(np.linspace(math.log(1e-2), math.log(1e4), n))
    worst = 0.0
    # scan: each row (fixed depth) is one vector call
    for i, d in enumerate(list(ds) + [np.inf]):
        darr = np.full(n, d)
        with warnings.catch_warnings():
            warnings.simplefilter("ignore")
            k = np.asarray(ld.inverse_intrinsic_dispersion_relation(ws.copy(), darr.copy()), dtype=float)
        with np.errstate(all="ignore"):
            w2 = np.sqrt(G * k * np.tanh(k * d)) if np.isfinite(d) else np.sqrt(G * k)
        res = np.abs(w2 - ws) / ws
        worst = max(worst, float(np.nanmax(res)))
        for j in range(n):
            kd = k[j] * d
            run.case("scan", key=(i, j), nontrivial=bool(0.05 < kd < 10))
        bad = np.where(~(res <= 1e-3) | ~(k > 0))[0]
        if len(bad):
            j = int(bad[0])
            run.violation("returned wavenumber is not positive or misses the dispersion relation by more than 1e-3 relative",
                          dict(w=float(ws[j]), d=float(d), k=float(k[j]), residual=float(res[j])))
        # increasing in w (neighbouring grid frequencies are > 1% apart for n <= 900)
        if np.any(np.diff(k) <= 0):
            j = int(np.where(np.diff(k) <= 0)[0][0])
            run.violation("wavenumber is not increasing in frequency", dict(d=float(d), w=[float(ws[j]), float(ws[j + 1])], k=[float(k[j]), float(k[j + 1])]))
        # asymptotes
        with np.errstate(all="ignore"):
            deep = (k * d > 10)
            shallow = (k * d < 0.03)
            if np.any(np.abs(k[deep] - ws[deep] ** 2 / G) > 2.5e-3 * k[deep]):
                run.violation("deep-water limit k -> w^2/g violated", dict(d=float(d)))
            if np.isfinite(d) and np.any(np.abs(k[shallow] - ws[shallow] / math.sqrt(G * d)) > 2.5e-3 * k[shallow]):
                run.violation("shallow-water limit k -> w/sqrt(g d) violated", dict(d=float(d)))
        # correspondence with the Float model on a subsample of rows
        if i % (8 if thorough else 4) == 0:
            line = f"disp solve {bits(G)} {bits(1e-3)} 10 " + " ".join(f"{bits(w)} {dep_tok(d)}" for w in ws)
            ans = drv.ask(line)
            vals, flag = ans.split(" | ")
            km = np.array([from_bits(t) for t in vals.split()])
            rel = np.abs(km - k) / np.abs(k)
            run.case("solve_vector", key=("row", i))
            if np.nanmax(rel) > 1e-9:
                with np.errstate(all="ignore"):
                    wm = np.sqrt(G * km * np.tanh(km * d)) if np.isfinite(d) else np.sqrt(G * km)
                if np.nanmax(np.abs(wm - ws) / ws) <= 1e-3 and np.nanmax(rel) < 3e-3:
                    run.count("threshold_adjacent_rows")
                else:
                    j = int(np.nanargmax(rel))
                    run.mismatch("solve_vector", dict(d=float(d), w=float(ws[j]), impl=float(k[j]), model=float(km[j])))
    run.dist["max_relative_residual_seen"] = worst
    # non-increasing in depth (columns): depths more than 1% apart
    for j in range(0, n, 5 if not thorough else 3):
        w = ws[j]
        with warnings.catch_warnings():
            warnings.simplefilter("ignore")
            kcol = np.array([float(ld.inverse_intrinsic_dispersion_relation(float(w), float(d))[0]) for d in ds[::4]])
        run.case("depth_column", key=("col", j))
        if np.any(np.diff(kcol) > 2.5e-3 * kcol[:-1]):
            run.violation("wavenumber increases with depth beyond the solver tolerance", dict(w=float(w)))
    # random mixed-regime vectors and scalars
    for case in range(300 if thorough else 40):
        m = rng.choice([1, 2, 5, 17])
        w = np.exp(np.array([rng.uniform(math.log(3e-3), math.log(50.0)) for _ in range(m)]))
        d = np.array([rng.choice([np.inf, math.exp(rng.uniform(math.log(1e-2), math.log(1e4)))]) for _ in range(m)])
        with warnings.catch_warnings():
            warnings.simplefilter("ignore")
            if m == 1 and rng.random() < 0.5:
                k = np.asarray(ld.inverse_intrinsic_dispersion_relation(float(w[0]), float(d[0])), dtype=float)
            else:
                k = np.asarray(ld.inverse_intrinsic_dispersion_relation(w.copy(), d.copy()), dtype=float)
        ans = drv.ask(f"disp solve {bits(G)} {bits(1e-3)} 10 " + " ".join(f"{bits(a)} {dep_tok(b)}" for a, b in zip(w, d)))
        km = np.array([from_bits(t) for t in ans.split(" | ")[0].split()])
        run.case("solve_mixed", key=("mixed", case))
        with np.errstate(all="ignore"):
            wk = np.where(np.isfinite(d), np.sqrt(G * k * np.tanh(k * np.where(np.isfinite(d), d, 1.0))), np.sqrt(G * k))
        if k.shape != (m,) or np.any(~(np.abs(wk - w) <= 1e-3 * w)) or np.any(~(k > 0)):
            run.violation("mixed-regime vector: an element misses the dispersion relation", dict(w=w.tolist(), d=d.tolist(), k=k.tolist()))
        if np.nanmax(np.abs(km - k) / np.abs(k)) > 1e-9:
            if np.nanmax(np.abs(km - k) / np.abs(k)) < 3e-3:
                run.count("threshold_adjacent_vectors")
            else:
                run.mismatch("solve_mixed", dict(w=w.tolist(), d=d.tolist(), impl=k.tolist(), model=km.tolist()))
        if case < 3:
            run.sample(dict(w=w.tolist(), d=[("inf" if math.isinf(x) else float(x)) for x in d], k=k.tolist()))


def check_point_functions(run, drv, ld, thorough):
    rng = run.rng
    for case in range(3000 if thorough else 300):
        k = math.exp(rng.uniform(math.log(1e-6), math.log(300.0)))
        d = rng.choice([np.inf, math.exp(rng.uniform(math.log(1e-2), math.log(1e4)))])
        if rng.random() < 0.15:
            d = rng.choice([5.0 / k, 5.0 / k * (1 + 1e-9), 5.0 / k * (1 - 1e-9)])
        with warnings.catch_warnings():
            warnings.simplefilter("ignore")
            w = float(ld.intrinsic_dispersion_relation(np.array([k]), np.array([d]))[0])
            r = float(np.atleast_1d(ld.ratio_group_velocity_to_phase_velocity(np.array([k]), np.array([d]), G))[0])
            cg = float(np.atleast_1d(ld.intrinsic_group_velocity(np.array([k]), np.array([d])))[0])
        mw = from_bits(drv.ask(f"disp omega {bits(G)} {bits(k)} {dep_tok(d)}"))
        mr = from_bits(drv.ask(f"disp ratio {bits(k)} {dep_tok(d)}"))
        mc = from_bits(drv.ask(f"disp cg {bits(G)} {bits(k)} {dep_tok(d)}"))
        run.case("point", key=(case,), nontrivial=bool(0.05 < k * d < 10))
        for name, a, b in (("omega", w, mw), ("ratio", r, mr), ("cg", cg, mc)):
            if not (abs(a - b) <= 1e-9 * abs(b) or (a != a and b != b)):
                # the kd > 5 switch decided within rounding of its threshold
                if name != "omega" and abs(k * d - 5) < 1e-6:
                    run.count("threshold_adjacent_points")
                    continue
                run.mismatch("disp_" + name, dict(k=k, d=d, impl=a, model=b))
        if not (0.5 - 1e-12 <= r <= 1 + 1e-12):
            run.violation("group/phase velocity ratio outside [0.5, 1]", dict(k=k, d=d, ratio=r))
        # group velocity = dw/dk to 2e-3 relative
        h = 1e-4 * k
        with warnings.catch_warnings():
            warnings.simplefilter("ignore")
            wp = float(ld.intrinsic_dispersion_relation(np.array([k + h]), np.array([d]))[0])
            wm = float(ld.intrinsic_dispersion_relation(np.array([k - h]), np.array([d]))[0])
        num = (wp - wm) / (2 * h)
        if not abs(cg - num) <= 2e-3 * abs(num):
            run.violation("group velocity differs from dw/dk by more than 2e-3 relative", dict(k=k, d=d, cg=cg, dwdk=num))


def check_integer_inputs(run, ld):
    """integer-typed frequencies, wavenumbers and depths (scalars and arrays) are frequencies, wavenumbers and depths"""
    for w_, d_ in ((1, 10.0), (2, 3), (np.int64(1), np.inf), (np.array([1, 2, 3]), 50.0), (np.array([1, 2]), np.array([5, 500])), (1.0, 10)):
        run.case("integer_inputs", key=(str(w_), str(d_)))
        with warnings.catch_warnings():
            warnings.simplefilter("ignore")
            try:
                k = np.atleast_1d(np.asarray(ld.inverse_intrinsic_dispersion_relation(w_, d_), dtype=float))
                kf = np.atleast_1d(np.asarray(ld.inverse_intrinsic_dispersion_relation(np.asarray(w_, dtype=float) if np.ndim(w_) else float(w_),
                                                                                        np.asarray(d_, dtype=float) if np.ndim(d_) else float(d_)), dtype=float))
                cg = np.atleast_1d(np.asarray(ld.intrinsic_group_velocity(w_, d_), dtype=float))          # (w_ read as a wavenumber)
                cgf = np.atleast_1d(np.asarray(ld.intrinsic_group_velocity(np.asarray(w_, dtype=float) if np.ndim(w_) else float(w_),
                                                                           np.asarray(d_, dtype=float) if np.ndim(d_) else float(d_)), dtype=float))
            except Exception as ex:
                run.violation("an integer-typed frequency / wavenumber / depth is rejected", dict(w=str(w_), depth=str(d_), error=repr(ex)[:300]))
                continue
            if not np.allclose(k, kf, rtol=1e-12) or not np.allclose(cg, cgf, rtol=1e-12):
                run.violation("integer-typed inputs give other values than the same numbers as floats", dict(w=str(w_), depth=str(d_)))


def check_gravity(run, drv, ld, thorough):
    """another gravitational acceleration (Moon, Mars, feet, a lab fluid), by keyword and by position"""
    rng = run.rng
    for case in range(120 if thorough else 16):
        g = rng.choice([1.62, 3.71, 24.79, 32.17, 0.5])
        m = rng.choice([1, 3, 6])
        w = np.exp(np.array([rng.uniform(math.log(0.05), math.log(8.0)) for _ in range(m)]))
        d = np.array([rng.choice([np.inf, math.exp(rng.uniform(math.log(0.2), math.log(500.0)))]) for _ in range(m)])
        run.case("gravity", key=(case, g))
        with warnings.catch_warnings():
            warnings.simplefilter("ignore")
            if case % 2 == 0:
                k = np.asarray(ld.inverse_intrinsic_dispersion_relation(w.copy(), d.copy(), grav=g), dtype=float)
            else:
                k = np.asarray(ld.inverse_intrinsic_dispersion_relation(w.copy(), d.copy(), g), dtype=float)
        with np.errstate(all="ignore"):
            wk = np.where(np.isfinite(d), np.sqrt(g * k * np.tanh(k * np.where(np.isfinite(d), d, 1.0))), np.sqrt(g * k))
        info = dict(g=g, w=w.tolist(), depth=d.tolist(), k=k.tolist())
        if k.shape != (m,) or np.any(~(k > 0)) or np.any(~(np.abs(wk - w) <= 1e-3 * w)):
            run.violation("with another gravitational acceleration the wavenumber misses sqrt(g k tanh(k d)) = w", info)
            continue
        ans = drv.ask(f"disp solve {bits(g)} {bits(1e-3)} 10 " + " ".join(f"{bits(a)} {dep_tok(b)}" for a, b in zip(w, d)))
        km = np.array([from_bits(t) for t in ans.split(" | ")[0].split()])
        if np.nanmax(np.abs(km - k) / np.abs(k)) > 3e-3:
            run.mismatch("solve_gravity", dict(info, model=km.tolist()))
        cg = np.asarray(ld.intrinsic_group_velocity(k, d, g), dtype=float)
        wkk = np.asarray(ld.intrinsic_dispersion_relation(k, d, g), dtype=float)
        if not np.allclose(wkk, wk, rtol=1e-12) or np.any(~(cg > 0)) or np.any(cg > 1.0000001 * wk / k) or np.any(cg < 0.4999999 * wk / k):
            run.violation("with another gravitational acceleration dispersion relation / group velocity are inconsistent", info)


def check_spectrum(run, ld, thorough):
    from . import spectra as sp
    rng = run.rng
    for case in range(60 if thorough else 10):
        with warnings.catch_warnings():
            warnings.simplefilter("ignore")
            two_d = rng.random() < 0.3
            spec, meta = (sp.make_2d(rng, nan_rate=0.0) if two_d else sp.make_1d(rng, nan_rate=0.0))
            f = meta["f"]
            if f[0] == 0:
                continue
            depth = np.asarray(spec.dataset["depth"].values, dtype=float)
            dep = np.where(np.isnan(depth), np.inf, depth)
            k = np.asarray(spec.wavenumber.values, dtype=float)
            want_shape = tuple(meta["bshape"]) + (len(f),)
            run.case("spectrum_wavenumber", key=(case,))
            if k.shape != want_shape:
                run.violation("spectrum wavenumber array does not have shape (points..., frequency)", dict(got=k.shape, want=want_shape, layout=meta["layout"]))
                continue
            w = 2 * np.pi * f
            dd = dep.reshape(dep.shape + (1,)) * np.ones(len(f))
            with np.errstate(all="ignore"):
                wk = np.where(np.isfinite(dd), np.sqrt(G * k * np.tanh(k * np.where(np.isfinite(dd), dd, 1.0))), np.sqrt(G * k))
            if np.any(~(np.abs(wk - w) <= 1e-3 * w)):
                run.violation("a spectrum wavenumber misses the dispersion relation at its frequency and per-point depth (missing depth = deep)",
                              dict(layout=meta["layout"], depth=dep.tolist()))
            wl = np.asarray(spec.wavelength.values, dtype=float)
            ws = np.asarray(spec.wave_speed().values, dtype=float)
            cg = np.asarray(spec.group_velocity.values, dtype=float)
            if not np.allclose(wl, 2 * np.pi / k, rtol=1e-12) or not np.allclose(ws, w / k, rtol=1e-12):
                run.violation("wavelength / wave speed are not 2pi/k and w/k", dict(layout=meta["layout"]))
            ref = np.asarray(ld.intrinsic_group_velocity(k.reshape(-1), dd.reshape(-1)), dtype=float).reshape(k.shape)
            if cg.shape != k.shape or not np.allclose(cg, ref, rtol=1e-12):
                run.violation("spectrum group velocity is not the group-velocity function at (k, depth)", dict(layout=meta["layout"]))
            # the arrays follow the depth the spectrum has now: read, set the depth in place (survey data arriving later), read again
            run.case("spectrum_depth_updated", key=(case,))
            newdep = np.array([rng.choice([3.0, 12.0, 40.0, 400.0]) for _ in range(max(depth.size, 1))], dtype=float).reshape(depth.shape)
            spec["depth"] = (spec.dataset["depth"].dims, newdep) if depth.shape else float(newdep)
            k2 = np.asarray(spec.wavenumber.values, dtype=float)
            cg2 = np.asarray(spec.group_velocity.values, dtype=float)
            dd2 = newdep.reshape(newdep.shape + (1,)) * np.ones(len(f))
            with np.errstate(all="ignore"):
                wk2 = np.sqrt(G * k2 * np.tanh(k2 * dd2))
            if k2.shape != want_shape or np.any(~(np.abs(wk2 - w) <= 1e-3 * w)):
                run.violation("after the depth of a spectrum was set, its wavenumbers still belong to the old depth",
                              dict(layout=meta["layout"], old_depth=dep.tolist(), new_depth=newdep.tolist()))
            ref2 = np.asarray(ld.intrinsic_group_velocity(k2.reshape(-1), dd2.reshape(-1)), dtype=float).reshape(k2.shape)
            if cg2.shape != k2.shape or not np.allclose(cg2, ref2, rtol=1e-12):
                run.violation("after the depth of a spectrum was set, its group velocity is not the function at (k, new depth)", dict(layout=meta["layout"]))


def main(prop, tier, seed):
    run = common.Run(prop, tier, seed)
    aud = common.audit_with_spec(prop, ["C07Gen", "C04Gen"], thorough=(tier == "thorough"), arith=True)
    common.use_repo_source()
    from ocean_science_utilities.wavetheory import lineardispersion as ld
    thorough = tier == "thorough"
    drv = common.Driver()
    try:
        with common.guard(run, "solver"):
            check_solver(run, drv, ld, thorough)
        with common.guard(run, "point functions"):
            check_point_functions(run, drv, ld, thorough)
        with common.guard(run, "other gravity"):
            check_gravity(run, drv, ld, thorough)
        with common.guard(run, "integer-typed inputs"):
            check_integer_inputs(run, ld)
        with common.guard(run, "spectrum level"):
            check_spectrum(run, ld, thorough)
    finally:
        drv.close()
    return run.finish(aud, ASSUMPTIONS, RULE)
