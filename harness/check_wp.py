"""C08-C11: wind-wave source terms, joint rotation, roughness lengths, wind inversion."""
import math
import os
import sys
import warnings

import numpy as np

from . import common
from .numfmt import bits, from_bits
from . import wp

ASSUMPTIONS = [
    "wavenumber, group velocity and phase speed of the frequency bins are inputs of the source-term model; they are computed by "
    "the code's own dispersion functions (property C07 ties those to their model)",
    "Float model vs the jitted kernels at 1e-9 of the field scale (libm differences, summation order); solver outputs "
    "(roughness, U10) at 1e-6 / 1e-3 because an accept/reject or branch decision can differ in the last bit",
    "the model's U10 balance function restarts the roughness iteration from the Wu guess at every evaluation, the code from the "
    "previous roughness: both solve the same equation to 1e-6, so the balance values agree to the solver tolerance only",
    "floating-point powers with integer-valued exponents (cos**2, x**4, x**p1) are modelled as repeated multiplication",
    "existence/uniqueness of the roots and convergence of the solvers are sampled, not proved",
    "C11: 'vanishes to within the solver's 0.01 m/s step tolerance' is checked as a sign change of the independently evaluated "
    "balance within +-0.1 m/s of the returned U10 (the solver bounds its last step, under-relaxed and possibly Aitken-extrapolated, "
    "not the distance to the root; 0.032 m/s is observed on the unchanged tree)",
]

RULES = {
    "C08": ("seeded batches of 1..8 points: JONSWAP/PM wind seas, swell+sea mixtures, random non-negative spectra with zero bins, "
            "an empty spectrum, strictly positive spectra (Romero); nf 8..14, nd in {12,16,24}; U10 1..40 m/s or u* 0.05..1.5; all wind "
            "directions; deep/finite/mixed depth; 5 generation, 5 ST4 and 3 ST6 parameter sets; one case = one (batch, term); "
            "non-trivial unless empty"),
    "C09": ("every spectrum/wind family of C08 on N in {16,24,36} directions; every rotation k in 0..N-1 (thorough; 4 random k quick) "
            "and the mirror image; one case = one (point set, k)"),
    "C10": ("U in [0.1,80] log-uniform + NaNs, Charnock 0.005..0.04, with/without viscous term, python float / numpy scalar / "
            "array / 2D array / DataArray / 0-d DataArray; both solvers on test functions; Janssen roughness on C08 wind seas x winds "
            "with an independent 400-point scan of the balance on (e^-20,1); one case = one input set"),
    "C11": ("a deterministic sweep through the onset of breaking (12 seas), then JONSWAP wind seas with alpha 0.006..0.03 in all directions, deep/finite, st4/st4 and st4/st6, batches 1..4, with and "
            "without a rate-of-change spectrum; empty spectra (zero dissipation); one case = one batch"),
}

KINDS = ["jonswap", "pm", "mixed", "random", "jonswap", "random", "mixed", "empty"]


def rand_case(run, rng, nd_choices=(12, 16, 24), max_pts=8, kinds=None, allow_nonuniform=False):
    npts = rng.randint(1, max_pts)
    nf = rng.choice([8, 10, 14])
    nd = rng.choice(list(nd_choices))
    ks = kinds or [rng.choice(KINDS) for _ in range(npts)]
    depth_mode = rng.choice(["deep", "finite", "mixed"])
    nonuni = allow_nonuniform and rng.random() < 0.3
    spec, ths = wp.make_spectrum(rng, npts, nf, nd, ks, depth_mode, nonuniform_directions=nonuni)
    run.count("directions_nonuniform" if nonuni else "directions_uniform")
    use_ustar = rng.random() < 0.3
    if use_ustar:
        speed = np.array([rng.uniform(0.05, 1.5) for _ in range(npts)])
        wtype = rng.choice(["friction_velocity", "ustar"])
    else:
        speed = np.array([math.exp(rng.uniform(0, math.log(40))) for _ in range(npts)])
        wtype = "u10"
    # wind near the sea direction, or anywhere
    wdir = np.array([(ths[i] + rng.uniform(-60, 60)) % 360 if rng.random() < 0.6 else rng.uniform(-360, 720) for i in range(npts)])
    run.count("depth_" + depth_mode)
    run.count("wind_" + wtype)
    for k in ks:
        run.count("spectrum_" + k)
    return spec, ths, speed, wdir, wtype, ks, depth_mode


def charnock_like(speed, wtype, rng):
    """a plausible fixed roughness length per point"""
    out = []
    for s in speed:
        us = s if wtype != "u10" else 0.04 * s
        out.append(max(1e-5, 0.0144 * us * us / wp.G * rng.uniform(0.5, 3.0)))
    return np.array(out)


# ------------------------------------------------------------------------------------------
# C08
# ------------------------------------------------------------------------------------------

def c08(run, drv, rng, ncases):
    from ocean_science_utilities.wavephysics.balance.balance import SourceTermBalance
    for case in range(ncases):
        with common.guard(run, f"C08 case {case}"), warnings.catch_warnings():
            warnings.simplefilter("ignore")
            spec, ths, speed, wdir, wtype, ks, depth_mode = rand_case(run, rng, allow_nonuniform=True)
            gv = rng.choice(wp.GEN_VARIANTS)
            gen, gp = wp.generation(gv)
            dkind = rng.choice(["st4", "st4", "st6"])
            dv = rng.choice(wp.ST4_VARIANTS if dkind == "st4" else wp.ST6_VARIANTS)
            dis, dp = wp.dissipation(dkind, dv)
            E = spec.variance_density.values
            npts, nf, nd = E.shape
            z0 = charnock_like(speed, wtype, rng)
            info = dict(kinds=ks, depth=depth_mode, wind_type=wtype, speed=speed.tolist(), direction=wdir.tolist(), nf=nf, nd=nd,
                        generation=gv, dissipation=[dkind, dv])
            df = spec.frequency_step.values
            dth = spec.direction_step.values
            th = spec.radian_direction.values
            # ---- wind input at fixed roughness
            run.case("input", key=(case, "input"), nontrivial=any(k != "empty" for k in ks))
            S = gen.rate(spec, wp.da(speed), wp.da(wdir), roughness_length=wp.da(z0), wind_speed_input_type=wtype).values
            if np.any(np.isnan(S)) or np.any(S < 0):
                run.violation("the wind-input term is negative or NaN somewhere", dict(info, min=float(np.nanmin(S)), nans=int(np.isnan(S).sum())))
            if np.any(S[E == 0] != 0):
                run.violation("wind input is not zero in a bin without energy", info)
            for i in range(npts):
                cosm = np.cos(th - math.radians(wdir[i]))
                off = cosm < -1e-12
                if np.any(S[i][:, off] != 0):
                    run.violation("wind input is not zero in a direction with no downwind component", dict(info, point=i))
                on = (cosm > 1e-12)
                if np.any((S[i][:, on] == 0) & (E[i][:, on] > 0)) and speed[i] > 0:
                    # growth can legitimately underflow to zero for very slow winds; only flag when the model disagrees
                    run.count("zero_growth_bins")
            c = rng.choice([0.25, 3.0, 10.0])
            S2 = gen.rate(wp.with_density(spec, c * E), wp.da(speed), wp.da(wdir), roughness_length=wp.da(z0), wind_speed_input_type=wtype).values
            # (values in the denormal range, where growth rates underflow, carry no relative precision)
            if not np.allclose(S2, c * S, rtol=1e-12, atol=1e-280):
                run.violation("at fixed roughness length the wind input is not proportional to the variance density", dict(info, c=c))
            Sb = gen.bulk_rate(spec, wp.da(speed), wp.da(wdir), roughness_length=wp.da(z0), wind_speed_input_type=wtype).values
            want = np.einsum("pfd,f,d->p", S, df, dth)
            if not np.allclose(Sb, want, rtol=1e-10, atol=1e-300):
                run.violation("the bulk wind-input rate is not the frequency-direction integral of the spectral rate",
                              dict(info, bulk=Sb.tolist(), integral=want.tolist()))
            # ---- the same with the roughness the code computes itself (either wind type)
            if case % 2 == 0:
                run.case("input_own_roughness", key=(case, wtype))
                Sr = gen.rate(spec, wp.da(speed), wp.da(wdir), wind_speed_input_type=wtype).values
                Sbr = gen.bulk_rate(spec, wp.da(speed), wp.da(wdir), wind_speed_input_type=wtype).values
                okr = np.isfinite(Sbr) & np.all(np.isfinite(Sr), axis=(1, 2))
                wantr = np.einsum("pfd,f,d->p", np.nan_to_num(Sr), df, dth)
                if not np.allclose(Sbr[okr], wantr[okr], rtol=1e-6, atol=1e-300):
                    run.violation("the bulk wind-input rate (roughness from the stress balance) is not the integral of the spectral rate",
                                  dict(info, bulk=Sbr.tolist(), integral=wantr.tolist()))
                if np.any(Sr[np.isfinite(Sr)] < 0):
                    run.violation("the wind-input term (roughness from the stress balance) is negative", info)
            # ---- dissipation
            run.case("dissipation", key=(case, dkind), nontrivial=any(k != "empty" for k in ks))
            D = dis.rate(spec).values
            if np.any(np.isnan(D)) or np.any(D > 0):
                run.violation("whitecapping dissipation is positive or NaN somewhere", dict(info, max=float(np.nanmax(D)), nans=int(np.isnan(D).sum())))
            if np.any(D[E == 0] != 0):
                run.violation("dissipation is not zero in a bin without energy", info)
            for i in range(npts):
                if ks[i % len(ks)] == "empty" and np.any(D[i] != 0):
                    run.violation("dissipation of an empty spectrum is not identically zero", dict(info, point=i))
            Db = dis.bulk_rate(spec).values
            Ddir = dis.mean_direction_degrees(spec).values
            # independent dissipation-weighted wavenumber direction from the spectral rate
            for i in range(npts):
                if Db[i] < 0:
                    kk = wp.kinematics(spec, i, False)[0]
                    kx = -np.einsum("f,d,fd,f,d->", kk, np.cos(th), D[i], df, dth)
                    ky = -np.einsum("f,d,fd,f,d->", kk, np.sin(th), D[i], df, dth)
                    wantdir = math.degrees(math.atan2(ky, kx)) % 360
                    if abs(wp.ang_diff(Ddir[i], wantdir)) > 1e-6:
                        run.violation("the dissipation-weighted mean wave direction is not the direction of the dissipation-weighted wavenumber vector",
                                      dict(info, point=i, got=float(Ddir[i]), want=wantdir))
            want = np.einsum("pfd,f,d->p", D, df, dth)
            if not np.allclose(Db, want, rtol=1e-10, atol=1e-300):
                run.violation("the bulk dissipation rate is not the frequency-direction integral of the spectral rate",
                              dict(info, bulk=Db.tolist(), integral=want.tolist()))
            # ---- the terms of a spectrum do not depend on what the same objects were used for before:
            # evaluate another spectrum of the same shape on a different grid first, then this one again
            if case % 2 == 1:
                run.case("object_reuse", key=(case,))
                ds2 = spec.dataset.copy(deep=True)
                f_old = ds2["frequency"].values
                ds2 = ds2.assign_coords(frequency=f_old[0] * (f_old[-1] / f_old[0] * 1.3) ** (np.arange(nf) / max(nf - 1, 1)),
                                        direction=np.sort((ds2["direction"].values + 187.0) % 360))
                from ocean_science_utilities.wavespectra.spectrum import FrequencyDirectionSpectrum
                other = FrequencyDirectionSpectrum(ds2)
                gen2, _ = wp.generation(gv)
                dis2, _ = wp.dissipation(dkind, dv)
                gen2.rate(other, wp.da(speed), wp.da(wdir), roughness_length=wp.da(z0), wind_speed_input_type=wtype)
                gen2.bulk_rate(other, wp.da(speed), wp.da(wdir), roughness_length=wp.da(z0), wind_speed_input_type=wtype)
                dis2.rate(other)
                dis2.bulk_rate(other)
                S_again = gen2.rate(spec, wp.da(speed), wp.da(wdir), roughness_length=wp.da(z0), wind_speed_input_type=wtype).values
                Sb_again = gen2.bulk_rate(spec, wp.da(speed), wp.da(wdir), roughness_length=wp.da(z0), wind_speed_input_type=wtype).values
                D_again, Db_again = dis2.rate(spec).values, dis2.bulk_rate(spec).values
                if not (np.array_equal(S_again, S) and np.array_equal(Sb_again, Sb) and np.array_equal(D_again, D) and np.array_equal(Db_again, Db)):
                    run.violation("source terms of a spectrum depend on the grid of the spectrum the same term object evaluated before "
                                  "(rates no longer use the spectrum's own directions and bin widths)",
                                  dict(info, other_frequency=ds2["frequency"].values.tolist(), other_direction=ds2["direction"].values.tolist()))
            # ---- a term object whose parameters are updated between two evaluations of the same spectrum object
            if case % 3 == 1:
                run.case("term_object_after_update_parameters", key=(case, dkind))
                others = [v for v in (wp.ST4_VARIANTS if dkind == "st4" else wp.ST6_VARIANTS) if v and v != dv]
                newv = rng.choice(others)
                dis3, _ = wp.dissipation(dkind, dv)
                dis3.rate(spec)
                dis3.update_parameters(newv)
                Db3 = dis3.bulk_rate(spec).values             # asked before any new rate() call
                D3 = dis3.rate(spec).values
                fresh, _ = wp.dissipation(dkind, dict(dv, **newv))
                Dfr, Dbfr = fresh.rate(spec).values, fresh.bulk_rate(spec).values
                if not (np.array_equal(D3, Dfr, equal_nan=True) and np.allclose(Db3, Dbfr, rtol=1e-12, atol=0, equal_nan=True)):
                    run.violation("after update_parameters a dissipation term does not return what a fresh term with those parameters returns "
                                  "(bulk rate no longer the integral of the spectral rate for the present parameters)",
                                  dict(info, updated=newv, bulk=Db3.tolist(), fresh_bulk=Dbfr.tolist()))
            # ---- a supplied roughness with one missing element: the other points keep their supplied value
            if npts >= 2 and case % 3 == 2:
                run.case("roughness_with_missing_element", key=(case,))
                z_part = z0.copy()
                jm = rng.randrange(npts)
                z_part[jm] = np.nan
                Sp = gen.rate(spec, wp.da(speed), wp.da(wdir), roughness_length=wp.da(z_part), wind_speed_input_type=wtype).values
                keep = np.arange(npts) != jm
                if not wp.close(Sp[keep], S[keep], 1e-12):
                    run.violation("a missing element in the supplied roughness changes the wind input of the other points of the batch",
                                  dict(info, missing_point=int(jm)))
            # ---- a missing depth means deep water, for the spectral and for the bulk rates
            if depth_mode == "deep" and case % 3 == 1:
                run.case("missing_depth_is_deep", key=(case,))
                unknown = wp.with_density(spec, E, depth=np.full(npts, np.nan))
                Du, Dbu = dis.rate(unknown).values, dis.bulk_rate(unknown).values
                Sbu = gen.bulk_rate(unknown, wp.da(speed), wp.da(wdir), roughness_length=wp.da(z0), wind_speed_input_type=wtype).values
                if not (wp.close(Du, D, 1e-12) and np.allclose(Dbu, Db, rtol=1e-12, atol=1e-300, equal_nan=True)
                        and np.allclose(Sbu, Sb, rtol=1e-12, atol=1e-300, equal_nan=True)):
                    run.violation("a spectrum with missing depth does not get the deep-water source terms (spectral and bulk)",
                                  dict(info, bulk_dissipation=Dbu.tolist(), deep_water=Db.tolist()))
                if not np.allclose(Dbu, np.einsum("pfd,f,d->p", Du, df, dth), rtol=1e-10, atol=1e-300):
                    run.violation("missing depth: the bulk dissipation rate is not the frequency-direction integral of the spectral rate",
                                  dict(info, bulk=Dbu.tolist()))
            # ---- batch = single
            for i in rng.sample(range(npts), min(2, npts)):
                one = wp.subset(spec, [i])
                S1 = gen.rate(one, wp.da([speed[i]]), wp.da([wdir[i]]), roughness_length=wp.da([z0[i]]), wind_speed_input_type=wtype).values[0]
                D1 = dis.rate(one).values[0]
                B1 = gen.bulk_rate(one, wp.da([speed[i]]), wp.da([wdir[i]]), roughness_length=wp.da([z0[i]]), wind_speed_input_type=wtype).values[0]
                if not (np.array_equal(S1, S[i]) and np.array_equal(D1, D[i]) and B1 == Sb[i] and dis.bulk_rate(one).values[0] == Db[i]):
                    run.violation("a point of a batch does not get the result it gets alone", dict(info, point=i))
            # ---- imbalance (roughness from the stress balance: may be NaN)
            if case % 3 == 0 and wtype == "u10":
                bal = SourceTermBalance(gen, dis)
                dEdt = wp.with_density(spec, np.array([[[rng.uniform(-1, 1) * 1e-6 for _ in range(nd)] for _ in range(nf)] for _ in range(npts)]))
                z = gen.roughness(wp.da(speed), wp.da(wdir), spec).values
                Sr = gen.rate(spec, wp.da(speed), wp.da(wdir)).values
                for tds in (None, dEdt):
                    run.case("imbalance", key=(case, tds is None))
                    im = bal.evaluate_imbalance(wp.da(speed), wp.da(wdir), spec, tds).values
                    wantim = Sr + D - (0.0 if tds is None else tds.variance_density.values)
                    ok = ~np.isnan(z)
                    if not np.allclose(im[ok], wantim[ok], rtol=1e-12, atol=1e-300, equal_nan=True):
                        run.violation("the source-term imbalance is not generation + dissipation - supplied rate of change", dict(info, with_rate=tds is not None))
                    bim = bal.evaluate_bulk_imbalance(wp.da(speed), wp.da(wdir), spec, tds).values
                    wantb = np.einsum("pfd,f,d->p", Sr, df, dth) + Db - (0.0 if tds is None else tds.m0().values)
                    if not np.allclose(bim[ok], wantb[ok], rtol=1e-9, atol=1e-300, equal_nan=True):
                        run.violation("the bulk imbalance is not bulk generation + bulk dissipation - m0 of the rate of change",
                                      dict(info, got=bim.tolist(), want=wantb.tolist(), with_rate=tds is not None))
                    if np.any(Sr[ok] < 0):
                        run.violation("the wind-input term (roughness from the stress balance) is negative", info)
            # ---- Romero on strictly positive spectra
            if case % 4 == 0:
                sp2, _ = wp.make_spectrum(rng, rng.randint(1, 3), nf, nd, ["positive"], depth_mode)
                rom, _ = wp.dissipation("romero", {})
                run.case("romero", key=(case,))
                R = rom.rate(sp2).values
                if np.any(np.isnan(R)) or np.any(R > 0):
                    run.violation("Romero dissipation is positive or NaN on a strictly positive spectrum", dict(nf=nf, nd=nd))
                Rb = rom.bulk_rate(sp2).values
                if not np.allclose(Rb, np.einsum("pfd,f,d->p", R, sp2.frequency_step.values, sp2.direction_step.values), rtol=1e-10):
                    run.violation("Romero bulk rate is not the integral of its spectral rate", dict(nf=nf, nd=nd))
            # ---- correspondence with the Lean model, point by point
            for i in rng.sample(range(npts), min(2, npts)):
                drv.ask(wp.ctx_line(spec, i, gp, True))
                t = "u10" if wtype == "u10" else "ustar"
                m = wp.floats_of(drv.ask(f"st in {bits(speed[i])} {bits(wdir[i])} {t} {bits(z0[i])}")).reshape(nf, nd)
                run.case("corr_input", key=(case, i))
                if not wp.close(S[i], m, 1e-9):
                    run.mismatch("st4_wind_input", dict(info, point=i, max_abs=float(np.nanmax(np.abs(S[i] - m)))))
                mb = from_bits(drv.ask(f"st bulkin {bits(speed[i])} {bits(wdir[i])} {t} {bits(z0[i])}"))
                if not wp.close([Sb[i]], [mb], 1e-9):
                    run.mismatch("bulk_wind_input", dict(info, point=i, impl=float(Sb[i]), model=mb))
                drv.ask(wp.ctx_line(spec, i, gp, False))
                run.case("corr_dissipation", key=(case, i, dkind))
                if dkind == "st4":
                    ans = drv.ask("st diss4 " + wp.L(wp.brk_list(dp)))
                else:
                    ans = drv.ask("st diss6 " + wp.L(wp.st6_list(dp)))
                v = wp.floats_of(ans)
                if not wp.close(D[i], v[2:].reshape(nf, nd), 1e-9):
                    run.mismatch(dkind + "_dissipation", dict(info, point=i, max_abs=float(np.nanmax(np.abs(D[i] - v[2:].reshape(nf, nd))))))
                if not wp.close([Db[i]], [v[0]], 1e-9):
                    run.mismatch("bulk_dissipation", dict(info, point=i, impl=float(Db[i]), model=float(v[0])))
                if Db[i] < 0 and abs(wp.ang_diff(Ddir[i], v[1])) > 1e-6:
                    run.mismatch("dissipation_direction", dict(info, point=i, impl=float(Ddir[i]), model=float(v[1])))
            if case < 3:
                run.sample(dict(info, bulk_input=Sb.tolist(), bulk_dissipation=Db.tolist()))


# ------------------------------------------------------------------------------------------
# C09
# ------------------------------------------------------------------------------------------

def c09(run, drv, rng, ncases, all_k):
    from ocean_science_utilities.wavephysics.balance.balance import SourceTermBalance
    from ocean_science_utilities.wavephysics.balance.wind_inversion import windspeed_and_direction_from_spectra
    for case in range(ncases):
        with common.guard(run, f"C09 case {case}"), warnings.catch_warnings():
            warnings.simplefilter("ignore")
            iterate = case % 4 == 1        # inversion with the wind direction iterated, on seas that are not mirror-symmetric
            kinds_ = [rng.choice(["jonswap", "pm", "mixed", "random"]) for _ in range(3)]
            spec, ths, speed, wdir, wtype, ks, depth_mode = rand_case(run, rng, nd_choices=(16, 24, 36), max_pts=3,
                                                                      kinds=["veering"] * 3 if iterate else kinds_)
            npts = spec.variance_density.shape[0]
            ks = ks[:npts]
            rng.choice(wp.GEN_VARIANTS)                                   # (keeps the random stream of earlier versions)
            gen, gp = wp.generation(wp.GEN_VARIANTS[case % len(wp.GEN_VARIANTS)])      # every parameter set, also in the quick tier
            dkind = rng.choice(["st4", "st6"])
            dis, dp = wp.dissipation(dkind, rng.choice(wp.ST4_VARIANTS[:3] if dkind == "st4" else wp.ST6_VARIANTS[:2]))
            # steepen the seas until every point breaks: an identically zero dissipation field tests nothing
            for _ in range(4):
                Db0 = dis.bulk_rate(spec).values
                if np.all(Db0 < 0):
                    break
                spec = wp.with_density(spec, spec.variance_density.values * np.where(Db0 < 0, 1.0, 2.0)[:, None, None])
            run.count("points_with_breaking", int(np.sum(dis.bulk_rate(spec).values < 0)))
            run.count("points_without_breaking", int(np.sum(dis.bulk_rate(spec).values == 0)))
            E = spec.variance_density.values
            nd = E.shape[2]
            binw = 360.0 / nd
            run.count(f"N_{nd}")
            z0 = charnock_like(speed, wtype, rng)
            info = dict(kinds=ks, depth=depth_mode, wind_type=wtype, speed=speed.tolist(), direction=wdir.tolist(), nd=nd, dissipation=dkind)

            def evaluate(sp_, wd_, with_inversion):
                out = {}
                out["S"] = gen.rate(sp_, wp.da(speed), wp.da(wd_), roughness_length=wp.da(z0), wind_speed_input_type=wtype).values
                out["Sb"] = gen.bulk_rate(sp_, wp.da(speed), wp.da(wd_), roughness_length=wp.da(z0), wind_speed_input_type=wtype).values
                out["D"] = dis.rate(sp_).values
                out["Db"] = dis.bulk_rate(sp_).values
                out["Ddir"] = dis.mean_direction_degrees(sp_).values
                st = gen.stress(sp_, wp.da(speed), wp.da(wd_), roughness_length=wp.da(z0), wind_speed_input_type=wtype)
                out["tau"], out["taudir"] = st["stress"].values, st["direction"].values
                out["z0"] = gen.roughness(wp.da(speed), wp.da(wd_), sp_, wind_speed_input_type=wtype).values
                if with_inversion:
                    inv = windspeed_and_direction_from_spectra(SourceTermBalance(gen, dis), wp.da(np.full(npts, 10.0)), sp_,
                                                               direction_iteration=iterate)
                    out["u10"], out["u10dir"] = inv["u10"].values, inv["direction"].values
                return out

            with_inv = case % 4 in (0, 1)
            if iterate:
                run.count("inversions_with_direction_iteration")
            base = evaluate(spec, wdir, with_inv)
            klist = list(range(nd)) if all_k else sorted(set([0, 1, nd - 1] + [rng.randrange(nd) for _ in range(2)]))
            inv_ks = set(klist if all_k and iterate else klist[:2])
            if iterate and with_inv and "u10dir" in base and base["u10dir"][0] == base["u10dir"][0]:
                # aim rotations at the seam: the iterated wind direction of the first point lands just below / above 0 = 360
                kk = int(round((360.0 - float(base["u10dir"][0])) / binw)) % nd
                seam = [kk, (kk - 1) % nd, (kk + 1) % nd]
                klist = sorted(set(klist + seam))
                inv_ks |= set(seam)
                run.count("rotations_aimed_at_the_seam", len(seam))
            for k in klist + ["mirror"]:
                run.case("rotation" if k != "mirror" else "mirror", key=(case, k))
                if k == "mirror":
                    idx = (-np.arange(nd)) % nd
                    Er = E[:, :, idx]
                    wr = -wdir
                    back = lambda F: F[:, :, idx]
                    ang = lambda a: -a
                else:
                    Er = np.roll(E, k, axis=2)
                    wr = wdir + k * binw
                    back = lambda F, k=k: np.roll(F, -k, axis=2)
                    ang = lambda a, k=k: a - k * binw
                got = evaluate(wp.with_density(spec, Er), wr, with_inv and (k == "mirror" or k in inv_ks))
                what = dict(info, transform=k)
                if not wp.close(back(got["S"]), base["S"], 1e-9):
                    run.violation("the wind-input field does not rotate / mirror with the spectrum and wind", what)
                if not wp.close(back(got["D"]), base["D"], 1e-9):
                    run.violation("the dissipation field does not rotate / mirror with the spectrum", what)
                if not np.allclose(got["Sb"], base["Sb"], rtol=1e-9, atol=1e-300) or not np.allclose(got["Db"], base["Db"], rtol=1e-9, atol=1e-300):
                    run.violation("bulk rates change under a joint rotation / mirroring", what)
                if not np.allclose(got["tau"], base["tau"], rtol=1e-9, atol=1e-300, equal_nan=True):
                    run.violation("the stress magnitude changes under a joint rotation / mirroring", what)
                ok = ~np.isnan(base["taudir"]) & (base["tau"] > 0)
                if np.any(np.abs(wp.ang_diff(ang(got["taudir"][ok]), base["taudir"][ok])) > 1e-6):
                    run.violation("the stress direction does not shift with the rotation / negate with the mirroring (mod 360)", what)
                okd = base["Db"] < 0
                if np.any(np.abs(wp.ang_diff(ang(got["Ddir"][okd]), base["Ddir"][okd])) > 1e-6):
                    run.violation("the dissipation-weighted wave direction does not shift with the rotation / negate with the mirroring", what)
                for name in ("taudir", "Ddir"):
                    a = got[name][~np.isnan(got[name])]
                    if np.any((a < 0) | (a >= 360)):
                        run.violation("a direction is reported outside [0, 360)", dict(what, which=name))
                zb, zg = base["z0"], got["z0"]
                both = ~np.isnan(zb) & ~np.isnan(zg)
                if np.any(np.isnan(zb) != np.isnan(zg)):
                    run.count("roughness_nan_pattern_differs")
                if not np.allclose(zg[both], zb[both], rtol=1e-5, atol=0):
                    run.violation("the roughness length changes under a joint rotation / mirroring", dict(what, base=zb.tolist(), got=zg.tolist()))
                if "u10" in got and "u10" in base:
                    ub, ug = base["u10"], got["u10"]
                    both = ~np.isnan(ub) & ~np.isnan(ug)
                    lost = ~np.isnan(ub) & (ub > 0) & np.isnan(ug) & (base["Db"] < -1e-6)     # (the recorded finding lives below 1e-6)
                    if iterate and np.any(lost):
                        run.violation("a sea that gets a wind estimate gets none after a joint rotation / mirroring (direction iteration)",
                                      dict(what, base=ub.tolist(), got=ug.tolist(), base_dir=base["u10dir"].tolist(), got_dir=got["u10dir"].tolist()))
                    # (iterated: the 1-degree and 10-degree switches of the direction update can fall either way on rounding)
                    if not np.allclose(ug[both], ub[both], rtol=0, atol=0.1 if iterate else 0.03):
                        run.violation("the estimated wind speed changes under a joint rotation / mirroring", dict(what, base=ub.tolist(), got=ug.tolist()))
                    both = both & (base["Db"] < 0)      # no dissipation: U10 = 0 and the direction of a zero vector means nothing
                    if np.any(np.abs(wp.ang_diff(ang(got["u10dir"][both]), base["u10dir"][both])) > (1.5 if iterate else 1e-6)):
                        run.violation("the estimated wind direction does not shift with the rotation / negate with the mirroring",
                                      dict(what, base_dir=base["u10dir"].tolist(), got_dir=got["u10dir"].tolist(), base_u10=ub.tolist(), got_u10=ug.tolist(),
                                           base_ddir=base["Ddir"].tolist(), got_ddir=got["Ddir"].tolist(), bulk_dissipation=base["Db"].tolist()))
            # the same rotation written as a relabelling of the direction axis (density untouched, storage order crossing 360
            # somewhere - for k = nd - 1 between the first two entries): fields unchanged, angles shifted
            for k in sorted(set([nd - 1, 1, rng.randrange(1, nd)])):
                run.case("rotation_by_relabelling", key=(case, k))
                ds_r = spec.dataset.copy(deep=True).assign_coords(direction=(spec.dataset["direction"].values + k * binw) % 360.0)
                from ocean_science_utilities.wavespectra.spectrum import FrequencyDirectionSpectrum
                got = evaluate(FrequencyDirectionSpectrum(ds_r), wdir + k * binw, False)
                what = dict(info, transform=f"relabel {k}")
                if not wp.close(got["S"], base["S"], 1e-9) or not wp.close(got["D"], base["D"], 1e-9):
                    run.violation("relabelling the direction axis by k bins (and turning the wind) changes the source-term fields", what)
                if not np.allclose(got["Sb"], base["Sb"], rtol=1e-9, atol=1e-300) or not np.allclose(got["Db"], base["Db"], rtol=1e-9, atol=1e-300) \
                        or not np.allclose(got["tau"], base["tau"], rtol=1e-9, atol=1e-300, equal_nan=True):
                    run.violation("relabelling the direction axis by k bins changes bulk rates or the stress magnitude", what)
                ok = ~np.isnan(base["taudir"]) & (base["tau"] > 0)
                okd = base["Db"] < 0
                if np.any(np.abs(wp.ang_diff(got["taudir"][ok] - k * binw, base["taudir"][ok])) > 1e-6) or \
                        np.any(np.abs(wp.ang_diff(got["Ddir"][okd] - k * binw, base["Ddir"][okd])) > 1e-6):
                    run.violation("relabelling the direction axis by k bins does not shift the stress / dissipation-weighted direction by k bins",
                                  dict(what, base=base["Ddir"].tolist(), got=got["Ddir"].tolist()))
                zb, zg = base["z0"], got["z0"]
                both = ~np.isnan(zb) & ~np.isnan(zg)
                if not np.allclose(zg[both], zb[both], rtol=1e-5, atol=0):
                    run.violation("relabelling the direction axis changes the roughness length", what)
            # one batch whose members are rotations of each other, each with its own wind direction
            if case % 2 == 0:
                run.case("batch_of_rotations", key=(case,))
                ks = [0, 1 + rng.randrange(nd - 1), 1 + rng.randrange(nd - 1)]
                Eb = np.array([np.roll(E[0], kk, axis=1) for kk in ks])
                spb = wp.with_density(wp.subset(spec, [0, 0, 0]), Eb)
                wb = np.array([wdir[0] + kk * binw for kk in ks])
                sp3, z3 = np.full(3, speed[0]), np.full(3, z0[0])
                Sb3 = gen.rate(spb, wp.da(sp3), wp.da(wb), roughness_length=wp.da(z3), wind_speed_input_type=wtype).values
                Db3 = dis.rate(spb).values
                bulk3 = gen.bulk_rate(spb, wp.da(sp3), wp.da(wb), roughness_length=wp.da(z3), wind_speed_input_type=wtype).values
                for j, kk in enumerate(ks):
                    if not wp.close(np.roll(Sb3[j], -kk, axis=1), Sb3[0], 1e-9) or not wp.close(np.roll(Db3[j], -kk, axis=1), Db3[0], 1e-9) \
                            or not np.allclose(bulk3[j], bulk3[0], rtol=1e-9, atol=1e-300):
                        run.violation("members of one batch that are rotations of each other (each with its own wind direction) do not get rotated fields / equal bulk rates",
                                      dict(info, member=j, k=kk))
            # correspondence of the stress vector for one point
            i = rng.randrange(npts)
            drv.ask(wp.ctx_line(spec, i, gp, True))
            t = "u10" if wtype == "u10" else "ustar"
            ans = drv.ask(f"st stress {bits(speed[i])} {bits(wdir[i])} {t} {bits(z0[i])}")
            run.case("corr_stress", key=(case, i))
            if ans != "raised":
                v = wp.floats_of(ans)
                if not wp.close([base["tau"][i]], [v[0]], 1e-8) or (v[0] > 0 and abs(wp.ang_diff(base["taudir"][i], v[1])) > 1e-6):
                    run.mismatch("total_stress", dict(info, point=i, impl=[float(base["tau"][i]), float(base["taudir"][i])], model=v.tolist()))
            else:
                run.count("model_tail_raised")
            if case < 3:
                run.sample(dict(info, stress=base["tau"].tolist(), stress_direction=base["taudir"].tolist(), transforms=[str(k) for k in klist] + ["mirror"]))


# ------------------------------------------------------------------------------------------
# C10
# ------------------------------------------------------------------------------------------

TESTFN = {
    "lin": lambda a, b: (lambda x: a * x + b),
    "cubic": lambda a, b: (lambda x: x * x * x + a * x + b),
    "exp": lambda a, b: (lambda x: math.exp(a * x) + b),
    "quad": lambda a, b: (lambda x: x * x + a * x + b),
    "tanh": lambda a, b: (lambda x: math.tanh(a * (x - b))),
    "abs3": lambda a, b: (lambda x: abs(x) * x * x + a * x + b),
    "sinfp": lambda a, b: (lambda x: a + b * np.sin(x)),
}


def c10_solvers(run, drv, rng, ncases):
    import numba
    from ocean_science_utilities.wavephysics.balance.solvers import numba_newton_raphson
    from ocean_science_utilities.tools.solvers import fixed_point_iteration, Configuration

    jitted = {}

    def fn(name):
        if name not in jitted:
            if name == "lin":
                f = numba.njit(lambda x, a, b: a * x + b)
            elif name == "cubic":
                f = numba.njit(lambda x, a, b: x * x * x + a * x + b)
            elif name == "exp":
                f = numba.njit(lambda x, a, b: np.exp(a * x) + b)
            elif name == "quad":
                f = numba.njit(lambda x, a, b: x * x + a * x + b)
            elif name == "tanh":
                f = numba.njit(lambda x, a, b: np.tanh(a * (x - b)))
            else:
                f = numba.njit(lambda x, a, b: np.abs(x) * x * x + a * x + b)
            jitted[name] = f
        return jitted[name]

    for case in range(ncases):
        name = rng.choice(["lin", "cubic", "exp", "quad", "tanh", "abs3"])
        a = rng.choice([-2.0, -0.5, 0.5, 1.0, 3.0])
        b = rng.choice([-3.0, -1.0, -0.25, 0.0, 0.5, 2.0])
        guess = rng.choice([-2.0, -0.3, 0.1, 1.0, 2.5, 6.0])
        lo, hi = rng.choice([(None, None), (-10.0, 10.0), (0.0, None), (-20.0, 0.0), (-1.0, 1.0)])
        if lo is not None and guess < lo:
            guess = lo + 0.5
        if hi is not None and guess > hi:
            guess = hi - 0.5
        aitken = rng.random() < 0.5
        atol, rtol = rng.choice([(1e-4, 1e-4), (1e-6, 1e-6), (1e-2, 1.0)])
        rel = rng.random() < 0.2
        err = rng.random() < 0.7
        maxit = rng.choice([100, 100, 12])
        hb = (-np.inf if lo is None else lo, np.inf if hi is None else hi)
        run.case("newton_raphson", key=(case,))
        run.count("nr_" + name)
        try:
            got = numba_newton_raphson(fn(name), guess, (a, b), hb, maxit, aitken, atol, rtol, 1e-4, False, err, rel, "", 0.9)
            got_s = got
        except Exception:
            got_s = None
        ans = drv.ask(f"solv nr {name} {bits(a)} {bits(b)} {bits(guess)} {'none' if lo is None else bits(lo)} {'none' if hi is None else bits(hi)} "
                      f"{maxit} {int(aitken)} {bits(atol)} {bits(rtol)} {bits(1e-4)} {int(err)} {int(rel)} {bits(0.9)}")
        want = None if ans == "raised" else from_bits(ans)
        info = dict(function=name, a=a, b=b, guess=guess, bounds=[lo, hi], aitken=aitken, atol=atol, rtol=rtol, relative=rel,
                    error_on_max_iter=err, max_iterations=maxit)
        run.count("nr_raised" if got_s is None else "nr_returned")
        same = (got_s is None and want is None) or (got_s is not None and want is not None and
                                                    ((got_s != got_s and want != want) or abs(got_s - want) <= 1e-9 * (1 + abs(want))))
        if not same:
            run.mismatch("numba_newton_raphson", dict(info, impl=got_s, model=want))
        # a-posteriori: a returned value is a root to the step tolerance times the local slope
        if got_s is not None and got_s == got_s:
            f = TESTFN[name](a, b)
            try:
                fx = f(got_s)
                slope = max(abs(f(got_s + 1e-6) - f(got_s - 1e-6)) / 2e-6, 1e-12)
                if maxit == 100 and err and abs(fx) > 50 * max(atol, 1e-9) * slope * (1 + abs(got_s)) + 1e-9:
                    run.count("nr_returned_far_from_root")
            except OverflowError:
                pass
        # fixed point iteration on a vector, mixed with NaN
        if case % 2 == 0:
            fa, fb = rng.choice([(6.28, 1.0), (1.0, 0.5), (0.3, -0.8), (2.0, 0.9)])
            gs = np.array([rng.choice([float("nan"), rng.uniform(-3, 9)]) if rng.random() < 0.2 else rng.uniform(-3, 9) for _ in range(rng.randint(1, 6))])
            ait = rng.random() < 0.6
            flo, fhi = rng.choice([(None, None), (0.0, None), (-1.0, 7.0)])
            cfg = Configuration(aitken_acceleration=ait, max_iter=rng.choice([100, 7]))
            run.case("fixed_point", key=(case,))
            got = fixed_point_iteration(lambda x: fa + fb * np.sin(x), gs.copy(), bounds=(-np.inf if flo is None else flo, np.inf if fhi is None else fhi),
                                        configuration=cfg)
            ans = drv.ask(f"solv fp sinfp {bits(fa)} {bits(fb)} {'none' if flo is None else bits(flo)} {'none' if fhi is None else bits(fhi)} "
                          f"{cfg.max_iter} {int(ait)} {bits(1e-4)} {bits(1e-4)} " + " ".join("nan" if g != g else bits(g) for g in gs))
            want = wp.floats_of(ans)
            if not wp.close(np.asarray(got, float), want, 1e-9, scale=1.0):
                run.mismatch("fixed_point_iteration", dict(a=fa, b=fb, guess=gs.tolist(), bounds=[flo, fhi], aitken=ait, max_iter=cfg.max_iter,
                                                           impl=np.asarray(got).tolist(), model=want.tolist()))


def c10_charnock(run, drv, rng, ncases):
    import xarray
    from ocean_science_utilities.wavephysics import roughness as rg
    kappa, nu = 0.4, 1.48e-5
    for case in range(ncases):
        with common.guard(run, f"C10 charnock case {case}"), warnings.catch_warnings():
            warnings.simplefilter("ignore")
            n = rng.randint(1, 7)
            U = np.array([math.exp(rng.uniform(math.log(0.1), math.log(80))) for _ in range(n)])
            nanmask = np.array([rng.random() < 0.15 for _ in range(n)])
            if rng.random() < 0.25:
                U[rng.randrange(n)] = 0.0           # a calm sample is a wind speed, not a missing value
                run.count("calm_sample")
            Un = np.where(nanmask, np.nan, U)
            ch = rng.choice([0.005, 0.0095, 0.012, 0.0185, 0.04])
            visc = rng.choice([0.0, 0.0, 0.11, 0.3])
            kind = rng.choice(["array", "dataarray", "float", "npscalar", "dataarray0", "array2d"])
            if case < 5:
                # the corners of the box in every run: strongest and weakest winds under every Charnock constant
                U = np.array([80.0, 0.1, 59.5, 70.0, 79.0][:max(n, 2)])
                Un = U.copy()
                ch = [0.04, 0.04, 0.0185, 0.005, 0.012][case]
                kind = ["array", "dataarray", "array", "array2d", "array"][case]
                run.count("charnock_box_corner")
            if kind == "array":
                inp = Un.copy()
            elif kind == "dataarray":
                inp = xarray.DataArray(Un.copy())
            elif kind == "float":
                Un = Un[:1]
                inp = float(Un[0])
            elif kind == "npscalar":
                Un = Un[:1]
                inp = np.float64(Un[0])
            elif kind == "dataarray0":
                Un = Un[:1]
                inp = xarray.DataArray(float(Un[0]))
            else:
                Un = np.concatenate([Un, Un[::-1]])
                inp = Un.reshape(2, -1).copy()
            run.count("input_" + kind)
            run.count("viscous" if visc else "inviscid")
            run.case("charnock", key=(case,))
            info = dict(U=Un.tolist(), charnock=ch, viscous=visc, input=kind)
            z = np.asarray(rg.charnock_roughness_length_from_u10(inp, charnock_constant=ch, viscous_constant=visc), dtype=float).reshape(-1)
            cd = np.asarray(rg.drag_coefficient_charnock(inp, charnock_constant=ch, viscous_constant=visc), dtype=float).reshape(-1)
            if z.shape != Un.shape or cd.shape != Un.shape:
                run.violation("roughness / drag do not have one value per input element", dict(info, shape=list(z.shape)))
                continue
            miss = np.isnan(Un)
            if np.any(~np.isnan(z[miss])) or np.any(~np.isnan(cd[miss])):
                run.violation("a missing wind speed does not give a missing roughness / drag", info)
            if np.any(np.isnan(z[~miss])):
                run.violation("the Charnock roughness of a finite wind speed is missing", dict(info, z0=z.tolist()))
                continue
            if np.any(np.isnan(cd[~miss])):
                run.violation("the drag coefficient of a finite wind speed is missing", dict(info, drag=cd.tolist()))
                continue
            for u, zz, c in zip(Un[~miss], z[~miss], cd[~miss]):
                if u == 0:
                    # z0 = 0 solves the equation; the iteration stops within its absolute tolerance of it
                    if not (0 <= zz <= 1e-10) or not (c == c and c >= 0):
                        run.violation("calm sample: roughness / drag are not the (near-)zero solution", dict(info, z0=float(zz), cd=float(c)))
                    continue
                us = kappa * u / math.log(10 / zz)
                want = ch * us ** 2 / wp.G + (visc * nu / us if us > 0 else 0.0)
                if not (zz > 0) or abs(zz - want) > 1e-4 * want:
                    run.violation("the returned roughness does not satisfy z0 = alpha u*^2/g + c nu/u* with u* = kappa U / ln(10/z0)",
                                  dict(info, U=float(u), z0=float(zz), rhs=want))
                if abs(c - (kappa / math.log(10 / zz)) ** 2) > 1e-12 * c:
                    run.violation("the drag coefficient is not (kappa / ln(10/z0))^2", dict(info, U=float(u), cd=float(c)))
            if visc == 0 and (~miss).sum() >= 2:
                o = np.argsort(Un[~miss])
                zs, cs, us_ = z[~miss][o], cd[~miss][o], Un[~miss][o]
                sep = np.diff(us_) > 1e-3 * us_[:-1] + 1e-12
                if np.any(np.diff(zs)[sep] <= 0) or np.any(np.diff(cs)[sep] <= 0):
                    run.violation("without the viscous term roughness / drag do not increase with wind speed", dict(info, z0=zs.tolist()))
            # correspondence
            ans = drv.ask(f"solv charnock {bits(kappa)} {bits(10.0)} {bits(ch)} {bits(wp.G)} {bits(visc)} {bits(nu)} " + " ".join("nan" if u != u else bits(u) for u in Un))
            zm, cm = ans.split(" | ")
            if not wp.close(z, wp.floats_of(zm), 1e-9) or not wp.close(cd, wp.floats_of(cm), 1e-9):
                run.mismatch("charnock_roughness_length_from_u10", dict(info, impl=z.tolist(), model=wp.floats_of(zm).tolist()))
            if case < 3:
                run.sample(dict(info, z0=z.tolist(), drag=cd.tolist()))


def c10_janssen(run, drv, rng, ncases):
    for case in range(ncases):
        with common.guard(run, f"C10 janssen case {case}"), warnings.catch_warnings():
            warnings.simplefilter("ignore")
            spec, ths, speed, wdir, wtype, ks, depth_mode = rand_case(run, rng, max_pts=3, kinds=[rng.choice(["jonswap", "pm", "mixed"]) for _ in range(3)])
            npts = spec.variance_density.shape[0]
            gv = wp.GEN_VARIANTS[case % len(wp.GEN_VARIANTS)]       # every parameter set (incl. the viscous one) in turn
            run.count("janssen_viscous" if gv.get("viscous_stress_parameter") else "janssen_inviscid")
            gen, gp = wp.generation(gv)
            z = gen.roughness(wp.da(speed), wp.da(wdir), spec, wind_speed_input_type=wtype).values
            info = dict(kinds=ks[:npts], depth=depth_mode, wind_type=wtype, speed=speed.tolist(), direction=wdir.tolist())
            for i in range(npts):
                run.case("janssen", key=(case, i))
                if not (np.isnan(z[i]) or z[i] > 0):
                    run.violation("the wave-dependent roughness is neither missing nor a positive length", dict(info, point=i, z0=float(z[i])))
                    continue
                one = wp.subset(spec, [i])
                # independent scan of the balance on (e^-20, 1)
                lz = np.linspace(-19.99, -0.01, 300)
                bal = []
                for l in lz:
                    zz = math.exp(l)
                    try:
                        tau = gen.stress(one, wp.da([speed[i]]), wp.da([wdir[i]]), roughness_length=wp.da([zz]), wind_speed_input_type=wtype)["stress"].values[0]
                    except (ValueError, ZeroDivisionError):
                        tau = float("nan")      # the tail-stress root finder gives up at this (arbitrary) roughness: no value
                        run.count("scan_stress_raised")
                    us = speed[i] * gp["vonkarman_constant"] / math.log(gp["elevation"] / zz) if wtype == "u10" else speed[i]
                    bal.append(gp["air_density"] * us ** 2 - tau)
                bal = np.array(bal)
                fin = np.isfinite(bal)
                sc = int(np.sum(np.diff(np.sign(bal[fin])) != 0)) if fin.sum() > 1 else 0
                run.count(f"janssen_sign_changes_{min(sc, 3)}")
                if np.isnan(z[i]):
                    run.count("janssen_nan")
                    continue
                if sc == 1 and fin.all():
                    tau = gen.stress(one, wp.da([speed[i]]), wp.da([wdir[i]]), roughness_length=wp.da([z[i]]), wind_speed_input_type=wtype)["stress"].values[0]
                    us = speed[i] * gp["vonkarman_constant"] / math.log(gp["elevation"] / z[i]) if wtype == "u10" else speed[i]
                    lhs = gp["air_density"] * us ** 2
                    if abs(lhs - tau) > 1e-4 * max(lhs, tau):
                        run.violation("the returned roughness does not satisfy rho_air u*^2 = total stress to 1e-4 although the balance has a single root",
                                      dict(info, point=i, z0=float(z[i]), rho_ustar2=float(lhs), stress=float(tau)))
                # correspondence: balance values and the root
                drv.ask(wp.ctx_line(spec, i, gp, True))
                t = "u10" if wtype == "u10" else "ustar"
                for l in (lz[40], lz[150], lz[260]):
                    mv = drv.ask(f"st balance {bits(speed[i])} {bits(wdir[i])} {t} {bits(float(l))}")
                    j = int(np.argmin(np.abs(lz - l)))
                    mvf = float("nan") if mv in ("nan", "raised") else from_bits(mv)
                    if np.isfinite(bal[j]) and not wp.close([bal[j]], [mvf], 1e-7, scale=max(abs(bal[j]), gp["air_density"] * 1e-4)):
                        run.mismatch("stress_balance", dict(info, point=i, log_z0=float(l), impl=float(bal[j]), model=mvf))
                mr = drv.ask(f"st rough {bits(speed[i])} {bits(wdir[i])} {t} {bits(-1.0)}")
                mrf = float("nan") if mr in ("nan", "raised") else from_bits(mr)
                if not ((mrf != mrf and z[i] != z[i]) or abs(mrf - z[i]) <= 1e-5 * z[i]):
                    if sc == 1:
                        run.mismatch("roughness_estimate", dict(info, point=i, impl=float(z[i]), model=mrf))
                    else:
                        run.count("roughness_differs_where_root_not_unique")
            if case < 2:
                run.sample(dict(info, z0=z.tolist()))


# ------------------------------------------------------------------------------------------
# C11
# ------------------------------------------------------------------------------------------

def onset_spectrum(alpha, depth):
    """deterministic JONSWAP sea at the onset of breaking (fp 0.2 Hz, gamma 3.3, cos^8 spreading towards 50 degrees)"""
    import xarray
    from ocean_science_utilities.wavespectra.spectrum import FrequencyDirectionSpectrum
    f = np.linspace(0.04, 0.8, 14)
    d = np.linspace(0, 360, 12, endpoint=False)
    E = wp.jonswap(f, 0.2, alpha, 3.3)[:, None] * wp.spreading(d, 50.0, 4)[None, :]
    ds = xarray.Dataset(data_vars={"variance_density": (("time", "frequency", "direction"), E[None]), "latitude": ("time", [0.0]),
                                   "longitude": ("time", [0.0]), "depth": ("time", [depth])},
                        coords={"time": [np.datetime64("2022-01-01", "ns")], "frequency": f, "direction": d})
    return FrequencyDirectionSpectrum(ds)


def c11(run, drv, rng, ncases):
    from ocean_science_utilities.wavephysics.balance.balance import SourceTermBalance
    from ocean_science_utilities.wavephysics.windestimate import estimate_u10_from_source_terms
    onset = [(a, k) for k in ("st4", "st6") for a in (0.004, 0.005, 0.006, 0.007, 0.008, 0.010)]
    corpus = sorted((common.VERIF / "corpus").glob("c11_*.npz"))      # past failures, replayed first in every run
    for case in range(-len(onset) - len(corpus), ncases):
        with common.guard(run, f"C11 case {case}"), warnings.catch_warnings():
            warnings.simplefilter("ignore")
            corpus_tds = None
            if case < -len(onset):
                import xarray
                from ocean_science_utilities.wavespectra.spectrum import FrequencyDirectionSpectrum
                z = np.load(corpus[case + len(onset) + len(corpus)], allow_pickle=False)
                npts, nf, nd = z["E"].shape
                kinds, depth_mode = ["jonswap"] * npts, "corpus"
                mk = lambda v: FrequencyDirectionSpectrum(xarray.Dataset(
                    data_vars={"variance_density": (("time", "frequency", "direction"), np.array(v)),
                               "latitude": ("time", np.zeros(npts)), "longitude": ("time", np.zeros(npts)), "depth": ("time", z["depth"])},
                    coords={"time": np.datetime64("2022-01-01", "ns") + np.arange(npts) * np.timedelta64(3600, "s"),
                            "frequency": z["f"], "direction": z["d"]}))
                spec, corpus_tds = mk(z["E"]), mk(z["dEdt"])
                E = spec.variance_density.values
                gen, gp = wp.generation({str(k): float(v) for k, v in zip(z["gen_keys"], z["gen_vals"])})
                dkind = str(z["dkind"])
                run.count("corpus_cases")
            elif case < 0:
                # the onset of breaking, deterministically (the recorded finding is replayed here in every run)
                alpha, dkind = onset[case + len(onset)]
                npts, nf, nd, kinds, depth_mode = 1, 14, 12, ["jonswap"], "deep"
                spec = onset_spectrum(alpha, np.inf)
                E = spec.variance_density.values
                gen, gp = wp.generation({})
                run.count("onset_of_breaking")
            else:
                npts = rng.randint(1, 4)
                nf = rng.choice([10, 14])
                nd = rng.choice([12, 16, 24])
                kinds = ["jonswap"] * npts
                if case % 5 == 4:
                    kinds[rng.randrange(npts)] = "empty"
                if case % 4 == 3:
                    kinds = ["young"] * npts          # young wind seas: peak at 0.55-0.7 Hz on a grid reaching 1 Hz
                    nf = 14
                depth_mode = rng.choice(["deep", "deep", "finite"])
                spec, ths = wp.make_spectrum(rng, npts, nf, nd, kinds, depth_mode)
                nf = spec.variance_density.shape[1]
                E = spec.variance_density.values * rng.choice([0.7, 1.0, 1.0, 1.5])
                spec = wp.with_density(spec, E)
                gen, gp = wp.generation(rng.choice(wp.GEN_VARIANTS[:3]))
                dkind = rng.choice(["st4", "st6"])
            dis, dp = wp.dissipation(dkind, {})
            bal = SourceTermBalance(gen, dis)
            with_rate = case >= 0 and rng.random() < 0.4
            tds = corpus_tds
            if with_rate:
                # content in every bin (also against the wind), a noticeable fraction of the dissipation
                pattern = np.array([[[rng.uniform(0.2, 1.0) for _ in range(nd)] for _ in range(nf)] for _ in range(npts)])
                dth0 = 360.0 / nd
                scale = np.abs(np.einsum("pfd,f->p", E, np.gradient(spec.frequency.values)) * dth0) + 1e-12
                tds = wp.with_density(spec, pattern / np.einsum("pfd,f->p", pattern, np.gradient(spec.frequency.values))[:, None, None] / dth0
                                      * scale[:, None, None] * rng.choice([-1.0, 1.0]) * rng.uniform(2e-6, 2e-5))
            run.count("pair_st4_" + dkind)
            with_rate = with_rate or tds is not None
            run.count("with_rate" if with_rate else "stationary")
            run.count("depth_" + depth_mode)
            out = estimate_u10_from_source_terms(spec, bal, time_derivative_spectrum=tds)
            u10, udir = out["u10"].values, out["direction"].values
            if case % 3 == 0:
                # the pair named to the factory is the pair that is used
                from ocean_science_utilities.wavephysics.balance.factory import create_balance
                run.case("factory_pair", key=(case, dkind))
                outf = estimate_u10_from_source_terms(spec, create_balance("st4", dkind, generation_args={"parameters": gp}),
                                                      time_derivative_spectrum=tds)
                if not (np.allclose(outf["u10"].values, u10, rtol=1e-12, atol=0, equal_nan=True)
                        and np.allclose(outf["direction"].values, udir, rtol=1e-12, atol=0, equal_nan=True)):
                    run.violation("the balance the factory builds for the pair (st4, " + dkind + ") does not give the wind estimate of that generation/dissipation pair",
                                  dict(pair=["st4", dkind], factory_u10=outf["u10"].values.tolist(), pair_u10=u10.tolist()))
            Db = dis.bulk_rate(spec).values
            Ddir = dis.mean_direction_degrees(spec).values
            Drate = dis.rate(spec).values
            df, dth = spec.frequency_step.values, spec.direction_step.values
            info = dict(kinds=kinds, depth=depth_mode, pair=["st4", dkind], with_rate=with_rate, nf=nf, nd=nd, u10=u10.tolist(), direction=udir.tolist(),
                        bulk_dissipation=Db.tolist())

            def balance_at(i, u):
                one = wp.subset(spec, [i])
                S = gen.rate(one, wp.da([u]), wp.da([Ddir[i]])).values[0]
                act = 0.0
                if tds is not None:
                    act = float(np.sum(np.where(S > 0, tds.variance_density.values[i], 0.0) * df[:, None] * dth[None, :]))
                return float(np.sum(S * df[:, None] * dth[None, :])) + float(Db[i]) - act

            for i in range(npts):
                run.case("inversion", key=(case, i), nontrivial=kinds[i] != "empty")
                what = dict(info, point=i)
                if Db[i] == 0:
                    if u10[i] != 0:
                        run.violation("the estimated U10 is not zero although the integrated dissipation is zero", what)
                    continue
                if abs(wp.ang_diff(udir[i], Ddir[i])) > 1e-9:
                    run.violation("without direction iteration the reported direction is not the dissipation-weighted mean wave direction", what)
                kk = wp.kinematics(spec, i, False)[0]
                th = spec.radian_direction.values
                Dr = Drate[i]
                kx = -np.einsum("f,d,fd,f,d->", kk, np.cos(th), Dr, df, dth)
                ky = -np.einsum("f,d,fd,f,d->", kk, np.sin(th), Dr, df, dth)
                wantdir = math.degrees(math.atan2(ky, kx)) % 360
                if abs(wp.ang_diff(udir[i], wantdir)) > 1e-6:
                    run.violation("the reported direction is not the direction of the dissipation-weighted wavenumber vector computed from the spectral dissipation",
                                  dict(what, want=wantdir))
                # does the balance have a root between 2 and 40 m/s?
                us = np.concatenate([np.arange(2.0, 8.01, 0.5), np.linspace(9.0, 40.0, 12)])     # finer where weak seas have their root
                bs = np.array([balance_at(i, float(u)) for u in us])
                bf = bs[np.isfinite(bs)]       # the cold-started roughness iteration fails at some single winds
                has_root = len(bf) >= 15 and bf[0] < 0 < bf[-1]
                run.count("scan_points_not_finite", int(np.sum(~np.isfinite(bs))))
                run.count("balance_has_root_in_2_40" if has_root else "balance_without_root_in_2_40")
                weak = abs(Db[i]) < 1e-6        # onset of breaking: typical breaking seas have 1e-5 .. 1e-3 m^2/s
                if weak:
                    run.count("weak_breaking_points")
                if np.isnan(u10[i]):
                    run.count("u10_nan")
                    if has_root:
                        run.violation("the inversion reports a missing wind although the balance has a root between 2 and 40 m/s",
                                      dict(what, balance_scan=[None if not np.isfinite(b) else float(b) for b in bs]),
                                      sig="weak_breaking_nan" if weak else None)
                    continue
                if not (u10[i] > 0):
                    run.violation("the estimated U10 is neither missing nor positive", what)
                    continue
                # the solver bounds its last *step* by 0.01 m/s (under-relaxed by 0.9, possibly an Aitken extrapolation),
                # not the distance to the root: distances up to 0.032 m/s occur on the unchanged tree; window = 10 steps.
                # The independent evaluation restarts the roughness iteration cold and can fail (NaN) at single winds.
                offs = [-0.1, -0.05, -0.03, -0.01, 0.0, 0.01, 0.03, 0.05, 0.1]
                vals = [(o, balance_at(i, max(float(u10[i]) + o, 1e-3))) for o in offs]
                fin = [(o, b) for o, b in vals if np.isfinite(b)]
                b0 = dict(vals)[0.0]
                lo_side = [b for o, b in fin if o < 0]
                hi_side = [b for o, b in fin if o > 0]
                small = any(abs(b) <= 1e-3 * abs(Db[i]) for _, b in fin)
                straddle = fin and (min(b for _, b in fin) <= 0 <= max(b for _, b in fin))
                if not lo_side or not hi_side:
                    run.count("balance_not_evaluable_on_both_sides")
                elif abs(Db[i]) < 1e-10:
                    run.count("dissipation_at_rounding_level")      # 1e-13 against typical 1e-4: numerically no dissipation
                other_branch = False
                if lo_side and hi_side and abs(Db[i]) >= 1e-10 and not (straddle or small):
                    # The stress balance can have more than one root for the roughness; the inversion continues the roughness from
                    # its previous evaluation (it comes down from the first guess), a cold start may land on another root. The
                    # balance has to close for a roughness that satisfies the stress balance: try the continued branches too.
                    one_ = wp.subset(spec, [i])

                    def balance_warm(u, from_u):
                        try:
                            zg = gen.roughness(wp.da([from_u]), wp.da([Ddir[i]]), one_)
                            zz = gen.roughness(wp.da([u]), wp.da([Ddir[i]]), one_, roughness_length_guess=zg)
                            S_ = gen.rate(one_, wp.da([u]), wp.da([Ddir[i]]), roughness_length=zz).values[0]
                        except Exception:
                            return float("nan")
                        act_ = 0.0
                        if tds is not None:
                            act_ = float(np.sum(np.where(S_ > 0, tds.variance_density.values[i], 0.0) * df[:, None] * dth[None, :]))
                        return float(np.sum(S_ * df[:, None] * dth[None, :])) + float(Db[i]) - act_
                    for from_u in (1.5 * float(u10[i]), 2.5 * float(u10[i]), 0.5 * float(u10[i])):
                        wv = [balance_warm(max(float(u10[i]) + o, 1e-3), from_u) for o in offs]
                        wf = [b for b in wv if np.isfinite(b)]
                        if wf and (min(wf) <= 0 <= max(wf) or any(abs(b) <= 1e-3 * abs(Db[i]) for b in wf)):
                            other_branch = True
                            run.count("balance_closes_on_a_continued_roughness_branch")
                            break
                if not lo_side or not hi_side or abs(Db[i]) < 1e-10:
                    pass
                elif not (straddle or small) and not other_branch:
                    run.violation("integrated wind input plus dissipation (minus the active rate of change) does not vanish within ten solver steps (0.1 m/s) of the estimated U10",
                                  dict(what, balance_at_offsets=[[o, b] for o, b in vals]))
                # correspondence: the model's balance function and inversion
                drv.ask(wp.ctx_line(spec, i, gp, True))
                dedt = np.zeros((nf, nd)) if tds is None else tds.variance_density.values[i]
                mv = drv.ask(f"st u10f {bits(Ddir[i])} {bits(-Db[i])} {bits(float(u10[i]))} {wp.L(dedt)}")
                mvf = float("nan") if mv in ("nan", "raised") else from_bits(mv)
                if np.isfinite(b0) and not (abs(mvf - b0) <= 1e-4 * abs(Db[i])):
                    run.mismatch("u10_iteration_function", dict(what, impl=b0, model=mvf))
                if other_branch:
                    continue          # the model restarts the roughness cold at every evaluation: another branch, another inversion
                guess = 10.0
                from ocean_science_utilities.wavephysics.windestimate import estimate_u10_from_spectrum
                guess = float(np.atleast_1d(estimate_u10_from_spectrum(wp.subset(spec, [i]), "peak", direction_convention="going_to_counter_clockwise_east")["u10"].values)[0])
                mu = drv.ask(f"st u10 {bits(Ddir[i])} {bits(-Db[i])} {bits(guess)} {wp.L(dedt)}").split()
                muf = float("nan") if mu[0] in ("nan", "raised") else from_bits(mu[0])
                if not (abs(muf - u10[i]) <= 0.03):
                    run.mismatch("u10_from_bulk_rate", dict(what, impl=float(u10[i]), model=muf, guess=guess))
            # a missing depth means deep water
            if case >= 0 and depth_mode == "deep" and case % 2 == 0:
                run.case("missing_depth_is_deep", key=(case,))
                unknown = wp.with_density(spec, spec.variance_density.values, depth=np.full(npts, np.nan))
                ou = estimate_u10_from_source_terms(unknown, bal, time_derivative_spectrum=tds)
                if not (np.allclose(ou["u10"].values, u10, rtol=1e-9, atol=0, equal_nan=True)
                        and np.allclose(ou["direction"].values, udir, rtol=1e-9, atol=0, equal_nan=True)):
                    run.violation("a spectrum with missing depth does not get the wind estimate of the same spectrum in deep water",
                                  dict(info, missing_depth_u10=ou["u10"].values.tolist()))
            # an inversion on another grid of the same size and frequency range in between (other direction labels) must not change what this spectrum gets afterwards
            if case >= 0 and case % 3 >= 1 and tds is None:
                run.case("inversion_after_another_grid", key=(case,))
                ds2 = spec.dataset.copy(deep=True)
                f_old = ds2["frequency"].values
                # (the same sea with its directions relabelled: on a uniform grid a rotation by 187 mod the bin width)
                ds2 = ds2.assign_coords(direction=np.sort((ds2["direction"].values + 187.0) % 360))
                from ocean_science_utilities.wavespectra.spectrum import FrequencyDirectionSpectrum as _FDS
                other = _FDS(ds2)
                try:
                    oo = estimate_u10_from_source_terms(other, bal)
                    # the other sea is inverted on ITS grid: the reported direction is its own dissipation-weighted direction,
                    # and its own bulk balance closes at the reported wind
                    od, ou_ = oo["direction"].values, oo["u10"].values
                    wantd = dis.mean_direction_degrees(other).values
                    Dbo = dis.bulk_rate(other).values
                    dd_ = np.diff(spec.dataset["direction"].values)
                    for i in range(npts):
                        if u10[i] == u10[i] and ou_[i] != ou_[i] and np.allclose(dd_, dd_[0]):
                            run.violation("the relabelled (rotated) sea gets no wind estimate although the sea itself gets one "
                                          "(it was inverted after a spectrum on another grid of the same size)",
                                          dict(info, point=i, u10=float(u10[i])))
                        if Dbo[i] < -1e-10 and od[i] == od[i]:
                            if abs(wp.ang_diff(od[i], wantd[i])) > 1e-6:
                                run.violation("the wind direction of an inversion is not the dissipation-weighted direction of the spectrum that was inverted "
                                              "(a spectrum on another grid of the same size was inverted before)",
                                              dict(info, point=i, got=float(od[i]), want=float(wantd[i])))
                            elif ou_[i] == ou_[i] and ou_[i] > 0:
                                gb = float(gen.bulk_rate(wp.subset(other, [i]), wp.da(ou_[i:i + 1]), wp.da(od[i:i + 1])).values[0])
                                if gb == gb and abs(gb + Dbo[i]) > 0.1 * abs(Dbo[i]):
                                    run.violation("the bulk balance of a spectrum does not close at the wind its inversion returned "
                                                  "(a spectrum on another grid of the same size was inverted before)",
                                                  dict(info, point=i, u10=float(ou_[i]), bulk_input=gb, bulk_dissipation=float(Dbo[i])))
                except Exception as ex:
                    run.count("inversion_on_other_grid_raised_" + type(ex).__name__ + "_" + str(ex)[:60].replace(" ", "_"))
                oa = estimate_u10_from_source_terms(spec, bal)
                if not (np.allclose(oa["u10"].values, u10, rtol=1e-12, atol=0, equal_nan=True)
                        and np.allclose(oa["direction"].values, udir, rtol=1e-12, atol=0, equal_nan=True)):
                    run.violation("the wind estimate of a spectrum depends on the grid of the spectrum that was inverted before it",
                                  dict(info, before=u10.tolist(), after=oa["u10"].values.tolist(),
                                       direction_before=udir.tolist(), direction_after=oa["direction"].values.tolist()))
            # batch = single
            if npts > 1:
                i = rng.randrange(npts)
                o1 = estimate_u10_from_source_terms(wp.subset(spec, [i]), bal, time_derivative_spectrum=None if tds is None else wp.subset(tds, [i]))
                a, b = o1["u10"].values[0], u10[i]
                if not ((a != a and b != b) or a == b):
                    run.violation("a point of a batch does not get the wind estimate it gets alone", dict(info, point=i, alone=float(a)))
            if case < 3:
                run.sample(info)


def c11_direction_iteration(run, rng, ncases):
    """The inversion with the wind direction iterated towards the stress direction: seas under a veering wind
    (dissipation-weighted wave direction and stress direction differ), placed so that the iteration has to cross
    the 0/360 seam in both senses."""
    from ocean_science_utilities.wavephysics.balance.balance import SourceTermBalance
    from ocean_science_utilities.wavephysics.windestimate import estimate_u10_from_source_terms
    for case in range(ncases):
        with common.guard(run, f"C11 direction-iteration case {case}"), warnings.catch_warnings():
            warnings.simplefilter("ignore")
            nd = rng.choice([12, 16, 24])
            nf = 14
            npts = 3
            spec, _ = wp.make_spectrum(rng, npts, nf, nd, ["veering"], "deep")
            gen, gp = wp.generation({})
            dkind = rng.choice(["st4", "st6"])
            dis, dp = wp.dissipation(dkind, {})
            bal = SourceTermBalance(gen, dis)
            binw = 360.0 / nd
            # place point 0 just below 360, point 1 just above 0 (whole bins, so the sea itself is unchanged)
            E = spec.variance_density.values.copy()
            D0 = dis.mean_direction_degrees(spec).values
            for i, target in ((0, 360.0 - 0.3 * binw), (1, 0.3 * binw)):
                k = int(round(((target - D0[i]) % 360) / binw))
                E[i] = np.roll(E[i], k, axis=1)
            spec = wp.with_density(spec, E)
            Ddir = dis.mean_direction_degrees(spec).values
            Db = dis.bulk_rate(spec).values
            out = estimate_u10_from_source_terms(spec, bal, direction_iteration=True)
            u10, udir = out["u10"].values, out["direction"].values
            info = dict(dissipation=dkind, nd=nd, wave_direction=Ddir.tolist(), u10=u10.tolist(), direction=udir.tolist(), bulk_dissipation=Db.tolist())
            for i in range(npts):
                run.case("inversion_direction_iteration", key=(case, i))
                what = dict(info, point=i)
                one = wp.subset(spec, [i])

                def bal_at(u, d):
                    try:
                        return float(gen.bulk_rate(one, wp.da([u]), wp.da([d])).values[0] + Db[i])
                    except Exception:
                        return float("nan")
                if Db[i] == 0:
                    continue
                if abs(wp.ang_diff(udir[i], Ddir[i])) > 0.5 * binw:
                    run.count("direction_moved_by_more_than_half_a_bin")
                if (Ddir[i] > 270 and udir[i] < 90) or (Ddir[i] < 90 and udir[i] > 270):
                    run.count("iteration_crossed_the_seam")
                if np.isnan(u10[i]):
                    run.count("u10_nan")
                    roots = 0
                    for dd in (Ddir[i], Ddir[i] + 15.0, Ddir[i] - 15.0):
                        bs = np.array([bal_at(float(u), dd % 360) for u in np.concatenate([np.arange(2.0, 8.01, 1.0), np.linspace(10.0, 40.0, 7)])])
                        bf = bs[np.isfinite(bs)]
                        roots += int(len(bf) >= 10 and bf[0] < 0 < bf[-1])
                    if roots == 3:
                        run.violation("with direction iteration the inversion reports a missing wind although the balance has a root between 2 and 40 m/s "
                                      "for every wind direction within 15 degrees of the waves", what)
                    continue
                if not (u10[i] > 0):
                    run.violation("the estimated U10 is neither missing nor positive", what)
                    continue
                if not (0 <= udir[i] < 360):
                    run.violation("the reported wind direction is outside [0, 360)", what)
                # the last direction update (< 1 degree when converged, up to 10 degrees when the 20 passes run out) comes after
                # the last solve: the balance at the reported direction closes within a wider window than the solver step
                offs = [-0.3, -0.1, -0.03, 0.0, 0.03, 0.1, 0.3]
                vals = [(o, bal_at(float(u10[i]) + o, float(udir[i]))) for o in offs]
                fin = [b for _, b in vals if np.isfinite(b)]
                if len(fin) < 5:
                    run.count("balance_not_evaluable")
                elif not (min(fin) <= 0 <= max(fin) or min(abs(b) for b in fin) <= 2e-2 * abs(Db[i])):
                    run.violation("with direction iteration, integrated wind input plus dissipation does not vanish within 0.3 m/s of the estimated U10 at the reported direction",
                                  dict(what, balance_at_offsets=[[o, b] for o, b in vals]))
            # batch = single
            i = rng.randrange(npts)
            o1 = estimate_u10_from_source_terms(wp.subset(spec, [i]), bal, direction_iteration=True)
            a, b = o1["u10"].values[0], u10[i]
            if not ((a != a and b != b) or a == b) or not ((udir[i] != udir[i] and o1["direction"].values[0] != o1["direction"].values[0]) or o1["direction"].values[0] == udir[i]):
                run.violation("with direction iteration a point of a batch does not get the estimate it gets alone", dict(info, point=i, alone=float(a)))
            if case < 2:
                run.sample(info)


def main(prop, tier, seed):
    run = common.Run(prop, tier, seed)
    if prop == "C10":
        aud = common.audit_with_arith(prop, "C10Gen", thorough=(tier == "thorough"))
    elif prop in ("C08", "C09"):
        # second tie: the loop body of the ST4 wind-input kernel is re-translated from the source on every run
        aud = common.audit_with_spec(prop, ["C08Gen"], thorough=(tier == "thorough"))
    else:
        aud = common.audit(prop, thorough=(tier == "thorough"))
    common.use_repo_source()
    thorough = tier == "thorough"
    drv = common.Driver()
    rng = run.rng
    try:
        if prop == "C08":
            c08(run, drv, rng, 150 if thorough else 24)
        elif prop == "C09":
            c09(run, drv, rng, 16 if thorough else 6, thorough)
        elif prop == "C10":
            c10_solvers(run, drv, rng, 1500 if thorough else 200)
            c10_charnock(run, drv, rng, 600 if thorough else 80)
            c10_janssen(run, drv, rng, 30 if thorough else 5)
        else:
            c11(run, drv, rng, 60 if thorough else 8)
            c11_direction_iteration(run, rng, 30 if thorough else 5)
    finally:
        drv.close()
    return run.finish(aud, ASSUMPTIONS, RULES[prop])
