"""C01–C04: bulk parameters of wave spectra against the exact rational model."""
import math
import warnings
from fractions import Fraction

import numpy as np

from . import common
from .numfmt import bits, bits_list, frac, close, from_bits
from . import spectra as sp

ASSUMPTIONS = [
    "xarray primitives behave as documented: DataArray.integrate = trapezoid, sum(skipna=True) skips NaN, argmax skips NaN, where/isel/fillna",
    "float rounding is not modelled: the implementation is compared with the exact rational value of the model on the same double inputs (tolerance 1e-10 of the sum of the magnitudes of the terms)",
    "cos/sin tables of the direction grid are computed by numpy (same expression as the code) and given to the model as inputs; the ℝ-theorems instantiate them with Real.cos/Real.sin",
    "band limits are generated exactly on grid nodes / midpoints / outside so that `fmin <= f < fmax` decides identically in float and exact arithmetic",
]

RULES = {
    "C01": "seeded random 1D and 2D spectra in the four dims layouts (scalar / time / time x latitude / flattened index), uniform, non-uniform, log and from-zero frequency grids, NaN and zero bins, 8 bands per spectrum (default, exactly on nodes, midpoints, empty, single node, half-open), powers 0..4; one case = (spectrum member, band, power); distinct by hash of (inputs, band, power); non-trivial if at least two grid nodes are inside the band",
    "C02": "seeded random 2D spectra (uniform and non-uniform direction grids, any start angle, raw or modulo-360 representation, 8..144 bins, NaN/zero bins, four dims layouts); one case = one (member, frequency) row of moments or one grid; non-trivial if the row has energy",
    "C03": "random moment pairs in all quadrants and on the +-180 seam for direction/spread (Float model, 1e-9); band means of a1..b2 of random 1D spectra against the exact model; rotation by every k (thorough) or 8 random k (quick) and mirror of random 2D spectra on uniform grids of 8..72 bins on the implementation",
    "C04": "seeded random 1D/2D spectra with several peaks, plateaus (exact ties), peak at first/last bin, global peak outside the band, NaN bins, zero in-band energy, batches whose members peak at different bins; 8 bands per spectrum; one case = (member, band)",
}


def dir_widths(d):
    """direction bin widths as the spectrum object defines them: the wrapped distance to the next stored direction
    (the last bin closes the circle)"""
    d = np.asarray(d, dtype=float)
    return (np.diff(d, append=d[0]) + 180.0) % 360.0 - 180.0


def ask_moment(drv, p, fmin, fmax, f, e):
    fm = "inf" if math.isinf(fmax) else bits(fmax)
    return frac(drv.ask(f"spec moment {p} {bits(fmin)} {fm} {bits_list(f)} {bits_list(e)}"))


# ------------------------------------------------------------------------------------------------
def check_c01(run, drv, ncases, start=0):
    rng = run.rng
    if start % 5 == 0:
        fb = float(rng.choice([0.05, 0.1]))
        live_vs_fresh(run, rng, "moments_after_inplace_change", rng.random() < 0.5,
                      [("m0", lambda s_: s_.m0().values), ("m1 in a band", lambda s_: s_.m1(fb, 10.0).values), ("m2", lambda s_: s_.m2().values),
                       ("Hm0", lambda s_: s_.hm0().values), ("Tm01", lambda s_: s_.tm01().values), ("Tm02 in a band", lambda s_: s_.tm02(fb, 10.0).values)])
    for case in range(start, start + ncases):
        two_d = rng.random() < 0.35
        with warnings.catch_warnings():
            warnings.simplefilter("ignore")
            if two_d:
                spec, meta = sp.make_2d(rng)
                # e(f) by the definition (missing bins count as zero), not the code's own directional integral
                e_all = np.sum(np.nan_to_num(meta["E"]) * dir_widths(meta["d"]), axis=-1)
                e_code = np.asarray(spec.e.values, dtype=float)
                if e_code.shape != e_all.shape or not np.allclose(np.nan_to_num(e_code), e_all, rtol=1e-12, atol=1e-300):
                    run.violation("e(f) of a 2D spectrum is not the sum over directions of density x bin width with missing bins counted as zero",
                                  dict(layout=meta["layout"], directions=meta["d"].tolist()[:8], got=np.nan_to_num(e_code).reshape(-1)[:6].tolist(),
                                       want=e_all.reshape(-1)[:6].tolist()))
            else:
                spec, meta = sp.make_1d(rng)
                e_all = meta["e"]
            f = meta["f"]
            mem = sp.members(np.asarray(e_all), 1)
            run.count("layout_" + meta["layout"])
            run.count("2d" if two_d else "1d")
            for (fmin, fmax) in sp.bands(rng, f):
                inband = int(np.sum((f >= fmin) & (f < fmax)))
                run.count(f"nodes_in_band_{min(inband, 3)}")
                moms = {}
                for p in range(5):
                    try:
                        got = np.asarray(spec.frequency_moment(p, fmin, fmax).values, dtype=float).reshape(-1)
                    except Exception as ex:
                        run.violation("frequency_moment raised", dict(layout=meta["layout"], band=(fmin, fmax), p=p, error=repr(ex)))
                        continue
                    moms[p] = got
                    if got.shape[0] != mem.shape[0]:
                        run.mismatch("moment", dict(reason="batch size", got=got.shape, want=mem.shape))
                        continue
                    for i in range(mem.shape[0]):
                        ex = ask_moment(drv, p, fmin, fmax, f, mem[i])
                        ee = np.nan_to_num(mem[i])
                        scale = float(np.sum(np.abs(ee) * f ** p) * (f[-1] - f[0])) + 1e-300
                        run.case("moment", key=(case, i, fmin, fmax, p), nontrivial=inband >= 2)
                        if not close(float(got[i]), ex, scale):
                            run.mismatch("moment", dict(layout=meta["layout"], two_d=two_d, f=f.tolist(), e=mem[i].tolist(),
                                                        band=(fmin, fmax), p=p, impl=float(got[i]), model=float(ex)))
                        # the defining integral, independently: trapezoid over the grid points inside [fmin, fmax)
                        sel = (f >= fmin) & (f < fmax)
                        ref = float(np.trapezoid(ee[sel] * f[sel] ** p, f[sel])) if sel.sum() >= 2 else 0.0
                        if abs(float(got[i]) - ref) > 1e-9 * scale:
                            run.violation("the n-th moment is not the trapezoidal integral of e(f) f^n over the grid points inside the band "
                                          "(missing values counted as zero)",
                                          dict(layout=meta["layout"], two_d=two_d, f=f.tolist(), e=[None if x != x else float(x) for x in mem[i]],
                                               band=(fmin, fmax), n=p, got=float(got[i]), want=ref))
                # definitions of the integral parameters on the implementation
                if len(moms) == 5:
                    m0, m1, m2 = moms[0], moms[1], moms[2]
                    with np.errstate(all="ignore"):
                        checks = [("hm0", spec.hm0(fmin, fmax).values, 4 * np.sqrt(m0)),
                                  ("tm01", spec.tm01(fmin, fmax).values, m0 / m1),
                                  ("tm02", spec.tm02(fmin, fmax).values, np.sqrt(m0 / m2)),
                                  ("m0", spec.m0(fmin, fmax).values, m0), ("m1", spec.m1(fmin, fmax).values, m1),
                                  ("m2", spec.m2(fmin, fmax).values, m2)]
                        if (fmin, fmax) == (0.0, np.inf):
                            checks += [("significant_waveheight", spec.significant_waveheight.values, 4 * np.sqrt(m0)),
                                       ("mean_period", spec.mean_period.values, m0 / m1),
                                       ("zero_crossing_period", spec.zero_crossing_period.values, np.sqrt(m0 / m2))]
                    for name, got, want in checks:
                        got = np.asarray(got, dtype=float).reshape(-1)
                        ok = np.all((np.isnan(got) & np.isnan(want)) | (got == want) |
                                    (np.abs(got - want) <= 1e-12 * np.abs(want)))
                        run.case("definitions", key=(case, fmin, fmax, name), nontrivial=inband >= 2)
                        if not ok:
                            run.violation(f"{name} does not equal its defining expression of the moments",
                                          dict(layout=meta["layout"], band=(fmin, fmax), got=got.tolist(), want=want.tolist()))
                    # inequalities for non-negative spectra
                    nonneg = np.nan_to_num(mem) >= 0
                    sel = f[(f >= fmin) & (f < fmax)]
                    if nonneg.all() and len(sel) >= 2 and sel[0] > 0:
                        with np.errstate(all="ignore"):
                            t01, t02 = m0 / m1, np.sqrt(m0 / m2)
                        for i in range(len(m0)):
                            if m0[i] > 0 and m1[i] > 0 and m2[i] > 0:
                                tol = 1e-9 * t01[i]
                                if not (1 / sel[-1] - tol <= t02[i] <= t01[i] + tol and t01[i] <= 1 / sel[0] + tol):
                                    run.violation("Tm02 <= Tm01 or the band bounds 1/f_last..1/f_first fail",
                                                  dict(f=f.tolist(), e=mem[i].tolist(), band=(fmin, fmax), tm01=float(t01[i]), tm02=float(t02[i])))
            # algebraic laws on the implementation
            if not two_d and case % 3 == 0:
                c = rng.choice([0.25, 2.0, 9.0])
                spec_c, _ = sp.make_1d(rng, layout=meta["layout"], f=f, e=meta["e"] * c, moments=meta["moments"])
                other_e = sp.energy(rng, meta["e"].shape, nan_rate=0)
                other_e[np.isnan(meta["e"])] = np.nan
                spec_o, _ = sp.make_1d(rng, layout=meta["layout"], f=f, e=other_e, moments=meta["moments"])
                fmin, fmax = rng.choice(sp.bands(rng, f))
                with np.errstate(all="ignore"):
                    for p in range(3):
                        a = spec.frequency_moment(p, fmin, fmax).values
                        b = spec_c.frequency_moment(p, fmin, fmax).values
                        o = spec_o.frequency_moment(p, fmin, fmax).values
                        s = (spec + spec_o).frequency_moment(p, fmin, fmax).values
                        run.case("laws", key=(case, p))
                        if not np.allclose(b, c * a, rtol=1e-12, atol=0):
                            run.violation("moments are not linear under scaling of the variance density", dict(p=p, c=c))
                        if not np.allclose(s, a + o, rtol=1e-12, atol=1e-15):
                            run.violation("moments of a sum are not sums of moments", dict(p=p, a=np.asarray(a).tolist(), o=np.asarray(o).tolist(), s=np.asarray(s).tolist()))
                    if not np.allclose(spec_c.hm0(fmin, fmax).values, math.sqrt(c) * spec.hm0(fmin, fmax).values, rtol=1e-12, equal_nan=True):
                        run.violation("Hm0 does not scale with sqrt(c)", dict(c=c))
                    for nm in ("tm01", "tm02"):
                        x, y = getattr(spec, nm)(fmin, fmax).values, getattr(spec_c, nm)(fmin, fmax).values
                        if not np.allclose(x, y, rtol=1e-12, equal_nan=True):
                            run.violation(f"{nm} is not scale invariant", dict(c=c))
        if case < 3:
            run.sample(dict(layout=meta["layout"], two_d=two_d, f=f.tolist()[:8], e=np.asarray(mem[0]).tolist()[:8]))


# ------------------------------------------------------------------------------------------------
def trig(d):
    r = d * np.pi / 180
    return np.cos(r), np.sin(r), np.cos(2 * r), np.sin(2 * r)


def live_vs_fresh(run, rng, what, two_d, accessors, layout=None):
    """Read bulk parameters of an object, change its density in place (per-frequency factors that move the peak and the
    band averages), read again: the answers are those of a fresh object built from the changed data."""
    with warnings.catch_warnings():
        warnings.simplefilter("ignore")
        if two_d:
            base, meta = sp.make_2d(rng, layout=layout, nan_rate=0.0, depth_mode="deep")
            E0 = meta["E"]
        else:
            base, meta = sp.make_1d(rng, layout=layout, nan_rate=0.0, depth_mode="deep")
            E0 = meta["e"]
        f = meta["f"]
        if len(f) < 3:
            return
        for nm, fn in accessors:
            try:
                fn(base)
            except Exception:
                pass
        fac = np.array([rng.choice([0.1, 1.0, 7.0, 50.0]) for _ in f])
        base.multiply(fac, ["frequency"], inplace=True)
        En = E0 * (fac[:, None] if two_d else fac)
        if two_d:
            fresh, _ = sp.make_2d(rng, layout=meta["layout"], f=f, d=meta["d"], E=En, depth_mode="deep")
        else:
            fresh, _ = sp.make_1d(rng, layout=meta["layout"], f=f, e=En, moments=meta["moments"], depth_mode="deep")
        run.case(what, key=(two_d, meta["layout"]))
        for nm, fn in accessors:
            with np.errstate(all="ignore"):
                a_, b_ = np.asarray(fn(base), dtype=float), np.asarray(fn(fresh), dtype=float)
            if a_.shape != b_.shape or not np.allclose(a_, b_, rtol=1e-11, atol=1e-300, equal_nan=True):
                run.violation("after an in-place change of the density " + nm + " is not that of the changed density (stale value)",
                              dict(layout=meta["layout"], two_d=two_d, factors=fac.tolist()))


def check_c02(run, drv, ncases, start=0):
    from ocean_science_utilities.wavespectra import operations as ops
    rng = run.rng
    for case in range(start, start + ncases):
        with warnings.catch_warnings():
            warnings.simplefilter("ignore")
            spec, meta = sp.make_2d(rng, transpose_aux=(case % 5 == 0), layout=("time_lat" if case % 5 == 0 else None))
            f, d, E = meta["f"], meta["d"], meta["E"]
            run.count("dirgrid_" + meta["dkind"])
            run.count("layout_" + meta["layout"])
            # direction step
            step = np.asarray(spec.direction_step.values, dtype=float)
            ex = [frac(t) for t in drv.ask(f"spec dirstep {bits_list(d)}").split()]
            run.case("dir_step", key=(case, "dirstep"))
            if len(ex) != len(step) or not all(close(float(a), b, 360.0, rel=1e-13) for a, b in zip(step, ex)):
                run.mismatch("dir_step", dict(d=d.tolist(), impl=step.tolist(), model=[float(x) for x in ex]))
            if abs(step.sum() - 360.0) > 1e-9 or (step <= 0).any():
                run.violation("direction bin widths are not positive or do not sum to 360", dict(d=d.tolist(), steps=step.tolist()))
            fs = np.asarray(spec.frequency_step.values, dtype=float)
            exf = [frac(t) for t in drv.ask(f"spec freqstep {bits_list(f)}").split()]
            run.case("freq_step", key=(case, "freqstep"))
            if len(exf) != len(fs) or not all(close(float(a), b, float(f[-1]) + 1, rel=1e-13) for a, b in zip(fs, exf)):
                run.mismatch("freq_step", dict(f=f.tolist(), impl=fs.tolist(), model=[float(x) for x in exf]))
            # moments per (member, frequency) row
            c1, s1, c2, s2 = trig(d)
            got = [np.asarray(getattr(spec, n).values, dtype=float) for n in ("e", "a1", "b1", "a2", "b2")]
            rows = sp.members(E, 2)
            gm = [sp.members(g, 1) for g in got]
            nonneg = True
            for i in range(rows.shape[0]):
                for k in range(rows.shape[1]):
                    if rng.random() > 0.5 and rows.shape[0] * rows.shape[1] > 6:
                        continue
                    row = rows[i, k]
                    ans = drv.ask("spec rowmoments " + " ".join(bits_list(x) for x in (step, c1, s1, c2, s2, row))).split()
                    exr = [frac(t) for t in ans]
                    scale = float(np.sum(np.abs(np.nan_to_num(row)) * np.abs(step))) + 1e-300
                    run.case("moments2d", key=(case, i, k), nontrivial=scale > 1e-200)
                    vals = [float(g[i][k]) for g in gm]
                    okk = close(vals[0], exr[0], scale)
                    for v, x in zip(vals[1:], exr[1:]):
                        # moments are ratios: compare with a relative tolerance on the ratio scale
                        if x is None:
                            okk = okk and (v != v or abs(v) == float("inf"))
                        else:
                            okk = okk and close(v, x, 1.0 + abs(float(x)), rel=1e-9)
                    if not okk:
                        run.mismatch("moments2d", dict(d=d.tolist(), row=row.tolist(), impl=vals, model=[None if x is None else float(x) for x in exr]))
                    if (np.nan_to_num(row) >= 0).all() and vals[0] > 0:
                        if max(abs(v) for v in vals[1:]) > 1 + 1e-12 or vals[1] ** 2 + vals[2] ** 2 > 1 + 1e-12:
                            run.violation("a directional moment of a non-negative density leaves the unit disc", dict(row=row.tolist(), moments=vals))
            # same quadrature for DataArrays and the numba variants
            da = spec.variance_density
            run.case("integrate_spectral_data", key=case)
            e2 = np.asarray(ops.integrate_spectral_data(da, "direction").values, dtype=float)
            if not np.allclose(e2, got[0], rtol=1e-12, atol=1e-300, equal_nan=True):
                run.violation("integrate_spectral_data(direction) differs from the spectrum's own e(f) (same quadrature expected)",
                              dict(d=d.tolist(), got=e2.reshape(-1)[:6].tolist(), want=got[0].reshape(-1)[:6].tolist()))
            both = np.asarray(ops.integrate_spectral_data(da, ["frequency", "direction"]).values, dtype=float)
            Ef = np.nan_to_num(E)
            wantb = np.sum(np.trapezoid(Ef, f, axis=-2) * step, axis=-1)
            if not np.allclose(both, wantb, rtol=1e-11, atol=1e-300):
                run.violation("integrate_spectral_data(frequency, direction) differs from the trapezoid-in-f, width-weighted sum in direction",
                              dict(got=np.asarray(both).reshape(-1)[:4].tolist(), want=np.asarray(wantb).reshape(-1)[:4].tolist()))
            clean = np.nan_to_num(rows[0])
            grid = {"frequency_step": fs, "direction_step": step}
            try:
                from numba.typed import Dict as NDict
                from numba import types
                g = NDict.empty(key_type=types.unicode_type, value_type=types.float64[:])
                g["frequency_step"] = np.ascontiguousarray(fs)
                g["direction_step"] = np.ascontiguousarray(step)
                tot = ops.numba_integrate_spectral_data(np.ascontiguousarray(clean), g)
                want = float(np.sum(clean * fs[:, None] * step[None, :]))
                run.case("numba_integrate", key=case)
                if abs(tot - want) > 1e-9 * (abs(want) + 1e-300):
                    run.violation("numba_integrate_spectral_data differs from sum x*df*dtheta", dict(got=tot, want=want))
                de = ops.numba_directionally_integrate_spectral_data(np.ascontiguousarray(clean), g)
                if not np.allclose(de, np.sum(clean * step[None, :], axis=1), rtol=1e-12):
                    run.violation("numba_directionally_integrate_spectral_data differs from sum x*dtheta", {})
            except Exception as ex2:
                run.notes.append("numba integrate kernels not exercised: " + repr(ex2)[:100]) if len(run.notes) < 3 else None
            # signed densities (differences of spectra, source terms): the same sums, nothing clipped
            if case % 3 == 0:
                Es = np.nan_to_num(E) - np.nan_to_num(np.roll(E, 1, axis=-1)) * rng.choice([0.5, 1.0, 2.0])
                sgn, _ = sp.make_2d(rng, layout=meta["layout"], f=f, d=d, E=Es, depth_mode="deep")
                run.case("signed_density", key=case)
                es = np.asarray(sgn.e.values, dtype=float)
                wants = np.sum(Es * step, axis=-1)
                if not np.allclose(es, wants, rtol=1e-11, atol=1e-13 * float(np.max(np.abs(Es)) * 360 + 1e-300)):
                    run.violation("e(f) of a signed 2D density is not the sum over directions of density x bin width",
                                  dict(got=es.reshape(-1)[:6].tolist(), want=wants.reshape(-1)[:6].tolist()))
                if not np.allclose(np.asarray(sgn.as_frequency_spectrum().m0().values, dtype=float), np.asarray(sgn.m0().values, dtype=float), rtol=1e-11, atol=1e-300):
                    run.violation("converting a signed 2D spectrum to 1D changes its total variance", {})
            # the integrals follow the data: read, change the density in place, read again
            if case % 3 == 1:
                live, _ = sp.make_2d(rng, layout=meta["layout"], f=f, d=d, E=np.nan_to_num(E).copy(), depth_mode="deep")
                run.case("inplace_then_reintegrate", key=case)
                _ = (live.e.values, live.hm0().values, live.a1.values)
                fac = np.linspace(0.5, 3.0, len(f))
                live.multiply(fac, ["frequency"], inplace=True)
                fresh, _ = sp.make_2d(rng, layout=meta["layout"], f=f, d=d, E=np.nan_to_num(E) * fac[:, None], depth_mode="deep")
                for nm in ("e", "a1", "b1", "a2", "b2"):
                    a_, b_ = np.asarray(getattr(live, nm).values, dtype=float), np.asarray(getattr(fresh, nm).values, dtype=float)
                    if not np.allclose(a_, b_, rtol=1e-11, atol=1e-300, equal_nan=True):
                        run.violation("after an in-place change of the density, " + nm + "(f) is not that of the changed density (stale integral)",
                                      dict(layout=meta["layout"]))
                if not np.allclose(np.asarray(live.hm0().values, dtype=float), np.asarray(fresh.hm0().values, dtype=float), rtol=1e-11, equal_nan=True):
                    run.violation("after an in-place change of the density, Hm0 is not that of the changed density", dict(layout=meta["layout"]))
            # a 2D file that also carries (stale / placeholder) a1..b2 variables: the 1D conversion carries the moments of the density
            if case % 4 == 2:
                run.case("stored_moment_variables", key=case)
                ds_m = spec.dataset.copy(deep=True)
                lead_dims = tuple(ds_m["variance_density"].dims[:-1])
                for nm in ("a1", "b1", "a2", "b2"):
                    ds_m[nm] = (lead_dims, np.full(tuple(ds_m["variance_density"].shape[:-1]), np.nan if case % 8 == 2 else 0.123))
                from ocean_science_utilities.wavespectra.spectrum import FrequencyDirectionSpectrum
                try:
                    withm = FrequencyDirectionSpectrum(ds_m)
                    s1m = withm.as_frequency_spectrum()
                    for nm, g in zip(("a1", "b1", "a2", "b2"), got[1:]):
                        a_ = np.asarray(getattr(s1m, nm).values, dtype=float)
                        if a_.shape != g.shape or not np.allclose(a_, g, rtol=1e-12, atol=1e-300, equal_nan=True):
                            run.violation("the 1D reduction of a 2D spectrum does not carry the directional moments of the density "
                                          "(variables of the same name stored in the 2D dataset took their place)", dict(moment=nm, layout=meta["layout"]))
                except Exception as exm:
                    run.count("stored_moment_variables_rejected")
            # a closed direction axis (0, ..., 360 with 360 repeating 0): the repeated bin has width zero
            if case % 4 == 3 and len(d) >= 4:
                run.case("closed_direction_axis", key=case)
                nd_c = rng.choice([8, 12, 36])
                d_c = np.linspace(0.0, 360.0, nd_c + 1)
                sc, mc = sp.make_2d(rng, layout=meta["layout"], f=f, d=d_c, nan_rate=0.0, depth_mode="deep")
                st_c = np.asarray(sc.direction_step.values, dtype=float)
                want_c = np.sum(mc["E"] * st_c, axis=-1)
                got_c = np.asarray(sc.e.values, dtype=float)
                if abs(st_c.sum() - 360.0) > 1e-9 or not np.allclose(got_c, want_c, rtol=1e-12, atol=1e-300):
                    run.violation("on a closed direction axis e(f) is not the sum over directions of density x wrapped bin width",
                                  dict(directions=d_c.tolist(), steps=st_c.tolist(), got=got_c.reshape(-1)[:4].tolist(), want=want_c.reshape(-1)[:4].tolist()))
            # 2D -> 1D conversion
            s1d = spec.as_frequency_spectrum()
            run.case("to1d", key=case)
            for name in spec.dataset:
                if name != "variance_density" and name not in s1d.dataset:
                    run.violation("as_frequency_spectrum drops a non-spectral variable", dict(name=str(name)))
            for name in ("time", "latitude", "longitude", "depth"):
                a_, b_ = spec.dataset[name], s1d.dataset[name]
                same = a_.dims == b_.dims and np.array_equal(np.asarray(a_.values), np.asarray(b_.values), equal_nan=True)
                if not same and set(a_.dims) == set(b_.dims):
                    same = np.array_equal(np.asarray(a_.values), np.asarray(b_.transpose(*a_.dims).values), equal_nan=True)
                if not same:
                    run.violation("as_frequency_spectrum changes time/position/depth", dict(name=name, dims_before=a_.dims, dims_after=b_.dims))
            with np.errstate(all="ignore"):
                d2, d1 = np.asarray(spec.depth.values, dtype=float), np.asarray(s1d.depth.transpose(*spec.depth.dims).values if s1d.depth.dims else s1d.depth.values, dtype=float)
                if not np.array_equal(d2, d1):
                    run.violation("depth of the 1D reduction differs from the 2D spectrum's depth", dict(layout=meta["layout"]))
            with np.errstate(all="ignore"):
                for nm, fn in (("m0", lambda s: s.m0().values), ("hm0", lambda s: s.hm0().values),
                               ("tm01", lambda s: s.tm01().values), ("tm02", lambda s: s.tm02().values)):
                    a, b = fn(spec), fn(s1d)
                    if not np.allclose(a, b, rtol=1e-12, atol=0, equal_nan=True):
                        run.violation(f"2D spectrum and its 1D reduction disagree on {nm}", dict(a=np.asarray(a).tolist(), b=np.asarray(b).tolist()))
                if not np.isnan(got[0]).any() and (np.nan_to_num(got[0]).max(axis=-1) > 0).all():
                    for nm, fn in (("peak_frequency", lambda s: s.peak_frequency().values),
                                   ("peak_direction", lambda s: s.peak_direction().values),
                                   ("peak_directional_spread", lambda s: s.peak_directional_spread().values),
                                   ("mean_direction", lambda s: s.mean_direction()),
                                   ("mean_directional_spread", lambda s: s.mean_directional_spread())):
                        a, b = np.asarray(fn(spec), dtype=float), np.asarray(fn(s1d), dtype=float)
                        if not np.allclose(a, b, rtol=1e-9, atol=1e-9, equal_nan=True):
                            run.violation(f"2D spectrum and its 1D reduction disagree on {nm}", dict(a=a.tolist(), b=b.tolist()))
        if case < 3:
            run.sample(dict(layout=meta["layout"], directions=d.tolist()[:10], dkind=meta["dkind"]))


# ------------------------------------------------------------------------------------------------
def check_c03_live(run, rng):
    live_vs_fresh(run, rng, "directions_after_inplace_change", True,
                  [("mean_direction", lambda s_: s_.mean_direction()), ("mean_directional_spread", lambda s_: s_.mean_directional_spread()),
                   ("peak_direction", lambda s_: s_.peak_direction().values), ("peak_directional_spread", lambda s_: s_.peak_directional_spread().values),
                   ("mean_a1", lambda s_: s_.mean_a1()), ("mean_b1", lambda s_: s_.mean_b1())])


def check_c03(run, drv, ncases, thorough, start=0):
    rng = run.rng
    from ocean_science_utilities.wavespectra.spectrum import WaveSpectrum
    import xarray
    # direction / spread point functions (Float model)
    pts = []
    for _ in range(ncases * 4):
        r = rng.choice([1e-12, 0.1, 0.5, 0.99, 1.0]) * rng.random()
        th = rng.choice([0, math.pi / 2, math.pi, -math.pi / 2, rng.uniform(-math.pi, math.pi), math.pi - 1e-9, -math.pi + 1e-9])
        pts.append((r * math.cos(th), r * math.sin(th)))
    pts += [(-0.5, 0.0), (-0.5, -0.0), (0.0, 0.0), (1.0, 0.0), (0.0, -1.0)]
    for (a, b) in pts:
        md = float(WaveSpectrum._mean_direction(xarray.DataArray(a), xarray.DataArray(b)).values)
        sd = float(WaveSpectrum._spread(xarray.DataArray(a), xarray.DataArray(b)).values)
        mm = from_bits(drv.ask(f"spec meandir {bits(a)} {bits(b)}"))
        ms = from_bits(drv.ask(f"spec spread {bits(a)} {bits(b)}"))
        run.case("mean_dir", key=(a, b))
        if not (abs(md - mm) <= 1e-9 or abs(abs(md - mm) - 360) <= 1e-9):
            run.mismatch("mean_dir", dict(a=a, b=b, impl=md, model=mm))
        if not (abs(sd - ms) <= 1e-9 * (1 + abs(ms)) or (sd != sd and ms != ms)):
            run.mismatch("spread", dict(a=a, b=b, impl=sd, model=ms))
        want = math.degrees(math.atan2(b, a))
        if abs(md - want) > 1e-9 or not (-180 <= md <= 180):
            run.violation("mean direction is not atan2(b, a) in degrees within [-180, 180]", dict(a=a, b=b, got=md))
        if a * a + b * b <= 1:
            w = math.degrees(math.sqrt(max(0.0, 2 - 2 * math.sqrt(a * a + b * b))))
            if abs(sd - w) > 1e-9 or not (0 <= sd <= 81.03):
                run.violation("spread is not sqrt(2(1-sqrt(a^2+b^2))) in degrees within [0, 81.03]", dict(a=a, b=b, got=sd))
    # band means against the exact model
    for case in range(start, start + ncases):
        with warnings.catch_warnings():
            warnings.simplefilter("ignore")
            spec, meta = sp.make_1d(rng, nan_rate=0.05)
            f, e = meta["f"], meta["e"]
            em = sp.members(e, 1)
            for (fmin, fmax) in sp.bands(rng, f)[:5]:
                fm = "inf" if math.isinf(fmax) else bits(fmax)
                for name, arr in zip(("a1", "b1", "a2", "b2"), meta["moments"]):
                    try:
                        with np.errstate(all="ignore"):
                            got = np.asarray(getattr(spec, "mean_" + name)(fmin, fmax), dtype=float).reshape(-1)
                    except Exception as ex:
                        run.violation("mean_" + name + " raised", dict(error=repr(ex), band=(fmin, fmax), layout=meta["layout"]))
                        continue
                    am = sp.members(arr, 1)
                    for i in range(em.shape[0]):
                        ans = drv.ask(f"spec weighted {bits(fmin)} {fm} {bits_list(f)} {bits_list(am[i])} {bits_list(em[i])}")
                        ex = frac(ans)
                        run.case("weighted", key=(case, fmin, fmax, name, i))
                        v = float(got[i])
                        if ex is None:
                            if not (v != v or abs(v) == float("inf")):
                                run.mismatch("weighted", dict(name=name, band=(fmin, fmax), f=f.tolist(), e=em[i].tolist(), prop=am[i].tolist(), impl=v, model=None))
                        elif not close(v, ex, 1.0 + abs(float(ex)), rel=1e-9):
                            run.mismatch("weighted", dict(name=name, band=(fmin, fmax), f=f.tolist(), e=em[i].tolist(), prop=am[i].tolist(), impl=v, model=float(ex)))
                # mean direction / spread are the point functions of the band means
                with np.errstate(all="ignore"):
                    A = np.asarray(spec.mean_a1(fmin, fmax), dtype=float)
                    B = np.asarray(spec.mean_b1(fmin, fmax), dtype=float)
                    md = np.asarray(spec.mean_direction(fmin, fmax), dtype=float)
                    sd = np.asarray(spec.mean_directional_spread(fmin, fmax), dtype=float)
                    if not np.allclose(md, np.degrees(np.arctan2(B, A)), atol=1e-9, equal_nan=True):
                        run.violation("mean_direction is not atan2 of the band-averaged moments", dict(band=(fmin, fmax)))
                    if not np.allclose(sd, np.degrees(np.sqrt(2 - 2 * np.sqrt(A * A + B * B))), atol=1e-9, equal_nan=True):
                        run.violation("mean_directional_spread does not follow its definition", dict(band=(fmin, fmax)))
                    # peak variants use the moments at the peak frequency of the band
                    if ((f >= fmin) & (f < fmax)).any() and not np.isnan(e).all(axis=-1).any():
                        pk = np.asarray(spec.peak_index(fmin, fmax).values).reshape(-1)
                        pdv = np.asarray(spec.peak_direction(fmin, fmax).values, dtype=float).reshape(-1)
                        psv = np.asarray(spec.peak_directional_spread(fmin, fmax).values, dtype=float).reshape(-1)
                        a1m, b1m = sp.members(meta["moments"][0], 1), sp.members(meta["moments"][1], 1)
                        for i in range(len(pk)):
                            aa, bb = a1m[i][int(pk[i])], b1m[i][int(pk[i])]
                            wd = math.degrees(math.atan2(bb, aa)) if aa == aa and bb == bb else float("nan")
                            ws = math.degrees(math.sqrt(max(0.0, 2 - 2 * math.hypot(aa, bb)))) if aa == aa and bb == bb else float("nan")
                            run.case("peak_dir", key=(case, fmin, fmax, i))
                            if not ((wd != wd and pdv[i] != pdv[i]) or abs(pdv[i] - wd) <= 1e-9):
                                run.violation("peak_direction is not atan2(b1, a1) at the peak frequency of the band", dict(band=(fmin, fmax), got=float(pdv[i]), want=wd))
                            if not ((ws != ws and psv[i] != psv[i]) or abs(psv[i] - ws) <= 1e-9):
                                run.violation("peak_directional_spread does not follow its definition at the peak frequency of the band", dict(band=(fmin, fmax), got=float(psv[i]), want=ws))
                    pfd = np.asarray(spec.mean_direction_per_frequency.values, dtype=float)
                    a1v, b1v = meta["moments"][0], meta["moments"][1]
                    if not np.allclose(pfd, np.degrees(np.arctan2(b1v, a1v)), atol=1e-9, equal_nan=True):
                        run.violation("mean_direction_per_frequency does not follow its definition", {})
    # 2D spectra, uniform and non-uniform direction grids: direction parameters from the density itself
    for case in range(start, start + max(1, ncases // 4)):
        with warnings.catch_warnings():
            warnings.simplefilter("ignore")
            spec, meta = sp.make_2d(rng, nan_rate=0.0, uniform=(case % 2 == 0))
            if case % 3 == 1:
                # the same sea with its direction axis labelled in (-180, 180]
                dneg = np.where(meta["d"] % 360.0 > 180.0, meta["d"] % 360.0 - 360.0, meta["d"] % 360.0)
                spec, meta = sp.make_2d(rng, layout=meta["layout"], f=meta["f"], d=dneg, E=meta["E"], depth_mode="deep")
                run.count("twoD_negative_direction_labels")
            f, d, E = meta["f"], meta["d"], meta["E"]
            run.count("twoD_dirgrid_" + meta["dkind"])
            wdt = dir_widths(d)
            rad = np.radians(d)
            Em = sp.members(E, 2)
            num_e = np.sum(Em * wdt, axis=-1)
            num_a = np.sum(Em * np.cos(rad) * wdt, axis=-1)
            num_b = np.sum(Em * np.sin(rad) * wdt, axis=-1)
            with np.errstate(all="ignore"):
                pfd = sp.members(np.asarray(spec.mean_direction_per_frequency.values, dtype=float), 1)
                wantp = np.degrees(np.arctan2(num_b, num_a))
            run.case("twoD_direction_per_frequency", key=(case,))
            okp = (num_e > 0) & (np.hypot(num_a, num_b) > 1e-9 * num_e)
            if np.any(np.abs(((pfd - wantp + 180) % 360 - 180)[okp]) > 1e-7):
                run.violation("per-frequency mean direction of a 2D spectrum is not atan2 of the width-weighted sin/cos sums of its density",
                              dict(directions=d.tolist(), got=pfd[okp][:4].tolist(), want=wantp[okp][:4].tolist()))
            for (fmin, fmax) in sp.bands(rng, f)[:4]:
                band = (f >= fmin) & (f < fmax)
                if band.sum() < 2:
                    continue
                with np.errstate(all="ignore"):
                    md = np.asarray(spec.mean_direction(fmin, fmax), dtype=float).reshape(-1)
                    sd = np.asarray(spec.mean_directional_spread(fmin, fmax), dtype=float).reshape(-1)
                A = np.trapezoid(num_a[:, band], f[band], axis=-1)
                B = np.trapezoid(num_b[:, band], f[band], axis=-1)
                M0 = np.trapezoid(num_e[:, band], f[band], axis=-1)
                run.case("twoD_mean_direction", key=(case, fmin, fmax))
                for i in range(len(md)):
                    if not (M0[i] > 0) or math.hypot(A[i], B[i]) <= 1e-9 * M0[i]:
                        continue
                    wd = math.degrees(math.atan2(B[i], A[i]))
                    ws = math.degrees(math.sqrt(max(0.0, 2 - 2 * math.hypot(A[i], B[i]) / M0[i])))
                    if abs((md[i] - wd + 180) % 360 - 180) > 1e-7 or abs(sd[i] - ws) > 1e-6:
                        run.violation("mean direction / spread of a 2D spectrum are not those of the energy-weighted band averages of a1, b1 "
                                      "(width-weighted direction sums)", dict(directions=d.tolist(), band=(fmin, fmax), got=[float(md[i]), float(sd[i])], want=[wd, ws]))
    # rotation / mirror on the implementation
    for case in ([start] if start % 4 == 0 else []):
        with warnings.catch_warnings():
            warnings.simplefilter("ignore")
            nd = rng.choice([8, 12, 16, 24, 36, 72])
            theta0 = rng.choice([0.0, 0.0, 2.5, 90.0, 355.0])
            d = theta0 + 360.0 / nd * np.arange(nd)
            _, f = sp.freq_grid(rng, rng.choice([5, 8, 12]))
            layout = rng.choice(sp.LAYOUTS)
            spec, meta = sp.make_2d(rng, layout=layout, f=f, d=d, nan_rate=0.0)
            E = meta["E"] + 1e-3
            ks = range(nd) if thorough else sorted({rng.randrange(nd) for _ in range(8)})

            def params(s):
                with np.errstate(all="ignore"):
                    return dict(md=np.asarray(s.mean_direction(), dtype=float), sp=np.asarray(s.mean_directional_spread(), dtype=float),
                                pd=np.asarray(s.peak_direction().values, dtype=float), ps=np.asarray(s.peak_directional_spread().values, dtype=float),
                                hm0=np.asarray(s.hm0().values, dtype=float), tm01=np.asarray(s.tm01().values, dtype=float),
                                tm02=np.asarray(s.tm02().values, dtype=float), pi=np.asarray(s.peak_index().values),
                                pf=np.asarray(s.peak_frequency().values, dtype=float),
                                band_md=np.asarray(s.mean_direction(float(f[1]), float(f[-1])), dtype=float))
            base_spec, _ = sp.make_2d(rng, layout=layout, f=f, d=d, E=E)
            p0 = params(base_spec)

            def angdiff(x, y):
                return np.abs((x - y + 180.0) % 360.0 - 180.0)
            for k in ks:
                rot, _ = sp.make_2d(rng, layout=layout, f=f, d=d, E=np.roll(E, k, axis=-1))
                p = params(rot)
                shift = k * 360.0 / nd
                run.case("rotation", key=(case, k))
                for nm in ("md", "pd", "band_md"):
                    if np.nanmax(angdiff(p[nm], p0[nm] + shift)) > 1e-7:
                        run.violation("a direction parameter does not shift by k bins under rotation of the spectrum",
                                      dict(nd=nd, k=k, theta0=theta0, name=nm, before=p0[nm].tolist(), after=p[nm].tolist()))
                for nm in ("sp", "ps", "hm0", "tm01", "tm02", "pf"):
                    if not np.allclose(p[nm], p0[nm], rtol=1e-9, atol=1e-9, equal_nan=True):
                        run.violation("a rotation-invariant parameter changed under rotation", dict(nd=nd, k=k, name=nm))
                if not np.array_equal(p["pi"], p0["pi"]):
                    run.violation("peak index changed under rotation", dict(nd=nd, k=k))
            if theta0 == 0.0:
                idx = (-np.arange(nd)) % nd
                mir, _ = sp.make_2d(rng, layout=layout, f=f, d=d, E=E[..., idx])
                p = params(mir)
                run.case("mirror", key=(case, "m"))
                for nm in ("md", "pd", "band_md"):
                    if np.nanmax(angdiff(p[nm], -p0[nm])) > 1e-7:
                        run.violation("a direction parameter is not negated by mirroring the direction axis", dict(nd=nd, name=nm))
                for nm in ("sp", "ps", "hm0", "tm01", "tm02", "pf"):
                    if not np.allclose(p[nm], p0[nm], rtol=1e-9, atol=1e-9, equal_nan=True):
                        run.violation("a mirror-invariant parameter changed under mirroring", dict(nd=nd, name=nm))
        if case < 2:
            run.sample(dict(rotation_grid=nd, theta0=theta0, layout=layout, ks=list(ks)[:8]))


# ------------------------------------------------------------------------------------------------
def peaky_energy(rng, shape):
    e = np.zeros(shape)
    flat = e.reshape(-1, shape[-1])
    for row in flat:
        mode = rng.choice(["multi", "plateau", "first", "last", "zero", "random", "nan"])
        nf = shape[-1]
        row[:] = [rng.randrange(0, 4) / 4.0 for _ in range(nf)]
        if mode == "multi":
            for _ in range(3):
                row[rng.randrange(nf)] = rng.choice([2.0, 3.0, 3.0])
        elif mode == "plateau":
            i = rng.randrange(nf)
            row[i: i + 3] = 5.0
            row[rng.randrange(nf)] = 5.0
        elif mode == "first":
            row[0] = 9.0
        elif mode == "last":
            row[-1] = 9.0
        elif mode == "zero":
            row[:] = 0.0
            if rng.random() < 0.5:
                row[rng.randrange(nf)] = 1.0
        elif mode == "nan":
            row[rng.randrange(nf)] = np.nan
            row[rng.randrange(nf)] = 7.0
    return e


def check_c04(run, drv, ncases, start=0):
    from ocean_science_utilities.wavetheory.lineardispersion import intrinsic_dispersion_relation
    rng = run.rng
    for case in range(start, start + ncases):
        with warnings.catch_warnings():
            warnings.simplefilter("ignore")
            two_d = rng.random() < 0.3
            layout = rng.choice(sp.LAYOUTS)
            _, f = sp.freq_grid(rng, rng.choice([5, 8, 12, 20]))
            bshape = sp.batch_shape(rng, layout)
            if two_d:
                nd = rng.choice([8, 12])
                base = peaky_energy(rng, bshape + (len(f),))
                base = np.nan_to_num(base)
                w = np.array([rng.random() for _ in range(nd)])
                E = base[..., None] * w / w.sum() / (360.0 / nd)
                spec, meta = sp.make_2d(rng, layout=layout, f=f, d=360.0 / nd * np.arange(nd), E=E)
                e = np.asarray(spec.e.values, dtype=float)
            else:
                e = peaky_energy(rng, bshape + (len(f),))
                spec, meta = sp.make_1d(rng, layout=layout, f=f, e=e)
            em = sp.members(e, 1)
            run.count("layout_" + layout)
            stored_before = np.array(spec.dataset["variance_density"].values, dtype=float).copy()
            for (fmin, fmax) in sp.bands(rng, f):
                if not np.array_equal(np.asarray(spec.dataset["variance_density"].values, dtype=float), stored_before, equal_nan=True):
                    run.violation("a peak query changed the variance density of the spectrum it was asked of (later answers refer to the changed data)",
                                  dict(layout=layout, two_d=two_d))
                    break
                fm = "inf" if math.isinf(fmax) else bits(fmax)
                inband = (f >= fmin) & (f < fmax)
                try:
                    idx = np.asarray(spec.peak_index(fmin, fmax).values).reshape(-1)
                except ValueError as ex:
                    # all-NaN slice: the model must say "none" for some member
                    models = [drv.ask(f"spec peak {bits(fmin)} {fm} {bits_list(f)} {bits_list(em[i])}") for i in range(em.shape[0])]
                    run.case("peak_index", key=(case, fmin, fmax, "raise"))
                    if "none" not in models:
                        run.mismatch("peak_index", dict(reason="implementation raised, model has a peak", error=repr(ex)))
                    continue
                for i in range(em.shape[0]):
                    ans = drv.ask(f"spec peak {bits(fmin)} {fm} {bits_list(f)} {bits_list(em[i])}")
                    run.case("peak_index", key=(case, fmin, fmax, i), nontrivial=inband.sum() >= 2)
                    vals = np.where(inband, em[i], -np.inf)
                    if ans == "none":
                        # no in-band value: nothing is specified (empty band) unless numpy should have raised
                        run.count("empty_band_or_all_nan")
                        continue
                    if int(idx[i]) != int(ans):
                        run.mismatch("peak_index", dict(f=f.tolist(), e=em[i].tolist(), band=(fmin, fmax), impl=int(idx[i]), model=int(ans)))
                    # oracle: first index of the in-band maximum
                    want = int(np.nanargmax(vals))
                    if int(idx[i]) != want or not inband[int(idx[i])]:
                        run.violation("peak index is not the first in-band index of the maximum of e(f)",
                                      dict(f=f.tolist(), e=em[i].tolist(), band=(fmin, fmax), got=int(idx[i]), want=want))
                if inband.any() and not np.isnan(e).all(axis=-1).any():
                    with np.errstate(all="ignore"):
                        pf = np.asarray(spec.peak_frequency(fmin, fmax).values, dtype=float).reshape(-1)
                        pp = np.asarray(spec.peak_period(fmin, fmax).values, dtype=float).reshape(-1)
                        pd = np.asarray(spec.peak_direction(fmin, fmax).values, dtype=float).reshape(-1)
                        ps = np.asarray(spec.peak_directional_spread(fmin, fmax).values, dtype=float).reshape(-1)
                        dpf = sp.members(np.asarray(spec.mean_direction_per_frequency.values, dtype=float), 1)
                        spf = sp.members(np.asarray(spec.mean_spread_per_frequency.values, dtype=float), 1)
                    for i in range(em.shape[0]):
                        k = int(idx[i])
                        run.case("peak_params", key=(case, fmin, fmax, i))
                        if pf[i] != f[k] or not (pp[i] == 1 / f[k] or (f[k] == 0 and np.isinf(pp[i]))):
                            run.violation("peak frequency / period are not the grid frequency at the peak index and its reciprocal", dict(k=k, pf=float(pf[i]), pp=float(pp[i])))
                        for nm, got, per in (("peak_direction", pd, dpf), ("peak_directional_spread", ps, spf)):
                            a, b = got[i], per[i][k]
                            if not ((a != a and b != b) or a == b):
                                run.violation(f"{nm} is not the per-frequency value at the peak index", dict(k=k, got=float(a), want=float(b)))
            # the peak follows the data: read it, change the density in place so that the maximum moves, read it again
            if two_d and len(f) >= 3:
                run.case("peak_after_inplace_change", key=(case,))
                live, _ = sp.make_2d(rng, layout=layout, f=f, d=360.0 / nd * np.arange(nd), E=E.copy(), depth_mode="deep")
                before_idx = np.asarray(live.peak_index().values).reshape(-1)
                fac = np.ones(len(f))
                tgt = (int(before_idx[0]) + 1 + rng.randrange(len(f) - 1)) % len(f)
                fac[tgt] = 1e6
                live.multiply(fac, ["frequency"], inplace=True)
                fresh, _ = sp.make_2d(rng, layout=layout, f=f, d=360.0 / nd * np.arange(nd), E=E * fac[:, None], depth_mode="deep")
                for nm in ("peak_index", "peak_frequency", "peak_period", "peak_direction", "peak_directional_spread"):
                    with np.errstate(all="ignore"):
                        a_, b_ = np.asarray(getattr(live, nm)().values, dtype=float), np.asarray(getattr(fresh, nm)().values, dtype=float)
                    if not np.array_equal(a_, b_, equal_nan=True):
                        run.violation("after an in-place change of the density " + nm + " still refers to the old maximum of e(f)",
                                      dict(layout=layout, before=before_idx.tolist()[:4], got=a_.reshape(-1).tolist()[:4], want=b_.reshape(-1).tolist()[:4]))
            # peak wavenumber satisfies the dispersion relation at the peak frequency and the member's depth
            if not np.isnan(e).all(axis=-1).any():
                with np.errstate(all="ignore"):
                    kp = np.asarray(spec.peak_wavenumber.values, dtype=float).reshape(-1)
                    idx = np.asarray(spec.peak_index().values).reshape(-1)
                    depth = np.asarray(spec.dataset["depth"].values, dtype=float).reshape(-1)
                for i in range(len(kp)):
                    w = 2 * np.pi * f[int(idx[i])]
                    dep = np.inf if np.isnan(depth[i]) else depth[i]
                    run.case("peak_wavenumber", key=(case, i))
                    if w <= 0:
                        continue
                    with np.errstate(all="ignore"):
                        w2 = float(np.sqrt(9.81 * kp[i] * np.tanh(kp[i] * dep))) if np.isfinite(dep) else float(np.sqrt(9.81 * kp[i]))
                    if not (abs(w2 - w) <= 1.2e-3 * w):
                        run.violation("peak wavenumber does not satisfy the dispersion relation at the peak frequency and depth",
                                      dict(f=float(f[int(idx[i])]), depth=float(dep), k=float(kp[i]), w=w, w_of_k=w2))
        if case < 3:
            run.sample(dict(layout=layout, two_d=two_d, f=f.tolist()[:8], e=em[0].tolist()[:8]))


def main(prop, tier, seed):
    run = common.Run(prop, tier, seed)
    # second tie: the closed forms around the moments / directions / peak are re-translated from the source on every run
    aud = common.audit_with_spec(prop, [prop + "Gen"], thorough=(tier == "thorough"))
    common.use_repo_source()
    thorough = tier == "thorough"
    drv = common.Driver()
    try:
        def cases(fn, n, *extra):
            for i in range(n):
                with common.guard(run, f"{prop} case {i}"):
                    fn(run, drv, 1, *extra, start=i)
        if prop == "C01":
            cases(check_c01, 600 if thorough else 60)
        elif prop == "C02":
            cases(check_c02, 800 if thorough else 80)
        elif prop == "C03":
            cases(check_c03, 400 if thorough else 40, thorough)
            for i in range(40 if thorough else 6):
                with common.guard(run, f"C03 live object {i}"):
                    check_c03_live(run, run.rng)
        elif prop == "C04":
            cases(check_c04, 800 if thorough else 80)
    finally:
        drv.close()
    return run.finish(aud, ASSUMPTIONS, RULES[prop])
