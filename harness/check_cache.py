"""Checks C18 and C19 (file cache)."""
import itertools
import os
import time

from . import common
from .cache import World, do_get, simple_op, crash_get, NKEYS, SLACK

ASSUMPTIONS = [
    "md5 is injective on the URIs used (keys are modelled as natural numbers)",
    "POSIX rename (os.replace) is atomic; a killed process leaves files as last written (emulated by os._exit in a forked child)",
    "file-system timestamps order successive cache operations: the harness installs a logical clock (os.utime with no explicit time is redirected to a strictly increasing counter; the mock resource stamps every write)",
    "GIGABYTE and MEGABYTE are patched to 1 and 16 in the harness process so that byte sizes are exact integers (float size_gb conversion is not modelled)",
    "elementary actions of concurrent download workers on distinct keys commute (the model sequentialises a parallel request in completion order; quick tier: <= 5 misses per request run on one worker thread)",
    "requests contain each URI at most once",
]

RULE = ("histories are generated from one PRNG (VERIF_SEED) plus an exhaustive enumeration of short "
        "sequences over a small alphabet; after EVERY operation the canonical observation of the real "
        "FileCache (returned keys or error kind, download log, index via in_cache, directory listing with "
        "content classes and sizes, recency order, configured size, total size) is compared for equality "
        "with the Lean model's; a case is one operation; it is non-trivial and distinct if the pair "
        "(operation line, resulting model observation) was not seen before and the operation was not a no-op")


def safe(fn, world, *args):
    """Call a harness step; an exception escaping from the cache code is a finding, not a tool failure."""
    try:
        return fn(world, *args)
    except Exception as e:       # noqa
        import traceback
        tb = traceback.format_exc()
        if "ocean_science_utilities" in tb:
            world.run.violation("operation raised an unexpected exception inside the cache code",
                                dict(step=str(args)[:300], error=repr(e), where=tb.splitlines()[-4:]))
            return "aborted: " + repr(e), "model not consulted", dict(line="aborted " + str(args)[:200])
        raise


def compare(run, world, impl, model, info, hist, kernel):
    run.case(kernel, key=(info.get("line"), model), nontrivial=("out=none" not in model or "files= " not in model))
    if not impl.startswith("aborted"):
        world.invariant_oracles(dict(history=list(hist)[-6:]))
    if impl != model:
        run.mismatch(kernel, dict(history=list(hist), op=info, impl=impl, model=model))
        if not impl.startswith("aborted"):
            world.probe_hits(dict(history=list(hist)[-6:], impl=impl, model=model))
        return False
    return True


def mk_req(key, vname=None, pp=False, kind="ok", arg=40):
    return dict(key=key, vname=vname, pp=pp, kind=kind, arg=arg)


def exhaustive(run, drv, depth, sizes, modes, alphabet_keys=(0, 1, 4), budget_s=1e9):
    """Every sequence of `depth` operations over a small alphabet."""
    t0 = time.time()
    k0, k1, k2 = alphabet_keys          # k0,k1: one resource under two comments; k2: another resource
    gets = []
    for r in (1, 2, 3):
        for sub in itertools.combinations((k0, k1, k2), r):
            gets.append(("get", [mk_req(k, arg=30 + 10 * (k % 3)) for k in sub]))
    others = [("remove", k0), ("purge",), ("reopen", False, 1), ("touch", k0), ("foreign", 0, 25),
              ("get", [mk_req(k0, vname="vf", arg=30)]), ("get", [mk_req(k2, kind="nf", arg=0), mk_req(k1, arg=40)])]
    alphabet = gets + others
    n = 0
    for size in sizes:
        for par in modes:
            for seq in itertools.product(alphabet, repeat=depth):
                if time.time() - t0 > budget_s:
                    run.notes.append(f"exhaustive depth {depth} stopped by budget after {n} sequences")
                    return n
                world = World(run, size, True, par, drv)
                hist = [f"init size={size} parallel={par}"]
                try:
                    for op in seq:
                        if op[0] == "get":
                            impl, model, info = safe(do_get, world, op[1])
                        else:
                            impl, model, info = safe(simple_op, world, op)
                        hist.append(info["line"])
                        if not compare(run, world, impl, model, info, hist, "cache/exhaustive"):
                            break
                finally:
                    world.close()
                n += 1
    run.count(f"exhaustive_sequences_depth{depth}", n)
    return n


FAULTS = ["nf", "rb", "rp", "rpost"]


def random_history(run, drv, length, fault_rate, crash_rate, parallel, big_requests=False):
    rng = run.rng
    size = rng.choice([60, 100, 150, 400, 10_000])
    tolerant = rng.random() < 0.6
    world = World(run, size, tolerant, parallel, drv, relative=(rng.random() < 0.15))
    hist = [f"init size={size} tolerant={tolerant} parallel={parallel}"]
    ok = True
    try:
        for _ in range(length):
            u = rng.random()
            if u < 0.62:
                nmax = 8 if big_requests else 3
                n = rng.randint(1, nmax)
                if big_requests and rng.random() < 0.7:
                    n = rng.randint(6, 11)
                keys = rng.sample(range(NKEYS), n)
                # skew the completion order of the worker threads
                world.delay = {keys[0]: 0.02} if (big_requests and rng.random() < 0.6) else {}
                reqs = []
                for k in keys:
                    kind, arg, pp, vname = "ok", rng.choice([8, 20, 30, 40, 55, 90, 180]), rng.random() < 0.3, None
                    if rng.random() < fault_rate:
                        kind = rng.choice(FAULTS)
                        if kind == "rp":
                            arg = rng.choice([0, 3, 9, 20])
                        if kind in ("nf", "rb"):
                            arg = 0
                        if kind == "rpost":
                            pp = rng.random() < 0.8
                    if rng.random() < 0.25:
                        vname = rng.choice(["vt", "vf", "ve"])
                    reqs.append(dict(key=k, vname=vname, pp=pp, kind=kind, arg=arg))
                    run.count("req_" + kind)
                    if vname:
                        run.count("validate_" + vname)
                if rng.random() < crash_rate and all(r["kind"] in ("ok",) for r in reqs) and not parallel:
                    nwrites = sum(3 if r["pp"] else 2 for r in reqs)
                    j = rng.randint(0, nwrites)
                    impl, model, info = safe(crash_get, world, reqs, j, rng.random() < 0.7)
                    run.count("crash_requests")
                    kern = "cache/crash"
                else:
                    impl, model, info = safe(do_get, world, reqs)
                    kern = "cache/get"
                    run.count("out_" + info["out"].split("[")[0])
            elif u < 0.70:
                impl, model, info = safe(simple_op, world, ("remove", rng.randrange(NKEYS)))
                kern = "cache/remove"
            elif u < 0.73:
                impl, model, info = safe(simple_op, world, ("purge",))
                kern = "cache/purge"
            elif u < 0.81:
                ev = rng.random() < 0.5
                impl, model, info = safe(simple_op, world, ("reopen", ev, rng.choice([1, 50, 5000])))
                kern = "cache/reopen"
            elif u < 0.92:
                impl, model, info = safe(simple_op, world, ("touch", rng.randrange(NKEYS)))
                kern = "cache/touch"
            else:
                impl, model, info = safe(simple_op, world, ("foreign", rng.randrange(3), rng.choice([5, 50, 500])))
                kern = "cache/foreign"
            hist.append(info["line"])
            if not compare(run, world, impl, model, info, hist, kern):
                ok = False
                break
            if "ev=" in model:
                pass
        run.sample({"history": hist[:12], "last_observation": impl}, limit=3)
    finally:
        world.close()
    return ok


def fault_enumeration(run, drv, nreq_max, parallel_modes, tolerant_modes):
    """C19: every fault kind at every download position of every request shape, on a cache that
    already holds a file, followed by retry and by reopen."""
    n = 0
    kinds = ["nf", "rb", "rp", "rpost"]
    for nreq in range(1, nreq_max + 1):
        for pos in range(nreq):
            for kind in kinds:
                for tolerant in tolerant_modes:
                    for par in parallel_modes:
                        for pp in (False, True):
                            for follow in ("retry", "reopen", "reopen-evict"):
                                world = World(run, 120, tolerant, par, drv)
                                hist = [f"init size=120 tolerant={tolerant} parallel={par}"]
                                try:
                                    steps = []
                                    steps.append(("get", [mk_req(8, arg=30)]))          # pre-cached
                                    reqs = [mk_req(8, arg=30)] if nreq > 1 else []
                                    keys = [0, 5, 2][:nreq]
                                    for i, k in enumerate(keys):
                                        if i == pos:
                                            reqs.append(dict(key=k, vname=None, pp=pp, kind=kind,
                                                             arg=(9 if kind == "rp" else 0 if kind in ("nf", "rb") else 40)))
                                        else:
                                            reqs.append(mk_req(k, pp=pp, arg=40))
                                    steps.append(("get", reqs))
                                    if follow == "retry":
                                        steps.append(("get", [mk_req(k, pp=pp, arg=40) for k in keys]))
                                    else:
                                        steps.append(("reopen", follow == "reopen-evict", 1))
                                        steps.append(("get", [mk_req(keys[pos], pp=pp, arg=40)]))
                                    for op in steps:
                                        if op[0] == "get":
                                            impl, model, info = safe(do_get, world, op[1])
                                        else:
                                            impl, model, info = safe(simple_op, world, op)
                                        hist.append(info["line"])
                                        if not compare(run, world, impl, model, info, hist, "cache/fault-enum"):
                                            break
                                    n += 1
                                finally:
                                    world.close()
    # validation failures followed by a failing re-download
    for kind in kinds + ["ok"]:
        for vname in ("vf", "ve"):
            for tolerant in tolerant_modes:
                world = World(run, 120, tolerant, False, drv)
                hist = ["init"]
                try:
                    for op in [("get", [mk_req(0, arg=30), mk_req(4, arg=30)]),
                               ("get", [dict(key=0, vname=vname, pp=False, kind=kind,
                                             arg=(9 if kind == "rp" else 0 if kind in ("nf", "rb") else 40)),
                                        mk_req(4, vname="vt", arg=30)]),
                               ("reopen", False, 1),
                               ("get", [mk_req(0, arg=30)])]:
                        impl, model, info = safe(do_get, world, op[1]) if op[0] == "get" else safe(simple_op, world, op)
                        hist.append(info["line"])
                        if not compare(run, world, impl, model, info, hist, "cache/validate-fault"):
                            break
                    n += 1
                finally:
                    world.close()
    run.count("fault_enumeration_histories", n)
    return n


def crash_enumeration(run, drv, max_reqs):
    """C19: a kill at every temporary-file write of every request shape, then reopen and re-request."""
    n = 0
    for nreq in range(1, max_reqs + 1):
        for pps in itertools.product((False, True), repeat=nreq):
            nwrites = sum(3 if p else 2 for p in pps)
            for j in range(0, nwrites + 1):
                for ev in (False, True):
                    for small in (False, True):
                        world = World(run, 70 if small else 500, True, False, drv)
                        hist = [f"init size={70 if small else 500}"]
                        try:
                            impl, model, info = safe(do_get, world, [mk_req(8, arg=30)])
                            hist.append(info["line"])
                            if not compare(run, world, impl, model, info, hist, "cache/crash-enum"):
                                continue
                            reqs = [mk_req(8, arg=30)] + [mk_req(k, pp=p, arg=35) for k, p in zip([0, 5, 2], pps)]
                            impl, model, info = safe(crash_get, world, reqs, j, ev)
                            hist.append(info["line"])
                            if not compare(run, world, impl, model, info, hist, "cache/crash-enum"):
                                continue
                            impl, model, info = safe(do_get, world, reqs)
                            hist.append(info["line"])
                            compare(run, world, impl, model, info, hist, "cache/crash-enum")
                            n += 1
                        finally:
                            world.close()
    run.count("crash_enumeration_histories", n)
    return n


def parallel_big(run, drv, count):
    """Requests of 6..12 URIs in parallel mode (more than one imap chunk => real threads)."""
    for _ in range(count):
        random_history(run, drv, run.rng.randint(4, 10), 0.15, 0.0, True, big_requests=True)


def scenarios(run, prop):
    """Histories outside the alphabet of the model (files removed behind the cache's back, old local sources, the
    same URI twice in one request), judged by the clauses of the property only: every returned path exists and holds
    the bytes of its resource, nothing is returned for a URI that could not be fetched."""
    import os
    import shutil
    import tempfile
    import time as _t
    common.use_repo_source()
    from ocean_science_utilities.filecache.cache_object import FileCache
    from ocean_science_utilities.filecache import remote_resources as rr

    store = {}

    class Mem(rr.RemoteResource):
        URI_PREFIX = "mem://"

        def download(self):
            def dl(uri, filepath):
                if uri not in store:
                    raise rr._RemoteResourceUriNotFound(uri)
                with open(filepath, "wb") as fh:
                    fh.write(store[uri])
                return True
            return dl

    def check_paths(what, uris, paths, cache_dir, may_omit=()):
        got = dict(zip([u for u in uris if u not in may_omit], paths)) if len(paths) != len(uris) else dict(zip(uris, paths))
        for u, pth in got.items():
            if not os.path.exists(pth):
                run.violation(what + ": a returned path does not exist", dict(uri=u, path=os.path.basename(pth)))
            elif u in store and open(pth, "rb").read() != store[u]:
                run.violation(what + ": a returned file does not hold the bytes of its resource", dict(uri=u, size=os.path.getsize(pth)))

    root = tempfile.mkdtemp(prefix="osu_scen_")
    try:
        if prop == "C18":
            # (1) a cache file deleted behind the cache's back: the next request raises or fetches again; it never serves a placeholder
            for reopen in (False, True):
                run.case("scenario_deleted_behind", key=reopen)
                cdir = os.path.join(root, f"del{int(reopen)}")
                os.makedirs(cdir)
                store.clear(); store.update({"mem://a": b"A" * 300, "mem://b": b"B" * 200})
                c = FileCache(path=cdir, size_GB=1e-5, resources=[Mem()], parallel=False)
                c.disable_progress_bar = True
                (pa,) = c["mem://a"]
                c["mem://b"]
                os.remove(pa)
                if reopen:
                    c = FileCache(path=cdir, size_GB=1e-5, resources=[Mem()], parallel=False)
                    c.disable_progress_bar = True
                try:
                    out = c[["mem://a", "mem://b"]]
                except Exception:
                    run.count("deleted_behind_raises")
                    continue
                check_paths("file deleted behind the cache", ["mem://a", "mem://b"], out, cdir)
            # (2) old local source files (file://): eviction by recency of use, never a file of the current request
            run.case("scenario_old_local_files", key=0)
            src = os.path.join(root, "archive"); cdir = os.path.join(root, "loc")
            os.makedirs(src); os.makedirs(cdir)
            uris = {}
            for name, stamp in (("a", 1.0e9), ("b", 1.1e9), ("c", 0.9e9), ("d", 0.8e9)):
                pth = os.path.join(src, name + ".dat")
                with open(pth, "wb") as fh:
                    fh.write(name.encode() * 1000)
                os.utime(pth, (stamp, stamp))
                uris[name] = "file://" + pth
                store[uris[name]] = name.encode() * 1000
            c = FileCache(path=cdir, size_GB=2500 / 1e9, resources=[rr.RemoteResourceLocal()], parallel=False)
            c.disable_progress_bar = True
            for seq in (["a"], ["b"], ["a"], ["c"], ["a", "d"], ["b", "c"]):
                _t.sleep(0.02)
                req = [uris[k] for k in seq]
                try:
                    out = c[req]
                except Exception as ex:
                    run.violation("old local files: the request raised", dict(request=seq, error=repr(ex)[:200]))
                    break
                check_paths("old local files", req, out, cdir)
        else:
            # the same unretrievable URI twice in one tolerant request
            for par in (False, True):
                run.case("scenario_duplicate_missing", key=par)
                cdir = os.path.join(root, f"dup{int(par)}")
                os.makedirs(cdir)
                store.clear(); store.update({"mem://a": b"A" * 300, "mem://b": b"B" * 200})
                c = FileCache(path=cdir, size_GB=1e-5, resources=[Mem()], parallel=par, allow_for_missing_files=True)
                c.disable_progress_bar = True
                for req in (["mem://a", "mem://gone", "mem://b", "mem://gone"], ["mem://gone", "mem://gone"], ["mem://a", "mem://a", "mem://gone"]):
                    try:
                        out = c[req]
                    except Exception as ex:
                        run.count("duplicate_request_raises")
                        continue
                    for pth in out:
                        if not os.path.exists(pth):
                            run.violation("a tolerant request returned a path for a URI that could not be fetched (no file behind it)",
                                          dict(request=req, returned=len(out), path=os.path.basename(pth)))
                    want = [store[u] for u in req if u in store]
                    have = [open(pth, "rb").read() for pth in out if os.path.exists(pth)]
                    if sorted(set(have)) != sorted(set(want)):
                        run.violation("a tolerant request with a repeated missing URI does not return exactly the files of the retrievable URIs",
                                      dict(request=req, returned=len(out)))
    finally:
        shutil.rmtree(root, ignore_errors=True)


def main(prop, tier, seed):
    run = common.Run(prop, tier, seed)
    aud = common.audit(prop, thorough=(tier == "thorough"))
    drv = common.Driver()
    try:
        thorough = tier == "thorough"
        with common.guard(run, "scenarios"):
            scenarios(run, prop)
        if prop == "C18":
            exhaustive(run, drv, 2, sizes=(45, 90, 1000), modes=(False, True))
            exhaustive(run, drv, 3, sizes=(45, 90, 1000) if thorough else (90,),
                       modes=(False, True) if thorough else (False,), budget_s=900 if thorough else 60)
            if thorough:
                exhaustive(run, drv, 4, sizes=(90,), modes=(False,), budget_s=900)
            for i in range(2000 if thorough else 150):
                with common.guard(run, f"request history {i}"):
                    random_history(run, drv, run.rng.randint(20, 60), 0.12, 0.05, parallel=(i % 3 == 0))
            parallel_big(run, drv, 300 if thorough else 30)
        else:
            fault_enumeration(run, drv, 3, (False, True), (False, True))
            crash_enumeration(run, drv, 3 if thorough else 2)
            for i in range(1500 if thorough else 120):
                with common.guard(run, f"request history {i}"):
                    random_history(run, drv, run.rng.randint(15, 40), 0.35, 0.2, parallel=(i % 4 == 0))
            parallel_big(run, drv, 200 if thorough else 20)
    finally:
        drv.close()
    return run.finish(aud, ASSUMPTIONS, RULE)
