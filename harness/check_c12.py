"""C12: equilibrium-range wind estimate."""
import math
import warnings

import numpy as np

from . import common
from .numfmt import bits, bits_list, from_bits
from . import spectra as sp

ASSUMPTIONS = [
    "Float model vs numpy at 1e-9 relative; argmax/argmin ties are generated away from (random levels) except the analytic f^-4 tails, where every window gives the same level so that the choice does not matter",
    "the mean method is compared on spectra without missing values (NaN handling of that method is not part of the statement)",
]

RULE = ("seeded 1D spectra: analytic c*f^-4 tails of random level and direction on top of a lower background, random spectra (peak "
        "method oracle), NaN bins (peak method), batches in the four dims layouts; both methods, both direction conventions, "
        "non-default I / beta / kappa / Charnock parameters; 2D inputs against their 1D reduction; one case = one (spectrum member, "
        "method); non-trivial always")

G = 9.81


def tail_spectrum(rng, layout):
    nf = rng.choice([48, 60, 80])
    f = np.linspace(0.03, rng.choice([0.8, 1.0, 1.25]), nf)
    bshape = sp.batch_shape(rng, layout)
    n = int(np.prod(bshape)) if bshape else 1
    cs = np.array([rng.uniform(1e-4, 5e-2) for _ in range(n)])
    ths = np.array([rng.uniform(-math.pi, math.pi) for _ in range(n)])
    e = cs[:, None] * f[None, :] ** -4.0
    # below the tail at low frequency
    ramp = np.clip((f - 0.03) / 0.1, 0.05, 1.0)
    lowcut = rng.choice([0.0, 0.08, 0.15])
    e = np.where(f[None, :] < lowcut, e * ramp[None, :] * 0.5, e)
    r = rng.uniform(0.3, 0.95)
    a1 = np.ones_like(e) * (r * np.cos(ths))[:, None]
    b1 = np.ones_like(e) * (r * np.sin(ths))[:, None]
    shape = tuple(bshape) + (nf,)
    return f, e.reshape(shape), a1.reshape(shape), b1.reshape(shape), cs, ths, lowcut


def check(run, drv, we, thorough):
    rng = run.rng
    for case in range(400 if thorough else 50):
        with warnings.catch_warnings(), common.guard(run, f"C12 case {case}"):
            warnings.simplefilter("ignore")
            layout = rng.choice(sp.LAYOUTS)
            analytic = rng.random() < 0.5
            if analytic:
                f, e, a1, b1, cs, ths, lowcut = tail_spectrum(rng, layout)
            else:
                _, f = sp.freq_grid(rng, rng.choice([30, 45, 60]))
                if f[0] == 0:
                    f = f + 1.0 / 64
                bshape = sp.batch_shape(rng, layout)
                e = sp.energy(rng, tuple(bshape) + (len(f),), nan_rate=0.0, positive=True)
                rr = np.array([rng.uniform(0.1, 0.95) for _ in range(e.size)]).reshape(e.shape)
                tt = np.array([rng.uniform(-math.pi, math.pi) for _ in range(e.size)]).reshape(e.shape)
                a1, b1 = rr * np.cos(tt), rr * np.sin(tt)
            z = np.zeros_like(e)
            nan_case = (not analytic) and rng.random() < 0.3
            if nan_case:
                e = e.copy()
                e.reshape(-1)[rng.randrange(e.size)] = np.nan
            spec, meta = sp.make_1d(rng, layout=layout, f=f, e=e, moments=(a1, b1, z, z), depth_mode="deep")
            I = rng.choice([2.5, 2.5, 2.0, 3.0])
            beta = rng.choice([0.012, 0.012, 0.009])
            kappa = rng.choice([0.4, 0.4, 0.41])
            charn = rng.choice([0.012, 0.012, 0.018])
            fmax = rng.choice([0.5, 0.5, 0.8])
            nb = rng.choice([20, 10])
            grav = rng.choice([9.81, 9.7803, 9.80665, 9.832])      # g of the friction-velocity closed form
            gz = rng.choice([9.81, 9.81, 9.7803, 9.832])           # g of the Charnock relation (a separate keyword of the library)
            run.count("layout_" + layout)
            run.count("analytic" if analytic else "random")
            em, am, bm = sp.members(e, 1), sp.members(a1, 1), sp.members(b1, 1)
            for method in (("peak",) if nan_case else ("peak", "mean")):
                for conv in ("going_to_counter_clockwise_east", "coming_from_clockwise_north"):
                    # every parameter is either passed or left to its documented default, independently
                    kw, eff = {}, {}
                    for name, val, default in (("fmax", fmax, 0.5), ("directional_spreading_constant", I, 2.5),
                                               ("phillips_constant_beta", beta, 0.012), ("vonkarman_constant", kappa, 0.4),
                                               ("number_of_bins", nb, 20), ("charnock_constant", charn, 0.012),
                                               ("grav", grav, 9.81), ("gravitational_acceleration", gz, 9.81)):
                        if rng.random() < 0.7:
                            kw[name] = val
                            eff[name] = val
                        else:
                            eff[name] = default
                            run.count("default_" + name)
                    fmax_e, I_e, beta_e, kappa_e, nb_e, charn_e = (eff["fmax"], eff["directional_spreading_constant"],
                                                                   eff["phillips_constant_beta"], eff["vonkarman_constant"],
                                                                   eff["number_of_bins"], eff["charnock_constant"])
                    Ge = eff["grav"]         # model and oracles use the effective values
                    Gz = eff["gravitational_acceleration"]
                    out = we.estimate_u10_from_spectrum(spec, method, power=4, direction_convention=conv, **kw)
                    us = np.asarray(out["friction_velocity"].values, dtype=float).reshape(-1)
                    dr = np.asarray(out["direction"].values, dtype=float).reshape(-1)
                    u10 = np.asarray(out["u10"].values, dtype=float).reshape(-1)
                    for i in range(em.shape[0]):
                        run.case("estimate", key=(case, method, conv, i))
                        if method == "peak":
                            ans = drv.ask(f"wind peak 4 {bits_list(f)} {bits_list(em[i])} {bits_list(am[i])} {bits_list(bm[i])}").split()
                        else:
                            ans = drv.ask(f"wind mean 4 {nb_e} {bits(fmax_e)} {bits_list(f)} {bits_list(em[i])} {bits_list(am[i])} {bits_list(bm[i])}").split()
                        lvl, ma, mb = [float("nan") if t == "nan" else from_bits(t) for t in ans]
                        mus = from_bits(drv.ask(f"wind ustar {bits(lvl)} {bits(Ge)} {bits(I_e)} {bits(beta_e)}"))
                        mdir = from_bits(drv.ask(f"wind dir {bits(ma)} {bits(mb)}")) if ma == ma and mb == mb else float("nan")
                        if conv == "coming_from_clockwise_north" and mdir == mdir:
                            mdir = from_bits(drv.ask(f"wind met {bits(mdir)}"))
                        mu10 = from_bits(drv.ask(f"wind u10 {bits(kappa_e)} {bits(charn_e)} {bits(Gz)} {bits(mus)}"))
                        info = dict(method=method, convention=conv, layout=layout, member=i, analytic=analytic,
                                    f=f.tolist()[:6], e=em[i].tolist()[:6])

                        def rel(a, b):
                            return (a != a and b != b) or abs(a - b) <= 1e-9 * (abs(b) + 1e-300)
                        if not rel(us[i], mus) or not rel(u10[i], mu10):
                            run.mismatch("estimate", dict(info, impl=[float(us[i]), float(u10[i])], model=[mus, mu10]))
                        if not ((dr[i] != dr[i] and mdir != mdir) or abs((dr[i] - mdir + 180) % 360 - 180) <= 1e-7):
                            run.mismatch("direction", dict(info, impl=float(dr[i]), model=mdir))
                        # oracles
                        if dr[i] == dr[i] and not (0 <= dr[i] < 360):
                            run.violation("estimated direction outside [0, 360)", dict(info, got=float(dr[i])))
                        if analytic and method == "mean":
                            # the oracle needs one whole window inside the f^-4 range
                            imax = int(np.argmin(np.abs(f - fmax_e))) + 1 - nb_e
                            imax = min(max(1, imax), len(f) - nb_e)
                            tail_ok = imax >= 1 and f[imax - 1] >= lowcut and imax - 1 + nb_e <= len(f)
                        else:
                            tail_ok = True
                        if analytic and not tail_ok:
                            run.count("analytic_window_outside_tail")
                        if analytic and tail_ok:
                            want = 8 * math.pi ** 3 * cs[i] / (4 * Ge * I_e * beta_e)
                            if abs(us[i] - want) > 1e-9 * want:
                                run.violation("friction velocity is not 8 pi^3 c / (4 g I beta) for a spectrum with a c f^-4 range",
                                              dict(info, got=float(us[i]), want=want, c=float(cs[i])))
                            going = math.degrees(ths[i]) % 360
                            wd = going if conv.startswith("going") else (270 - going) % 360
                            if abs((dr[i] - wd + 180) % 360 - 180) > 1e-7:
                                run.violation("direction does not follow atan2(b1, a1) / the (270 - going-to) mod 360 convention",
                                              dict(info, got=float(dr[i]), want=wd))
                        if method == "peak" and not np.isnan(em[i]).all():
                            lev = np.nanmax(np.nan_to_num(em[i]) * f ** 4)
                            want = 8 * math.pi ** 3 * lev / (4 * Ge * I_e * beta_e)
                            if abs(us[i] - want) > 1e-9 * want:
                                run.violation("peak method: friction velocity is not computed from the maximum of E f^4", dict(info, got=float(us[i]), want=want))
                        if method == "peak" and not np.isnan(em[i]).all():
                            istar = int(np.nanargmax(np.nan_to_num(em[i]) * f ** 4))
                            going = math.degrees(math.atan2(bm[i][istar], am[i][istar])) % 360
                            wd = going if conv.startswith("going") else (270 - going) % 360
                            if abs((dr[i] - wd + 180) % 360 - 180) > 1e-7:
                                run.violation("peak method: direction is not that of a1/b1 at the bin where E f^4 is largest",
                                              dict(info, got=float(dr[i]), want=wd, bin=istar))
                        z0 = charn_e * us[i] ** 2 / Gz
                        wu = us[i] / kappa_e * math.log(10 / z0) if us[i] > 0 else float("nan")
                        if us[i] > 0 and abs(u10[i] - wu) > 1e-9 * abs(wu):
                            run.violation("U10 does not follow the log law with the Charnock roughness of u*", dict(info, got=float(u10[i]), want=wu))
            # linear scaling and 2D = 1D reduction
            if case % 3 == 0 and not nan_case:
                c = rng.choice([0.5, 3.0])
                spec_c, _ = sp.make_1d(rng, layout=layout, f=f, e=e * c, moments=(a1, b1, z, z), depth_mode="deep")
                for method in ("peak", "mean"):
                    a = np.asarray(we.estimate_u10_from_spectrum(spec, method)["friction_velocity"].values, dtype=float)
                    b = np.asarray(we.estimate_u10_from_spectrum(spec_c, method)["friction_velocity"].values, dtype=float)
                    run.case("scaling", key=(case, method))
                    if not np.allclose(b, c * a, rtol=1e-10):
                        run.violation("friction velocity is not linear in the spectrum", dict(method=method, c=c, layout=layout))
            if case % 5 == 0:
                nd = 24
                d = 15.0 * np.arange(nd)
                _, f2 = sp.freq_grid(rng, 30)
                if f2[0] == 0:
                    f2 = f2 + 1.0 / 64
                s2, m2 = sp.make_2d(rng, layout=layout, f=f2, d=d, nan_rate=0.0, depth_mode="deep")
                s1 = s2.as_frequency_spectrum()
                for method in ("peak", "mean"):
                    going2 = None
                    for conv in ("going_to_counter_clockwise_east", "coming_from_clockwise_north", None):
                        kwc = {} if conv is None else {"direction_convention": conv}
                        o2 = we.estimate_u10_from_spectrum(s2, method, number_of_bins=10, **kwc)
                        o1 = we.estimate_u10_from_spectrum(s1, method, number_of_bins=10, **kwc)
                        run.case("twoD_eq_oneD", key=(case, method, conv))
                        for v in ("friction_velocity", "direction", "u10"):
                            if not np.allclose(np.asarray(o2[v].values, dtype=float), np.asarray(o1[v].values, dtype=float), rtol=1e-12, equal_nan=True):
                                run.violation("a 2D spectrum and its 1D reduction give different wind estimates", dict(method=method, var=v, convention=conv))
                        d2 = np.asarray(o2["direction"].values, dtype=float).reshape(-1)
                        if conv == "going_to_counter_clockwise_east":
                            going2 = d2
                        else:
                            # (the default convention is going-to, counter-clockwise from east)
                            wantd = going2 if conv is None else (270 - going2) % 360
                            ok = np.isnan(d2) | (np.abs((wantd - d2 + 180) % 360 - 180) <= 1e-7)
                            if not ok.all():
                                run.violation("2D input: the coming-from / clockwise-from-north direction is not (270 - going-to direction) mod 360",
                                              dict(method=method, convention=conv, going=going2.tolist(), got=d2.tolist()))
                # live object: estimate -> change the spectrum in place (documented in-place operation) -> estimate again;
                # the second estimate describes what the object holds now (its fresh 1D reduction), not what it held before
                cfac = float(rng.choice([0.25, 3.0]))
                ramp = np.linspace(1.0, cfac, nd)          # changes the directional shape too
                try:
                    s2.multiply(ramp, ["direction"], inplace=True)
                except Exception:
                    s2 = None
                if s2 is not None:
                    s1b = s2.as_frequency_spectrum()
                    for method in ("peak", "mean"):
                        o2 = we.estimate_u10_from_spectrum(s2, method, number_of_bins=10)
                        o1 = we.estimate_u10_from_spectrum(s1b, method, number_of_bins=10)
                        run.case("twoD_eq_oneD_after_inplace_change", key=(case, method))
                        for v in ("friction_velocity", "direction", "u10"):
                            if not np.allclose(np.asarray(o2[v].values, dtype=float), np.asarray(o1[v].values, dtype=float), rtol=1e-12, equal_nan=True):
                                run.violation("after an in-place change of a 2D spectrum its wind estimate is not that of its present 1D reduction",
                                              dict(method=method, var=v, factor=cfac))
            if case < 3:
                run.sample(dict(layout=layout, analytic=analytic, f=f.tolist()[:5], I=I, beta=beta, kappa=kappa, charnock=charn))


def main(prop, tier, seed):
    run = common.Run(prop, tier, seed)
    aud = common.audit_with_arith(prop, "C12Gen", thorough=(tier == "thorough"))   # second tie: friction-velocity closed form re-translated
    common.use_repo_source()
    from ocean_science_utilities.wavephysics import windestimate as we
    drv = common.Driver()
    try:
        check(run, drv, we, tier == "thorough")
    finally:
        drv.close()
    return run.finish(aud, ASSUMPTIONS, RULE)
