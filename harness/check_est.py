"""C05 / C06: directional estimators (MEM, MEM2 by Newton / scipy / approximate)."""
import math
import warnings

import numpy as np

from . import common
from .numfmt import bits, bits_list, from_bits
from . import spectra as sp

ASSUMPTIONS = [
    "Float model vs the jitted kernels at 1e-9 of the output scale (fastmath reassociation and libm differences); the Newton "
    "iteration as a whole at 1e-6 because an accept/reject decision of the line search can differ in the last bit",
    "the linear solve of the Newton step is a parameter of the theorems; the Lean run uses the Cholesky solve and reports "
    "`cholfail` where the code would fall back to numpy.linalg.lstsq or where a pivot is below 1e-7 of its diagonal entry (the "
    "branch is then decided by rounding): those cases are covered by the implementation oracles only",
    "'exactly the result it would get alone' is read up to floating-point evaluation order (1e-9 of the peak): the jitted "
    "first guess is vectorised with fastmath, so a batch member and the same member alone differ in the last bit; where the "
    "solver amplifies a 1e-13 / 1e-11 change of one input coordinate to a tenth of the discrepancy, the case is counted as ill-conditioned instead of compared",
    "scipy.optimize.root(method='lm') is not modelled: the theorems hold for whatever multipliers it returns; its output is "
    "checked by the oracles (valid distribution, residual, agreement with Newton)",
    "that Newton / scipy do converge on resolved inputs, and the size of MEM's discretisation error, are sampled, not proved",
]

RULE_C05 = ("seeded moment quadruples: von-Mises mixtures (1-2 lobes + isotropic background, widths 3..120 degrees), the same plus "
            "noise, uniformly random quadruples with a1^2+b1^2<1 (mostly unrealisable), the five hard cases of the test-suite, and "
            "the MEM boundary point; N in 8..180 (every N once for the direction axis / round trip); batch shapes (), (nf,), (nt,nf), (nt,nx,nf); variants mem, mem2/newton, "
            "mem2/scipy, mem2/approximate; one case = one (quadruple, N, variant); non-trivial unless isotropic")
RULE_C06 = ("moments of von-Mises mixtures (1-2 lobes + background) with circular spread >= 1.5 bins and mean directions in all "
            "quadrants, N in {24,36,72,144}; all rotations k and the mirror image; the five hard cases with rotations and mirrors; "
            "finite-difference Jacobian at first guesses, solutions and random multipliers; one case = one (quadruple, N, k)")

ATOL = 0.01
HARD = [
    [0.557185, -0.795699, -0.305963, -0.884653],
    [-0.564027, -0.505376, -0.231672, 0.471163],
    [-0.533724, 0.751711, -0.27957, -0.808407],
    [0.458456, -0.848485, -0.515151, -0.753666],
    [0.458456 + 0.06, -0.848485, -0.515151, -0.753666],
]


# ------------------------------------------------------------------------------------------
# generators
# ------------------------------------------------------------------------------------------

def bessel_ratio(n, kappa):
    from scipy.special import ive
    return float(ive(n, kappa) / ive(0, kappa))


def vm_mixture(rng, min_sigma_deg=3.0, max_sigma_deg=120.0, nlobes=None):
    """moments of a von-Mises mixture with an isotropic background; returns (moments, description)"""
    nl = nlobes or rng.choice([1, 1, 2])
    w0 = rng.choice([0.0, 0.0, rng.uniform(0.0, 0.3)])
    ws = np.array([rng.uniform(0.3, 1.0) for _ in range(nl)])
    ws = ws / ws.sum() * (1 - w0)
    a1 = b1 = a2 = b2 = 0.0
    lobes = []
    for w in ws:
        sig = math.radians(math.exp(rng.uniform(math.log(min_sigma_deg), math.log(max_sigma_deg))))
        kappa = 1.0 / sig ** 2
        th = rng.uniform(-math.pi, math.pi)
        r1, r2 = bessel_ratio(1, kappa), bessel_ratio(2, kappa)
        a1 += w * r1 * math.cos(th)
        b1 += w * r1 * math.sin(th)
        a2 += w * r2 * math.cos(2 * th)
        b2 += w * r2 * math.sin(2 * th)
        lobes.append(dict(weight=float(w), sigma_deg=math.degrees(sig), mean_deg=math.degrees(th)))
    return [a1, b1, a2, b2], dict(background=w0, lobes=lobes)


def noisy(rng, m, scale):
    while True:
        out = [v + rng.gauss(0, scale) for v in m]
        if out[0] ** 2 + out[1] ** 2 < 0.98 and out[2] ** 2 + out[3] ** 2 < 1.5:
            return out


def random_quadruple(rng):
    while True:
        m = [rng.uniform(-1, 1) for _ in range(4)]
        if m[0] ** 2 + m[1] ** 2 < 0.98 and m[2] ** 2 + m[3] ** 2 <= 1.0:
            return m


def quadruple(rng):
    k = rng.random()
    if k < 0.4:
        m, d = vm_mixture(rng)
        return m, "realisable", d
    if k < 0.65:
        m, d = vm_mixture(rng)
        return noisy(rng, m, rng.choice([0.02, 0.1, 0.3])), "noisy", d
    if k < 0.9:
        return random_quadruple(rng), "random", None
    return list(rng.choice(HARD)), "hard", None


def phi2_abs(m):
    c1 = complex(m[0], m[1])
    c2 = complex(m[2], m[3])
    d = 1 - abs(c1) ** 2
    if d == 0:
        return float("inf")
    p1 = (c1 - c2 * c1.conjugate()) / d
    return abs(c2 - p1 * c1)


def circular_spread_deg(m):
    r = math.hypot(m[0], m[1])
    return math.degrees(math.sqrt(max(0.0, 2 * (1 - r))))


# ------------------------------------------------------------------------------------------
# the code under test
# ------------------------------------------------------------------------------------------

class Impl:
    def __init__(self):
        from ocean_science_utilities.wavespectra.estimators import mem as mem_mod, mem2 as mem2_mod, utils, estimate
        self.mem, self.mem2, self.utils, self.estimate = mem_mod, mem2_mod, utils, estimate

    def grid(self, n):
        deg = np.linspace(0, 360, n, endpoint=False)
        rad = deg * np.pi / 180
        tw = np.empty((4, n))
        tw[0], tw[1], tw[2], tw[3] = np.cos(rad), np.sin(rad), np.cos(2 * rad), np.sin(2 * rad)
        return deg, rad, tw, self.utils.get_direction_increment(rad)

    def distribution(self, m, deg, variant):
        a = [np.array([v], dtype=float) for v in m]
        if variant == "mem":
            return self.estimate.estimate_directional_distribution(*a, deg, method="mem")[0]
        return self.estimate.estimate_directional_distribution(*a, deg, method="mem2", solution_method=variant.split("/")[1])[0]


VARIANTS = ["mem", "mem2/newton", "mem2/scipy", "mem2/approximate"]


def recomputed_moments(D_deg, deg):
    """moments of a distribution given per degree on a uniform grid"""
    rad = np.radians(deg)
    step = 360.0 / len(deg)
    return np.array([np.sum(D_deg * np.cos(rad)) * step, np.sum(D_deg * np.sin(rad)) * step,
                     np.sum(D_deg * np.cos(2 * rad)) * step, np.sum(D_deg * np.sin(2 * rad)) * step])


def close(a, b, tol, scale=None):
    a, b = np.asarray(a, float), np.asarray(b, float)
    if a.shape != b.shape:
        return False
    sc = scale if scale is not None else max(1e-300, float(np.nanmax(np.abs(b))) if b.size else 1.0)
    both_nan = np.isnan(a) & np.isnan(b)
    d = np.where(both_nan, 0.0, np.abs(a - b))
    return bool(np.all(d <= tol * sc)) and not bool(np.any(np.isnan(d)))


def amplifies_rounding(fn, m, base, observed):
    """Does the computation `fn(moments)` amplify last-digit changes of its input to (a tenth of) the observed
    discrepancy?  Tried in every coordinate direction and at two sizes, because a single random direction can miss
    the accept/reject decision that flipped."""
    base = np.asarray(base, float)
    for eps in (1e-13, 1e-11):
        for i in range(4):
            for sgn in (1.0, -1.0):
                mp = list(m)
                mp[i] = mp[i] + sgn * eps * (abs(mp[i]) + 1e-3)
                try:
                    out = np.asarray(fn(mp), float)
                except Exception:
                    return True
                if out.shape != base.shape:
                    return True
                d = np.nanmax(np.abs(out - base)) if out.size else 0.0
                if not (d < 0.1 * observed):
                    return True
    return False


def floats_of(ans):
    return np.array([float("nan") if t == "nan" else from_bits(t) for t in ans.split()])


def L(v):
    return bits_list(np.asarray(v, float).reshape(-1))


# ------------------------------------------------------------------------------------------
# correspondence: Float model vs jitted kernels
# ------------------------------------------------------------------------------------------

def correspondence(run, drv, im, rng, ncases):
    for case in range(ncases):
        with common.guard(run, f"correspondence case {case}"), warnings.catch_warnings():
            warnings.simplefilter("ignore")
            m, kind, _ = quadruple(rng)
            n = rng.choice([8, 12, 24, 36, 37, 72, 90, 144, 180, rng.randint(8, 180)])
            deg, rad, tw, delta = im.grid(n)
            run.count("corr_" + kind)
            info = dict(moments=m, N=n, kind=kind)
            # MEM, both implementations
            run.case("mem", key=(case, "mem"))
            want = floats_of(drv.ask(f"est mem {bits(m[0])} {bits(m[1])} {bits(m[2])} {bits(m[3])} {L(rad)}"))
            got1 = im.mem.numba_mem(rad, *m)
            got2 = im.mem._mem(rad, *[np.array([v]) for v in m])
            if abs(phi2_abs(m) - 1) > 1e-6:
                if not close(got1, want, 1e-8):
                    run.mismatch("numba_mem", dict(info, impl=got1[:4].tolist(), model=want[:4].tolist()))
                if not close(np.atleast_1d(got2).reshape(-1), want, 1e-8):
                    run.mismatch("_mem", dict(info, impl=np.atleast_1d(got2).reshape(-1)[:4].tolist(), model=want[:4].tolist()))
            # first guess
            run.case("init", key=(case, "init"))
            guess = im.mem2.initial_value(*[np.array(v) for v in m])
            want = floats_of(drv.ask(f"est init {bits(m[0])} {bits(m[1])} {bits(m[2])} {bits(m[3])}"))
            if not close(guess, want, 1e-12):
                run.mismatch("initial_value", dict(info, impl=guess.tolist(), model=want.tolist()))
            # distribution / constraints / Jacobian at the guess or random multipliers
            lam = np.array(guess, float) if rng.random() < 0.5 else np.array([rng.uniform(-8, 8) for _ in range(4)])
            mom = np.array(m, float)
            run.case("dist", key=(case, "dist"))
            got = im.mem2.mem2_directional_distribution(lam, delta, tw)
            want = floats_of(drv.ask(f"est dist {L(lam)} {L(delta)} {L(rad)}"))
            if not close(got, want, 1e-9):
                run.mismatch("mem2_directional_distribution", dict(info, lam=lam.tolist(), impl=got[:4].tolist(), model=want[:4].tolist()))
            run.case("cons", key=(case, "cons"))
            got = im.mem2.moment_constraints(lam, tw, mom, delta)
            want = floats_of(drv.ask(f"est cons {L(lam)} {L(mom)} {L(delta)} {L(rad)}"))
            if not close(got, want, 1e-9, scale=1.0):
                run.mismatch("moment_constraints", dict(info, lam=lam.tolist(), impl=got.tolist(), model=want.tolist()))
            run.case("jac", key=(case, "jac"))
            J = im.mem2.mem2_jacobian(lam, tw, delta, np.empty((4, 4)))
            want = floats_of(drv.ask(f"est jac {L(lam)} {L(delta)} {L(rad)}"))
            if not close(J.reshape(-1), want, 1e-9, scale=1.0):
                run.mismatch("mem2_jacobian", dict(info, lam=lam.tolist(), impl=J.reshape(-1).tolist(), model=want.tolist()))
            # Cholesky solve
            run.case("chol", key=(case, "chol"))
            rhs = -im.mem2.moment_constraints(lam, tw, mom, delta)
            x = im.mem2.solve_cholesky(J.copy(), rhs.copy())
            ans = drv.ask(f"est chol {L(J)} {L(rhs)}")
            cond = np.linalg.cond(J) if np.all(np.isfinite(J)) else float("inf")
            if ans == "fail":
                run.count("chol_fail")
                if not np.all(np.isnan(x)) and cond < 1e12:
                    run.mismatch("solve_cholesky", dict(info, impl=x.tolist(), model="fail"))
            else:
                wantx = floats_of(ans)
                if cond < 1e7 and not close(x, wantx, 1e-6):
                    run.mismatch("solve_cholesky", dict(info, impl=x.tolist(), model=wantx.tolist(), cond=float(cond)))
                if cond < 1e7 and np.all(np.isfinite(x)) and not np.allclose(J @ x, rhs, rtol=1e-6, atol=1e-9):
                    run.violation("solve_cholesky does not solve the system it is given", dict(info, J=J.tolist(), rhs=rhs.tolist(), x=x.tolist()))
            # the whole Newton solver
            run.case("newton", key=(case, "newton"))
            got = im.mem2.mem2_newton_solver(mom, np.array(guess, float), delta, tw, None, False)
            ans = drv.ask(f"est newton {bits(ATOL)} 100 8 {L(mom)} {L(delta)} {L(rad)}").split()
            run.count("newton_" + ans[0])
            if ans[0] in ("conv", "noconv"):
                wantd = np.array([from_bits(t) for t in ans[6:]])
                if not close(got, wantd, 1e-6):
                    # a last-bit flip of an accept/reject decision shows as a different but equally valid path: tell the two
                    # apart by perturbing the input in the last digits
                    def impl_run(mm):
                        mm = np.array(mm, float)
                        return im.mem2.mem2_newton_solver(mm, im.mem2.initial_value(*[np.array(v) for v in mm]), delta, tw, None, False)

                    def model_run(mm):
                        a = drv.ask(f"est newton {bits(ATOL)} 100 8 {L(mm)} {L(delta)} {L(rad)}").split()
                        if a[0] not in ("conv", "noconv"):
                            raise ValueError("cholfail")
                        return np.array([from_bits(t) for t in a[6:]])
                    obs = float(np.nanmax(np.abs(got - wantd)))
                    if amplifies_rounding(impl_run, list(mom), got, obs) or amplifies_rounding(model_run, list(mom), wantd, obs):
                        run.count("newton_ill_conditioned")
                    else:
                        run.mismatch("mem2_newton_solver", dict(info, status=ans[0], iterations=int(ans[1]),
                                                                impl=got[:4].tolist(), model=wantd[:4].tolist()))
            if case < 3:
                run.sample(dict(info, newton=ans[0], iterations=int(ans[1]) if len(ans) > 1 else None))


# ------------------------------------------------------------------------------------------
# C05 oracles
# ------------------------------------------------------------------------------------------

def validity(run, im, rng, ncases):
    fixed = [([0.0, 0.0, 1.0, 0.0], "boundary"), ([0.0, 0.0, 1.0, 0.0], "boundary"), ([0.5, 0.0, 1.0, 0.0], "boundary"),
             ([0.0, 0.0, 0.0, 0.0], "isotropic")] + [(h, "hard") for h in HARD]
    for case in range(ncases):
        with common.guard(run, f"validity case {case}"), warnings.catch_warnings():
            warnings.simplefilter("ignore")
            if case < len(fixed):
                m, kind = fixed[case]
            else:
                m, kind, _ = quadruple(rng)
            n = rng.choice([8, 9, 16, 24, 36, 72, 120, 180, rng.randint(8, 180)])
            if case == 0:
                n = 9       # the recorded findings are replayed on this grid in every run
            deg = np.linspace(0, 360, n, endpoint=False)
            run.count("valid_" + kind)
            if case % 25 == 12:
                # a conversion with the documented solver_config in between (benign moments, strict setting): the default
                # calls that follow are still default calls
                try:
                    im.estimate.estimate_directional_distribution(*[np.array([v]) for v in (0.3, 0.1, 0.05, 0.0)], deg, method="mem2",
                                                                  solution_method="newton", solver_config={"use_mem_when_failing_to_converge": False})
                    run.count("valid_after_solver_config_call")
                except Exception:
                    run.count("solver_config_call_raised")
            for variant in VARIANTS:
                if variant == "mem2/scipy" and case % 3 and kind != "hard":
                    continue
                run.case("valid", key=(case, variant), nontrivial=kind != "isotropic")
                info = dict(moments=list(m), N=n, variant=variant, kind=kind)
                boundary = variant == "mem" and abs(phi2_abs(m) - 1) < 1e-9
                sig = "mem_boundary" if boundary else None
                try:
                    D = im.distribution(m, deg, variant)
                except Exception as ex:
                    if variant == "mem2/newton" and isinstance(ex, ZeroDivisionError) and abs(phi2_abs(m) - 1) < 1e-9:
                        sig = "mem_boundary_newton_fallback"
                    run.violation("the estimator raised for finite moments with a1^2+b1^2 < 1", dict(info, error=repr(ex)), sig=sig)
                    continue
                if D.shape != (n,):
                    run.violation("the distribution does not have one value per direction", dict(info, shape=list(D.shape)))
                    continue
                if np.any(np.isnan(D)) or np.any(D < 0):
                    run.violation("the distribution has negative or NaN values", dict(info, min=float(np.nanmin(D)) if not np.all(np.isnan(D)) else None,
                                                                                  nans=int(np.isnan(D).sum())), sig=sig)
                    continue
                total = float(np.sum(D) * 360.0 / n)
                if abs(total - 1) > 1e-9:
                    run.violation("the distribution does not integrate to one over the circle", dict(info, integral=total), sig=sig)


def array_entry(run, im, rng, ncases):
    """The array-level entry points: `estimate_directional_spectrum_from_moments(e, a1, b1, a2, b2, direction)` on
    (time, frequency) batches - also with nf = nd - and moments stored in single precision."""
    for case in range(ncases):
        with common.guard(run, f"array entry case {case}"), warnings.catch_warnings():
            warnings.simplefilter("ignore")
            n = rng.choice([8, 12, 24, 36])
            nt = rng.choice([1, 2, 3])
            nf = n if case % 3 == 0 else rng.choice([1, 2, 5, 7])       # nf = nd: broadcasting slips stay silent
            deg = np.linspace(0, 360, n, endpoint=False)
            ms = np.array([[quadruple(rng)[0] for _ in range(nf)] for _ in range(nt)], dtype=float)      # (nt, nf, 4)
            e = np.array([[rng.uniform(0.1, 3.0) for _ in range(nf)] for _ in range(nt)])
            cols = [ms[..., i].copy() for i in range(4)]
            single = case % 4 == 1
            if single:
                cols = [c.astype(np.float32) for c in cols]
                run.count("moments_in_single_precision")
            for variant in ("mem", "mem2/newton", "mem2/approximate"):
                run.case("array_entry", key=(case, variant))
                kw = dict(method="mem") if variant == "mem" else dict(method="mem2", solution_method=variant.split("/")[1])
                info = dict(variant=variant, shape=[nt, nf], N=n, single_precision=single)
                try:
                    E2 = np.asarray(im.estimate.estimate_directional_spectrum_from_moments(e, *cols, deg, **kw), dtype=float)
                except Exception as ex:
                    run.violation("the estimator raised for finite moments with a1^2+b1^2 < 1", dict(info, error=repr(ex)[:300]))
                    continue
                if E2.shape != (nt, nf, n):
                    run.violation("the 2D spectrum does not have shape (points, frequencies, directions)", dict(info, shape=list(E2.shape)))
                    continue
                if np.any(np.isnan(E2)) or np.any(E2 < 0):
                    run.violation("the reconstructed spectrum has negative or NaN values", info)
                    continue
                back = np.sum(E2, axis=-1) * 360.0 / n
                if not np.allclose(back, e, rtol=1e-9):
                    run.violation("integrating the reconstructed 2D spectrum over direction does not return e(f)",
                                  dict(info, got=back.reshape(-1)[:6].tolist(), want=e.reshape(-1)[:6].tolist()))
                if not single and variant != "mem2/newton":       # (Newton: the convergence-aware comparison of `batches`)
                    i, k = rng.randrange(nt), rng.randrange(nf)
                    alone = np.asarray(im.estimate.estimate_directional_spectrum_from_moments(
                        e[i:i + 1, k:k + 1], *[c[i:i + 1, k:k + 1] for c in cols], deg, **kw), dtype=float)[0, 0]
                    if not close(E2[i, k], alone, 1e-9):
                        run.violation("a spectrum of a batch does not get the result it gets alone", dict(info, point=[i, k]))


def batches(run, im, rng, ncases):
    for case in range(ncases):
        with common.guard(run, f"batch case {case}"), warnings.catch_warnings():
            warnings.simplefilter("ignore")
            layout = rng.choice(sp.LAYOUTS)
            n = rng.choice([8, 12, 24, 36])
            nf = rng.choice([3, 5])
            _, f = sp.freq_grid(rng, nf)
            bshape = tuple(sp.batch_shape(rng, layout))
            cnt = int(np.prod(bshape)) if bshape else 1
            quads = np.array([quadruple(rng)[0] for _ in range(cnt * len(f))]).reshape(bshape + (len(f), 4))
            e = sp.energy(rng, bshape + (len(f),), nan_rate=0.0, positive=True)
            mom = tuple(quads[..., i] for i in range(4))
            spec, meta = sp.make_1d(rng, layout=layout, f=f, e=e, moments=mom, depth_mode=rng.choice(["deep", "mixed"]))
            variant = rng.choice(VARIANTS if case % 4 == 0 else ["mem", "mem2/newton", "mem2/approximate"])
            method = "mem" if variant == "mem" else "mem2"
            sm = "scipy" if variant == "mem" else variant.split("/")[1]
            run.count("batch_layout_" + layout)
            run.count("batch_" + variant)
            run.case("batch", key=(case, variant, layout))
            info = dict(layout=layout, N=n, variant=variant, batch_shape=list(bshape), nf=len(f))
            try:
                s2 = spec.as_frequency_direction_spectrum(n, method=method, solution_method=sm)
            except Exception as ex:
                run.violation("as_frequency_direction_spectrum raised", dict(info, error=repr(ex)))
                continue
            E2 = s2.variance_density.values
            if E2.shape != bshape + (len(f), n):
                run.violation("the 2D spectrum does not have the shape of the input plus a direction axis", dict(info, shape=list(E2.shape)))
                continue
            if np.any(np.isnan(E2)) or np.any(E2 < 0):
                run.violation("the 2D spectrum has negative or NaN densities", dict(info, min=float(np.nanmin(E2))))
                continue
            # energy round trip
            back = s2.as_frequency_spectrum()
            if not np.allclose(back.variance_density.values, e, rtol=1e-9, atol=0):
                run.violation("integrating the 2D spectrum over direction does not return e(f)",
                              dict(info, max_rel=float(np.max(np.abs(back.variance_density.values - e) / e))))
            if not np.allclose(s2.m0().values, spec.m0().values, rtol=1e-9):
                run.violation("total variance changed in the 1D -> 2D conversion", info)
            # metadata carried over
            for v in ("time", "latitude", "longitude", "depth"):
                a, b = spec.dataset[v].values, s2.dataset[v].values
                same = a.shape == b.shape and (np.array_equal(a, b) if a.dtype.kind == "M" else np.array_equal(a, b, equal_nan=True))
                if not same:
                    run.violation("time / position / depth are not carried over to the 2D spectrum", dict(info, variable=v))
            if not np.array_equal(s2.frequency.values, spec.frequency.values):
                run.violation("frequencies are not carried over to the 2D spectrum", info)
            # every member alone
            deg = np.linspace(0, 360, n, endpoint=False)
            flat = quads.reshape(-1, len(f), 4)
            ef = e.reshape(-1, len(f))
            E2f = E2.reshape(-1, len(f), n)
            for i in rng.sample(range(flat.shape[0]), min(3, flat.shape[0])):
                j = rng.randrange(len(f))
                alone = im.distribution(list(flat[i, j]), deg, variant) * ef[i, j]
                if np.array_equal(alone, E2f[i, j]):
                    run.count("batch_member_bitwise_equal")
                elif close(E2f[i, j], alone, 1e-9):
                    run.count("batch_member_equal_to_rounding")     # fastmath SIMD lanes vs scalar remainder loop
                elif (variant == "mem2/newton" or (variant == "mem2/scipy" and close(E2f[i, j], alone, 1e-3))) and float(np.linalg.norm(
                        recomputed_moments(alone / ef[i, j], deg) - flat[i, j])) >= ATOL:
                    # the iteration did not converge for this member even alone: what is returned is the last iterate of a
                    # failed iteration, which depends on the last bits of the (fastmath-vectorised) first guess
                    run.count("batch_member_not_converged")
                elif variant in ("mem2/newton", "mem2/scipy") and float(np.linalg.norm(
                        recomputed_moments(E2f[i, j] / ef[i, j], deg) - flat[i, j])) < ATOL and \
                        float(np.linalg.norm(recomputed_moments(E2f[i, j] / ef[i, j], deg) - recomputed_moments(alone / ef[i, j], deg))) < 2 * ATOL \
                        and close(E2f[i, j], alone, 1e-2):
                    # both runs converged, to solutions that agree within the stopping rule (theorem solutions_agree): the stopping
                    # decision fell on different iterations
                    run.count("batch_member_converged_on_another_iteration")
                elif variant in ("mem2/newton", "mem2/approximate") and not np.array_equal(
                        im.mem2.initial_value(*[np.ascontiguousarray(flat[..., c]) for c in range(4)])[i, j],
                        im.mem2.initial_value(*[np.ascontiguousarray(flat[i:i + 1, j:j + 1, c]) for c in range(4)])[0, 0]):
                    # the only batch-dependent arithmetic is the vectorised (fastmath) first guess: it differs in its last bits
                    # between the batch and the single call, and the Newton iteration amplifies that here
                    run.count("batch_member_first_guess_differs_in_last_bits")
                elif amplifies_rounding(lambda mm: im.distribution(mm, deg, variant) * ef[i, j], list(flat[i, j]), alone,
                                        float(np.max(np.abs(alone - E2f[i, j])))):
                    run.count("batch_member_ill_conditioned")       # the solver amplifies a last-digit change of the input as much
                else:
                    run.violation("a spectrum of a batch does not get exactly the result it gets alone",
                                  dict(info, member=i, frequency=j, moments=flat[i, j].tolist(),
                                       max_abs_diff=float(np.max(np.abs(alone - E2f[i, j]))),
                                       all_moments=flat.tolist(), energy=ef.tolist()))


def grid_sweep(run, im, rng):
    """every number of directions 8..180 once: the direction axis, the shape and the energy round trip"""
    with warnings.catch_warnings():
        warnings.simplefilter("ignore")
        _, f = sp.freq_grid(rng, 3)
        quads = np.array([quadruple(rng)[0] for _ in range(len(f))])
        e = sp.energy(rng, (len(f),), nan_rate=0.0, positive=True)
        spec, _ = sp.make_1d(rng, layout="scalar", f=f, e=e, moments=tuple(quads[:, i] for i in range(4)), depth_mode="deep")
        for n in range(8, 181):
            with common.guard(run, f"grid sweep N={n}"):
                run.case("grid_sweep", key=(n,))
                variant = "mem" if n % 4 else "mem2/approximate"
                s2 = spec.as_frequency_direction_spectrum(n, method="mem" if variant == "mem" else "mem2",
                                                          solution_method="scipy" if variant == "mem" else "approximate")
                d = s2.direction.values
                info = dict(N=n, variant=variant)
                if len(d) != n or s2.variance_density.shape[-1] != n:
                    run.violation("the 2D spectrum does not have the requested number of directions", dict(info, got=len(d)))
                    continue
                if not np.allclose(d, np.linspace(0, 360, n, endpoint=False), rtol=0, atol=1e-9) or len(np.unique(np.round(d, 6))) != n:
                    run.violation("the direction axis is not the uniform grid of N distinct directions from 0", info)
                back = s2.as_frequency_spectrum().variance_density.values
                if not np.allclose(back, e, rtol=1e-9, atol=0):
                    run.violation("integrating the 2D spectrum over direction does not return e(f)", dict(info, max_rel=float(np.max(np.abs(back - e) / e))))


# ------------------------------------------------------------------------------------------
# C06 oracles
# ------------------------------------------------------------------------------------------

def rotate_moments(m, phi):
    c1 = complex(m[0], m[1]) * complex(math.cos(phi), math.sin(phi))
    c2 = complex(m[2], m[3]) * complex(math.cos(2 * phi), math.sin(2 * phi))
    return [c1.real, c1.imag, c2.real, c2.imag]


def mirror_moments(m):
    return [m[0], -m[1], m[2], -m[3]]


def resolved(rng, n):
    """von-Mises mixture whose lobes are each at least 1.5 bins wide"""
    binw = 360.0 / n
    while True:
        m, d = vm_mixture(rng, min_sigma_deg=max(1.5 * binw, 4.0), max_sigma_deg=90.0)
        if circular_spread_deg(m) >= 1.5 * binw:
            return m, d


def mem_aliased_moments(m, n, cap=400000):
    """What the discretely normalised MEM distribution must give on N uniform directions: the continuous MEM
    distribution has Fourier coefficients c_k = Phi1 c_{k-1} + Phi2 c_{k-2} (c_0 = 1, c_1, c_2 the given moments), a
    sum over N uniform points aliases k -> k mod N, and the code divides by the aliased c_0.  Returns (moments, converged)."""
    c1, c2 = complex(m[0], m[1]), complex(m[2], m[3])
    d = 1 - abs(c1) ** 2
    p1 = (c1 - c2 * c1.conjugate()) / d
    p2 = c2 - p1 * c1
    S = [1.0 + 0j, c1, c2]          # aliased sums for k = 0, 1, 2 (positive side)
    Sneg = [0j, 0j, 0j]             # contributions of negative indices: c_{-k} = conj(c_k)
    prev2, prev1 = c1, c2
    k = 3
    small = 0
    while k < cap:
        ck = p1 * prev1 + p2 * prev2
        prev2, prev1 = prev1, ck
        r = k % n
        if r <= 2:
            S[r] += ck
        rn = (-k) % n
        if rn <= 2:
            Sneg[rn] += ck.conjugate()
        small = small + 1 if abs(ck) < 1e-17 else 0
        if small > 2 * n:
            break
        k += 1
    tot = [S[i] + Sneg[i] for i in range(3)]
    out = [tot[1] / tot[0], tot[2] / tot[0]]
    return np.array([out[0].real, out[0].imag, out[1].real, out[1].imag]), k < cap


def equivariance_ok(im, m, deg, variant, D, D_t, back, tol):
    """D_t mapped back (`back`) must equal D; if not, allow it only where the computation itself is ill-conditioned"""
    if close(back(D_t), D, tol):
        return True, False
    if amplifies_rounding(lambda mm: im.distribution(mm, deg, variant), list(m), D, float(np.max(np.abs(back(D_t) - D)))):
        return True, True
    return False, False


def fidelity(run, drv, im, rng, ncases):
    for case in range(ncases):
        with common.guard(run, f"fidelity case {case}"), warnings.catch_warnings():
            warnings.simplefilter("ignore")
            n = rng.choice([24, 36, 72, 144])
            hard = case % 6 == 5
            if hard:
                n = 36
                m, desc = list(rng.choice(HARD)), None
            else:
                m, desc = resolved(rng, n)
            deg, rad, tw, delta = im.grid(n)
            binw = 360.0 / n
            info = dict(moments=list(m), N=n, hard=hard, mixture=desc)
            run.count("fidelity_hard" if hard else "fidelity_resolved")
            run.count(f"fidelity_N{n}")
            quadrant = int(((math.degrees(math.atan2(m[1], m[0])) % 360) // 90))
            run.count(f"quadrant_{quadrant}")
            D = {}
            for variant in VARIANTS[:3]:
                D[variant] = im.distribution(m, deg, variant)
            mm = {v: recomputed_moments(D[v], deg) for v in D}
            run.case("fidelity", key=(case,))
            for variant in ("mem2/newton", "mem2/scipy"):
                err = float(np.linalg.norm(mm[variant] - np.array(m)))
                if err >= ATOL and not hard:
                    run.violation("MEM2 does not reproduce a1,b1,a2,b2 within the solver tolerance for a resolved distribution",
                                  dict(info, variant=variant, error=err, recomputed=mm[variant].tolist()))
                if err >= ATOL and hard:
                    run.count("hard_not_converged_" + variant)
            if not hard:
                # MEM reproduces the moments exactly in the continuum; on the grid it must give exactly the aliased sums of
                # its own Fourier series (an independent closed form), whose distance to the input is the grid-dependent
                # discretisation error
                want, conv = mem_aliased_moments(m, n)
                if conv:
                    err = float(np.linalg.norm(mm["mem"] - want))
                    bound = float(np.linalg.norm(want - np.array(m)))
                    run.dist["mem_max_discretisation_error"] = max(run.dist.get("mem_max_discretisation_error", 0.0), bound)
                    if err > 1e-7:
                        run.violation("MEM does not reproduce the moments of a resolved distribution to within its discretisation error "
                                      "(the aliased Fourier sums of the MEM distribution)",
                                      dict(info, recomputed=mm["mem"].tolist(), expected=want.tolist(), discretisation_error=bound))
                else:
                    run.count("mem_series_not_summable")
            e_ns = float(np.linalg.norm(mm["mem2/newton"] - mm["mem2/scipy"]))
            if e_ns >= 2 * ATOL and not hard:
                run.violation("the Newton and scipy solutions disagree by more than the tolerance", dict(info, difference=e_ns))
            # the model's Newton run: convergence flag and residual
            ans = drv.ask(f"est newton {bits(ATOL)} 100 8 {L(m)} {L(delta)} {L(rad)}").split()
            if ans[0] == "conv":
                wantd = np.array([from_bits(t) for t in ans[6:]]) * math.pi / 180
                res = float(np.linalg.norm(recomputed_moments(wantd, deg) - np.array(m)))
                if res >= ATOL:
                    run.mismatch("newton_converged_residual", dict(info, residual=res))
            # rotations and mirror image
            ks = list(range(n)) if case % 10 == 0 else [rng.randrange(n) for _ in range(3)]
            for variant in VARIANTS:
                base = D.get(variant)
                if base is None:
                    base = im.distribution(m, deg, variant)
                # scipy's Levenberg-Marquardt stops on a relative step of 1.5e-8: its answers are defined to about 1e-6
                # (for narrow seas, multipliers of a few hundred, differences of 1.5e-3 of the peak occur on the unchanged tree)
                tol = {"mem": 1e-9, "mem2/approximate": 1e-9, "mem2/newton": 1e-6, "mem2/scipy": 1e-2}[variant]
                for k in (ks if variant != "mem2/scipy" else ks[:2]):
                    run.case("rotation", key=(case, variant, k))
                    mr = rotate_moments(m, math.radians(k * binw))
                    Dr = im.distribution(mr, deg, variant)
                    ok, ill = equivariance_ok(im, m, deg, variant, base, Dr, lambda x, k=k: np.roll(x, -k), tol)
                    if ill:
                        run.count("rotation_ill_conditioned")
                    if not ok:
                        run.violation("rotating the moments by k direction bins does not rotate the distribution by k bins",
                                      dict(info, variant=variant, k=k, max_abs_diff=float(np.max(np.abs(np.roll(Dr, -k) - base)))))
                run.case("mirror", key=(case, variant))
                Dm = im.distribution(mirror_moments(m), deg, variant)
                idx = (-np.arange(n)) % n
                ok, ill = equivariance_ok(im, m, deg, variant, base, Dm, lambda x: x[idx], tol)
                if ill:
                    run.count("mirror_ill_conditioned")
                if not ok:
                    run.violation("mirroring the moments does not mirror the distribution",
                                  dict(info, variant=variant, max_abs_diff=float(np.max(np.abs(Dm[idx] - base)))))
            if case < 3:
                run.sample(dict(info, newton_error=float(np.linalg.norm(mm["mem2/newton"] - np.array(m))),
                                scipy_error=float(np.linalg.norm(mm["mem2/scipy"] - np.array(m))),
                                mem_error=float(np.linalg.norm(mm["mem"] - np.array(m)))))


def widths_of(deg):
    """bin widths of a direction grid in storage order: half the wrapped distance to both neighbours on the circle"""
    order = np.argsort(deg % 360)
    sd = (deg % 360)[order]
    fwd = (np.roll(sd, -1) - sd) % 360
    bwd = (sd - np.roll(sd, 1)) % 360
    w = np.empty(len(deg))
    w[order] = 0.5 * (fwd + bwd)
    return w


def moments_on(D_deg, deg, w):
    rad = np.radians(deg)
    return np.array([np.sum(D_deg * np.cos(rad) * w), np.sum(D_deg * np.sin(rad) * w),
                     np.sum(D_deg * np.cos(2 * rad) * w), np.sum(D_deg * np.sin(2 * rad) * w)])


def fidelity_grids(run, im, rng, ncases):
    """Moment fidelity and solver agreement on direction grids other than 0, Δ, 2Δ, …: uniform grids stored from another
    start (so that 360 is passed in the middle of the array), uniform grids with an offset, non-uniform grids (fine bins in
    one sector); and batches whose points have different moments (each point against its own moments)."""
    for case in range(ncases):
        with common.guard(run, f"fidelity-grid case {case}"), warnings.catch_warnings():
            warnings.simplefilter("ignore")
            kind = ["rolled", "offset", "nonuniform", "batch", "two_peaked", "config_sequence"][case % 6]
            n = rng.choice([24, 36, 72])
            binw = 360.0 / n
            std = np.linspace(0, 360, n, endpoint=False)
            if kind == "rolled":
                k = rng.randrange(1, n)
                deg = np.roll(std, -k)                      # e.g. 180, …, 350, 0, …, 170
            elif kind == "offset":
                deg = (std + rng.choice([binw / 2, 7.5, 1.0])) % 360
                deg = np.roll(deg, -int(np.argmin(deg)))   # ascending, not starting at 0
            elif kind == "nonuniform":
                fine = rng.choice([5.0, 6.0])
                start = rng.choice([0.0, 90.0, 200.0])
                deg = np.concatenate([start + np.arange(0, 90, fine), start + 90 + np.arange(0, 270, 3 * fine)]) % 360
                deg = np.sort(deg)
                n = len(deg)
            else:
                if kind == "two_peaked":
                    n = 144
                    binw = 360.0 / n
                    std = np.linspace(0, 360, n, endpoint=False)
                deg = std
            w = widths_of(deg)
            run.count("grid_" + kind)
            coarse = float(np.max(w))
            if kind == "batch":
                # four points in different quadrants, two of them mirror images of each other
                ms = []
                while len(ms) < 3:
                    m, _ = resolved(rng, n)
                    ms.append(m)
                ms.append(mirror_moments(ms[0]))
                # a fifth point without directional information (a buoy below its low-frequency cut-off): the others are
                # still estimated from their own moments
                ms.append([float("nan")] * 4)
                run.count("batch_with_a_point_without_moments")
            elif kind == "two_peaked":
                # two narrow peaks (6-10 degrees wide, 40-80 degrees apart): resolved by the grid, and the Newton iteration
                # needs more than a handful of steps for them
                ms = []
                for _ in range(5):           # (five seas, solved as five frequencies of one point)
                    mu0 = rng.uniform(-math.pi, math.pi)
                    sep = math.radians(rng.uniform(40.0, 80.0))
                    wl = rng.uniform(0.35, 0.65)
                    m = [0.0, 0.0, 0.0, 0.0]
                    for wgt, mu in ((wl, mu0), (1 - wl, mu0 + sep)):
                        kap = 1.0 / math.radians(rng.uniform(6.0, 10.0)) ** 2
                        r1, r2 = bessel_ratio(1, kap), bessel_ratio(2, kap)
                        m[0] += wgt * r1 * math.cos(mu); m[1] += wgt * r1 * math.sin(mu)
                        m[2] += wgt * r2 * math.cos(2 * mu); m[3] += wgt * r2 * math.sin(2 * mu)
                    ms.append(m)
                    run.count("two_peaked_seas")
            else:
                while True:
                    m, _ = vm_mixture(rng, min_sigma_deg=max(1.5 * coarse, 4.0), max_sigma_deg=90.0)
                    if circular_spread_deg(m) >= 1.5 * coarse:
                        break
                ms = [m]
            cols = [np.array([mm[i] for mm in ms], dtype=float) for i in range(4)]
            if kind == "batch":
                # leading (point) dimension x one frequency: each point must be estimated from its own row of every moment
                cols = [c.reshape(len(ms), 1) for c in cols]
                run.count("batch_points_x_frequency")
            info = dict(grid=kind, directions=deg.tolist(), moments=[list(map(float, mm)) for mm in ms])
            if kind == "config_sequence":
                # a conversion with relaxed numerical settings (the documented solver_config) in between must not change
                # what the default conversion returns afterwards
                run.case("config_sequence", key=(case,))
                before = np.asarray(im.estimate.estimate_directional_distribution(*cols, deg, method="mem2", solution_method="newton"), dtype=float)
                try:
                    im.estimate.estimate_directional_distribution(*cols, deg, method="mem2", solution_method="newton",
                                                                  solver_config={"atol": 0.2, "max_iter": 3})
                except Exception as ex:
                    run.count("solver_config_call_raised")
                after = np.asarray(im.estimate.estimate_directional_distribution(*cols, deg, method="mem2", solution_method="newton"), dtype=float)
                if not np.array_equal(before, after, equal_nan=True):
                    run.violation("after a conversion with a relaxed solver_config the default conversion no longer reproduces the moments as before "
                                  "(settings leak between calls)", dict(info, max_abs_change=float(np.nanmax(np.abs(after - before)))))
            out = {}
            for variant in ("mem", "mem2/newton", "mem2/scipy"):
                if variant == "mem" and kind == "nonuniform":
                    out[variant] = None        # MEM normalises with a uniform increment: uniform grids only (C05's quantifier)
                    continue
                run.case("fidelity_grid", key=(case, variant))
                if variant == "mem":
                    D = im.estimate.estimate_directional_distribution(*cols, deg, method="mem")
                else:
                    D = im.estimate.estimate_directional_distribution(*cols, deg, method="mem2", solution_method=variant.split("/")[1])
                D = np.asarray(D, dtype=float).reshape(len(ms), -1)
                out[variant] = D
                for i, mm in enumerate(ms):
                    if not np.all(np.isfinite(mm)):
                        continue
                    norm = float(np.sum(D[i] * w))
                    if abs(norm - 1.0) > 1e-6:
                        run.violation("the reconstructed distribution does not integrate to one with the grid's own bin widths",
                                      dict(info, variant=variant, point=i, integral=norm))
                    got = moments_on(D[i], deg, w)
                    if variant == "mem":
                        if kind in ("rolled", "batch"):
                            want, conv = mem_aliased_moments(mm, n)
                            if conv and float(np.linalg.norm(got - want)) > 1e-7:
                                run.violation("MEM does not reproduce the moments of a resolved distribution to within its discretisation error",
                                              dict(info, point=i, recomputed=got.tolist(), expected=want.tolist()))
                    else:
                        err = float(np.linalg.norm(got - np.array(mm)))
                        if err >= ATOL:
                            run.violation("MEM2 does not reproduce a1,b1,a2,b2 within the solver tolerance for a resolved distribution",
                                          dict(info, variant=variant, point=i, error=err, recomputed=got.tolist()))
            for i in range(len(ms)):
                if not np.all(np.isfinite(ms[i])):
                    continue
                e_ns = float(np.linalg.norm(moments_on(out["mem2/newton"][i], deg, w) - moments_on(out["mem2/scipy"][i], deg, w)))
                if e_ns >= 2 * ATOL:
                    run.violation("the Newton and scipy solutions disagree by more than the tolerance", dict(info, point=i, difference=e_ns))
            if kind == "rolled":
                # the same directions in another storage order: the same distribution, re-ordered
                for variant in ("mem", "mem2/newton", "mem2/approximate"):
                    run.case("grid_storage_order", key=(case, variant))
                    if variant == "mem":
                        D0 = im.estimate.estimate_directional_distribution(*cols, std, method="mem")[0]
                        D1 = out["mem"][0]
                    else:
                        sm = variant.split("/")[1]
                        D0 = im.estimate.estimate_directional_distribution(*cols, std, method="mem2", solution_method=sm)[0]
                        D1 = out[variant][0] if variant in out else im.estimate.estimate_directional_distribution(*cols, deg, method="mem2", solution_method=sm)[0]
                    if not close(D1, np.roll(D0, -k), 1e-6 if variant == "mem2/newton" else 1e-9):
                        run.violation("the distribution depends on where the storage of the direction grid starts", dict(info, variant=variant, k=k))
            if kind == "batch":
                idx = (-np.arange(n)) % n
                for variant in ("mem", "mem2/newton"):
                    if not close(out[variant][3][idx], out[variant][0], 1e-6 if variant == "mem2/newton" else 1e-9):
                        run.violation("mirrored moments in the same batch do not give the mirrored distribution", dict(info, variant=variant))


def jacobian_fd(run, im, rng, ncases):
    for case in range(ncases):
        with common.guard(run, f"jacobian case {case}"), warnings.catch_warnings():
            warnings.simplefilter("ignore")
            n = rng.choice([12, 24, 36, 72, 144])
            deg, rad, tw, delta = im.grid(n)
            m = list(rng.choice(HARD)) if case % 5 == 0 else quadruple(rng)[0]
            mom = np.array(m, float)
            where = rng.choice(["guess", "random", "small"])
            if where == "guess":
                lam = np.array(im.mem2.initial_value(*[np.array(v) for v in m]), float)
            elif where == "random":
                lam = np.array([rng.uniform(-5, 5) for _ in range(4)])
            else:
                lam = np.array([rng.uniform(-0.5, 0.5) for _ in range(4)])
            run.case("jacobian_fd", key=(case,))
            run.count("jac_at_" + where)
            J = im.mem2.mem2_jacobian(lam, tw, delta, np.empty((4, 4)))
            h = 1e-5
            fd = np.empty((4, 4))
            for nn in range(4):
                d = np.zeros(4)
                d[nn] = h
                fd[:, nn] = (im.mem2.moment_constraints(lam + d, tw, mom, delta) - im.mem2.moment_constraints(lam - d, tw, mom, delta)) / (2 * h)
            scale = max(1e-3, float(np.max(np.abs(fd))))
            if not np.all(np.abs(J - fd) <= 1e-6 * scale + 1e-9):
                run.violation("mem2_jacobian is not the derivative of moment_constraints (central differences)",
                              dict(moments=m, N=n, lam=lam.tolist(), jacobian=J.tolist(), finite_difference=fd.tolist()))
            if not np.array_equal(J, J.T):
                run.violation("mem2_jacobian is not symmetric", dict(moments=m, N=n, lam=lam.tolist()))


def scipy_batches(run, im, rng, ncases):
    """MEM2 with scipy's root finder on batches of *similar* spectra (the directional shape barely changes with frequency and
    from spectrum to spectrum; noisy, possibly unrealisable moments, for which the end point of the root finder depends on
    where it starts): a spectrum converted inside the batch equals the same spectrum converted alone."""
    for case in range(ncases):
        with common.guard(run, f"scipy batch case {case}"), warnings.catch_warnings():
            warnings.simplefilter("ignore")
            n = rng.choice([24, 36])
            deg = np.linspace(0, 360, n, endpoint=False)
            npts, nf = rng.choice([2, 3, 4]), rng.choice([3, 5])
            spow, mu = rng.uniform(3.0, 10.0), rng.uniform(-math.pi, math.pi)
            r1, r2 = spow / (spow + 1), spow * (spow - 1) / ((spow + 1) * (spow + 2))
            base = np.array([r1 * math.cos(mu), r1 * math.sin(mu), r2 * math.cos(2 * mu), r2 * math.sin(2 * mu)])
            scale = rng.choice([0.03, 0.08, 0.15])
            quads = np.empty((npts, nf, 4))
            for a in range(npts):
                for b in range(nf):
                    while True:
                        q = base + np.array([rng.gauss(0, scale) for _ in range(4)])
                        if q[0] ** 2 + q[1] ** 2 < 0.98 and abs(q[2]) < 1 and abs(q[3]) < 1:
                            break
                    quads[a, b] = q
            cols = [np.ascontiguousarray(quads[..., c]) for c in range(4)]
            run.case("scipy_batch", key=(case,))
            info = dict(N=n, points=npts, frequencies=nf, moments=quads.tolist())
            D = np.asarray(im.estimate.estimate_directional_distribution(*cols, deg, method="mem2", solution_method="scipy"), dtype=float)
            for a in range(npts):
                alone = np.asarray(im.estimate.estimate_directional_distribution(*[c[a:a + 1] for c in cols], deg, method="mem2",
                                                                                solution_method="scipy"), dtype=float)[0]
                for b in range(nf):
                    if close(D[a, b], alone[b], 1e-3):
                        run.count("scipy_batch_member_equal")
                    elif amplifies_rounding(lambda mm: im.distribution(mm, deg, "mem2/scipy"), list(quads[a, b]), alone[b],
                                            float(np.max(np.abs(alone[b] - D[a, b])))):
                        run.count("scipy_batch_member_ill_conditioned")
                    else:
                        run.violation("a spectrum of a batch (scipy root finder, similar spectra) does not get the result it gets alone",
                                      dict(info, point=a, frequency=b, max_abs_diff=float(np.max(np.abs(alone[b] - D[a, b]))),
                                           peak=float(np.max(alone[b]))))


def main(prop, tier, seed):
    run = common.Run(prop, tier, seed)
    if prop == "C06":
        aud = common.audit_with_arith(prop, "C06Gen", thorough=(tier == "thorough"))
    else:
        aud = common.audit(prop, thorough=(tier == "thorough"))
    common.use_repo_source()
    thorough = tier == "thorough"
    drv = common.Driver()
    try:
        with common.guard(run, "import of the estimators"):
            im = Impl()
        # (backstop: an exception escaping from the library in any phase is a finding, not a tool failure)
        if prop == "C05":
            with common.guard(run, "estimator kernels (correspondence phase)"):
                correspondence(run, drv, im, run.rng, 400 if thorough else 60)
            with common.guard(run, "validity phase"):
                validity(run, im, run.rng, 1500 if thorough else 150)
            with common.guard(run, "batch phase"):
                batches(run, im, run.rng, 120 if thorough else 16)
            array_entry(run, im, run.rng, 90 if thorough else 12)
            scipy_batches(run, im, run.rng, 60 if thorough else 8)
            with common.guard(run, "grid sweep"):
                grid_sweep(run, im, run.rng)
            rule = RULE_C05
        else:
            with common.guard(run, "estimator kernels (correspondence phase)"):
                correspondence(run, drv, im, run.rng, 200 if thorough else 30)
            fidelity(run, drv, im, run.rng, 240 if thorough else 24)
            fidelity_grids(run, im, run.rng, 120 if thorough else 16)
            with common.guard(run, "Jacobian phase"):
                jacobian_fd(run, im, run.rng, 400 if thorough else 60)
            rule = RULE_C06
    finally:
        drv.close()
    return run.finish(aud, ASSUMPTIONS, rule)
