"""C18 / C19: correspondence of FileCache with the Lean model + property oracles on the code."""
import hashlib
import itertools
import os
import shutil
import sys
import tempfile
import threading
import warnings

os.environ["TQDM_DISABLE"] = "1"

from . import common

T0 = 4_102_444_800  # logical clock base (2100-01-01): real "now" stamps (atime noise) stay older
NKEYS = 12          # key = 4 * resource + comment
NFOREIGN = 3
SLACK = 16          # MEGABYTE is patched to this in the harness process


FOREIGN_NAMES = ["foreign_0", "cachefile_1_foreign.txt", "foreign_2_cachefile"]


class Kill(BaseException):
    pass


class World:
    """One cache directory + the real FileCache on it + the mock resource + the model session."""

    def __init__(self, run, max_size, tolerant, parallel, drv, relative=False):
        common.use_repo_source()
        import importlib
        from ocean_science_utilities.filecache import cache_object as co
        from ocean_science_utilities.filecache import remote_resources as rr
        self.co, self.rr = co, rr
        co.GIGABYTE = 1
        co.MEGABYTE = SLACK
        self.run = run
        self.drv = drv
        self.parallel = parallel
        self.tolerant = tolerant
        self.base = tempfile.mkdtemp(prefix="osu_cache_")
        self.dir = os.path.join(self.base, "c")
        self.relative = relative
        self.clock = 0
        self.lock = threading.Lock()
        self.script = {}        # key -> (outcome kind, arg, pp)
        self.dl_log = []
        self.last_stamp = {}
        self.delay = {}
        self.kill_at = None     # crash emulation: os._exit after this many tmp writes of the request
        self.writes = 0
        self.order_gate = None
        self.name2key = {}
        self.foreign_seen = {}
        self.uri = {}
        for k in range(NKEYS):
            u = f"mock://res{k // 4}" + (f"<<c{k % 4}" if k % 4 else "")
            self.uri[k] = u
            self.name2key["cachefile_" + hashlib.md5(u.encode()).hexdigest() + "_cachefile"] = k
        self._install_clock()
        self.cache = self._open(max_size, False, first=True)
        out = drv.ask(f"cache init {NKEYS} {NFOREIGN} {max_size} {SLACK} {1 if tolerant else 0}")
        self.model_line = out

    # -- logical clock ------------------------------------------------------------------
    def tick(self):
        with self.lock:
            self.clock += 1
            return T0 + self.clock

    def _install_clock(self):
        world = self
        if not hasattr(os, "_osu_real_utime"):
            os._osu_real_utime = os.utime
        real = os._osu_real_utime

        def utime(path, times=None, *, ns=None, **kw):
            if times is None and ns is None:
                t = world.tick()
                return real(path, (t, t), **kw)
            if ns is not None:
                return real(path, ns=ns, **kw)
            return real(path, times, **kw)
        os.utime = utime

    def stamp(self, path):
        t = self.tick()
        os._osu_real_utime(path, (t, t))
        base = os.path.basename(path)
        key = self.name2key.get(base[:-5] if base.endswith(".part") else base)
        if key is not None:
            self.last_stamp[key] = t

    # -- the mock resource --------------------------------------------------------------
    def content(self, res, size, pp):
        head = (b"P" if pp else b"R") + str(res).encode() + b";"
        return (head + b"." * size)[:size]

    def _resource(self):
        world = self

        class Mock(self.rr.RemoteResource):
            URI_PREFIX = "mock://"

            def download(self_inner):
                def dl(uri, filepath):
                    base = os.path.basename(filepath)
                    key = world.name2key.get(base[:-5] if base.endswith(".part") else base)
                    with world.lock:
                        world.dl_log.append(key)
                    kind, arg, pp = world.script[key]
                    res = key // 4
                    if world.delay.get(key):
                        import time as _t
                        _t.sleep(world.delay[key])
                    assert uri == f"mock://res{res}", (uri, key)
                    if kind == "nf":
                        raise world.rr._RemoteResourceUriNotFound(uri)
                    if kind == "rb":
                        raise IOError("mock: connection refused")
                    world._maybe_kill(0)
                    if kind == "rp":
                        with open(filepath, "wb") as fh:
                            fh.write(world.content(res, max(arg, 8), False)[:arg])
                        world.stamp(filepath)
                        world._maybe_kill(1)
                        raise IOError("mock: connection lost")
                    with open(filepath, "wb") as fh:
                        pass
                    world.stamp(filepath)
                    world._maybe_kill(1)
                    with open(filepath, "wb") as fh:
                        fh.write(world.content(res, arg, False))
                    world.stamp(filepath)
                    world._maybe_kill(1)
                    return True
                return dl
        return Mock()

    def _maybe_kill(self, n):
        self.writes += n
        if self.kill_at is not None and self.writes >= self.kill_at:
            os._exit(17)

    def _postprocess(self, filepath):
        base = os.path.basename(filepath)
        key = self.name2key.get(base[:-5] if base.endswith(".part") else base)
        kind, arg, pp = self.script[key]
        if kind == "rpost":
            raise RuntimeError("mock: post-processing failed")
        with open(filepath, "rb") as fh:
            b = fh.read()
        with open(filepath, "wb") as fh:
            fh.write(b"P" + b[1:])
        self.stamp(filepath)
        self._maybe_kill(1)
        return True

    def _open(self, size, evict, first=False):
        path = self.dir
        if self.relative:
            os.makedirs(self.dir, exist_ok=True)
            path = os.path.relpath(self.dir)
        c = self.co.FileCache(path, size_GB=size, do_cache_eviction_on_startup=evict,
                              resources=[self._resource()], parallel=self.parallel,
                              allow_for_missing_files=self.tolerant)
        c.disable_progress_bar = True
        c.set_directive_function("validate", "vt", lambda p: True)
        c.set_directive_function("validate", "vf", lambda p: False)
        c.set_directive_function("validate", "ve", self._raise_io)
        c.set_directive_function("postprocess", "pp", self._postprocess)
        return c

    @staticmethod
    def _raise_io(p):
        raise IOError("mock: cannot read")

    # -- observation --------------------------------------------------------------------
    def classify(self, data, key_hint=None):
        if len(data) == 0:
            return "T?n0"
        try:
            head, _ = data.split(b";", 1)
            pp = head[:1] == b"P"
            res = int(head[1:])
        except Exception:
            return "??" + data[:6].decode("latin1")
        return ("F", res, pp)

    def listing(self, sizes_expected):
        files = []
        for name in sorted(os.listdir(self.dir)):
            if name == "file_cache_config.json":
                continue
            p = os.path.join(self.dir, name)
            fd = os.open(p, os.O_RDONLY | getattr(os, "O_NOATIME", 0))
            try:
                data = b""
                while True:
                    b = os.read(fd, 1 << 16)
                    if not b:
                        break
                    data += b
            finally:
                os.close(fd)
            if name in FOREIGN_NAMES:
                n = FOREIGN_NAMES.index(name)
                files.append((2, n, f"x{n}:X{n}:{len(data)}"))
                continue
            tmp = name.endswith(".part")
            key = self.name2key.get(name[:-5] if tmp else name)
            if key is None:
                files.append((3, 0, f"?{name}"))
                continue
            exp = sizes_expected.get(key)
            c = self._content_tag(data, key, exp)
            files.append((0, key * 2 + (1 if tmp else 0), f"{'t' if tmp else 'c'}{key}:{c}:{len(data)}"))
        return [f[2] for f in sorted(files)]

    def _content_tag(self, data, key, exp):
        res = key // 4
        if len(data) == 0:
            return f"T{res}n0"
        for pp in (False, True):
            for size in ([exp] if exp else []) + [len(data)]:
                if size is not None and data == self.content(res, size, pp) and len(data) == size:
                    return f"F{res}p{1 if pp else 0}"
        # a proper prefix of the unprocessed bytes of the resource
        for size in range(len(data), len(data) + 400):
            if self.content(res, size, False)[:len(data)] == data and size > len(data):
                return f"T{res}n{len(data)}"
        return "?" + data[:8].decode("latin1")

    def observe(self, out, sizes_expected, dl=None):
        entries = sorted(k for k in range(NKEYS) if self.cache.in_cache(self.uri[k])[0])
        files = self.listing(sizes_expected)
        rec = []
        for k in entries:
            p = os.path.join(self.dir, [n for n, kk in self.name2key.items() if kk == k][0])
            if os.path.exists(p):
                st = os.stat(p)
                rec.append((max(st.st_atime, st.st_mtime), k))
        order = [k for _, k in sorted(rec)]
        total = sum(os.path.getsize(os.path.join(self.dir, n)) for n, kk in self.name2key.items()
                    if kk in entries and os.path.exists(os.path.join(self.dir, n)))
        dls = ",".join(map(str, dl if dl is not None else []))
        return (f"out={out} dl={dls} entries={','.join(map(str, entries))} files={' '.join(files)} "
                f"order={','.join(map(str, order))} max={self.cache.config.max_size_bytes} total={total} "
                f"n={len(self.cache)}")

    def invariant_oracles(self, info):
        """Clauses of C18/C19 that must hold after every operation, checked on the implementation."""
        run = self.run
        names = os.listdir(self.dir)
        n_files = len([n for n in names if n.startswith("cachefile_") and n.endswith("_cachefile")])
        if len(self.cache) != n_files:
            run.violation("number of entries differs from number of cache files",
                          dict(info, entries=len(self.cache), files=n_files))
        for n, (data, mt) in self.foreign_seen.items():
            p = os.path.join(self.dir, n)
            if not os.path.exists(p) or open(p, "rb").read() != data or os.stat(p).st_mtime != mt:
                run.violation("foreign file modified or deleted", dict(info, name=n))

    def probe_hits(self, info):
        """Failing-input search after a disagreement: request every key the cache claims to hold and
        check that what is served is complete and of the right resource."""
        run = self.run
        for k in range(NKEYS):
            try:
                if not self.cache.in_cache(self.uri[k])[0]:
                    continue
                self.script = {k: ("rb", 0, False)}      # a download attempt would raise
                self.dl_log = []
                with warnings.catch_warnings():
                    warnings.simplefilter("ignore")
                    paths = self.cache[self.uri[k]]
                for p in paths:
                    data = open(p, "rb").read() if os.path.exists(p) else None
                    tag = self._content_tag(data, k, None) if data is not None else "missing"
                    if not tag.startswith(f"F{k // 4}p"):
                        run.violation("a partial, unprocessed or missing file is served as a cache hit",
                                      dict(info, key=k, path=p, content=tag))
            except Exception as e:
                run.violation("serving a key the cache claims to hold raised",
                              dict(info, key=k, error=repr(e)))

    @staticmethod
    def canon_model(line):
        # drop the ev= field (not observable on the implementation without hooks) and, in files=,
        # nothing else
        import re
        line = re.sub(r" ev=[0-9,]*", "", line)
        m = re.search(r" dl=([0-9,]*)", line)
        if m and m.group(1):
            line = line.replace(m.group(0), " dl=" + ",".join(map(str, sorted(map(int, m.group(1).split(","))))), 1)
        return line

    def close(self):
        shutil.rmtree(self.base, ignore_errors=True)


def req_token(key, validate, pp, kind, arg):
    v = {None: "n", False: "0", True: "1"}[validate]
    return f"{key},{v},{1 if pp else 0},{kind},{arg}"


def unparsed_uri(world, key, validate_name, pp):
    d = []
    if validate_name:
        d.append(f"validate={validate_name}")
    if pp:
        d.append("postprocess=pp")
    u = world.uri[key]
    return (";".join(d) + ":" + u) if d else u


class Mismatch(Exception):
    pass


def do_get(world, reqs, oracle=True):
    """reqs: list of dict(key, vname (None|'vt'|'vf'|'ve'), pp, kind, arg).  Runs the request on the
    implementation and on the model and returns (impl_line, model_line, info)."""
    run = world.run
    c = world.cache
    before_entries = {k for k in range(NKEYS) if c.in_cache(world.uri[k])[0]}
    before_files = {n: open(os.path.join(world.dir, n), "rb").read() if False else None
                    for n in ()}
    foreign_before = {n: (open(os.path.join(world.dir, n), "rb").read(), os.stat(os.path.join(world.dir, n)).st_mtime)
                      for n in os.listdir(world.dir) if n in FOREIGN_NAMES}
    world.script = {r["key"]: (r["kind"], r["arg"], r["pp"]) for r in reqs}
    world.dl_log = []
    world.last_stamp = {}
    world.writes = 0
    uris = [unparsed_uri(world, r["key"], r["vname"], r["pp"]) for r in reqs]
    out = None
    with warnings.catch_warnings():
        warnings.simplefilter("ignore")
        try:
            paths = c[uris if len(uris) != 1 or world.run.rng.random() < 0.5 else uris[0]]
            keys = [world.name2key.get(os.path.basename(p), -1) for p in paths]
            out = "paths[" + ",".join(map(str, keys)) + "]"
        except world.rr._RemoteResourceUriNotFound:
            paths = None
            out = "raise-notfound"
        except (IOError, RuntimeError) as e:
            paths = None
            if "mock:" not in str(e):
                out = "raise-" + type(e).__name__
                run.violation("request raised an exception that no resource fault explains",
                              dict(uris=uris, error=repr(e)))
            else:
                out = "raise-io"
        except Exception as e:
            paths = None
            out = "raise-" + type(e).__name__
            run.violation("request raised an exception that no resource fault explains",
                          dict(uris=uris, error=repr(e)))
    started = list(world.dl_log)
    # completion order: by the stamp of the last write of each worker (start order for the rest)
    dl = sorted(started, key=lambda k: (world.last_stamp.get(k, 0), started.index(k)))
    sizes = {r["key"]: r["arg"] for r in reqs if r["kind"] in ("ok", "rpost")}
    impl = world.observe(out, sizes, sorted(started))
    toks = [req_token(r["key"], {None: None, "vt": True, "vf": False, "ve": False}[r["vname"]], r["pp"],
                      r["kind"], r["arg"]) for r in reqs]
    line = f"cache get {len(toks)} {' '.join(toks)} {len(dl)} {' '.join(map(str, dl))}".rstrip()
    model = World.canon_model(world.drv.ask(line))
    info = dict(uris=uris, out=out, dl=dl, line=line)
    # ---- property oracles on the implementation (independent of the model) -------------
    if oracle:
        hits = [r for r in reqs if r["key"] in before_entries and r["vname"] in (None, "vt")]
        for r in hits:
            if r["key"] in dl:
                run.violation("hit_no_download", dict(info, key=r["key"]))
        if paths is not None:
            for p in paths:
                k = world.name2key.get(os.path.basename(p))
                if not os.path.exists(p):
                    run.violation("returned path does not exist", dict(info, path=p))
                    continue
                data = open(p, "rb").read()
                tag = world._content_tag(data, k, None) if k is not None else "?"
                if not tag.startswith(f"F{k // 4 if k is not None else -1}p"):
                    run.violation("returned path does not hold the complete resource", dict(info, path=p, tag=tag))
            if len(set(paths)) != len(paths):
                run.violation("distinct URIs share a file", info)
            # omitted keys must be tolerated not-found
            got = {world.name2key.get(os.path.basename(p)) for p in paths}
            for r in reqs:
                if r["key"] not in got and not (r["kind"] == "nf" and world.tolerant):
                    run.violation("a URI other than a tolerated not-found was omitted", dict(info, key=r["key"]))
        n_files = len([n for n in os.listdir(world.dir) if n in world.name2key])
        if len(c) != n_files:
            run.violation("number of entries differs from number of cache files", dict(info, entries=len(c), files=n_files))
        if dl:
            tot = sum(os.path.getsize(os.path.join(world.dir, n)) for n in os.listdir(world.dir) if n in world.name2key)
            if tot > c.config.max_size_bytes:
                run.violation("cache files exceed the configured size after a request", dict(info, total=tot, max=c.config.max_size_bytes))
        for n, (data, mt) in foreign_before.items():
            p = os.path.join(world.dir, n)
            if not os.path.exists(p) or open(p, "rb").read() != data or os.stat(p).st_mtime != mt:
                run.violation("foreign file modified or deleted", dict(info, name=n))
        # failed keys leave nothing behind under a cache-pattern name
        for r in reqs:
            failed = r["kind"] in ("nf", "rb", "rp") or (r["kind"] == "rpost" and r["pp"])
            if failed and r["key"] not in [h["key"] for h in hits]:
                name = [n for n, kk in world.name2key.items() if kk == r["key"]][0]
                if os.path.exists(os.path.join(world.dir, name)) and r["key"] in dl:
                    run.violation("failed download left a cache file", dict(info, key=r["key"]))
    return impl, model, info


def simple_op(world, op):
    """remove / purge / reopen / touch / foreign on both sides."""
    c = world.cache
    kind = op[0]
    out = "none"
    if kind == "remove":
        line = f"cache remove {op[1]}"
        try:
            # the same entry under any directive prefix: removal takes the string a request would take
            form = world.run.rng.choice(["plain", "plain", "validate", "both"])
            world.run.count("remove_form_" + form)
            target = world.uri[op[1]] if form == "plain" else unparsed_uri(world, op[1], "vt", form == "both")
            was_in = bool(c.in_cache(world.uri[op[1]])[0])
            c.remove(target)
            if was_in and bool(c.in_cache(world.uri[op[1]])[0]):
                world.run.violation("an entry is still in the cache after its removal (it would be served without contacting the resource)",
                                    dict(line=line, removed_as=target))
        except Exception as e:
            out = "raise-" + type(e).__name__
            world.run.violation("remove() raised", dict(line=line, error=repr(e)))
    elif kind == "purge":
        line = "cache purge"
        try:
            c.purge()
        except Exception as e:
            out = "raise-" + type(e).__name__
            world.run.violation("purge() raised", dict(line=line, error=repr(e)))
    elif kind == "reopen":
        line = f"cache reopen {1 if op[1] else 0}"
        try:
            world.cache = world._open(op[2], op[1])
        except ValueError as e:
            if "exceeds the maximum cache size" not in str(e):
                world.run.violation("opening the cache directory raised", dict(line=line, error=repr(e)))
                raise
            # no live cache object: the model must report too-big as well; then reopen with eviction
            m1 = world.drv.ask(line)
            world.cache = world._open(op[2], True)
            impl = world.observe("too-big", {})
            model = World.canon_model(world.drv.ask("cache reopen 1")).replace("out=none", "out=" + m1.split(" ")[0][4:], 1)
            return impl, model, dict(line=line + " ; cache reopen 1")
    elif kind == "touch":
        name = [n for n, kk in world.name2key.items() if kk == op[1]][0]
        p = os.path.join(world.dir, name)
        if os.path.exists(p):
            world.stamp(p)
        line = f"cache touch {op[1]}"
    elif kind == "foreign":
        p = os.path.join(world.dir, FOREIGN_NAMES[op[1]])
        with open(p, "wb") as fh:
            fh.write(b"x" * op[2])
        world.stamp(p)
        world.foreign_seen[FOREIGN_NAMES[op[1]]] = (b"x" * op[2], os.stat(p).st_mtime)
        line = f"cache foreign {op[1]} {op[2]}"
    else:
        raise ValueError(op)
    impl = world.observe(out, {})
    model = World.canon_model(world.drv.ask(line))
    return impl, model, dict(line=line)


def crash_get(world, reqs, kill_after_writes, evict_on_start):
    """Run the request in a forked child that dies (os._exit) after `kill_after_writes` temporary
    file writes of the download phase; then reopen the directory in this process."""
    world.script = {r["key"]: (r["kind"], r["arg"], r["pp"]) for r in reqs}
    uris = [unparsed_uri(world, r["key"], r["vname"], r["pp"]) for r in reqs]
    c = world.cache
    before_entries = {k for k in range(NKEYS) if c.in_cache(world.uri[k])[0]}
    misses = [r["key"] for r in reqs if not (r["key"] in before_entries and r["vname"] in (None, "vt"))]
    sys.stdout.flush()
    pid = os.fork()
    if pid == 0:
        try:
            world.kill_at = kill_after_writes
            world.writes = 0
            if kill_after_writes == 0:
                # die when the first download starts
                pass
            with warnings.catch_warnings():
                warnings.simplefilter("ignore")
                try:
                    c[uris]
                except BaseException:
                    pass
        finally:
            os._exit(18)   # finished (or raised) without reaching the kill point
    _, status = os.waitpid(pid, 0)
    code = os.waitstatus_to_exitcode(status)
    world.clock += 1000    # the child's ticks are lost; stay ahead of them
    out = "none"
    try:
        world.cache = world._open(1, evict_on_start)
    except ValueError:
        out = "too-big"
        world.cache = world._open(1, True)
    sizes = {r["key"]: r["arg"] for r in reqs if r["kind"] in ("ok", "rpost")}
    impl = world.observe(out, sizes)
    toks = [req_token(r["key"], {None: None, "vt": True, "vf": False, "ve": False}[r["vname"]], r["pp"],
                      r["kind"], r["arg"]) for r in reqs]
    head = f"{len(toks)} {' '.join(toks)} {len(misses)} {' '.join(map(str, misses))}".rstrip()
    if code == 17:
        line = f"cache getcrashw {head} {kill_after_writes} {1 if evict_on_start else 0}"
    else:
        # the request finished before the kill point: crash after the whole request
        line = f"cache getcrash {head} 100000 {1 if evict_on_start else 0}"
    m1 = world.drv.ask(line)
    if out == "too-big":
        model = World.canon_model(world.drv.ask("cache reopen 1")).replace("out=none", "out=" + m1.split(" ")[0][4:], 1)
        line += " ; cache reopen 1"
    else:
        model = World.canon_model(m1)
    return impl, model, dict(line=line, uris=uris, exit=code)
