"""Doubles <-> wire format of the model driver; exact comparison helpers."""
import struct
from fractions import Fraction

import numpy as np


def bits(x):
    x = float(x)
    if x != x:
        return "nan"
    return str(struct.unpack("<Q", struct.pack("<d", x))[0])


def bits_list(xs):
    xs = np.asarray(xs, dtype=float).ravel()
    return f"{len(xs)} " + " ".join(bits(v) for v in xs) if len(xs) else "0"


def from_bits(tok):
    return struct.unpack("<d", struct.pack("<Q", int(tok)))[0]


def frac(tok):
    """'p/q' -> Fraction ; 'nan' -> None"""
    if tok == "nan":
        return None
    p, q = tok.split("/")
    return Fraction(int(p), int(q))


def close(impl, exact, scale, rel=1e-10, abs_=0.0):
    """impl: float, exact: Fraction (or None for NaN)."""
    if exact is None:
        return impl != impl
    if impl != impl or impl in (float("inf"), float("-inf")):
        return False
    return abs(Fraction(impl) - exact) <= Fraction(rel) * Fraction(abs(scale)) + Fraction(abs_)
