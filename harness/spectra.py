"""Generators of wave-spectrum objects (1D / 2D, several dims layouts) for the spectral checks."""
import warnings

import numpy as np

LAYOUTS = ["scalar", "time", "time_lat", "flat"]


def freq_grid(rng, nf=None):
    nf = nf or rng.choice([2, 3, 5, 8, 12, 20, 36])
    kind = rng.choice(["uniform", "nonuniform", "from_zero", "log"])
    if kind == "uniform":
        df = rng.choice([8, 16, 32, 64]) / 1024.0
        f0 = rng.choice([16, 32, 48]) / 1024.0
        f = f0 + df * np.arange(nf)
    elif kind == "from_zero":
        steps = np.array([rng.choice([8, 16, 24, 40]) for _ in range(nf - 1)]) / 1024.0
        f = np.concatenate([[0.0], np.cumsum(steps)])
    elif kind == "log":
        f = np.round(0.03 * 1.15 ** np.arange(nf) * 1024) / 1024.0
        f = np.unique(f)
        nf = len(f)
    else:
        steps = np.array([rng.choice([4, 8, 16, 24, 40, 64]) for _ in range(nf - 1)]) / 1024.0
        f = rng.choice([8, 24, 40]) / 1024.0 + np.concatenate([[0.0], np.cumsum(steps)])
    return kind, np.asarray(f, dtype=float)


def dir_grid(rng, nd=None, uniform=None):
    nd = nd or rng.choice([8, 12, 16, 24, 36, 72, 144])
    if uniform is None:
        uniform = rng.random() < 0.6
    if uniform:
        start = rng.choice([0.0, 0.0, 5.0, 90.0, 270.0, 352.5, rng.randrange(0, 360 * 4) / 4.0])
        d = start + 360.0 / nd * np.arange(nd)
    else:
        # non-uniform, every cyclic gap < 180
        w = np.array([rng.choice([1, 1, 2, 3]) for _ in range(nd)], dtype=float)
        gaps = np.round(w / w.sum() * 360 * 8) / 8.0
        gaps[-1] = 360.0 - gaps[:-1].sum()
        if gaps.min() <= 0 or gaps.max() >= 180:
            return dir_grid(rng, nd, True)
        start = rng.randrange(0, 360 * 8) / 8.0
        d = start + np.concatenate([[0.0], np.cumsum(gaps[:-1])])
    rep = rng.choice(["raw", "mod360"])
    if rep == "mod360":
        d = np.mod(d, 360.0)
    return ("uniform" if uniform else "nonuniform") + "_" + rep, np.asarray(d, dtype=float)


def batch_shape(rng, layout):
    if layout == "scalar":
        return ()
    if layout in ("time", "flat"):
        return (rng.choice([1, 2, 3, 5]),)
    return (rng.choice([1, 2, 3]), rng.choice([1, 2]))


def energy(rng, shape, nan_rate=0.1, zero_rate=0.15, positive=False):
    e = np.array([rng.choice([0.25, 0.5, 1.0, 2.0, 3.5]) * rng.random() for _ in range(int(np.prod(shape)))]).reshape(shape)
    e = np.round(e * 4096) / 4096.0
    if positive:
        e = e + 1.0 / 4096
    mode = rng.random()
    if mode < 0.5 and not positive:
        mask = np.array([rng.random() < zero_rate for _ in range(e.size)]).reshape(shape)
        e[mask] = 0.0
    if mode > 0.4 and nan_rate > 0:
        mask = np.array([rng.random() < nan_rate for _ in range(e.size)]).reshape(shape)
        e[mask] = np.nan
    return e


def space_time(rng, layout, bshape, depth_mode="mixed", transpose_aux=False):
    """data variables / coords for time, latitude, longitude, depth."""
    import xarray
    from datetime import datetime, timezone, timedelta
    t0 = np.datetime64("2022-10-01T06:00:00", "ns")
    out, coords = {}, {}
    n = int(np.prod(bshape)) if bshape else 1

    def depth_vals(k):
        vals = []
        for _ in range(k):
            u = rng.random()
            if depth_mode == "deep" or u < 0.4:
                vals.append(np.inf)
            elif u < 0.5:
                vals.append(np.nan)
            else:
                vals.append(rng.choice([0.5, 2.0, 10.0, 25.0, 100.0, 3000.0]))
        return np.array(vals, dtype=float)
    if layout == "scalar":
        out["time"] = t0
        out["latitude"] = 11.0
        out["longitude"] = 10.0
        out["depth"] = float(depth_vals(1)[0])
        dims = []
    elif layout == "time":
        nt = bshape[0]
        coords["time"] = t0 + np.arange(nt) * np.timedelta64(3600, "s")
        out["latitude"] = ("time", 11.0 - 0.01 * np.arange(nt))
        out["longitude"] = ("time", 10.0 + 0.01 * np.arange(nt))
        out["depth"] = ("time", depth_vals(nt))
        dims = ["time"]
    elif layout == "time_lat":
        nt, nl = bshape
        coords["time"] = t0 + np.arange(nt) * np.timedelta64(3600, "s")
        coords["latitude"] = 11.0 + 0.5 * np.arange(nl)
        out["longitude"] = (("time", "latitude"), 10.0 + 0.01 * np.arange(nt * nl).reshape(nt, nl))
        if transpose_aux:
            out["depth"] = (("latitude", "time"), depth_vals(nt * nl).reshape(nl, nt))
        else:
            out["depth"] = (("time", "latitude"), depth_vals(nt * nl).reshape(nt, nl))
        dims = ["time", "latitude"]
    else:
        nn = bshape[0]
        out["time"] = ("linear_index", t0 + np.arange(nn) * np.timedelta64(3600, "s"))
        out["latitude"] = ("linear_index", 11.0 - 0.01 * np.arange(nn))
        out["longitude"] = ("linear_index", 10.0 + 0.01 * np.arange(nn))
        out["depth"] = ("linear_index", depth_vals(nn))
        dims = ["linear_index"]
    return dims, out, coords


def make_1d(rng, layout=None, f=None, e=None, moments=None, depth_mode="mixed", nan_rate=0.1, positive=False):
    import xarray
    from ocean_science_utilities.wavespectra.spectrum import FrequencySpectrum
    layout = layout or rng.choice(LAYOUTS)
    if f is None:
        _, f = freq_grid(rng)
    bshape = batch_shape(rng, layout) if e is None else e.shape[:-1]
    if e is None:
        e = energy(rng, bshape + (len(f),), nan_rate=nan_rate, positive=positive)
    dims, data, coords = space_time(rng, layout, bshape, depth_mode)
    sdims = tuple(dims) + ("frequency",)
    if moments is None:
        # moments inside the unit disc
        r = np.array([rng.random() * 0.98 for _ in range(e.size)]).reshape(e.shape)
        th = np.array([rng.random() * 2 * np.pi for _ in range(e.size)]).reshape(e.shape)
        a1, b1 = r * np.cos(th), r * np.sin(th)
        r2 = np.array([rng.random() * 0.9 for _ in range(e.size)]).reshape(e.shape)
        th2 = np.array([rng.random() * 2 * np.pi for _ in range(e.size)]).reshape(e.shape)
        a2, b2 = r2 * np.cos(th2), r2 * np.sin(th2)
        if rng.random() < 0.3:
            k = rng.randrange(e.size)
            a1.flat[k] = np.nan
        moments = (a1, b1, a2, b2)
    data["variance_density"] = (sdims, e)
    for name, m in zip(("a1", "b1", "a2", "b2"), moments):
        data[name] = (sdims, m)
    coords["frequency"] = f
    ds = xarray.Dataset(data_vars=data, coords=coords)
    return FrequencySpectrum(ds), dict(layout=layout, f=f, e=e, moments=moments, bshape=bshape)


def make_2d(rng, layout=None, f=None, d=None, E=None, depth_mode="mixed", nan_rate=0.05, uniform=None,
            transpose_aux=False):
    import xarray
    from ocean_science_utilities.wavespectra.spectrum import FrequencyDirectionSpectrum
    layout = layout or rng.choice(LAYOUTS)
    if f is None:
        _, f = freq_grid(rng, rng.choice([3, 5, 8, 12]))
    dkind = "given"
    if d is None:
        dkind, d = dir_grid(rng, rng.choice([8, 12, 16, 24, 36]), uniform)
    bshape = batch_shape(rng, layout) if E is None else E.shape[:-2]
    if E is None:
        E = energy(rng, bshape + (len(f), len(d)), nan_rate=nan_rate)
    dims, data, coords = space_time(rng, layout, bshape, depth_mode, transpose_aux)
    sdims = tuple(dims) + ("frequency", "direction")
    data["variance_density"] = (sdims, E)
    coords["frequency"] = f
    coords["direction"] = d
    ds = xarray.Dataset(data_vars=data, coords=coords)
    return FrequencyDirectionSpectrum(ds), dict(layout=layout, f=f, d=d, E=E, bshape=bshape, dkind=dkind)


def bands(rng, f):
    """(fmin, fmax) pairs: defaults, grid nodes exactly, midpoints, outside, empty, single node."""
    nf = len(f)
    out = [(0.0, np.inf)]
    i, j = sorted([rng.randrange(nf), rng.randrange(nf)])
    out.append((float(f[i]), float(f[j])))                        # nodes exactly (half-open!)
    out.append((float(f[i]), float(f[min(j + 1, nf - 1)])))
    if nf > 2:
        out.append((float((f[0] + f[1]) / 2), float((f[-2] + f[-1]) / 2)))   # midpoints
    out.append((float(f[-1]) + 1.0, float(f[-1]) + 2.0))          # outside (empty)
    out.append((float(f[i]), float(np.nextafter(f[i], np.inf))))  # single node
    out.append((float(f[i]), np.inf))
    out.append((-1.0, float(f[j])))
    return out


def members(arr, nspec):
    """iterate the batch members of an array whose trailing axes are spectral"""
    lead = arr.shape[: arr.ndim - nspec]
    flat = arr.reshape((-1,) + arr.shape[arr.ndim - nspec:]) if lead else arr[None]
    return flat
