"""CLI: python -m harness.run C18 --tier quick"""
import argparse
import importlib
import os
import sys
import traceback

MODULES = {
    "C18": "check_cache", "C19": "check_cache",
    "C20": "check_c20", "C17": "check_c17",
    "C07": "check_c07", "C16": "check_c16", "C15": "check_c15", "C12": "check_c12",
    "C05": "check_est", "C06": "check_est",
    "C08": "check_wp", "C09": "check_wp", "C10": "check_wp", "C11": "check_wp",
    "C13": "check_interp", "C14": "check_interp",
    "C01": "check_spectral", "C02": "check_spectral", "C03": "check_spectral", "C04": "check_spectral",
}


def main():
    ap = argparse.ArgumentParser()
    ap.add_argument("prop")
    ap.add_argument("--tier", default=os.environ.get("VERIF_TIER", "quick"), choices=["quick", "thorough"])
    ap.add_argument("--seed", type=int, default=int(os.environ.get("VERIF_SEED", "0") or 0))
    ap.add_argument("--replay", default=None)
    a = ap.parse_args()
    if a.prop not in MODULES:
        print(f"unknown property {a.prop}")
        return 2
    try:
        mod = importlib.import_module("harness." + MODULES[a.prop])
        if a.replay:
            if hasattr(mod, "replay"):
                return mod.replay(a.prop, a.replay)
            # every random choice derives from (property, seed): re-running the tier and seed recorded in the replay's
            # file name (<prop>-<tier>-<seed>.json) reproduces the reported violation deterministically
            import re
            m = re.search(r"-(quick|thorough)-(\d+)\.json$", a.replay)
            if not m:
                print("cannot parse tier and seed from the replay file name")
                return 2
            return mod.main(a.prop, m.group(1), int(m.group(2)))
        return mod.main(a.prop, a.tier, a.seed)
    except Exception:
        traceback.print_exc()
        return 2


if __name__ == "__main__":
    sys.exit(main())
