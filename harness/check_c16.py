"""C16: synthetic surface time series."""
import math
import warnings

import numpy as np

from . import common
from .numfmt import bits, from_bits
from . import spectra as sp

ASSUMPTIONS = [
    "numpy.fft.irfft(a, n) is the real inverse DFT written in the model (zero-padded Nyquist bin, imaginary part of a[0] ignored); compared on every generated case",
    "numpy.random.default_rng(seed).uniform is a function of the seed: the harness draws the phases with the same call and hands them to the model",
    "the resampling of the spectrum onto the FFT bins is the linear interpolation of C13; the model receives the resampled densities",
    "Float model vs numpy: 1e-9 of the amplitude scale",
]

RULE = ("seeded random 1D spectra (a quarter with missing bins) and 2D spectra with all energy in one direction bin (any bin; uniform and non-uniform direction grids), energy levels 1 .. 1e-10, some with energy beyond fs/2, sampling rates 0.3..12 Hz (incl. 3, 7, 0.7), seeds incl. 0, even and odd "
        "signal lengths 8..2000 (20000 thorough), all six components, seeds; one case = one (spectrum, component, length, seed); "
        "non-trivial if the resampled spectrum has energy in at least 3 bins")


def run_case(run, drv, ts_mod, rng, case, max_len):
    fs = rng.choice([0.5, 1.0, 2.0, 2.5, 4.0, 10.0, 3.0, 7.0, 0.7, 1.3, 6.0, round(rng.uniform(0.3, 12.0), 3)])
    L = rng.choice([8, 9, 10, 33, 64, 101, 256, rng.randint(8, max_len)])
    comp = rng.choice(["u", "v", "w", "x", "y", "z"])
    seed = rng.choice([0, 1, rng.randrange(2 ** 32), rng.randrange(2 ** 32)])
    two_d = rng.random() < 0.5
    nf = rng.choice([6, 10, 16])
    # a third of the spectra carry energy up to and beyond the Nyquist frequency fs/2
    top = rng.choice([0.45, 0.45, 0.8]) * fs
    f = np.sort(np.unique(np.round(np.array([rng.uniform(0.02 * fs, top) for _ in range(nf)]) * 4096) / 4096.0))
    same_count = L <= 80 and rng.random() < 0.35
    if same_count:
        # an input that already has as many bins as the FFT grid (nfft/2) but on another grid: a periodogram without the
        # zero bin, or a geometric grid - it still has to be resampled
        nb = (int(L) // 2) * 2 // 2
        if rng.random() < 0.5:
            f = (np.arange(nb) + 1.0) * (fs / (2 * nb))
        else:
            f = 0.02 * fs * (0.45 / 0.02) ** (np.arange(nb) / max(nb - 1, 1))
        run.count("input_with_nfft_half_bins")
    run.count("energy_beyond_nyquist" if top > 0.5 * fs else "energy_below_nyquist")
    if len(f) < 3:
        return
    # metre-scale seas down to capillary ripples: nothing in the property depends on the absolute level
    level = rng.choice([1.0, 1.0, 1.0, 1e-3, 1e-6, 1e-10])
    run.count(f"level_{level:g}")
    e1 = np.array([rng.uniform(0.1, 2.0) for _ in f]) * level
    # missing bins in the input (1D): the series is that of the resampled spectrum, missing values counting as no energy
    with_nan = (not two_d) and len(f) >= 5 and rng.random() < 0.25
    if with_nan:
        for _ in range(rng.choice([1, 2])):
            e1[rng.randrange(len(f))] = np.nan
        run.count("input_with_missing_bins")
    with warnings.catch_warnings():
        warnings.simplefilter("ignore")
        if two_d:
            nd = rng.choice([8, 12, 36])
            d = 360.0 / nd * np.arange(nd)
            if rng.random() < 0.4:
                # non-uniform direction grid (fine bins in one sector): the bin area is the spectrum's own
                w = np.array([rng.choice([1, 1, 2, 4]) for _ in range(nd)], dtype=float)
                d = np.concatenate([[0.0], np.cumsum(w / w.sum() * 360.0)[:-1]])
                run.count("directions_nonuniform")
            j = rng.randrange(nd)
            probe, _ = sp.make_2d(rng, layout="scalar", f=f, d=d, E=np.zeros((len(f), nd)), depth_mode="deep")
            step = probe.direction_step.values
            E = np.zeros((len(f), nd))
            E[:, j] = e1 / step[j]
            lead = rng.random() < 0.35      # the same spectrum with a leading dimension of length one
            spec, meta = sp.make_2d(rng, layout="time" if lead else "scalar", f=f, d=d, E=E[None] if lead else E, depth_mode="deep")
            if lead:
                run.count("leading_dimension_of_one")
            theta = math.radians(d[j])
        else:
            mom = tuple(np.zeros((len(f),)) for _ in range(4))
            spec, meta = sp.make_1d(rng, layout="scalar", f=f, e=e1, moments=mom, depth_mode="deep")
            theta = 0.0
        pristine = spec.copy(deep=True)
        before = {k: np.array(v.values).copy() for k, v in spec.dataset.variables.items()}
        run.count("2d" if two_d else "1d")
        run.count("comp_" + comp)
        run.count("even" if L % 2 == 0 else "odd")
        def one(series):
            a = np.asarray(series)
            return a[0] if (a.ndim == 2 and a.shape[0] == 1) else a      # one series per spectrum of the leading dimension
        t, z = ts_mod.surface_timeseries(comp, fs, L, spec, seed=seed)
        z = one(z)
        nfft = (int(L) // 2) * 2
        run.case("series", key=(case, comp, L, seed))
        info = dict(component=comp, fs=fs, signal_length=L, seed=seed, two_d=two_d, f=f.tolist(), e=[None if x != x else float(x) for x in e1], directions=d.tolist() if two_d else None)
        if len(z) != len(t) or len(t) != nfft:
            run.violation("series and time axis differ in length (or not nfft samples)", dict(info, len_t=len(t), len_z=len(z), nfft=nfft))
            return
        if not np.allclose(np.diff(t), 1.0 / fs, rtol=1e-12) or t[0] != 0:
            run.violation("time axis is not spaced at the requested sampling rate starting at 0", info)
        # resampled spectrum (the code's own interpolation) -> model inputs
        freqs = np.linspace(0, 0.5 * fs, nfft // 2, endpoint=False)
        for k, v in spec.dataset.variables.items():
            a, b = np.array(v.values), before[k]
            same = a.shape == b.shape and (np.array_equal(a, b, equal_nan=True) if a.dtype.kind == "f" else np.array_equal(a, b))
            if not same:
                run.violation("generating a time series changed the spectrum it was generated from", dict(info, variable=k))
        rs = pristine.interpolate_frequency(freqs)
        om = rs.radian_frequency.values
        if two_d:
            area = rs.frequency_step.values[:, None] * rs.direction_step.values[None, :]
            th = rs.radian_direction.values
            Ev = np.nan_to_num(rs.variance_density.values)
            shape = Ev.shape
            if Ev.ndim == 3 and Ev.shape[0] == 1:
                Ev = Ev[0]
        else:
            area = rs.frequency_step.values[:, None]
            th = np.array([0.0])
            Ev = np.nan_to_num(rs.variance_density.values)[:, None]
            shape = (len(freqs),)
        phases = np.random.default_rng(seed=seed).uniform(0, 2 * np.pi, shape).reshape(Ev.shape)
        area = area * np.ones_like(Ev)
        line = (f"ts series {comp} {nfft} {len(freqs)} {len(th)} " + " ".join(bits(v) for v in om) + " " + " ".join(bits(v) for v in th) + " "
                + " ".join(bits(v) for v in area.reshape(-1)) + " " + " ".join(bits(v) for v in Ev.reshape(-1)) + " "
                + " ".join(bits(v) for v in phases.reshape(-1)))
        if nfft <= 600:
            ans = drv.ask(line)
            zm = np.array([from_bits(tok) for tok in ans.split()])
            scale = float(np.sqrt(np.sum(np.abs(Ev * area)) * (1 + np.max(om) ** 2))) + 1e-300
            if len(zm) != len(z) or np.max(np.abs(zm - z)) > 1e-9 * scale:
                run.mismatch("series", dict(info, max_abs_diff=float(np.max(np.abs(zm - z))) if len(zm) == len(z) else None,
                                            impl=z[:4].tolist(), model=zm[:4].tolist()))
        # variance clauses on the implementation
        e_res = (Ev * area).sum(axis=-1)           # E * df per FFT bin
        wts = {"z": 1.0, "w": om ** 2, "x": math.cos(theta) ** 2, "y": math.sin(theta) ** 2,
               "u": om ** 2 * math.cos(theta) ** 2, "v": om ** 2 * math.sin(theta) ** 2}[comp]
        want_var = float(np.sum((e_res * wts)[1:]))
        got_var = float(np.var(z))
        if abs(got_var - want_var) > 1e-9 * (abs(want_var) + np.sum(e_res) * (1 + np.max(om) ** 2) * 1e-3 + 1e-300):
            run.violation("sample variance of the series differs from the spectral variance of the resampled spectrum (zero-frequency bin excluded)",
                          dict(info, got=got_var, want=want_var))
        # reproducibility and scaling
        t2, z2 = ts_mod.surface_timeseries(comp, fs, L, spec, seed=seed)
        z2 = one(z2)
        if not np.array_equal(z, z2):
            run.violation("identical seeds give different series", info)
        t3, z3 = ts_mod.surface_timeseries(comp, fs, L, spec, seed=seed + 1)
        z3 = one(z3)
        if want_var > 0 and np.array_equal(z, z3):
            run.violation("different seeds give identical series", info)
        c = rng.choice([4.0, 0.25, 9.0, 1e-4, 1e-8, 1e6])
        if two_d:
            spec_c, _ = sp.make_2d(rng, layout="time" if lead else "scalar", f=f, d=d, E=(E * c)[None] if lead else E * c, depth_mode="deep")
        else:
            spec_c, _ = sp.make_1d(rng, layout="scalar", f=f, e=e1 * c, moments=mom, depth_mode="deep")
        t4, z4 = ts_mod.surface_timeseries(comp, fs, L, spec_c, seed=seed)
        z4 = one(z4)
        if not np.allclose(z4, math.sqrt(c) * z, rtol=1e-10, atol=1e-12 * math.sqrt(c) * np.max(np.abs(z))):
            run.violation("scaling the spectrum by c does not scale the series by sqrt(c)", dict(info, c=c))
        if case < 3:
            run.sample(dict(info, nfft=nfft, first_samples=z[:4].tolist(), variance=got_var, spectral_variance=want_var))


def main(prop, tier, seed):
    run = common.Run(prop, tier, seed)
    aud = common.audit(prop, thorough=(tier == "thorough"))
    common.use_repo_source()
    from ocean_science_utilities.wavespectra import timeseries as ts_mod
    thorough = tier == "thorough"
    drv = common.Driver()
    try:
        for case in range(600 if thorough else 60):
            with common.guard(run, f"C16 case {case}"):
                run_case(run, drv, ts_mod, run.rng, case, 20000 if thorough else 2000)
    finally:
        drv.close()
    return run.finish(aud, ASSUMPTIONS, RULE)
