"""C16: synthetic surface time series."""
import math
import warnings

import numpy as np

from . import common
from .numfmt import bits, from_bits
from . import spectra as sp

ASSUMPTIONS = [
    "numpy.fft.irfft(a, n) is the real inverse DFT written in the model (zero-padded Nyquist bin, imaginary part of a[0] ignored); compared on every generated case",
    "numpy.random.default_rng(seed).uniform is a function of the seed: the harness draws the phases with the same call and hands them to the model",
    "the resampling of the spectrum onto the FFT bins is the linear interpolation of C13; the model receives the resampled densities",
    "Float model vs numpy: 1e-9 of the amplitude scale",
]

RULE = ("seeded random 1D spectra and 2D spectra with all energy in one direction bin (any bin), some with energy beyond fs/2, sampling rates 0.3..12 Hz (incl. 3, 7, 0.7), seeds incl. 0, even and odd "
        "signal lengths 8..2000 (20000 thorough), all six components, seeds; one case = one (spectrum, component, length, seed); "
        "non-trivial if the resampled spectrum has energy in at least 3 bins")


def run_case(run, drv, ts_mod, rng, case, max_len):
    fs = rng.choice([0.5, 1.0, 2.0, 2.5, 4.0, 10.0, 3.0, 7.0, 0.7, 1.3, 6.0, round(rng.uniform(0.3, 12.0), 3)])
    L = rng.choice([8, 9, 10, 33, 64, 101, 256, rng.randint(8, max_len)])
    comp = rng.choice(["u", "v", "w", "x", "y", "z"])
    seed = rng.choice([0, 1, rng.randrange(2 ** 32), rng.randrange(2 ** 32)])
    two_d = rng.random() < 0.5
    nf = rng.choice([6, 10, 16])
    # a third of the spectra carry energy up to and beyond the Nyquist frequency fs/2
    top = rng.choice([0.45, 0.45, 0.8]) * fs
    f = np.sort(np.unique(np.round(np.array([rng.uniform(0.02 * fs, top) for _ in range(nf)]) * 4096) / 4096.0))
    run.count("energy_beyond_nyquist" if top > 0.5 * fs else "energy_below_nyquist")
    if len(f) < 3:
        return
    e1 = np.array([rng.uniform(0.1, 2.0) for _ in f])
    with warnings.catch_warnings():
        warnings.simplefilter("ignore")
        if two_d:
            nd = rng.choice([8, 12, 36])
            d = 360.0 / nd * np.arange(nd)
            j = rng.randrange(nd)
            E = np.zeros((len(f), nd))
            E[:, j] = e1 / (360.0 / nd)
            spec, meta = sp.make_2d(rng, layout="scalar", f=f, d=d, E=E, depth_mode="deep")
            theta = math.radians(d[j])
        else:
            mom = tuple(np.zeros((len(f),)) for _ in range(4))
            spec, meta = sp.make_1d(rng, layout="scalar", f=f, e=e1, moments=mom, depth_mode="deep")
            theta = 0.0
        run.count("2d" if two_d else "1d")
        run.count("comp_" + comp)
        run.count("even" if L % 2 == 0 else "odd")
        t, z = ts_mod.surface_timeseries(comp, fs, L, spec, seed=seed)
        nfft = (int(L) // 2) * 2
        run.case("series", key=(case, comp, L, seed))
        info = dict(component=comp, fs=fs, signal_length=L, seed=seed, two_d=two_d, f=f.tolist(), e=e1.tolist())
        if len(z) != len(t) or len(t) != nfft:
            run.violation("series and time axis differ in length (or not nfft samples)", dict(info, len_t=len(t), len_z=len(z), nfft=nfft))
            return
        if not np.allclose(np.diff(t), 1.0 / fs, rtol=1e-12) or t[0] != 0:
            run.violation("time axis is not spaced at the requested sampling rate starting at 0", info)
        # resampled spectrum (the code's own interpolation) -> model inputs
        freqs = np.linspace(0, 0.5 * fs, nfft // 2, endpoint=False)
        rs = spec.interpolate_frequency(freqs)
        om = rs.radian_frequency.values
        if two_d:
            area = rs.frequency_step.values[:, None] * rs.direction_step.values[None, :]
            th = rs.radian_direction.values
            Ev = rs.variance_density.values
            shape = Ev.shape
        else:
            area = rs.frequency_step.values[:, None]
            th = np.array([0.0])
            Ev = rs.variance_density.values[:, None]
            shape = (len(freqs),)
        phases = np.random.default_rng(seed=seed).uniform(0, 2 * np.pi, shape).reshape(Ev.shape)
        area = area * np.ones_like(Ev)
        line = (f"ts series {comp} {nfft} {len(freqs)} {len(th)} " + " ".join(bits(v) for v in om) + " " + " ".join(bits(v) for v in th) + " "
                + " ".join(bits(v) for v in area.reshape(-1)) + " " + " ".join(bits(v) for v in Ev.reshape(-1)) + " "
                + " ".join(bits(v) for v in phases.reshape(-1)))
        if nfft <= 600:
            ans = drv.ask(line)
            zm = np.array([from_bits(tok) for tok in ans.split()])
            scale = float(np.sqrt(np.sum(np.abs(Ev * area)) * (1 + np.max(om) ** 2))) + 1e-300
            if len(zm) != len(z) or np.max(np.abs(zm - z)) > 1e-9 * scale:
                run.mismatch("series", dict(info, max_abs_diff=float(np.max(np.abs(zm - z))) if len(zm) == len(z) else None,
                                            impl=z[:4].tolist(), model=zm[:4].tolist()))
        # variance clauses on the implementation
        e_res = (Ev * area).sum(axis=-1)           # E * df per FFT bin
        wts = {"z": 1.0, "w": om ** 2, "x": math.cos(theta) ** 2, "y": math.sin(theta) ** 2,
               "u": om ** 2 * math.cos(theta) ** 2, "v": om ** 2 * math.sin(theta) ** 2}[comp]
        want_var = float(np.sum((e_res * wts)[1:]))
        got_var = float(np.var(z))
        if abs(got_var - want_var) > 1e-9 * (abs(want_var) + np.sum(e_res) * (1 + np.max(om) ** 2) * 1e-3 + 1e-300):
            run.violation("sample variance of the series differs from the spectral variance of the resampled spectrum (zero-frequency bin excluded)",
                          dict(info, got=got_var, want=want_var))
        # reproducibility and scaling
        t2, z2 = ts_mod.surface_timeseries(comp, fs, L, spec, seed=seed)
        if not np.array_equal(z, z2):
            run.violation("identical seeds give different series", info)
        t3, z3 = ts_mod.surface_timeseries(comp, fs, L, spec, seed=seed + 1)
        if want_var > 0 and np.array_equal(z, z3):
            run.violation("different seeds give identical series", info)
        c = rng.choice([4.0, 0.25, 9.0])
        if two_d:
            spec_c, _ = sp.make_2d(rng, layout="scalar", f=f, d=d, E=E * c, depth_mode="deep")
        else:
            spec_c, _ = sp.make_1d(rng, layout="scalar", f=f, e=e1 * c, moments=mom, depth_mode="deep")
        t4, z4 = ts_mod.surface_timeseries(comp, fs, L, spec_c, seed=seed)
        if not np.allclose(z4, math.sqrt(c) * z, rtol=1e-10, atol=1e-12 * (1 + np.max(np.abs(z)))):
            run.violation("scaling the spectrum by c does not scale the series by sqrt(c)", dict(info, c=c))
        if case < 3:
            run.sample(dict(info, nfft=nfft, first_samples=z[:4].tolist(), variance=got_var, spectral_variance=want_var))


def main(prop, tier, seed):
    run = common.Run(prop, tier, seed)
    aud = common.audit(prop, thorough=(tier == "thorough"))
    common.use_repo_source()
    from ocean_science_utilities.wavespectra import timeseries as ts_mod
    thorough = tier == "thorough"
    drv = common.Driver()
    try:
        for case in range(600 if thorough else 60):
            with common.guard(run, f"C16 case {case}"):
                run_case(run, drv, ts_mod, run.rng, case, 20000 if thorough else 2000)
    finally:
        drv.close()
    return run.finish(aud, ASSUMPTIONS, RULE)
