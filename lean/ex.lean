import OsuProps.C09
open Osu.ST Osu.Rot
example : (dissipationVector (uniformGrid (N := 1) 0 [1] [1]) { k := [1], cg := [1], c := [1] } (fieldOf (N := 1) [fun _ => (-1 : ℝ)])).1 ≠ 0 ∨
    (dissipationVector (uniformGrid (N := 1) 0 [1] [1]) { k := [1], cg := [1], c := [1] } (fieldOf (N := 1) [fun _ => (-1 : ℝ)])).2 ≠ 0 := by
  left
  simp [dissipationVector, uniformGrid, fieldOf, lsum, theta, deg2rad, dθ, Osu.Transc.cos]
