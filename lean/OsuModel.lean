import OsuModel.FileCache
import OsuModel.TimeIntegration
