import OsuModel.FileCache
import OsuModel.TimeIntegration
import OsuModel.TimeConv
import OsuModel.Spectral
import OsuModel.Interp
import OsuModel.Dispersion
import OsuModel.TimeSeries
import OsuModel.SpectrumObj
