import OsuModel.FileCache
