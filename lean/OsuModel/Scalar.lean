/-
Scalar interface for kernels that contain transcendental functions.  Executed at `Float`
(driver), proved about at `ℝ` (`OsuProofs/RealTransc.lean`).
-/
namespace Osu

class Transc (α : Type) where
  sqrt : α → α
  exp : α → α
  log : α → α
  cos : α → α
  sin : α → α
  tanh : α → α
  sinh : α → α
  cosh : α → α
  /-- `atan2 y x` -/
  atan2 : α → α → α
  pi : α

end Osu
