import OsuModel.Scalar
/-
Model of the bulk-parameter core of `wavespectra/spectrum.py` (C01–C04) and of the directional
quadrature in `wavespectra/operations.py` / `tools/math.py`.

Generic in the scalar: proved about at ordered fields, executed at `Rat` by the driver.
A data value is `Option α`, `none` = NaN.  A spectrum of a batch is one list; "each member of a
batch gets what it would get alone" is `List.map` (the reshape/loop glue is tied by the
correspondence run on several dims layouts).
-/
namespace Osu.Spec

section basic
variable {α : Type} [Add α] [Sub α] [Mul α] [Div α] [Neg α] [Zero α] [One α] [NatCast α]
  [LE α] [LT α] [DecidableLE α] [DecidableLT α] [DecidableEq α]

def npow (x : α) : Nat → α
  | 0 => 1
  | k + 1 => npow x k * x

def lsum : List α → α
  | [] => 0
  | a :: as => a + lsum as

/-- `fillna(0)` -/
def fill0 : Option α → α
  | some x => x
  | none => 0

/-- `_range`: the half-open band `fmin ≤ f < fmax`; `fmax = none` is `np.inf`. -/
def inBand (fmin : α) (fmax : Option α) (f : α) : Bool :=
  decide (fmin ≤ f) && (match fmax with
    | none => true
    | some m => decide (f < m))

def two : α := ((2 : Nat) : α)

/-- trapezoidal rule over a list of (x, y) nodes (`DataArray.integrate`, `np.trapezoid`);
fewer than two nodes integrate to 0 -/
def trapz : List (α × α) → α
  | (x0, y0) :: (x1, y1) :: r => (x1 - x0) * (y0 + y1) / two + trapz ((x1, y1) :: r)
  | _ => 0

/-- same, NaN-propagating (`np.trapezoid` on data that still contains NaN) -/
def trapzOpt : List (α × Option α) → Option α
  | (x0, y0) :: (x1, y1) :: r =>
      match y0, y1, trapzOpt ((x1, y1) :: r) with
      | some a, some b, some t => some ((x1 - x0) * (a + b) / two + t)
      | _, _, _ => none
  | [(_, y)] => y.map fun _ => 0
  | [] => some 0

/-- the grid nodes inside the band, with their values -/
def selectBand {β : Type} (fmin : α) (fmax : Option α) (fs : List α) (vs : List β) : List (α × β) :=
  (fs.zip vs).filter fun p => inBand fmin fmax p.1

/-- `frequency_moment(power, fmin, fmax)` of a 1D spectrum `e` on the grid `fs` -/
def moment (p : Nat) (fmin : α) (fmax : Option α) (fs : List α) (es : List (Option α)) : α :=
  trapz ((selectBand fmin fmax fs es).map fun q => (q.1, fill0 (q.2.map (· * npow q.1 p))))

/-- division that is undefined (NaN / inf in the code) on a zero divisor -/
def divOpt (a b : α) : Option α := if b = 0 then none else some (a / b)

/-- `tm01 = m0 / m1` -/
def tm01 (fmin : α) (fmax : Option α) (fs : List α) (es : List (Option α)) : Option α :=
  divOpt (moment 0 fmin fmax fs es) (moment 1 fmin fmax fs es)

/-- `tm02² = m0 / m2` (the square root is taken by the caller) -/
def tm02sq (fmin : α) (fmax : Option α) (fs : List α) (es : List (Option α)) : Option α :=
  divOpt (moment 0 fmin fmax fs es) (moment 2 fmin fmax fs es)

/-- `hm0² / 16 = m0` -/
def hm0sq (fmin : α) (fmax : Option α) (fs : List α) (es : List (Option α)) : α :=
  ((16 : Nat) : α) * moment 0 fmin fmax fs es

/-- `_spectral_weighted(property)`: NaN in the property is filled with 0, NaN in `e` is not -/
def weighted (fmin : α) (fmax : Option α) (fs : List α) (prop es : List (Option α)) : Option α :=
  let num := trapzOpt ((selectBand fmin fmax fs (prop.zip es)).map fun q =>
    (q.1, q.2.2.map fun e => fill0 q.2.1 * e))
  match num with
  | some n => divOpt n (moment 0 fmin fmax fs es)
  | none => none

/-! ### Peak (C04) -/

/-- `e.where(band, -inf)` then `argmax` with NaN skipped: first index of the maximum of the
in-band, non-missing values.  Returns `none` when there is no such value (numpy raises on an
all-NaN slice; an empty band gives index 0 in the code, which is outside every band). -/
def peakIndexAux (fmin : α) (fmax : Option α) : List (α × Option α) → Nat → Option (Nat × α) → Option (Nat × α)
  | [], _, best => best
  | (f, e) :: r, i, best =>
      let best' :=
        if inBand fmin fmax f then
          match e, best with
          | some v, none => some (i, v)
          | some v, some (j, b) => if b < v then some (i, v) else some (j, b)
          | none, b => b
        else best
      peakIndexAux fmin fmax r (i + 1) best'

def peakIndex (fmin : α) (fmax : Option α) (fs : List α) (es : List (Option α)) : Option Nat :=
  (peakIndexAux fmin fmax (fs.zip es) 0 none).map (·.1)

end basic

/-! ### Directional quadrature (C02) -/

section directional
variable {α : Type} [Add α] [Sub α] [Mul α] [Div α] [Neg α] [Zero α] [One α] [NatCast α] [IntCast α]
  [LE α] [LT α] [DecidableLE α] [DecidableLT α] [DecidableEq α]

/-- Python's `x % p` for floats, given a floor function: `x - p * floor(x / p)` -/
def pmod (floor : α → Int) (x p : α) : α := x - p * ((floor (x / p) : Int) : α)

/-- `wrapped_difference(delta, period, discont)` for finite `delta` -/
def wrapDiff (floor : α → Int) (period discont delta : α) : α :=
  pmod floor (delta + period - discont) period - period + discont

/-- forward differences with the first element appended (`np.diff(d, append=d[0])`) -/
def cyclicDiff : List α → List α
  | [] => []
  | d0 :: ds => go d0 (d0 :: ds)
where
  go (first : α) : List α → List α
    | [] => []
    | [x] => [first - x]
    | x :: y :: r => (y - x) :: go first (y :: r)

/-- `direction_step`: wrapped forward difference, period 360, discontinuity at 180 -/
def dirStep (floor : α → Int) (ds : List α) : List α :=
  (cyclicDiff ds).map (wrapDiff floor ((360 : Nat) : α) ((180 : Nat) : α))

/-- `(x * step).sum(direction, skipna=True)` -/
def dirInt (steps : List α) (vals : List (Option α)) : α :=
  lsum (List.zipWith (fun s v => match v with | some x => x * s | none => 0) steps vals)

/-- per-frequency e, a1, b1, a2, b2 of one row E(f, ·) given the trig tables of the grid -/
def rowMoments (steps c1 s1 c2 s2 : List α) (row : List (Option α)) :
    α × Option α × Option α × Option α × Option α :=
  let e := dirInt steps row
  let w (t : List α) : List (Option α) := List.zipWith (fun v c => v.map (· * c)) row t
  (e, divOpt (dirInt steps (w c1)) e, divOpt (dirInt steps (w s1)) e,
      divOpt (dirInt steps (w c2)) e, divOpt (dirInt steps (w s2)) e)

/-- `frequency_step`: midpoint-rule widths with mirrored end points -/
def freqStep : List α → List α
  | [] => []
  | [_] => []
  | f0 :: f1 :: r =>
      let fs := f0 :: f1 :: r
      let pre := two * f0 - f1
      let ext := pre :: fs
      -- diff of [pre, f0, f1, …, f_last, app]
      let last2 := fs.reverse.take 2
      let app := match last2 with
        | [a, b] => two * a - b
        | _ => f0
      let full := ext ++ [app]
      let diffs := List.zipWith (fun a b => b - a) full full.tail
      List.zipWith (fun a b => a / two + b / two) diffs diffs.tail

/-- `numba_integrate_spectral_data`: Σ_f Σ_θ x·Δf·Δθ -/
def integrate2d (fsteps dsteps : List α) (rows : List (List α)) : α :=
  lsum (List.zipWith (fun df row => lsum (List.zipWith (fun x dd => x * df * dd) row dsteps)) fsteps rows)

end directional

/-! ### Direction and spread (C03) -/

section direction
variable {α : Type} [Add α] [Sub α] [Mul α] [Div α] [Neg α] [Zero α] [One α] [NatCast α] [Transc α]

/-- degrees per radian, `180 / π` -/
def degPerRad : α := ((180 : Nat) : α) / Transc.pi

/-- `_mean_direction(a1, b1) = arctan2(b1, a1) * 180 / pi` -/
def meanDir (a b : α) : α := Transc.atan2 b a * ((180 : Nat) : α) / Transc.pi

/-- `_spread(a1, b1) = sqrt(2 - 2 sqrt(a1² + b1²)) * 180 / pi` -/
def spread (a b : α) : α :=
  Transc.sqrt (((2 : Nat) : α) - ((2 : Nat) : α) * Transc.sqrt (a * a + b * b)) * ((180 : Nat) : α) / Transc.pi

end direction

end Osu.Spec
