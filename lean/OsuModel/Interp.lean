import OsuModel.Spectral
/-
Model of the interpolation index / weight / combination logic (C13, C14):
`tools/grid.py::enclosing_points_1d`, `interpolate/general.py::interpolation_weights_1d` and
`interpolate_periodic`, `interpolate/nd_interp.py::NdInterpolator._data_interpolator` for the
one-coordinate case used by `interpolate_dataset_along_axis` (several coordinates are
interpolated one after the other by `interpolate_dataset_grid`).

Generic in the scalar (ordered field, executed at `Rat`).  `none` = NaN.
-/
namespace Osu.Interp
open Osu.Spec

section
variable {α : Type} [Add α] [Sub α] [Mul α] [Div α] [Neg α] [Zero α] [One α] [NatCast α] [IntCast α]
  [LE α] [LT α] [DecidableLE α] [DecidableLT α] [DecidableEq α]

/-- `np.searchsorted(xp, x, side="right")` on an ascending grid: the number of nodes `≤ x` -/
def countLE (xp : List α) (x : α) : Nat := (xp.filter (fun p => decide (p ≤ x))).length

def getD0 (l : List α) (i : Nat) : α := l.getD i 0

/-- the coordinate frame in which the grid ascends: `x ↦ xp[0] - x` for a descending grid -/
def flip (xp : List α) : (List α) × (α → α) :=
  match xp.head?, xp.getLast? with
  | some a, some b => if b < a then (xp.map (a - ·), fun x => a - x) else (xp, id)
  | _, _ => (xp, id)

/-- `enclosing_points_1d` (non-periodic): `[ixp - 1, ixp]` clipped to `[0, n - 1]` -/
def enclosing (xp0 : List α) (x0 : α) : Nat × Nat :=
  let (xp, tr) := flip xp0
  let x := tr x0
  let c := countLE xp x
  let n := xp.length
  (min (c - 1) (n - 1), min c (n - 1))

/-- `enclosing_points_1d` with a period: the target is first reduced to `[xp[0], xp[0] + P)`,
the indices are taken modulo the number of nodes -/
def enclosingPeriodic (floor : α → Int) (xp0 : List α) (P : α) (x0 : α) : Nat × Nat :=
  let (xp, tr) := flip xp0
  let x := tr x0
  let a := getD0 xp 0
  let xr := pmod floor (x - a) P + a
  let c := countLE xp xr
  let n := xp.length
  ((c + n - 1) % n, c % n)

/-- `np.rint`: round half to even, via floor -/
def rint (floor : α → Int) (x : α) : α :=
  let f := floor x
  let r := x - ((f : Int) : α)
  let half : α := (1 : α) / ((2 : Nat) : α)
  if r < half then ((f : Int) : α)
  else if half < r then ((f + 1 : Int) : α)
  else if f % 2 = 0 then ((f : Int) : α) else ((f + 1 : Int) : α)

/-- `interpolation_weights_1d` without extrapolation (non-periodic): the fraction, `none` outside
the grid, `0` at the right end point -/
def fracOf (xp0 : List α) (x0 : α) : Option α :=
  let (xp, tr) := flip xp0
  let x := tr x0
  let first := getD0 xp 0
  let last := getD0 xp (xp.length - 1)
  let (i0, i1) := enclosing xp0 x0
  if x = last then some 0
  else if first ≤ x ∧ x < last then some ((x - getD0 xp i0) / (getD0 xp i1 - getD0 xp i0))
  else none

/-- … on a periodic coordinate (never outside): wrapped differences with the default
discontinuity at half a period -/
def fracPeriodic (floor : α → Int) (xp0 : List α) (P : α) (x0 : α) : α :=
  let (xp, tr) := flip xp0
  let x := tr x0
  let (i0, i1) := enclosingPeriodic floor xp0 P x0
  let half := P / ((2 : Nat) : α)
  wrapDiff floor P half (x - getD0 xp i0) / wrapDiff floor P half (getD0 xp i1 - getD0 xp i0)

/-- the two weights `(1 - frac, frac)`; nearest-neighbour rounds the fraction (half to even) -/
def weights (floor : α → Int) (nearest : Bool) (frac : Option α) : Option α × Option α :=
  match frac with
  | none => (none, none)
  | some t => let t' := if nearest then rint floor t else t
              (some (1 - t'), some t')

/-- one corner of `_data_interpolator`: it takes part iff no element of the passive slab at that
node is NaN and its weight is `> 0` (a NaN weight fails the test) -/
def cornerOK (w : Option α) (slab : List (Option α)) : Bool :=
  (match w with | some v => decide (0 < v) | none => false) && slab.all Option.isSome

/-- `_data_interpolator` for one target: `slab i` is the data at node `i` for every passive
element.  Result per passive element: `Σ w·v / Σ w` if `Σ w > 1/2`, else NaN. -/
def combine (i0 i1 : Nat) (w : Option α × Option α) (slab : Nat → List (Option α)) (npassive : Nat) :
    List (Option α) :=
  let ok0 := cornerOK w.1 (slab i0)
  let ok1 := cornerOK w.2 (slab i1)
  let w0 : α := if ok0 then fill0 w.1 else 0
  let w1 : α := if ok1 then fill0 w.2 else 0
  let wsum := w0 + w1
  let half : α := (1 : α) / ((2 : Nat) : α)
  (List.range npassive).map fun j =>
    if half < wsum then
      some ((w0 * fill0 ((slab i0).getD j none) + w1 * fill0 ((slab i1).getD j none)) / wsum)
    else none

/-- `interpolate_dataset_along_axis` for one variable and one target on a non-periodic coordinate -/
def interpAt (floor : α → Int) (nearest : Bool) (xp : List α) (slab : Nat → List (Option α))
    (npassive : Nat) (x : α) : List (Option α) :=
  let (i0, i1) := enclosing xp x
  combine i0 i1 (weights floor nearest (fracOf xp x)) slab npassive

/-- … on a periodic coordinate -/
def interpAtPeriodic (floor : α → Int) (nearest : Bool) (xp : List α) (P : α)
    (slab : Nat → List (Option α)) (npassive : Nat) (x : α) : List (Option α) :=
  let (i0, i1) := enclosingPeriodic floor xp P x
  combine i0 i1 (weights floor nearest (some (fracPeriodic floor xp P x))) slab npassive

/-- `interpolate_periodic` (data frames, `Track.interpolate`) for one target on a non-periodic
abscissa: shortest-arc linear interpolation of periodic data, wrapped to `(disc - P, disc]`;
`fpP = none` is ordinary data.  `left` / `right` replace targets outside the grid. -/
def interpPeriodicData (floor : α → Int) (xp : List α) (fp : List (Option α)) (fpP : Option (α × α))
    (left right : Option α) (x : α) : Option α :=
  let n := xp.length
  let c := countLE xp x
  let i0 := min (c - 1) (n - 1)
  let i1 := min c (n - 1)
  let dx := x - getD0 xp i0
  let dxp := getD0 xp i1 - getD0 xp i0
  let f0 := fp.getD i0 none
  let f1 := fp.getD i1 none
  let raw : Option α :=
    match f0, f1 with
    | some a, some b =>
        let dfp := match fpP with
          | some (P, _) => wrapDiff floor P (P / ((2 : Nat) : α)) (b - a)
          | none => b - a
        if 0 < dxp then some (a + dfp * dx / dxp) else some a
    | some a, none => if 0 < dxp then none else some a
    | none, _ => none
  let v := if x < getD0 xp 0 then left else if getD0 xp (n - 1) < x then right else raw
  match v, fpP with
  | some y, some (P, d) => some (wrapDiff floor P d y)
  | y, _ => y

end

end Osu.Interp
