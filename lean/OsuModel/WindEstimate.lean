import OsuModel.Spectral
/-
Model of `wavephysics/windestimate.py` (equilibrium-range wind estimate, C12) and of the Charnock
closed form in `wavephysics/roughness.py`.  Generic scalar with `Transc`; executed at `Float`.
-/
namespace Osu.Wind
open Osu.Spec

section
variable {α : Type} [Add α] [Sub α] [Mul α] [Div α] [Neg α] [Zero α] [One α] [NatCast α] [IntCast α]
  [LE α] [LT α] [DecidableLE α] [DecidableLT α] [DecidableEq α]

/-- `(E * f**power).fillna(0)` -/
def scaledFilled (p : Nat) (fs : List α) (es : List (Option α)) : List α :=
  List.zipWith (fun f e => fill0 (e.map (· * npow f p))) fs es

/-- first index of the maximum (`argmax`), with the maximum -/
def argmaxAux : List α → Nat → Option (Nat × α) → Option (Nat × α)
  | [], _, best => best
  | v :: r, i, best =>
      let best' := match best with
        | none => some (i, v)
        | some (j, b) => if b < v then some (i, v) else some (j, b)
      argmaxAux r (i + 1) best'

def argmax (l : List α) : Option (Nat × α) := argmaxAux l 0 none

/-- peak method of `equilibrium_range_values`: (level, a1, b1) at the maximum of `E f^p` -/
def eqPeak (p : Nat) (fs : List α) (es a1 b1 : List (Option α)) : Option (α × Option α × Option α) :=
  (argmax (scaledFilled p fs es)).map fun (i, v) => (v, a1.getD i none, b1.getD i none)

def lmean (l : List α) : α := lsum l / ((l.length : Nat) : α)

/-- index of the grid frequency nearest to `x` (first of ties): `argmin |f - x|` -/
def nearestIdx (absv : α → α) (fs : List α) (x : α) : Nat :=
  match argmaxAux (fs.map fun f => -(absv (f - x))) 0 none with
  | some (i, _) => i
  | none => 0

/-- first index of the minimum -/
def argminIdx (l : List α) : Nat :=
  match argmaxAux (l.map fun v => -v) 0 none with
  | some (i, _) => i
  | none => 0

/-- mean method of `equilibrium_range_values` for data without missing values: the window of
`nb` bins with the smallest variance / mean² of `E f^p`, then the `nb`-bin average starting there
(start index clipped to `nf - 1 - nb`) -/
def eqMean (absv : α → α) (p nb : Nat) (fmax : α) (fs es a1 b1 : List α) : α × α × α :=
  let nf := fs.length
  let scaled := List.zipWith (fun f e => e * npow f p) fs es
  let iMin := nearestIdx absv fs 0
  let iMax0 := nearestIdx absv fs fmax
  let iMax1 := iMax0 + 1 - nb
  let iMax2 := max (iMin + 1) iMax1
  let iMax := min iMax2 (nf - nb)
  let variances := (List.range (iMax - iMin)).map fun c =>
    let i := iMin + c
    let win := (scaled.drop i).take (min (i + nb) nf - i)
    let m := lmean win
    lmean (win.map fun v => (v - m) * (v - m)) / (m * m)
  let iStar := argminIdx variances + iMin
  let pick (l : List α) : α :=
    lsum ((List.range nb).map fun ii => l.getD (min (iStar + ii) (nf - 1 - nb)) 0) * ((1 : α) / ((nb : Nat) : α))
  (pick scaled, pick a1, pick b1)

end

section transc
variable {α : Type} [Add α] [Sub α] [Mul α] [Div α] [Neg α] [Zero α] [One α] [NatCast α] [IntCast α] [Transc α]

/-- `u* = 8 π³ E_eq / g / I / beta / 4` -/
def ustar (eq g I beta : α) : α :=
  ((8 : Nat) : α) * (Transc.pi * Transc.pi * Transc.pi) * eq / g / I / beta / ((4 : Nat) : α)

/-- Charnock roughness for a friction velocity, without the viscous term -/
def charnockZ0 (charnock g us : α) : α := charnock * (us * us) / g

/-- logarithmic profile: `u10 = u* / kappa * ln(10 / z0)` -/
def u10Of (kappa us z0 : α) : α := us / kappa * Transc.log (((10 : Nat) : α) / z0)

/-- direction of the tail, going-to, counter-clockwise from east, in [0, 360) -/
def tailDirection (floor : α → Int) (a1 b1 : α) : α :=
  pmod floor (((180 : Nat) : α) / Transc.pi * Transc.atan2 b1 a1) ((360 : Nat) : α)

/-- coming-from, clockwise from north: `(270 - direction) % 360` -/
def toMeteorological (floor : α → Int) (dir : α) : α :=
  pmod floor (((270 : Nat) : α) - dir) ((360 : Nat) : α)

end transc

end Osu.Wind
