import OsuModel.Scalar
/-
Model of `wavespectra/timeseries.py` (C16): Fourier amplitudes from a (resampled) spectrum and
the real inverse DFT that `numpy.fft.irfft(a, n)` computes.  Complex numbers are pairs.
-/
namespace Osu.TS

variable {α : Type} [Add α] [Sub α] [Mul α] [Div α] [Neg α] [Zero α] [One α] [NatCast α] [Transc α]

def two : α := ((2 : Nat) : α)

def cmul (a b : α × α) : α × α := (a.1 * b.1 - a.2 * b.2, a.1 * b.2 + a.2 * b.1)
def cadd (a b : α × α) : α × α := (a.1 + b.1, a.2 + b.2)

inductive Component where | u | v | w | x | y | z
  deriving DecidableEq, Repr

/-- the transfer factor of a component at radian frequency `om` and direction `th` (radians) -/
def factor (c : Component) (om th : α) : α × α :=
  match c with
  | .w => (0, om)                                  -- 1j * omega
  | .u => (om * Transc.cos th, 0)
  | .v => (om * Transc.sin th, 0)
  | .x => (0, -(Transc.cos th))                    -- -1j * cos
  | .y => (0, -(Transc.sin th))
  | .z => (1, 0)

/-- `sqrt(area * E / 2) * exp(1j * phase) * factor` -/
def amplitude (area e phase : α) (f : α × α) : α × α :=
  let r := Transc.sqrt (area * e / two)
  cmul (r * Transc.cos phase, r * Transc.sin phase) f

def lsum : List α → α
  | [] => 0
  | a :: as => a + lsum as

/-- sample `t` of `numpy.fft.irfft(a, n)` for even `n`: only `a[0 .. n/2 - 1]` contribute when `a`
has `n/2` entries (the Nyquist entry is zero-padded), the imaginary part of `a[0]` is ignored -/
def irfftAt (a : List (α × α)) (n t : Nat) : α :=
  let a0 := (a.getD 0 (0, 0)).1
  let terms := (List.range (n / 2 - 1)).map fun j =>
    let k := j + 1
    let ak := a.getD k (0, 0)
    let ang := two * Transc.pi * ((k * t : Nat) : α) / ((n : Nat) : α)
    ak.1 * Transc.cos ang - ak.2 * Transc.sin ang
  (a0 + two * lsum terms) / ((n : Nat) : α)

/-- `nfft * irfft(a, n = nfft)` -/
def series (a : List (α × α)) (n : Nat) : List α :=
  (List.range n).map fun t => ((n : Nat) : α) * irfftAt a n t

/-- the time axis: `nfft` samples spaced `1 / fs` -/
def timeAxis (fs : α) (n : Nat) : List α := (List.range n).map fun (t : Nat) => ((t : Nat) : α) / fs

/-- `nfft = (signal_length // 2) * 2` -/
def nfftOf (signalLength : Nat) : Nat := signalLength / 2 * 2

end Osu.TS
