import OsuModel.Scalar
/-
Models of the two root finders (C10, C11):

* `wavephysics/balance/solvers.py: numba_newton_raphson` — Newton / secant / bisection hybrid with
  root bracketing, Aitken acceleration every third step, clipping and under-relaxation;
* `tools/solvers.py: fixed_point_iteration` — vector fixed-point iteration with Aitken steps,
  bound halving, per-element convergence flags and a joint stopping rule.

Transcribed branch by branch.  An exception (`ZeroDivisionError`, `ValueError`) is `none`.
Generic scalar; `Option α` stands for a possibly infinite bound (`none` = ±inf).
-/
namespace Osu.Solv

variable {α : Type} [Add α] [Sub α] [Mul α] [Div α] [Neg α] [Zero α] [One α] [NatCast α]
  [LT α] [DecidableLT α] [LE α] [DecidableLE α] [BEq α]

def two : α := ((2 : Nat) : α)
def half : α := (1 : α) / two
def absv (a : α) : α := if a < 0 then -a else a
def maxv (a b : α) : α := if a < b then b else a

/-- Python float division under numba's `error_model="python"`: division by zero raises -/
def pdiv (a b : α) : Option α := if b == 0 then none else some (a / b)

structure NRConfig (α : Type) where
  hardLo : Option α
  hardHi : Option α
  maxIter : Nat
  aitken : Bool
  atol : α
  rtol : α
  numStep : α
  errorOnMaxIter : Bool
  relativeStep : Bool
  underRelax : α

structure NRState (α : Type) where
  it0 : α
  it1 : α
  it2 : α
  fe1 : α
  fe2 : α
  lo : α
  hi : α
  flo : α
  fhi : α
  bounded : Bool

/-- the four-way update of the bracket with the newest iterate and its function value -/
def updateBracket (s : NRState α) (x fx : α) : NRState α :=
  if x < s.lo then { s with lo := x, flo := fx }
  else if s.hi < x then { s with hi := x, fhi := fx }
  else if s.flo * fx < 0 then { s with hi := x, fhi := fx }
  else if s.fhi * fx < 0 then { s with lo := x, flo := fx }
  else s

/-- clip to the bracket (if the root is bracketed) or to the hard bounds: a value beyond a bound is
replaced by the midpoint between that bound and the current iterate -/
def clip (cfg : NRConfig α) (s : NRState α) (x : α) : α :=
  let lo : Option α := if s.bounded then some s.lo else cfg.hardLo
  let hi : Option α := if s.bounded then some s.hi else cfg.hardHi
  let x1 := match lo with
    | some l => if x < l then (l - s.it2) * half + s.it2 else x
    | none => x
  match hi with
  | some h => if h < x1 then (h - s.it2) * half + s.it2 else x1
  | none => x1

/-- result of one pass through the loop body -/
inductive NRStep (α : Type) where
  | raised
  | converged (x : α)
  | continue (s : NRState α)

/-- one iteration (`current_iteration = n`) -/
def nrStep (f : α → α) (cfg : NRConfig α) (n : Nat) (s : NRState α) : NRStep α :=
  let fx := f s.it2
  let s1 : NRState α := { s with fe1 := s.fe2, fe2 := fx }
  let next : Option (NRState α × α) :=
    if cfg.aitken && n % 3 == 0 then
      let num := s1.it2 - s1.it1
      let den := s1.it1 - s1.it0
      match pdiv num den with
      | none => none
      | some ratio =>
        match pdiv ratio (1 - ratio) with
        | none => none
        | some q => some (s1, s1.it2 + q * num)
    else
      let s2 := updateBracket s1 s1.it2 fx
      let s3 : NRState α := { s2 with bounded := decide (s2.flo * s2.fhi < 0) }
      let deriv : Option α :=
        if s3.bounded && decide (1 < n) then pdiv (s3.fe2 - s3.fe1) (s3.it2 - s3.it1)
        else
          let h := if cfg.relativeStep then s3.it2 * cfg.numStep else cfg.numStep
          pdiv (f (s3.it2 + h) - s3.fe2) h
      match deriv with
      | none => none
      | some d =>
        let update : Option α :=
          if d == 0 then (if s3.bounded then some ((s3.hi - s3.lo) / two) else none)
          else some (-s3.fe2 / d)
        match update with
        | none => none
        | some u => some (s3, s3.it2 + u * cfg.underRelax)
  match next with
  | none => .raised
  | some (s4, x) =>
    let x' := clip cfg s4 x
    let s5 : NRState α := { s4 with it0 := s4.it1, it1 := s4.it2, it2 := x' }
    let scale := maxv (absv s5.it1) cfg.atol
    let ad := absv (s5.it2 - s5.it1)
    -- the step test is only applied after a regular step, not after an Aitken extrapolation
    if (cfg.aitken && n % 3 == 0) = false ∧ ad < cfg.atol ∧ ad / scale < cfg.rtol then .converged s5.it2 else .continue s5

def nrLoop (f : α → α) (cfg : NRConfig α) : Nat → Nat → NRState α → Option α
  | 0, _, s => if cfg.errorOnMaxIter then none else some s.it2
  | fuel + 1, n, s =>
    match nrStep f cfg n s with
    | .raised => none
    | .converged x => some x
    | .continue s' => nrLoop f cfg fuel (n + 1) s'

def nrInit (f : α → α) (guess : α) : NRState α :=
  let lo := guess - half * absv guess
  let hi := guess + half * absv guess
  let flo := f lo
  let fhi := f hi
  { it0 := guess, it1 := guess, it2 := guess, fe1 := 0, fe2 := 0,
    lo := lo, hi := hi, flo := flo, fhi := fhi, bounded := decide (flo * fhi < 0) }

/-- `numba_newton_raphson(function, guess, args, hard_bounds, ...)`: `range(1, max_iterations)`
passes through the loop -/
def newtonRaphson (f : α → α) (cfg : NRConfig α) (guess : α) : Option α :=
  nrLoop f cfg (cfg.maxIter - 1) 1 (nrInit f guess)

/-! ### `fixed_point_iteration` (vector version) -/

structure FPConfig (α : Type) where
  lo : Option α          -- finite lower bound, if any
  hi : Option α
  maxIter : Nat
  aitken : Bool
  atol : α
  rtol : α

/-- one element: its own parameter `p` (the wind speed of that element), and the last three
iterates; `none` is NaN (a missing wind speed); NaN propagates through every update -/
structure FPElem (β α : Type) where
  p : β
  x0 : Option α
  x1 : Option α
  x2 : Option α

def fpNext {β : Type} (F : β → α → α) (cfg : FPConfig α) (aitkenStep : Bool) (e : FPElem β α) : Option α :=
  match e.x0, e.x1, e.x2 with
  | some a, some b, some c =>
    let raw : α :=
      if aitkenStep then
        -- ratio = (c-b)/(b-a); non-finite or == 1 -> 0
        let den := b - a
        let ratio : α := if den == 0 then 0 else (c - b) / den
        let ratio := if ratio == 1 then 0 else ratio
        c + ratio / (1 - ratio) * (c - b)
      else F e.p c
    let r1 := match cfg.lo with
      | some l => if raw ≤ l then (l - c) * half + c else raw
      | none => raw
    let r2 := match cfg.hi with
      | some h => if h < r1 then (h - c) * half + c else r1
      | none => r1
    some r2
  | _, _, _ => none

def fpConverged (cfg : FPConfig α) (prev next : Option α) : Bool :=
  match prev, next with
  | some p, some n =>
    let ad := absv (n - p)
    decide (ad < cfg.atol) && decide (ad / maxv (absv p) cfg.atol < cfg.rtol)
  | _, _ => false

def fpMask {β : Type} (cfg : FPConfig α) (es : List (FPElem β α)) : List (Option α) :=
  es.map fun e => if fpConverged cfg e.x1 e.x2 then e.x2 else none

/-- the loop: `n` is `current_iteration`; stops when every finite-guess element converged on a
non-Aitken step; on exhaustion non-converged elements become NaN -/
def fpLoop {β : Type} (F : β → α → α) (cfg : FPConfig α) (active : Nat) :
    Nat → Nat → List (FPElem β α) → List (Option α)
  | 0, _, es => es.map fun _ => none
  | fuel + 1, n, es =>
    let aitkenStep := cfg.aitken && n % 3 == 0
    let es' := es.map fun e =>
      ({ p := e.p, x0 := e.x1, x1 := e.x2, x2 := fpNext F cfg aitkenStep e } : FPElem β α)
    let nconv := (es'.filter fun e => fpConverged cfg e.x1 e.x2).length
    if nconv == active && !aitkenStep then es'.map (·.x2)
    else if fuel == 0 then fpMask cfg es'
    else fpLoop F cfg active fuel (n + 1) es'

def fixedPoint {β : Type} (F : β → α → α) (cfg : FPConfig α) (guess : List (β × Option α)) : List (Option α) :=
  let active := (guess.filter fun g => g.2.isSome).length
  fpLoop F cfg active cfg.maxIter 1 (guess.map fun g => { p := g.1, x0 := g.2, x1 := g.2, x2 := g.2 })

end Osu.Solv
