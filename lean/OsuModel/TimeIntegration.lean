/-
Model of `ocean_science_utilities.tools.time_integration` (C20): the coefficient-array
algorithms for the integration stencil, and `integrate` as a fold.  Generic in the scalar:
executed at `Rat` (exact) by the driver, proved about at ordered fields.
-/
namespace Osu.TI

section generic
variable {α : Type} [Add α] [Sub α] [Mul α] [Div α] [Neg α] [Zero α] [One α] [NatCast α]

def npow (x : α) : Nat → α
  | 0 => 1
  | k + 1 => npow x k * x

def lsum : List α → α
  | [] => 0
  | a :: as => a + lsum as

/-- `poly[1:jj+1] += -ii * poly[0:jj]`: multiply the polynomial by `(x - ii)` (coefficients highest
power first, the array is long enough that the leading block never overflows). -/
def mulLinear (ii : Nat) (poly : List α) : List α :=
  List.zipWith (fun new old => new + (-(ii : α)) * old) poly (0 :: poly)

/-- The loop of `lagrange_base_polynomial_coef`: returns (poly, denominator). `denominator` is a
product of the integers `idx - ii`. -/
def lagrangeLoop (idx : Nat) : List Nat → List α × α → List α × α
  | [], acc => acc
  | ii :: rest, (poly, den) =>
      if ii = idx then lagrangeLoop idx rest (poly, den)
      else lagrangeLoop idx rest (mulLinear ii poly, den * ((idx : α) - (ii : α)))

/-- `lagrange_base_polynomial_coef(order, idx)`: `order + 1` coefficients, highest power first. -/
def lagrangeCoef (order idx : Nat) : List α :=
  let init : List α := 1 :: List.replicate order 0
  let (poly, den) := lagrangeLoop idx (List.range (order + 1)) (init, 1)
  poly.map (· / den)

/-- `integrated_lagrange_base_polynomial_coef(order, idx)`: coefficient `ii` (power `order-1-ii`
of the base polynomial of degree `order-1`) is divided by `order - ii`; a zero constant term is
appended. -/
def integratedCoef (order idx : Nat) : List α :=
  let base : List α := lagrangeCoef (order - 1) idx
  (List.zipWith (fun c ii => if ii < order - 1 then c / ((order - ii : Nat) : α) else c) base
      (List.range order)) ++ [0]

/-- `evaluate_polynomial(poly, x)` with `x` an integer given as `xm - xs` (it can be -1). -/
def evalPoly (poly : List α) (x : α) : α :=
  let order := poly.length - 1
  lsum (List.zipWith (fun c ii => c * npow x (order - ii)) poly (List.range poly.length))

/-- `integration_stencil(order, n)`. -/
def stencil (order n : Nat) : List α :=
  let m : α := ((order - n : Nat) : α)
  (List.range order).map fun ii =>
    let base : List α := integratedCoef order ii
    evalPoly base m - evalPoly base (m - 1)

end generic

/-! ### `integrate` -/

section integrate
variable {α : Type} [Add α] [Sub α] [Mul α] [Div α] [Neg α] [Zero α] [One α] [NatCast α]
  [LT α] [DecidableLT α]

def absv (a : α) : α := if a < 0 then -a else a

structure Loop (α : Type) where
  restart : Bool
  count : Nat
  prevDt : α
  last : α

inductive Kind where | trapezoid | primary
  deriving DecidableEq, Repr

/-- The decision part of one loop iteration (depends on the time axis only). -/
def plan (tol : α) (width n nt : Nat) (t : Nat → α) (ii : Nat) (st : Loop α) : Kind × Bool × Nat :=
  let curr := t ii - t (ii - 1)
  let inside := ii + n - 1 < nt
  let future := if inside then t (ii + n - 1) - t (ii + n - 2) else curr
  let restart1 := if inside then st.restart else true
  let jit := tol * curr < absv (future - st.prevDt) || tol * curr < absv (curr - st.prevDt)
  let restart2 := if jit then true else restart1
  let count2 := if jit then 0 else st.count
  if restart2 then
    let count3 := count2 + 1
    (.trapezoid, !(count3 == width), count3)
  else
    (.primary, false, count2)

/-- Σ_j stencil[j] * signal[ii + j - (width - nimp)]. -/
def applyStencil (W : List α) (nimp : Nat) (x : Nat → α) (ii : Nat) : α :=
  lsum (List.zipWith (fun w j => w * x (ii + j - (W.length - nimp))) W (List.range W.length))

def half : α := (1 : α) / ((2 : Nat) : α)

def stepOnce (tol : α) (W : List α) (n nt : Nat) (t x : Nat → α) (ii : Nat) (st : Loop α) :
    Loop α × Kind :=
  let curr := t ii - t (ii - 1)
  let (kind, restart', count') := plan tol W.length n nt t ii st
  let delta := match kind with
    | .trapezoid => applyStencil [half, half] 1 x ii
    | .primary => applyStencil W n x ii
  ({ restart := restart', count := count', prevDt := curr, last := st.last + delta * curr }, kind)

/-- iterations `ii, ii+1, …` (`k` of them); returns the outputs and the kinds of the steps. -/
def loop (tol : α) (W : List α) (n nt : Nat) (t x : Nat → α) : Nat → Nat → Loop α → List (α × Kind)
  | 0, _, _ => []
  | k + 1, ii, st =>
      let (st', kind) := stepOnce tol W n nt t x ii st
      (st'.last, kind) :: loop tol W n nt t x k (ii + 1) st'

/-- `integrate(time, signal, order, n, start_value)` with `W = integration_stencil(order, n)`
and `tol = 0.01`.  Requires `nt ≥ 2` in the code (it reads `time[1]`). -/
def integrateK (tol : α) (W : List α) (n nt : Nat) (t x : Nat → α) (start : α) : List (α × Kind) :=
  loop tol W n nt t x (nt - 1) 1 { restart := true, count := 0, prevDt := t 1 - t 0, last := start }

def integrate (tol : α) (W : List α) (n nt : Nat) (t x : Nat → α) (start : α) : List α :=
  start :: (integrateK tol W n nt t x start).map (·.1)

end integrate

end Osu.TI
