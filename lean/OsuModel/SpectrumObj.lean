/-
Model for C15: (1) the C-order index arithmetic behind `flatten` (`np.unravel_index`, `reshape`),
(2) an object store in which every public operation of a spectrum creates a *fresh* dataset with
fresh arrays, except the documented in-place ones (`fillna`, `multiply(inplace=True)`), which
rebind the variables of their own dataset.
-/
namespace Osu.Obj

/-! ### C-order ravel / unravel -/

def prod : List Nat → Nat
  | [] => 1
  | n :: ns => n * prod ns

/-- linear index of a multi-index (`np.ravel_multi_index`, what `reshape` to 1-D does) -/
def ravel : List Nat → List Nat → Nat
  | _ :: ns, i :: is => i * prod ns + ravel ns is
  | _, _ => 0

/-- `np.unravel_index(k, shape)` -/
def unravel : List Nat → Nat → List Nat
  | [], _ => []
  | _ :: ns, k => k / prod ns :: unravel ns (k % prod ns)

def validIndex : List Nat → List Nat → Bool
  | [], [] => true
  | n :: ns, i :: is => decide (i < n) && validIndex ns is
  | _, _ => false

/-- `flatten`: the value list of a batch in C order, paired with its coordinates -/
def flattenWith {β : Type} (shape : List Nat) (get : List Nat → β) : List β :=
  (List.range (prod shape)).map fun k => get (unravel shape k)

/-! ### Object store -/


structure Store where
  /-- live spectrum objects: each wraps one dataset -/
  wrappers : List Nat
  /-- dataset → its variables, bound to (immutable) arrays -/
  datasets : Nat → List (String × Nat)
  nextDs : Nat
  nextArr : Nat

def freshVars (vars : List String) (start : Nat) : List (String × Nat) :=
  (List.zip vars (List.range vars.length)).map fun p => (p.1, start + p.2)

inductive Op where
  /-- any operation that returns a new object computed from existing ones (arithmetic, scaling,
  band-pass, sel/isel, indexing, reductions, flatten, conversion 1D<->2D, interpolation, deep copy,
  concatenation, loading from a file) -/
  | derive (sources : List Nat) (vars : List String)
  /-- `copy(deep=False)`: a new dataset whose variables point at the same arrays -/
  | shallowCopy (source : Nat)
  /-- `fillna`, `multiply(inplace=True)`: rebinds the variables of the object's own dataset -/
  | inplace (target : Nat) (vars : List String)

def step (s : Store) : Op → Store
  | .derive _ vars =>
      { wrappers := s.wrappers ++ [s.nextDs],
        datasets := fun d => if d = s.nextDs then freshVars vars s.nextArr else s.datasets d,
        nextDs := s.nextDs + 1, nextArr := s.nextArr + vars.length }
  | .shallowCopy src =>
      match s.wrappers[src]? with
      | some d0 =>
        { s with wrappers := s.wrappers ++ [s.nextDs],
                 datasets := fun d => if d = s.nextDs then s.datasets d0 else s.datasets d,
                 nextDs := s.nextDs + 1 }
      | none => s
  | .inplace tgt vars =>
      match s.wrappers[tgt]? with
      | some d0 =>
        { s with datasets := fun d => if d = d0 then freshVars vars s.nextArr else s.datasets d,
                 nextArr := s.nextArr + vars.length }
      | none => s

def run (s : Store) (ops : List Op) : Store := ops.foldl step s

def empty : Store := { wrappers := [], datasets := fun _ => [], nextDs := 0, nextArr := 0 }

end Osu.Obj
