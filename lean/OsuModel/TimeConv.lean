/-
Model of `ocean_science_utilities.tools.time` (C17).  Integers only.  An instant is a number of
microseconds since 1970-01-01T00:00:00Z.  String <-> field conversion (`fromisoformat`,
`strftime`) is Python's and is not modelled: a string is represented by the fields it spells.
-/
namespace Osu.TC

def isLeap (y : Int) : Bool := (y % 4 == 0 && y % 100 != 0) || y % 400 == 0

def daysInMonth (y : Int) (m : Nat) : Nat :=
  if m == 2 then (if isLeap y then 29 else 28)
  else if m == 4 || m == 6 || m == 9 || m == 11 then 30 else 31

/-- day of the 400-year era (era starts on 1 March of a year divisible by 400) from the
March-based year of era, month and day -/
def doeOfCivil (yoe m d : Nat) : Nat :=
  let mp := if m > 2 then m - 3 else m + 9
  let doy := (153 * mp + 2) / 5 + d - 1
  yoe * 365 + yoe / 4 - yoe / 100 + doy

/-- days since 1970-01-01 of the proleptic Gregorian date y-m-d (Hinnant's `days_from_civil`) -/
def daysFromCivil (y : Int) (m d : Nat) : Int :=
  let y' := if m ≤ 2 then y - 1 else y
  let era := y' / 400                       -- Int `/` rounds towards -∞ for a positive divisor
  let yoe := (y' - era * 400).toNat
  era * 146097 + (doeOfCivil yoe m d : Nat) - 719468

/-- the part of `civil_from_days` that depends on the day-of-era only: (year-of-era with March
as first month, month, day) -/
def civilOfDoe (doe : Nat) : Nat × Nat × Nat :=
  let yoe := (doe - doe / 1460 + doe / 36524 - doe / 146096) / 365
  let doy := doe - (365 * yoe + yoe / 4 - yoe / 100)
  let mp := (5 * doy + 2) / 153
  let d := doy - (153 * mp + 2) / 5 + 1
  let m := if mp < 10 then mp + 3 else mp - 9
  (yoe, m, d)

/-- Hinnant's `civil_from_days` -/
def civilFromDays (z : Int) : Int × Nat × Nat :=
  let z' := z + 719468
  let era := z' / 146097
  let doe := (z' - era * 146097).toNat
  let r := civilOfDoe doe
  let y : Int := (r.1 : Int) + era * 400
  (if r.2.1 ≤ 2 then y + 1 else y, r.2.1, r.2.2)

structure Fields where
  year : Int
  month : Nat
  day : Nat
  hour : Nat
  minute : Nat
  second : Nat
  micro : Nat
  deriving DecidableEq, Repr

def Fields.valid (f : Fields) : Bool :=
  1 ≤ f.month && f.month ≤ 12 && 1 ≤ f.day && f.day ≤ daysInMonth f.year f.month &&
  f.hour < 24 && f.minute < 60 && f.second < 60 && f.micro < 1000000

/-- instant (µs since the epoch) of calendar fields read at UTC offset `offMin` minutes -/
def instantOf (f : Fields) (offMin : Int) : Int :=
  ((daysFromCivil f.year f.month f.day * 86400 + (f.hour * 3600 + f.minute * 60 + f.second : Nat))
    - offMin * 60) * 1000000 + (f.micro : Nat)

/-- the UTC calendar fields of an instant -/
def fieldsOf (us : Int) : Fields :=
  let secs := us / 1000000
  let micro := (us - secs * 1000000).toNat
  let days := secs / 86400
  let sod := (secs - days * 86400).toNat
  let c := civilFromDays days
  ⟨c.1, c.2.1, c.2.2, sod / 3600, (sod % 3600) / 60, sod % 60, micro⟩

/-- the representations `to_datetime_utc` accepts -/
inductive Repr where
  | aware (f : Fields) (offMin : Int)      -- datetime with tzinfo / ISO string with Z or ±hh:mm
  | naive (f : Fields)                     -- datetime without tzinfo / ISO string without zone
  | epochInt (s : Int)                     -- int seconds
  | epochMicro (us : Int)                  -- float seconds, given as exact microseconds
  | dt64 (unitPerSec : Int) (count : Int)  -- numpy datetime64 with `unitPerSec` ticks per second
  | none
  | seq (rs : List Repr)

/-- `to_datetime_utc`: the instant(s) denoted. -/
def toUtc : Repr → List (Option Int)
  | .aware f off => [some (instantOf f off)]
  | .naive f => [some (instantOf f 0)]
  | .epochInt s => [some (s * 1000000)]
  | .epochMicro us => [some us]
  | .dt64 u c => [some ((c / u) * 1000000)]     -- cast to whole seconds (floor), then to float
  | .none => [none]
  | .seq rs => toUtcList rs
where
  toUtcList : List Repr → List (Option Int)
    | [] => []
    | r :: rs => toUtc r ++ toUtcList rs

/-- `to_datetime64`: whole seconds (`int(timestamp())` truncates towards zero) as ns ticks -/
def toDt64 (us : Int) : Int := (Int.tdiv us 1000000) * 1000000000

/-- `datetime_to_iso_time_string` spells these fields, followed by `Z` -/
def isoFields (us : Int) : Fields := fieldsOf us

/-! ### Packed integers (hand transcription; the machine translation is `OsuModel/Gen/TimeInt.lean`) -/

def timeFromTimeint (t : Int) : Int :=
  if t ≥ 10000 then
    let hours := t / 10000
    let minutes := (t - hours * 10000) / 100
    let seconds := t - hours * 10000 - minutes * 100
    hours * 3600 + minutes * 60 + seconds
  else if t ≥ 100 then
    let hours := t / 100
    let minutes := t - hours * 100
    hours * 3600 + minutes * 60 + 0
  else
    t * 3600 + 0 * 60 + 0

def dateFromDateint (t : Int) : Int × Int × Int :=
  if t > 1000000 then
    let years := t / 10000
    let months := (t - years * 10000) / 100
    let days := t - years * 10000 - months * 100
    (years, months, days)
  else
    let years := t / 10000
    let months := (t - years * 10000) / 100
    let days := t - years * 10000 - months * 100
    (years + 2000, months, days)

/-- `datetime_from_time_and_date_integers`: µs since the epoch -/
def fromDateTimeInts (dateInt timeInt : Int) : Int :=
  let (y, m, d) := dateFromDateint dateInt
  (daysFromCivil y m.toNat d.toNat * 86400 + timeFromTimeint timeInt) * 1000000

end Osu.TC
