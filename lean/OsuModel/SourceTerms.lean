import OsuModel.Scalar
import OsuModel.Solvers
/-
Model of the wind-wave source terms (C08–C11): `wavephysics/balance/`
`st4_wind_input.py`, `st4_wave_breaking.py`, `st6_wave_breaking.py`, `stress.py`,
`wam_tail_stress.py`, `dissipation.py`, `generation.py`, `wind_inversion.py`, and the Charnock
functions of `wavephysics/roughness.py`.

One spatial point; a spectrum is a list of rows (one per frequency) of directional bins.  The
wavenumbers, group velocities and phase speeds of the frequency bins are inputs (they come from
the dispersion model of C07).  Generic scalar with `Transc`; executed at `Float`, proved about
at ℝ.  `flr` is the floor function (only used by the angle wraps).
-/
namespace Osu.ST
open Osu.Solv

variable {α : Type} [Add α] [Sub α] [Mul α] [Div α] [Neg α] [Zero α] [One α] [NatCast α]
  [LT α] [DecidableLT α] [LE α] [DecidableLE α] [BEq α] [Transc α]

def lsum : List α → α
  | [] => 0
  | a :: as => a + lsum as

def npow (x : α) : Nat → α
  | 0 => 1
  | n + 1 => npow x n * x

def twoPi : α := two * Transc.pi
def deg2rad (d : α) : α := d * Transc.pi / ((180 : Nat) : α)

/-- Python's `x % (2π)` for floats: `x - 2π floor(x / 2π)` -/
def modTwoPi (flr : α → α) (x : α) : α := x - twoPi * flr (x / twoPi)

/-- `(x + π) % 2π - π` -/
def wrapPi (flr : α → α) (x : α) : α := modTwoPi flr (x + Transc.pi) - Transc.pi

/-- Python's `x % 360` -/
def mod360 (flr : α → α) (x : α) : α :=
  let p : α := ((360 : Nat) : α)
  x - p * flr (x / p)

structure Grid (α : Type) where
  omega : List α      -- radian frequencies
  theta : List α      -- radian directions
  df : List α         -- frequency steps
  dth : List α        -- direction steps (degrees)

/-- per-frequency kinematics supplied by the dispersion relation -/
structure Kin (α : Type) where
  k : List α          -- wavenumber
  cg : List α         -- group velocity
  c : List α          -- phase speed

/-- `numba_integrate_spectral_data`: `Σ_f Σ_θ data · Δf · Δθ` -/
def bulk (g : Grid α) (data : List (List α)) : α :=
  lsum (List.zipWith (fun row df => lsum (List.zipWith (fun v dth => v * df * dth) row g.dth)) data g.df)

/-- `numba_directionally_integrate_spectral_data` -/
def dirIntegrate (g : Grid α) (data : List (List α)) : List α :=
  data.map fun row => lsum (List.zipWith (· * ·) row g.dth)

/-! ### ST4 wind input -/

structure GenP (α : Type) where
  g : α
  charnockMax : Option α
  charnock : α
  rhoAir : α
  rhoWater : α
  kappa : α
  zalpha : α          -- wave age tuning parameter
  betamax : α
  elevation : α
  nuAir : α
  viscous : α

/-- `(speed, direction_degrees, type)` -/
structure Wind (α : Type) where
  speed : α
  dirDeg : α
  isU10 : Bool

def frictionVelocity (p : GenP α) (w : Wind α) (z0 : α) : α :=
  if w.isU10 then w.speed * p.kappa / Transc.log (p.elevation / z0) else w.speed

/-- the Janssen growth rate of one bin whose direction has a downwind component `c > 0` -/
def st4Growth (p : GenP α) (k om ustar z0 c : α) : α :=
  let W := k * ustar / om * c
  let lz0 := Transc.log (k * z0) + p.kappa / (W + p.zalpha * c)
  let lz := if 0 < lz0 then 0 else lz0
  let cf := p.betamax / (p.kappa * p.kappa) * p.rhoAir / p.rhoWater
  cf * Transc.exp lz * npow lz 4 * (W * W) * om

def st4Rate (p : GenP α) (k om ustar z0 c e : α) : α :=
  if 0 < c then st4Growth p k om ustar z0 c * e else 0

def cosMutual (flr : α → α) (theta : List α) (wdirDeg : α) : List α :=
  theta.map fun t => Transc.cos (wrapPi flr (t - deg2rad wdirDeg))

/-- `_st4_wind_generation_point` -/
def st4Input (flr : α → α) (p : GenP α) (g : Grid α) (kin : Kin α) (E : List (List α)) (w : Wind α) (z0 : α) :
    List (List α) :=
  let ustar := frictionVelocity p w z0
  let cs := cosMutual flr g.theta w.dirDeg
  List.zipWith (fun (row : List α) (ko : α × α) =>
    List.zipWith (fun e c => st4Rate p ko.1 ko.2 ustar z0 c e) row cs) E (kin.k.zip g.omega)

/-! ### ST4 dissipation -/

structure BrkP (α : Type) where
  csat : α
  dirControl : α
  cosPow : Nat
  widthDeg : α
  threshold : α
  ccu : α
  rmax : α

/-- `st4_band_integrated_saturation` for one frequency row -/
def bandSaturationRow (flr : α → α) (bp : BrkP α) (g : Grid α) (row : List α) (cg k : α) : List α :=
  let sat := row.map fun e => e * cg * (k * k * k) / two / Transc.pi
  let width := deg2rad bp.widthDeg
  g.theta.map fun tj =>
    lsum (List.zipWith (fun (sd : α × α) (tj' : α) =>
      let ma := wrapPi flr (tj' - tj)
      if width + 1 / ((1000000000 : Nat) : α) < absv ma then 0 else sd.1 * npow (Transc.cos ma) bp.cosPow * sd.2) (sat.zip g.dth) g.theta)

def bandSaturation (flr : α → α) (bp : BrkP α) (g : Grid α) (kin : Kin α) (E : List (List α)) : List (List α) :=
  List.zipWith (fun (row : List α) (ck : α × α) => bandSaturationRow flr bp g row ck.1 ck.2) E (kin.cg.zip kin.k)

def lmax : List α → α
  | [] => 0
  | a :: as => as.foldl (fun m x => if m < x then x else m) a

/-- one bin of `st4_saturation_breaking` (`iso`: the isotropic exceedance of the frequency) -/
def satEntry (bp : BrkP α) (om iso e b : α) : α :=
  let d0 := (b - bp.threshold) / bp.threshold * (1 - bp.dirControl)
  let d := if d0 < 0 then 0 else d0
  let lvl := iso + d;
  -bp.csat * (lvl * lvl) * om * e

def isoExceedance (bp : BrkP α) (brow : List α) : α :=
  let iso0 := (lmax brow - bp.threshold) / bp.threshold * bp.dirControl
  if iso0 ≤ 0 then 0 else iso0

/-- `st4_saturation_breaking` -/
def saturationBreaking (bp : BrkP α) (g : Grid α) (E B : List (List α)) : List (List α) :=
  if ¬ (0 < bp.csat) then E.map fun row => row.map fun _ => 0 else
  List.zipWith (fun (eb : List α × List α) (om : α) =>
    List.zipWith (fun e b => satEntry bp om (isoExceedance bp eb.2) e b) eb.1 eb.2) (E.zip B) g.omega

/-- strength of the cumulative term at a bin with phase-velocity vector `(ce, cn)` and radian
frequency `om`: sum over the longer waves (`ω' ≤ rmax·ω`, the loop `break`s at the first
frequency above) of the positive threshold exceedance -/
def cumulativeStrength (bp : BrkP α) (g : Grid α) (kin : Kin α) (T : List (List α)) (om ce cn : α) : α :=
  let rows := (T.zip (g.omega.zip (kin.cg.zip (kin.c.zip g.df)))).takeWhile fun r => ¬ (om * bp.rmax < r.2.1)
  lsum (rows.map fun r =>
    let cg' := r.2.2.1
    let c' := r.2.2.2.1
    let df' := r.2.2.2.2
    let jac := twoPi * (1 / cg') * (Transc.pi / ((180 : Nat) : α))
    lsum (List.zipWith (fun (t : α) (td : α × α) =>
      if t ≤ 0 then 0 else
        let de := Transc.cos td.1 * c' - ce
        let dn := Transc.sin td.1 * c' - cn
        df' * td.2 * Transc.sqrt (de * de + dn * dn) * (t * t * jac)) r.1 (g.theta.zip g.dth)))

/-- one bin of `st4_cumulative_breaking` given its strength integral -/
def cumEntry (bp : BrkP α) (s e : α) : α :=
  -(((144 : Nat) : α) / ((100 : Nat) : α)) * bp.ccu * s * e

/-- `st4_cumulative_breaking` -/
def cumulativeBreaking (bp : BrkP α) (g : Grid α) (kin : Kin α) (E B : List (List α)) : List (List α) :=
  if ¬ (0 < bp.ccu) then E.map fun row => row.map fun _ => 0 else
  let T := B.map fun row => row.map fun b => Transc.sqrt b - Transc.sqrt bp.threshold
  List.zipWith (fun (row : List α) (oc : α × α) =>
    List.zipWith (fun e th =>
      cumEntry bp (cumulativeStrength bp g kin T oc.1 (Transc.cos th * oc.2) (Transc.sin th * oc.2)) e) row g.theta)
    E (g.omega.zip kin.c)

def addFields (a b : List (List α)) : List (List α) := List.zipWith (List.zipWith (· + ·)) a b

/-- `st4_dissipation_breaking` -/
def st4Dissipation (flr : α → α) (bp : BrkP α) (g : Grid α) (kin : Kin α) (E : List (List α)) : List (List α) :=
  let B := bandSaturation flr bp g kin E
  addFields (cumulativeBreaking bp g kin E B) (saturationBreaking bp g E B)

/-! ### ST6 dissipation -/

structure St6P (α : Type) where
  p1 : Nat
  p2 : Nat
  a1 : α
  a2 : α
  threshold : α

def st6Exceedance (sp : St6P α) (g : Grid α) (kin : Kin α) (E : List (List α)) : List α :=
  List.zipWith (fun (e1 : α) (ck : α × α) =>
    let sat := e1 * ck.1 * (ck.2 * ck.2 * ck.2) / two / Transc.pi
    let r := (sat - sp.threshold) / sp.threshold
    if 0 < r then r else 0) (dirIntegrate g E) (kin.cg.zip kin.k)

/-- running sums `Σ_{i' ≤ i} x_i'` -/
def runSums : α → List α → List α
  | _, [] => []
  | acc, x :: xs => (acc + x) :: runSums (acc + x) xs

/-- one bin of `st6_dissipation`: inherent + cumulative -/
def st6Entry (sp : St6P α) (rel run om e : α) : α :=
  -sp.a1 * npow rel sp.p1 * (om / two / Transc.pi) * e + -sp.a2 * npow run sp.p2 * e

/-- `st6_dissipation` = inherent + cumulative -/
def st6Dissipation (sp : St6P α) (g : Grid α) (kin : Kin α) (E : List (List α)) : List (List α) :=
  let rel := st6Exceedance sp g kin E
  let run := runSums 0 (List.zipWith (· * ·) rel g.df)
  List.zipWith (fun (row : List α) (ro : α × α × α) => row.map fun e => st6Entry sp ro.1 ro.2.1 ro.2.2 e)
    E (rel.zip (run.zip g.omega))

/-! ### Stress, roughness -/

def charnockPoint (p : GenP α) (ustar : α) : α :=
  let z := ustar * ustar / p.g * p.charnock
  match p.charnockMax with
  | some m => if m < z then m else z
  | none => z

/-- `_wave_supported_stress_point`, resolved part: `ρ_w g Σ_f (k/ω Δf) Σ_θ (cos θ, sin θ) Δθ S` -/
def resolvedStress (p : GenP α) (g : Grid α) (kin : Kin α) (S : List (List α)) : α × α :=
  let per (trig : α → α) : α :=
    lsum (List.zipWith (fun (row : List α) (kod : α × α × α) =>
      let inv := kod.1 / kod.2.1 * kod.2.2
      lsum (List.zipWith (fun (s : α) (td : α × α) => trig td.1 * td.2 * s * inv) row (g.theta.zip g.dth)))
      S (kin.k.zip (g.omega.zip g.df)))
  (per Transc.cos * (p.g * p.rhoWater), per Transc.sin * (p.g * p.rhoWater))

/-- `integrate_tail_frequency_distribution` (Boole's rule on `[x0, 0]`); `none`: the root finder raised -/
def wamLogZ (p : GenP α) (ch x : α) : α :=
  Transc.log ch + two * x + p.kappa / (Transc.exp x + p.zalpha)

def wamCfg : NRConfig α :=
  { hardLo := some (-(((10 : Nat) : α))), hardHi := some 0, maxIter := 100, aitken := true,
    atol := 1 / ((10000 : Nat) : α), rtol := 1 / ((10000 : Nat) : α), numStep := 1 / ((10000 : Nat) : α),
    errorOnMaxIter := true, relativeStep := false, underRelax := ((9 : Nat) : α) / ((10 : Nat) : α) }

def wamTailIntegral (p : GenP α) (lowerBound ch : α) : Option α :=
  match newtonRaphson (wamLogZ p ch) wamCfg (Transc.log (1 / ((100 : Nat) : α))) with
  | none => none
  | some x00 =>
    let ll := Transc.log lowerBound
    let x0 := if x00 < ll then ll else x00
    if 0 < x0 then some 0 else
    let h := -x0 / ((4 : Nat) : α)
    let v (x : α) : α := let l := wamLogZ p ch x; npow l 4 * Transc.exp l
    let n (k : Nat) : α := ((k : Nat) : α)
    some (two / n 45 * h * (n 7 * v x0 + n 32 * v (n 3 * x0 / n 4) + n 12 * v (n 2 * x0 / n 4) + n 32 * v (x0 / n 4) + n 7 * v 0))

/-- `tail_stress_parametrization_wam`: (east, north) -/
def wamTail (p : GenP α) (g : Grid α) (E : List (List α)) (w : Wind α) (z0 : α) : Option (α × α) :=
  let wr := deg2rad w.dirDeg
  let ustar := frictionVelocity p w z0
  let last := E.getLastD []
  let omLast := g.omega.getLastD 0
  let dirInt (trig : α → α) : α :=
    lsum (List.zipWith (fun (e : α) (td : α × α) =>
      let cm := Transc.cos (td.1 - wr)
      if cm ≤ 0 then 0 else cm * cm * trig td.1 * e * td.2) last (g.theta.zip g.dth))
  let ch := z0 * p.g / (ustar * ustar)
  match wamTailIntegral p (ustar * omLast / p.g) ch with
  | none => none
  | some fi =>
    let const := npow omLast 5 / (twoPi * (p.g * p.g)) * (ustar * ustar) * p.betamax / (p.kappa * p.kappa)
    let total := p.rhoAir * (ustar * ustar)
    let cz := charnockPoint p ustar
    let bg := cz * cz / (z0 * z0) * total
    some (dirInt Transc.cos * fi * const * p.rhoAir + Transc.cos wr * bg,
          dirInt Transc.sin * fi * const * p.rhoAir + Transc.sin wr * bg)

/-- outcome of `_total_stress_point`: magnitude and direction (degrees); `none` where the code
returns NaN or raises -/
def totalStress (flr : α → α) (p : GenP α) (g : Grid α) (kin : Kin α) (E : List (List α)) (w : Wind α) (z0 : α) :
    Option (α × Option α) :=
  let ustar := frictionVelocity p w z0
  if ustar == 0 then some (0, none) else
  let S := st4Input flr p g kin E w z0
  let (re, rn) := resolvedStress p g kin S
  match wamTail p g E w z0 with
  | none => none
  | some (te, tn) =>
    let visc := p.viscous * p.rhoAir * ustar * p.nuAir / p.kappa / z0
    let wr := deg2rad w.dirDeg
    let n := rn + tn + visc * Transc.sin wr
    let e := re + te + visc * Transc.cos wr
    some (Transc.sqrt (n * n + e * e), some (mod360 flr (Transc.atan2 n e * ((180 : Nat) : α) / Transc.pi)))

/-- `_stress_iteration_function(log z0)`: `ρ_a u*² − total stress` -/
def stressBalance (flr : α → α) (p : GenP α) (g : Grid α) (kin : Kin α) (E : List (List α)) (w : Wind α) (lz : α) :
    Option α :=
  let z0 := Transc.exp lz
  let ustar := frictionVelocity p w z0
  match totalStress flr p g kin E w z0 with
  | some (mag, _) => some (p.rhoAir * (ustar * ustar) - mag)
  | none => none

/-- first guess of `_roughness_estimate_point` -/
def roughnessGuess (p : GenP α) (w : Wind α) (guess : α) : α :=
  if guess < 0 then
    if w.isU10 then
      let cd := (((8 : Nat) : α) / ((10 : Nat) : α) + ((65 : Nat) : α) / ((1000 : Nat) : α) * w.speed) / ((1000 : Nat) : α)
      ((10 : Nat) : α) / Transc.exp (p.kappa / Transc.sqrt cd)
    else charnockPoint p w.speed
  else guess

def roughnessCfg : NRConfig α :=
  { hardLo := some (-(((20 : Nat) : α))), hardHi := some 0, maxIter := 100, aitken := false,
    atol := 1 / ((1000000 : Nat) : α), rtol := 1 / ((1000000 : Nat) : α), numStep := 1 / ((10000 : Nat) : α),
    errorOnMaxIter := true, relativeStep := false, underRelax := ((9 : Nat) : α) / ((10 : Nat) : α) }

/-- `_roughness_estimate_point` for a spectrum without NaN and non-zero wind; `none` = NaN.
`bal` is the stress balance as a total function (a raised evaluation is passed in as a value that
makes the solver raise; see the driver). -/
def roughness (bal : α → α) (p : GenP α) (w : Wind α) (guess : α) : Option α :=
  match newtonRaphson bal roughnessCfg (Transc.log (roughnessGuess p w guess)) with
  | some lr => some (Transc.exp lr)
  | none => none

/-! ### Wind inversion -/

/-- `spectral_time_derivative_in_active_region` -/
def activeRegionDerivative (g : Grid α) (dEdt gen : List (List α)) : α :=
  lsum (List.zipWith (fun (rows : List α × List α) (df : α) =>
    lsum (List.zipWith (fun (dg : α × α) (dth : α) => if 0 < dg.2 then dg.1 * dth * df else 0) (rows.1.zip rows.2) g.dth))
    (dEdt.zip gen) g.df)

def u10Cfg : NRConfig α :=
  { hardLo := some 0, hardHi := none, maxIter := 100, aitken := true,
    atol := 1 / ((100 : Nat) : α), rtol := 1, numStep := 1 / ((1000 : Nat) : α),
    errorOnMaxIter := true, relativeStep := false, underRelax := ((9 : Nat) : α) / ((10 : Nat) : α) }

/-- `_u10_from_bulk_rate_point` without direction iteration: `F` is the balance function
`u10 ↦ bulk input(u10) − target − dE/dt|active` -/
def u10FromBulkRate (F : α → α) (bulkRate guessU10 guessDir : α) : Option α × α :=
  if bulkRate == 0 then (some 0, guessDir) else (newtonRaphson F u10Cfg guessU10, guessDir)

/-- the stress balance as a total function: a raised evaluation is passed on as the value `nan` -/
def balanceTotal (nan : α) (flr : α → α) (p : GenP α) (g : Grid α) (kin : Kin α) (E : List (List α)) (w : Wind α) (lz : α) : α :=
  match stressBalance flr p g kin E w lz with
  | some v => v
  | none => nan

/-- `roughness_length` of the ST4 generation for one point (`none` = NaN); zero wind gives NaN -/
def roughnessOf (nan : α) (flr : α → α) (p : GenP α) (g : Grid α) (kin : Kin α) (E : List (List α)) (w : Wind α) (guess : α) :
    Option α :=
  if w.speed == 0 then none else roughness (balanceTotal nan flr p g kin E w) p w guess

/-- `_u10_iteration_function`: bulk wind input at `u10` (with the roughness the spectrum supports at
that wind, guess reset for every evaluation) minus the target minus the rate of change in the
actively forced bins -/
def u10Balance (nan : α) (flr : α → α) (p : GenP α) (g : Grid α) (kin : Kin α) (E : List (List α))
    (dirDeg target : α) (dEdt : List (List α)) (u10 : α) : α :=
  if u10 == 0 then -target else
  let w : Wind α := { speed := u10, dirDeg := dirDeg, isU10 := true }
  match roughnessOf nan flr p g kin E w (-1) with
  | none => nan
  | some z0 =>
    let gen := st4Input flr p g kin E w z0
    bulk g gen - target - activeRegionDerivative g dEdt gen

/-- dissipation-weighted wavenumber vector `−Σ k (cos θ, sin θ) D Δf Δθ` -/
def dissipationVector (g : Grid α) (kin : Kin α) (D : List (List α)) : α × α :=
  let comp (trig : α → α) : α :=
    lsum (List.zipWith (fun (row : List α) (kd : α × α) =>
      lsum (List.zipWith (fun (d : α) (td : α × α) => kd.1 * trig td.1 * d * kd.2 * td.2) row (g.theta.zip g.dth)))
      D (kin.k.zip g.df))
  (-(comp Transc.cos), -(comp Transc.sin))

/-- `_bulk_dissipation_direction_point`: dissipation-weighted wavenumber direction (degrees) and bulk rate -/
def dissipationDirection (flr : α → α) (g : Grid α) (kin : Kin α) (D : List (List α)) : α × α :=
  let v := dissipationVector g kin D
  (mod360 flr (Transc.atan2 v.2 v.1 * ((180 : Nat) : α) / Transc.pi), bulk g D)

/-! ### Charnock roughness (`wavephysics/roughness.py`) -/

/-- `charnock_roughness_length(u*)`: `α u*²/g + c_visc ν/u*` (viscous part only for `u* > 0`) -/
def charnockLength (charnock g visc nu ustar : α) : α :=
  let zv := if 0 < ustar then visc * nu / ustar else 0
  charnock * (ustar * ustar) / g + zv

/-- the fixed-point map `z ↦ charnock_roughness_length(κ U / ln(elev / z))` -/
def charnockMap (kappa elev charnock g visc nu : α) (U z : α) : α :=
  charnockLength charnock g visc nu (kappa * U / Transc.log (elev / z))

/-- `roughness_wu`: first guess -/
def roughnessWu (kappa elev U : α) : α :=
  let cd := (((8 : Nat) : α) / ((10 : Nat) : α) + ((65 : Nat) : α) / ((1000 : Nat) : α) * U) / ((1000 : Nat) : α)
  elev / Transc.exp (kappa / Transc.sqrt cd)

def charnockCfg : FPConfig α :=
  { lo := some 0, hi := none, maxIter := 100, aitken := true,
    atol := 1 / ((10000000000 : Nat) : α), rtol := 1 / ((10000 : Nat) : α) }

/-- `charnock_roughness_length_from_u10` for a vector of wind speeds (`none` = NaN) -/
def charnockFromU10 (kappa elev charnock g visc nu : α) (U : List (Option α)) : List (Option α) :=
  fixedPoint (fun (u : Option α) z => match u with
      | some u => charnockMap kappa elev charnock g visc nu u z
      | none => z)
    charnockCfg (U.map fun u => (u, u.map (roughnessWu kappa elev)))

/-- `drag_coefficient_charnock = (κ / ln(elev / z0))²` -/
def dragCoefficient (kappa elev z0 : α) : α :=
  let r := kappa / Transc.log (elev / z0)
  r * r

end Osu.ST
