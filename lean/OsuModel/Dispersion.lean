import OsuModel.Scalar
/-
Model of `wavetheory/lineardispersion.py` (C07).  Generic in the scalar with the `Transc`
interface: executed at `Float`, proved about at ℝ.
-/
namespace Osu.Disp

/-- water depth: a finite depth or infinitely deep (`np.inf`; a NaN depth of a spectrum is replaced
by `inf` before it reaches these functions) -/
inductive Depth (α : Type) where
  | finite (d : α)
  | deep

variable {α : Type} [Add α] [Sub α] [Mul α] [Div α] [Neg α] [Zero α] [One α] [NatCast α] [LT α]
  [DecidableLT α] [Transc α]

def two : α := ((2 : Nat) : α)
def half : α := (1 : α) / two

/-- `tanh(k * dep)`, with `tanh(k * inf) = 1` for `k > 0` -/
def tanhKd (k : α) : Depth α → α
  | .finite d => Transc.tanh (k * d)
  | .deep => 1

/-- `intrinsic_dispersion_relation`: `sqrt(g k tanh(k d))` -/
def omega (g k : α) (dep : Depth α) : α := Transc.sqrt (g * k * tanhKd k dep)

/-- the derivative factor used by the Newton step and by the group velocity:
`np.where(kd > 5, 0.5, 0.5 + kd / sinh(2 kd))` -/
def ratio (k : α) : Depth α → α
  | .finite d =>
      let kd := k * d
      if ((5 : Nat) : α) < kd then half else half + kd / Transc.sinh (two * kd)
  | .deep => half

/-- `phase_velocity` -/
def phaseVelocity (g k : α) (dep : Depth α) : α := omega g k dep / k

/-- `intrinsic_group_velocity = ratio * phase velocity` -/
def groupVelocity (g k : α) (dep : Depth α) : α := ratio k dep * phaseVelocity g k dep

/-- first guess: deep-water estimate where `w > sqrt(g / d)`, shallow-water estimate otherwise -/
def firstGuess (g w : α) : Depth α → α
  | .finite d => if Transc.sqrt (g / d) < w then w * w / g else w / Transc.sqrt (g * d)
  | .deep => w * w / g

/-- one Newton update of one element: `k - (omega(k) - w) / (ratio * w / k)` -/
def newtonStep (g w : α) (dep : Depth α) (k : α) : α :=
  k - (omega g k dep - w) / (ratio k dep * w / k)

def absv (a : α) : α := if a < 0 then -a else a

/-- the convergence test of one element: `|omega(k) - w| / w < tol` -/
def converged (g tol w : α) (dep : Depth α) (k : α) : Bool :=
  decide (absv (omega g k dep - w) / w < tol)

/-- the vector iteration: all elements are updated together; after each update the loop stops
when *every* element passes the convergence test; at most `fuel` updates.  Returns the estimates
and whether the loop left through the convergence test. -/
def iterate (g tol : α) : Nat → List (α × Depth α × α) → List α × Bool
  | 0, st => (st.map (·.2.2), false)
  | fuel + 1, st =>
      let st' := st.map fun (w, dep, k) => (w, dep, newtonStep g w dep k)
      if st'.all fun (w, dep, k) => converged g tol w dep k then (st'.map (·.2.2), true)
      else iterate g tol fuel st'

/-- `inverse_intrinsic_dispersion_relation(w, dep, grav, 10, 1e-3)` -/
def solve (g tol : α) (maxIter : Nat) (inputs : List (α × Depth α)) : List α × Bool :=
  iterate g tol maxIter (inputs.map fun (w, dep) => (w, dep, firstGuess g w dep))

end Osu.Disp
