import OsuModel.Scalar
/-
Model of the directional estimators (C05, C06): `estimators/mem.py` (closed form) and
`estimators/mem2.py` (distribution, constraint function, Jacobian, first guess, Cholesky solve,
Newton iteration with line search).  Generic scalar with `Transc`; executed at `Float`, proved
about at ℝ.  Vectors of Lagrange multipliers / moments are 4-element lists; `T m j` is the
"twiddle" table (cos θ, sin θ, cos 2θ, sin 2θ) and `Δ j` the direction increments.
-/
namespace Osu.Est

variable {α : Type} [Add α] [Sub α] [Mul α] [Div α] [Neg α] [Zero α] [One α] [NatCast α]
  [LT α] [DecidableLT α] [LE α] [DecidableLE α] [Transc α]

def lsum : List α → α
  | [] => 0
  | a :: as => a + lsum as

def two : α := ((2 : Nat) : α)

/-! ### MEM (Lygre & Krogstad), closed form -/

def cmul (a b : α × α) : α × α := (a.1 * b.1 - a.2 * b.2, a.1 * b.2 + a.2 * b.1)
def csub (a b : α × α) : α × α := (a.1 - b.1, a.2 - b.2)
def conj (a : α × α) : α × α := (a.1, -a.2)
def cnormSq (a : α × α) : α := a.1 * a.1 + a.2 * a.2
def cdivReal (a : α × α) (r : α) : α × α := (a.1 / r, a.2 / r)

/-- Φ1, Φ2 and the real part of the numerator -/
def memCoeffs (a1 b1 a2 b2 : α) : (α × α) × (α × α) × α :=
  let c1 : α × α := (a1, b1)
  let c2 : α × α := (a2, b2)
  let phi1 := cdivReal (csub c1 (cmul c2 (conj c1))) (1 - cnormSq c1)
  let phi2 := csub c2 (cmul phi1 c1)
  let num := csub (csub (1, 0) (cmul phi1 (conj c1))) (cmul phi2 (conj c2))
  (phi1, phi2, num.1)

/-- `|1 - Φ1 e^{-iθ} - Φ2 e^{-2iθ}|²` given (cos θ, sin θ, cos 2θ, sin 2θ) -/
def memDenom (phi1 phi2 : α × α) (c s c2 s2 : α) : α :=
  cnormSq (csub (csub (1, 0) (cmul phi1 (c, -s))) (cmul phi2 (c2, -s2)))

/-- `numba_mem` / `_mem` for one frequency: un-normalised `Re(num)/den/(2π)`, then divided by its
discrete integral `Σ D · 2π / N` -/
def mem (a1 b1 a2 b2 : α) (trig : List (α × α × α × α)) : List α :=
  let (phi1, phi2, num) := memCoeffs a1 b1 a2 b2
  let raw := trig.map fun t => num / memDenom phi1 phi2 t.1 t.2.1 t.2.2.1 t.2.2.2 / Transc.pi / two
  let integral := lsum raw * Transc.pi * two / ((trig.length : Nat) : α)
  raw.map (· / integral)

/-! ### MEM2 (Shannon entropy) -/

/-- `Σ_m λ_m T_m j` for every direction `j`; `T` is given per direction as a 4-list -/
def innerProduct (lam : List α) (T : List (List α)) : List α :=
  T.map fun col => lsum (List.zipWith (· * ·) lam col)

def lmin : List α → α
  | [] => 0
  | a :: as => as.foldl (fun m x => if x < m then x else m) a

/-- `mem2_directional_distribution`: `exp(-(ip - min ip)) / Σ exp(-(ip - min ip)) Δ` -/
def dist (lam : List α) (delta : List α) (T : List (List α)) : List α :=
  let ip := innerProduct lam T
  let m := lmin ip
  let shape := ip.map fun x => Transc.exp (-(x - m))
  let z := lsum (List.zipWith (· * ·) shape delta)
  shape.map (· * (1 / z))

/-- `moment_constraints`: `moments_m - Σ_j T_mj D_j Δ_j` for m = 0..3 -/
def constraints (lam moments delta : List α) (T : List (List α)) : List α :=
  let d := dist lam delta T
  (List.range 4).map fun m =>
    moments.getD m 0 - lsum (List.zipWith (fun (col : List α) (dd : α × α) => col.getD m 0 * dd.1 * dd.2) T (d.zip delta))

/-- `mem2_jacobian` (4 x 4, symmetric by construction in the code: only the lower triangle is
computed and mirrored) -/
def jacobian (lam delta : List α) (T : List (List α)) : List (List α) :=
  let ip0 := innerProduct lam T
  let m := lmin ip0
  let shape := ip0.map fun x => Transc.exp (-(x - m))
  let normalization := 1 / lsum (List.zipWith (· * ·) shape delta)
  let nd : List α := (List.range 4).map fun mm =>
    normalization * lsum (List.zipWith (fun (col : List α) (sd : α × α) => col.getD mm 0 * sd.1 * sd.2) T (shape.zip delta)) * normalization
  let entry (mm nn : Nat) : α :=
    -(lsum (List.zipWith (fun (col : List α) (sd : α × α) =>
        col.getD mm 0 * sd.2 * (normalization * (-(col.getD nn 0) * sd.1) + sd.1 * nd.getD nn 0)) T (shape.zip delta)))
  (List.range 4).map fun mm => (List.range 4).map fun nn => if nn ≤ mm then entry mm nn else entry nn mm

/-- `initial_value` -/
def initialValue (a1 b1 a2 b2 : α) : List α :=
  let fac := 1 + a1 * a1 + b1 * b1 + a2 * a2 + b2 * b2
  [two * a1 * a2 + two * b1 * b2 - two * a1 * fac,
   two * a1 * b2 - two * b1 * a2 - two * b1 * fac,
   a1 * a1 - b1 * b1 - two * a2 * fac,
   two * a1 * b1 - two * b2 * fac]

def norm2 (v : List α) : α := Transc.sqrt (lsum (v.map fun x => x * x))

def vadd (a b : List α) : List α := List.zipWith (· + ·) a b
def vscale (c : α) (a : List α) : List α := a.map (c * ·)

/-! ### `solve_cholesky` (Cholesky–Banachiewicz, forward and backward substitution) -/

def dotPrefix (a b : List α) (n : Nat) : α := lsum (List.zipWith (· * ·) (a.take n) (b.take n))

/-- one row of the decomposition: given the finished rows `L`, the inverses of their diagonals and
the forward-substituted `x`, compute row `mm`, its inverse diagonal and `x[mm]`; `none` when the
pivot is not positive -/
def cholRow (arow : List α) (rhs : α) (L : List (List α)) (inv x : List α) (mm : Nat) :
    Option (List α × α × α) :=
  -- off-diagonal entries nn = 0 .. mm-1, accumulated left to right
  let step (acc : List α × α) (nn : Nat) : List α × α :=
    let row := acc.1
    let sum := arow.getD nn 0 - dotPrefix row (L.getD nn []) nn
    let l := inv.getD nn 0 * sum
    (row ++ [l], acc.2 - l * x.getD nn 0)
  let (row, fwd) := (List.range mm).foldl step ([], rhs)
  let pivot := arow.getD mm 0 - lsum (row.map fun v => v * v)
  if pivot ≤ 0 then none
  else
    let d := Transc.sqrt pivot
    let i := 1 / d
    some (row ++ [d], i, fwd * i)

def cholForward (A : List (List α)) (rhs : List α) : Nat → Nat → List (List α) → List α → List α →
    Option (List (List α) × List α × List α)
  | 0, _, L, inv, x => some (L, inv, x)
  | fuel + 1, mm, L, inv, x =>
    match cholRow (A.getD mm []) (rhs.getD mm 0) L inv x mm with
    | none => none
    | some (row, i, xm) => cholForward A rhs fuel (mm + 1) (L ++ [row]) (inv ++ [i]) (x ++ [xm])

/-- back substitution, `kk = M-1 .. 0`; `done` holds the final `x[kk+1..]` -/
def cholBackward (L : List (List α)) (inv x : List α) : Nat → List α → List α
  | 0, done => done
  | kk + 1, done =>
    -- index kk; rows nn = kk+1 .. M-1 correspond to `done`
    let terms := List.zipWith (fun (row : List α) (xn : α) => row.getD kk 0 * xn) (L.drop (kk + 1)) done
    let sum := terms.foldl (fun s t => s - t) (x.getD kk 0)
    cholBackward L inv x kk (sum * inv.getD kk 0 :: done)

/-- `solve_cholesky`: `none` stands for the NaN vector the code returns when a pivot is not positive -/
def cholSolve (A : List (List α)) (rhs : List α) : Option (List α) :=
  let M := A.length
  match cholForward A rhs M 0 [] [] [] with
  | none => none
  | some (L, inv, x) => some (cholBackward L inv x M [])

/-- the linear solve of the Newton step as the iteration uses it: the Cholesky solution, or four copies
of `bad` (NaN in the Float run) where the factorisation fails -/
def cholSolve4 (bad : α) (A : List (List α)) (rhs : List α) : List α :=
  match cholSolve A rhs with
  | some x => if x.length = 4 then x else List.replicate 4 bad
  | none => List.replicate 4 bad

/-- the result of the Newton iteration -/
structure NewtonResult (α : Type) where
  lam : List α
  converged : Bool
  iterations : Nat

/-- the line search of one Newton step: at most `depth` trial step lengths; returns the accepted
iterate and residual, or `none` when no trial reduces the residual norm -/
def lineSearch (moments delta : List α) (T : List (List α)) (cur upd : List α) (magCur magUpd magF : α) :
    Nat → α → Option (List α × List α)
  | 0, _ => none
  | depth + 1, factor =>
      let next := vadd cur (vscale factor upd)
      let nf := constraints next moments delta T
      if norm2 nf < magF then some (next, nf)
      else
        let inv := magCur / magUpd
        let half := factor / two
        lineSearch moments delta T cur upd magCur magUpd magF depth (if inv < half then inv else half)

/-- `mem2_newton_solver`'s loop.  `solve` is the linear solve of the Newton step (Cholesky with
a least-squares fallback in the code; a parameter here). -/
def newtonLoop (solve : List (List α) → List α → List α) (atol : α) (lsDepth : Nat)
    (moments delta : List α) (T : List (List α)) : Nat → Nat → List α → List α → NewtonResult α
  | 0, it, cur, _ => ⟨cur, false, it⟩
  | fuel + 1, it, cur, f =>
      let magF := norm2 f
      if magF < atol then ⟨cur, true, it⟩
      else
        let J := jacobian cur delta T
        let upd := solve J (f.map fun x => -x)
        match lineSearch moments delta T cur upd (norm2 cur) (norm2 upd) magF lsDepth 1 with
        | some (next, nf) => newtonLoop solve atol lsDepth moments delta T fuel (it + 1) next nf
        | none => ⟨cur, false, it⟩

def newton (solve : List (List α) → List α → List α) (atol : α) (maxIter lsDepth : Nat)
    (moments delta : List α) (T : List (List α)) (guess : List α) : NewtonResult α :=
  newtonLoop solve atol lsDepth moments delta T maxIter 0 guess (constraints guess moments delta T)

/-- what `mem2_newton_solver` returns for finite moments: the distribution of the last iterate,
whether or not the iteration converged (the MEM fallback value is overwritten) -/
def mem2Newton (solve : List (List α) → List α → List α) (atol : α) (maxIter lsDepth : Nat)
    (moments delta : List α) (T : List (List α)) : List α :=
  let guess := initialValue (moments.getD 0 0) (moments.getD 1 0) (moments.getD 2 0) (moments.getD 3 0)
  dist (newton solve atol maxIter lsDepth moments delta T guess).lam delta T

/-- `solution_method="approximate"`: the distribution of the first guess -/
def mem2Approximate (moments delta : List α) (T : List (List α)) : List α :=
  dist (initialValue (moments.getD 0 0) (moments.getD 1 0) (moments.getD 2 0) (moments.getD 3 0)) delta T

end Osu.Est
