/-
Model of `ocean_science_utilities.filecache.cache_object.FileCache` (C18, C19).

Mathlib-free, total, executable.  The disk is a finite map from file names to file data; the
index (`_entries`) is a list of keys.  Every public operation is a composition of *elementary
actions* (`Act`) so that a crash can be placed between any two of them.

What is a parameter (trusted base, see DESIGN.md §4):
* `resOf : Nat → Nat` maps a key (md5 of "uri<<comment") to the resource that
  `uri.split("<<")[0]` denotes.  md5 is assumed injective on the URIs used, so keys are `Nat`s.
* the logical clock: every write/touch takes the next tick.
* the schedule `ran` of a request (which download workers ran, in completion order) is an
  input: theorems quantify over all of them.
-/
namespace Osu.FC

/-- File names in the cache directory. `cache k` is `cachefile_<md5 k>_cachefile`, `tmp k` is the
same name with `.part` appended (does not match the cache pattern), `foreign n` is any other
file a user put there. -/
inductive FName where
  | cache (k : Nat)
  | tmp (k : Nat)
  | foreign (n : Nat)
  deriving DecidableEq, Repr

/-- What a file holds. -/
inductive Content where
  | full (r : Nat) (pp : Bool)   -- all bytes of resource r, post-processed iff pp
  | raw (r : Nat)                -- all bytes of r, post-processing requested but not yet done
  | part (r : Nat) (n : Nat)     -- the first n bytes of r only
  | foreign (n : Nat)
  deriving DecidableEq, Repr

structure FileData where
  content : Content
  size : Nat
  stamp : Nat
  deriving DecidableEq, Repr

structure State where
  disk : FName → Option FileData
  known : List Nat          -- keys for which a cache-pattern file was ever created (ghost: makes `reopen` computable)
  entries : List Nat        -- the in-memory index `_entries`
  maxSize : Nat             -- persisted in file_cache_config.json
  slack : Nat               -- the constant MEGABYTE
  tolerant : Bool           -- allow_for_missing_files (persisted)
  clock : Nat

def upd (d : FName → Option FileData) (n : FName) (v : Option FileData) : FName → Option FileData :=
  fun m => if m = n then v else d m

/-- Remove repetitions (keeps the last occurrence of each key). -/
def dedup : List Nat → List Nat
  | [] => []
  | k :: ks => if k ∈ dedup ks then dedup ks else k :: dedup ks

def nodupB : List Nat → Bool
  | [] => true
  | k :: ks => !(ks.contains k) && nodupB ks

def init (maxSize slack : Nat) (tolerant : Bool) : State :=
  { disk := fun _ => none, known := [], entries := [], maxSize := maxSize, slack := slack,
    tolerant := tolerant, clock := 0 }

/-- Elementary actions on the directory / index. -/
inductive Act where
  | writeTmp (k : Nat) (c : Content) (size : Nat)   -- the worker (over)writes `tmp k`
  | commit (k : Nat)                                 -- os.replace(tmp k, cache k)
  | rmTmp (k : Nat)                                  -- cleanup in `finally`
  | rmCache (k : Nat)                                -- _remove_item_from_cache
  | touch (k : Nat)                                  -- _get_from_cache
  | register (k : Nat)                               -- _add_to_cache
  | setMax (n : Nat)                                 -- config.max_size_bytes = n (persisted)
  deriving Repr

def exec (s : State) : Act → State
  | .writeTmp k c size =>
      { s with disk := upd s.disk (.tmp k) (some ⟨c, size, s.clock⟩), clock := s.clock + 1 }
  | .commit k =>
      match s.disk (.tmp k) with
      | some f => { s with disk := upd (upd s.disk (.cache k) (some f)) (.tmp k) none,
                           known := k :: s.known }
      | none => s
  | .rmTmp k => { s with disk := upd s.disk (.tmp k) none }
  | .rmCache k =>
      { s with disk := upd s.disk (.cache k) none, entries := s.entries.filter (· != k) }
  | .touch k =>
      match s.disk (.cache k) with
      | some f => { s with disk := upd s.disk (.cache k) (some { f with stamp := s.clock }),
                           clock := s.clock + 1 }
      | none => s
  | .register k => if k ∈ s.entries then s else { s with entries := s.entries ++ [k] }
  | .setMax n => { s with maxSize := n }

def execs (s : State) (as : List Act) : State := as.foldl exec s

/-! ### Requests -/

inductive Outcome where
  | ok (size : Nat)
  | notFound
  | raiseBefore
  | raisePartial (n : Nat)
  | raisePost (size : Nat)
  deriving DecidableEq, Repr

structure Req where
  key : Nat
  validate : Option Bool     -- `some b`: a validate directive is present and the function returns b
  postprocess : Bool
  outcome : Outcome
  deriving Repr

inductive WRes where | success | missing | raisedNotFound | raisedIO
  deriving DecidableEq, Repr

/-- Result of the worker for one miss. -/
def Req.wres (tolerant : Bool) (q : Req) : WRes :=
  match q.outcome with
  | .ok _ => .success
  | .notFound => if tolerant then .missing else .raisedNotFound
  | .raiseBefore => .raisedIO
  | .raisePartial _ => .raisedIO
  | .raisePost _ => if q.postprocess then .raisedIO else .success

/-- Does the worker for this miss complete (download, post-process, rename)? -/
def Req.succeeds (q : Req) : Bool :=
  match q.outcome with
  | .ok _ => true
  | .raisePost _ => !q.postprocess
  | _ => false

/-- Does the worker for this miss raise? -/
def Req.raises (tolerant : Bool) (q : Req) : Bool :=
  q.wres tolerant == .raisedIO || q.wres tolerant == .raisedNotFound

/-- The elementary actions of the download worker for one miss, in program order. -/
def workerActs (resOf : Nat → Nat) (q : Req) : List Act :=
  let r := resOf q.key
  match q.outcome with
  | .ok size =>
      if q.postprocess then
        [.writeTmp q.key (.part r 0) 0, .writeTmp q.key (.raw r) size,
         .writeTmp q.key (.full r true) size, .commit q.key]
      else
        [.writeTmp q.key (.part r 0) 0, .writeTmp q.key (.full r false) size, .commit q.key]
  | .notFound => [.rmTmp q.key]        -- the `finally` clause removes a stale temporary file
  | .raiseBefore => [.rmTmp q.key]
  | .raisePartial n => [.writeTmp q.key (.part r n) n, .rmTmp q.key]
  | .raisePost size =>
      if q.postprocess then
        [.writeTmp q.key (.part r 0) 0, .writeTmp q.key (.raw r) size, .rmTmp q.key]
      else
        [.writeTmp q.key (.part r 0) 0, .writeTmp q.key (.full r false) size, .commit q.key]

def present (s : State) (k : Nat) : Bool := (s.disk (.cache k)).isSome

def sizeOf (s : State) (k : Nat) : Nat :=
  match s.disk (.cache k) with
  | some f => f.size
  | none => 0

def stampOf (s : State) (k : Nat) : Nat :=
  match s.disk (.cache k) with
  | some f => f.stamp
  | none => 0

/-- `_size()`: total size of the files of the index. -/
def total (s : State) : Nat := (s.entries.map (sizeOf s)).sum

/-- Is request `q` a miss in state `s`?  (`get_cache_misses`) -/
def isMiss (s : State) (q : Req) : Bool :=
  if q.key ∈ s.entries then q.validate == some false else true

/-- Phase 1: validation failures delete file and entry. -/
def validateActs (s : State) (reqs : List Req) : List Act :=
  (reqs.filter fun q => q.key ∈ s.entries && q.validate == some false).map fun q => .rmCache q.key

/-- Phase 2: hits are touched, in request order. -/
def touchActs (hits : List Req) : List Act := hits.map fun q => .touch q.key

/-- Phase 3: the workers that ran, in completion order. -/
def ranReqs (misses : List Req) (ran : List Nat) : List Req :=
  ran.filterMap fun k => misses.find? (·.key == k)

def downloadActs (resOf : Nat → Nat) (rr : List Req) : List Act :=
  rr.flatMap (workerActs resOf)

/-- Eviction order: oldest first (the code sorts newest first, stably, and pops from the end). -/
def insertBy (st : Nat → Nat) (k : Nat) : List Nat → List Nat
  | [] => [k]
  | x :: xs => if st k < st x then k :: x :: xs else x :: insertBy st k xs

/-- Stable insertion sort, ascending in `st`; among equal stamps the later list element comes
first (the code sorts newest-first stably and pops from the end). -/
def sortAsc (st : Nat → Nat) : List Nat → List Nat
  | [] => []
  | x :: xs => insertBy st x (sortAsc st xs)

def evictOrder (s : State) : List Nat := sortAsc (stampOf s) s.entries

def evictLoop : List Nat → State → State
  | [], s => s
  | k :: ks, s => if total s > s.maxSize then evictLoop ks (exec s (.rmCache k)) else s

def evict (s : State) : State := evictLoop (evictOrder s) s

/-- The keys evicted by `evictLoop`, for statements. -/
def evictedBy : List Nat → State → List Nat
  | [], _ => []
  | k :: ks, s => if total s > s.maxSize then k :: evictedBy ks (exec s (.rmCache k)) else []

inductive Out where
  | paths (ks : List Nat)
  | raisedNotFound
  | raisedIO
  | badSchedule
  | tooBig
  | none
  deriving DecidableEq, Repr

structure GetResult where
  state : State
  out : Out
  downloads : List Nat     -- keys handed to the resource, in completion order
  evicted : List Nat

/-- Is the schedule `ran` one the code can produce?  Keys of misses only, no repetition, and if
no worker that ran raised, every miss ran. -/
def scheduleOk (tolerant : Bool) (misses : List Req) (ran : List Nat) : Bool :=
  ran.all (fun k => misses.any (·.key == k)) && nodupB ran &&
  ((misses.filter fun q => q.key ∈ ran).any (·.raises tolerant)
    || misses.all (fun q => q.key ∈ ran))

/-- The requests whose path is returned: request order, failed / not attempted misses dropped. -/
def returned (s : State) (reqs : List Req) (ran : List Nat) : List Req :=
  reqs.filter fun q => !isMiss s q || (q.key ∈ ran && q.succeeds)

/-- Phases 1–4 of `__getitem__`: validate, touch the hits, download, register. -/
def phase4 (resOf : Nat → Nat) (s : State) (reqs : List Req) (ran : List Nat) : State :=
  let misses := reqs.filter (isMiss s)
  let hits := reqs.filter (fun q => !isMiss s q)
  let s1 := execs s (validateActs s reqs)
  let s2 := execs s1 (touchActs hits)
  let s3 := execs s2 (downloadActs resOf (ranReqs misses ran))
  -- register what completed (`success` or, after an error, "the file exists")
  let succeeded := (misses.filter fun q => q.key ∈ ran).filter (·.succeeds)
  execs s3 (succeeded.map fun q => .register q.key)

/-- Phase 5: the cache is enlarged when the requested files alone do not fit. -/
def enlarge (s : State) (retKeys : List Nat) : State :=
  let requested := (retKeys.map (sizeOf s)).sum
  if requested > s.maxSize then exec s (.setMax (requested + s.slack)) else s

/-- `FileCache.__getitem__` (after the repairs F1–F4 of DESIGN.md §7).  -/
def get (resOf : Nat → Nat) (s : State) (reqs : List Req) (ran : List Nat) : GetResult :=
  let misses := reqs.filter (isMiss s)
  if !scheduleOk s.tolerant misses ran then ⟨s, .badSchedule, [], []⟩ else
  let s4 := phase4 resOf s reqs ran
  let retKeys := (returned s reqs ran).map (·.key)
  let s5 := enlarge s4 retKeys
  -- phase 6: evict when there were misses
  let s6 := if misses.isEmpty then s5 else evict s5
  let ev := if misses.isEmpty then [] else evictedBy (evictOrder s5) s5
  -- the error re-raised, if any: the first raising miss in request order among those that ran
  let out :=
    match (misses.filter fun q => q.key ∈ ran).find? (·.raises s.tolerant) with
    | some q => if q.wres s.tolerant == .raisedIO then Out.raisedIO else Out.raisedNotFound
    | none => Out.paths retKeys
  ⟨s6, out, ran, ev⟩

/-- The whole trace of elementary actions of a request, for crash placement. -/
def getActs (resOf : Nat → Nat) (s : State) (reqs : List Req) (ran : List Nat) : List Act :=
  let misses := reqs.filter (isMiss s)
  let hits := reqs.filter (fun q => !isMiss s q)
  let a1 := validateActs s reqs
  let a2 := touchActs hits
  let a3 := downloadActs resOf (ranReqs misses ran)
  let ranMisses := misses.filter fun q => q.key ∈ ran
  let succeeded := ranMisses.filter (·.succeeds)
  let a4 := succeeded.map fun q => Act.register q.key
  let s4 := execs s (a1 ++ a2 ++ a3 ++ a4)
  let returned := reqs.filter fun q => !isMiss s q || (q.key ∈ ran && q.succeeds)
  let requested := ((returned.map (·.key)).map (sizeOf s4)).sum
  let a5 := if requested > s4.maxSize then [Act.setMax (requested + s4.slack)] else []
  let s5 := execs s4 a5
  let a6 := if misses.isEmpty then [] else (evictedBy (evictOrder s5) s5).map Act.rmCache
  a1 ++ a2 ++ a3 ++ a4 ++ a5 ++ a6

/-- Constructor on an existing directory (`_initialize_cache`): the index is rebuilt from the
cache-pattern files on disk; the persisted configuration wins over the arguments. -/
def rebuild (s : State) : State :=
  { s with entries := (dedup s.known).filter (present s) }

def reopen (s : State) (evictOnStart : Bool) : State × Out :=
  let s1 := rebuild s
  if evictOnStart then (evict s1, .none)
  else if total s1 > s1.maxSize then (s1, .tooBig) else (s1, .none)

/-- The process dies: the index is lost, the directory stays as it is. -/
def crash (s : State) : State := { s with entries := [] }

inductive Op where
  | get (reqs : List Req) (ran : List Nat)
  | getCrash (reqs : List Req) (ran : List Nat) (cut : Nat) (evictOnStart : Bool)
  | remove (k : Nat)
  | purge
  | reopen (evictOnStart : Bool)
  | touch (k : Nat)
  | foreign (n : Nat) (size : Nat)
  deriving Repr

def step (resOf : Nat → Nat) (s : State) : Op → State × Out
  | .get reqs ran => let r := get resOf s reqs ran; (r.state, r.out)
  | .getCrash reqs ran cut ev =>
      if !scheduleOkCrash s reqs ran then (s, .badSchedule) else
      reopen (crash (execs s ((getActs resOf s reqs ran).take cut))) ev
  | .remove k => (if k ∈ s.entries then exec s (.rmCache k) else s, .none)
  | .purge => (execs s (s.entries.map .rmCache), .none)
  | .reopen ev => reopen s ev
  | .touch k => (exec s (.touch k), .none)
  | .foreign n size =>
      ({ s with disk := upd s.disk (.foreign n) (some ⟨.foreign n, size, s.clock⟩),
                clock := s.clock + 1 }, .none)
where
  scheduleOkCrash (s : State) (reqs : List Req) (ran : List Nat) : Bool :=
    let misses := reqs.filter (isMiss s)
    ran.all (fun k => misses.any (·.key == k)) && nodupB ran

def run (resOf : Nat → Nat) (s : State) (ops : List Op) : State :=
  ops.foldl (fun s op => (step resOf s op).1) s

end Osu.FC
