import OsuProofs.SourceTerms
import OsuProofs.Newton
import OsuProofs.FixedPoint
import OsuProofs.FixedPoint2
import OsuProofs.CharnockMono
/-
C10 — roughness lengths satisfy their defining implicit equations.
Model: `OsuModel/Solvers.lean` (both solvers), `OsuModel/SourceTerms.lean` (Charnock map, Janssen
roughness as the solver applied to the stress balance) at ℝ.
-/
namespace Osu.Props.C10
open Osu.ST Osu.Solv

/-- the drag coefficient is `(κ / ln(elev / z0))²` -/
theorem dragCoefficient_eq (kappa elev z0 : ℝ) :
    dragCoefficient kappa elev z0 = (kappa / Real.log (elev / z0)) ^ 2 := by
  simp only [dragCoefficient, Transc.log]; ring

/-- the Charnock map is the relation of the property:
`F_U(z) = α u*²/g + c ν/u*` with `u* = κ U / ln(elev/z)` (viscous part only for `u* > 0`) -/
theorem charnockMap_eq (kappa elev charnock g visc nu U z : ℝ) (hu : 0 < kappa * U / Real.log (elev / z)) :
    charnockMap kappa elev charnock g visc nu U z =
      charnock * (kappa * U / Real.log (elev / z)) ^ 2 / g + visc * nu / (kappa * U / Real.log (elev / z)) := by
  simp only [charnockMap, charnockLength, Transc.log, hu, if_true]; ring

/-- missing wind speeds give missing roughness lengths, element by element -/
theorem charnock_missing (kappa elev charnock g visc nu : ℝ) (U : List (Option ℝ)) :
    List.Forall₂ (fun u z => u = none → z = none) U (charnockFromU10 kappa elev charnock g visc nu U) := by
  simp only [charnockFromU10]
  refine List.Forall₂.imp ?_ (List.forall₂_map_left_iff.1 (fixedPoint_missing _ _ _))
  intro u z h hu
  exact h (by simp [hu])

/-- every Charnock roughness that is returned (not missing) met the code's stopping rule against
the previous iterate `c`: `|z − c| < atol` and `|z − c| / max(|c|, atol) < rtol` with
`atol = 1e-10`, `rtol = 1e-4` — whichever way the loop ended (all converged, or iterations
exhausted and the non-converged elements masked) -/
theorem charnock_met_rule (kappa elev charnock g visc nu : ℝ) (U : List (Option ℝ)) :
    ∀ z ∈ charnockFromU10 kappa elev charnock g visc nu U, MetRule charnockCfg z := by
  simp only [charnockFromU10]
  exact fixedPoint_metRule _ _ _

/-- the vector fixed-point iteration in general: every returned value met the stopping rule -/
theorem fixedPoint_met_rule {β : Type} (F : β → ℝ → ℝ) (cfg : FPConfig ℝ) (guess : List (β × Option ℝ)) :
    ∀ r ∈ fixedPoint F cfg guess, MetRule cfg r := fixedPoint_metRule F cfg guess

/-- a returned wave-dependent roughness is the exponential of the solver's root: a positive
length; otherwise the result is missing -/
theorem roughness_pos_or_missing (bal : ℝ → ℝ) (p : GenP ℝ) (w : Wind ℝ) (guess z : ℝ)
    (h : roughness bal p w guess = some z) : 0 < z := by
  simp only [roughness] at h
  split at h
  · simp only [Option.some.injEq] at h
    rw [← h]; exact Real.exp_pos _
  · simp at h

/-- a returned wave-dependent roughness `z = exp r` comes with the solver's certificate for the
stress balance `bal` (as a function of `log z0`): the last step was below the tolerances, and if
the root was bracketed then `r` lies in a bracket `[lo, hi] ⊆` the search interval at whose ends
the balance has opposite signs -/
theorem roughness_certified (bal : ℝ → ℝ) (p : GenP ℝ) (w : Wind ℝ) (guess z : ℝ)
    (h : roughness bal p w guess = some z) :
    ∃ r, z = Real.exp r ∧ Certified bal roughnessCfg r := by
  simp only [roughness] at h
  split at h
  · rename_i lr hlr
    simp only [Option.some.injEq] at h
    exact ⟨lr, h.symm, newtonRaphson_certified bal roughnessCfg rfl _ lr hlr⟩
  · simp at h

/-- … and then a continuous balance has an exact root in that bracket: the returned roughness is
within the bracket of a solution of `ρ_a u*² = total stress` -/
theorem bracket_contains_root (f : ℝ → ℝ) (lo hi : ℝ) (hle : lo ≤ hi) (hc : ContinuousOn f (Set.Icc lo hi))
    (hs : f lo * f hi < 0) : ∃ z ∈ Set.Icc lo hi, f z = 0 :=
  root_of_sign_change f lo hi hle hc hs

/-- every value the hybrid solver returns through its convergence test carries the certificate
(any function, any configuration that raises on exhaustion) -/
theorem newtonRaphson_certified' (f : ℝ → ℝ) (cfg : NRConfig ℝ) (hE : cfg.errorOnMaxIter = true) (guess r : ℝ)
    (hr : newtonRaphson f cfg guess = some r) : Certified f cfg r :=
  newtonRaphson_certified f cfg hE guess r hr

/-- every value the hybrid returns through its step test was reached by a regular step (Newton,
secant or bisection), not by an Aitken extrapolation -/
theorem newtonRaphson_reached_regularly (f : ℝ → ℝ) (cfg : NRConfig ℝ) (hE : cfg.errorOnMaxIter = true) (guess r : ℝ)
    (hr : newtonRaphson f cfg guess = some r) : ReachedRegularly f cfg r :=
  newtonRaphson_regular f cfg hE guess r hr

/-- the bracket bookkeeping is an invariant of the solver: in every reachable state the recorded
values are `f` at the bracket ends, the bracket is ordered, and once the root is bracketed the
current iterate lies inside and the end values have opposite signs -/
theorem newtonRaphson_invariant (f : ℝ → ℝ) (cfg : NRConfig ℝ) (n : ℕ) (s s' : NRState ℝ) (h : Inv f s)
    (hs : nrStep f cfg n s = .continue s') : Inv f s' := nrStep_inv f cfg n s s' h hs

/-- without the viscous term the exact Charnock roughness increases with the wind speed: exact
solutions `z = α (κ U / ln(h/z))² / g` in the physical range `(0, h/e²)` are ordered like their
wind speeds (`φ(z) = z ln²(h/z)` is strictly increasing there) -/
theorem charnock_roughness_increases (alpha kappa g h U1 U2 z1 z2 : ℝ) (hh : 0 < h) (ha : 0 < alpha) (hk : 0 < kappa)
    (hg : 0 < g) (hU1 : 0 ≤ U1) (hU : U1 < U2)
    (hz1 : z1 ∈ Set.Ioo 0 (h / Real.exp 2)) (hz2 : z2 ∈ Set.Ioo 0 (h / Real.exp 2))
    (hf1 : z1 = alpha * (kappa * U1 / Real.log (h / z1)) ^ 2 / g)
    (hf2 : z2 = alpha * (kappa * U2 / Real.log (h / z2)) ^ 2 / g) : z1 < z2 :=
  Osu.Charnock.roughness_increases alpha kappa g h U1 U2 z1 z2 hh ha hk hg hU1 hU hz1 hz2 hf1 hf2

/-- … and so does the drag coefficient, which increases with the roughness -/
theorem charnock_drag_increases (kappa h z1 z2 : ℝ) (hk : 0 < kappa) (hh : 0 < h) (hz1 : 0 < z1) (hz : z1 < z2) (hz2 : z2 < h) :
    dragCoefficient kappa h z1 < dragCoefficient kappa h z2 :=
  Osu.Charnock.drag_increases kappa h z1 z2 hk hh hz1 hz hz2

example : Inv (fun x : ℝ => x - 1) (nrInit (fun x : ℝ => x - 1) 2) := inv_init _ _

end Osu.Props.C10
