import OsuProofs.SourceTerms
/-
C10 — roughness lengths satisfy their defining implicit equations.
Model: `OsuModel/Solvers.lean` (both solvers), `OsuModel/SourceTerms.lean` (Charnock map, Janssen
roughness as the solver applied to the stress balance) at ℝ.
-/
namespace Osu.Props.C10
open Osu.ST Osu.Solv

/-- the drag coefficient is `(κ / ln(elev / z0))²` -/
theorem dragCoefficient_eq (kappa elev z0 : ℝ) :
    dragCoefficient kappa elev z0 = (kappa / Real.log (elev / z0)) ^ 2 := by
  simp only [dragCoefficient, Transc.log]; ring

/-- a returned wave-dependent roughness is the exponential of the solver's root: a positive
length; otherwise the result is missing -/
theorem roughness_pos_or_missing (bal : ℝ → ℝ) (p : GenP ℝ) (w : Wind ℝ) (guess z : ℝ)
    (h : roughness bal p w guess = some z) : 0 < z := by
  simp only [roughness] at h
  split at h
  · simp only [Option.some.injEq] at h
    rw [← h]; exact Real.exp_pos _
  · simp at h

end Osu.Props.C10
