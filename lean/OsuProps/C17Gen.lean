import OsuModel.Gen.TimeInt
import OsuProps.C17

/-!
# C17, second tie: theorems re-checked on the machine translation of the source

`OsuModel/Gen/TimeInt.lean` is regenerated from `tools/time.py` by `tools/py2lean.py` on every
run of the check.  The theorems below are therefore statements about what the code says *now*.
-/

namespace Osu.TC

/-- the translated `time_from_timeint` computes the hand-written model, for every integer -/
theorem gen_time_eq (t : Int) : Gen.time_from_timeint t = timeFromTimeint t := by
  unfold Gen.time_from_timeint timeFromTimeint
  first
    | rfl
    | (simp only []; done)
    | (simp only []; split <;> (try split) <;> (try split) <;> omega)
    | (split <;> (try split) <;> (try split) <;> omega)

/-- the translated `date_from_dateint` computes the hand-written model, for every integer -/
theorem gen_date_eq (t : Int) : Gen.date_from_dateint t = dateFromDateint t := by
  unfold Gen.date_from_dateint dateFromDateint
  first
    | rfl
    | (simp only []; done)
    | (simp only []; split <;> (try split) <;> simp only [Prod.mk.injEq] <;> omega)
    | (split <;> (try split) <;> simp only [Prod.mk.injEq] <;> omega)

/-- hhmmss / hhmm / hh decode to the right number of seconds — on the translated source -/
theorem gen_timeint_decode (h m s : Int) (hh : 1 ≤ h) (hm : 0 ≤ m) (hm' : m < 100) (hs : 0 ≤ s) (hs' : s < 100) :
    Gen.time_from_timeint (h * 10000 + m * 100 + s) = h * 3600 + m * 60 + s := by
  rw [gen_time_eq]; exact timeint_decode h m s hh hm hm' hs hs'

theorem gen_timeint_decode_hhmm (h m : Int) (hh : 1 ≤ h) (hh' : h < 100) (hm : 0 ≤ m) (hm' : m < 100) :
    Gen.time_from_timeint (h * 100 + m) = h * 3600 + m * 60 := by
  rw [gen_time_eq]; exact timeint_decode_hhmm h m hh hh' hm hm'

theorem gen_timeint_decode_hh (h : Int) (hh : h < 100) : Gen.time_from_timeint h = h * 3600 := by
  rw [gen_time_eq]; exact timeint_decode_hh h hh

/-- yyyymmdd / yymmdd decode to the right calendar fields — on the translated source -/
theorem gen_dateint_decode (y m d : Int) (hy : 101 ≤ y) (hm : 0 ≤ m) (hm' : m < 100) (hd : 0 ≤ d) (hd' : d < 100) :
    Gen.date_from_dateint (y * 10000 + m * 100 + d) = (y, m, d) := by
  rw [gen_date_eq]; exact dateint_decode y m d hy hm hm' hd hd'

theorem gen_dateint_decode_yy (y m d : Int) (hy : 0 ≤ y) (hy' : y < 100) (hm : 0 ≤ m) (hm' : m < 100)
    (hd : 0 ≤ d) (hd' : d < 100) :
    Gen.date_from_dateint (y * 10000 + m * 100 + d) = (y + 2000, m, d) := by
  rw [gen_date_eq]; exact dateint_decode_yy y m d hy hy' hm hm' hd hd'

example : Gen.time_from_timeint 201813 = 20 * 3600 + 18 * 60 + 13 := by decide +kernel
example : Gen.date_from_dateint 221109 = (2022, 11, 9) := by decide +kernel

end Osu.TC
