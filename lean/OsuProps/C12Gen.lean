import OsuProofs.Gen.Arith
import OsuProofs.RealTransc
import OsuModel.WindEstimate
import Mathlib.Tactic.Ring
import Mathlib.Tactic.NormNum
/-!
# C12, second tie: the closed forms of the wind estimate, machine-translated

`tools/py2lean_arith.py` re-translates, from /repo's current source on every run, the assignments of
`windestimate.py` that turn the equilibrium level into the friction velocity, the tail moments into a
direction in [0, 360), the going-to direction into the meteorological convention, and the friction
velocity and roughness into U10 (statement slices of `friction_velocity` and `estimate_u10_from_spectrum`).
-/
namespace Osu.Props.C12Gen
open Osu.Wind Osu.Spec

/-- the code's `8.0 * np.pi**3 * e / grav / I / beta / 4` is the model's `ustar` -/
theorem gen_friction_velocity_eq (e g I beta : ℝ) :
    Osu.GenArith.friction_velocity_estimate e g I beta = ustar e g I beta := by
  simp only [Osu.GenArith.friction_velocity_estimate, ustar, Transc.pi]
  norm_num
  ring

/-- `(180.0 / np.pi * np.arctan2(b1, a1)) % 360` is the model's tail direction -/
theorem gen_tail_direction_eq (a1 b1 : ℝ) :
    Osu.GenArith.tail_direction a1 b1 = tailDirection (fun x : ℝ => ⌊x⌋) a1 b1 := by
  simp only [Osu.GenArith.tail_direction, tailDirection, pmod, Transc.pi, Transc.atan2]
  norm_num

/-- `(270.0 - direction) % 360` is the model's conversion to the meteorological convention -/
theorem gen_meteorological_eq (d : ℝ) :
    Osu.GenArith.meteorological_direction d = toMeteorological (fun x : ℝ => ⌊x⌋) d := by
  simp only [Osu.GenArith.meteorological_direction, toMeteorological, pmod]
  norm_num

/-- `u* / kappa * log(10 / z0)` is the model's logarithmic profile -/
theorem gen_u10_eq (us kappa z0 : ℝ) : Osu.GenArith.u10_loglaw us kappa z0 = u10Of kappa us z0 := by
  simp only [Osu.GenArith.u10_loglaw, u10Of, Transc.log]
  norm_num

end Osu.Props.C12Gen
