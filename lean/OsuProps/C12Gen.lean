import OsuProofs.Gen.Arith
import OsuProofs.RealTransc
import OsuModel.WindEstimate
import Mathlib.Tactic.Ring
import Mathlib.Tactic.NormNum
/-!
# C12, second tie: the closed form of the friction velocity, machine-translated

`tools/py2lean_arith.py` re-translates the two assignments of `windestimate.py: friction_velocity`
that turn the equilibrium level into the friction velocity from /repo's current source on every run.
-/
namespace Osu.Props.C12Gen
open Osu.Wind

/-- the code's `8.0 * np.pi**3 * e / grav / I / beta / 4` is the model's `ustar` -/
theorem gen_friction_velocity_eq (e g I beta : ℝ) :
    Osu.GenArith.friction_velocity_estimate e g I beta = ustar e g I beta := by
  simp only [Osu.GenArith.friction_velocity_estimate, ustar, Transc.pi]
  norm_num
  ring

end Osu.Props.C12Gen
