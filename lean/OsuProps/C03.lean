import OsuProofs.RotationBridge
import Mathlib.Analysis.Real.Pi.Bounds

/-!
# C03 — mean/peak direction and spread follow their definitions and rotate with the sea

Model: `meanDir`, `spread`, `weighted`, `rowMoments` in `OsuModel/Spectral.lean`, instantiated at ℝ
(`atan2 y x = Complex.arg (x + iy)`).  Uniform direction grid `θ_j = θ0 + j·360/N`, rotation by
`k` bins `E'(j) = E(j - k)`, mirror `E'(j) = E(-j)` (grids with `θ0 = 0`).
-/

namespace Osu.Rot

open Real Osu.Spec

/-- the model's direction is `arg(A + iB)` in degrees -/
theorem meanDir_def (A B : ℝ) : meanDir A B = Complex.arg ⟨A, B⟩ * 180 / π := by
  simp [meanDir, Transc.atan2, Transc.pi]

/-- directions lie in (-180, 180] -/
theorem meanDir_range (A B : ℝ) : -180 < meanDir A B ∧ meanDir A B ≤ 180 := by
  rw [meanDir_def]
  have h1 := Complex.neg_pi_lt_arg (⟨A, B⟩ : ℂ)
  have h2 := Complex.arg_le_pi (⟨A, B⟩ : ℂ)
  have hp := Real.pi_pos
  constructor
  · rw [lt_div_iff₀ hp]; nlinarith
  · rw [div_le_iff₀ hp]; nlinarith

/-- for moments inside the unit disc the spread lies in [0, √2·180/π] (< 81.03 degrees) -/
theorem spread_range (A B : ℝ) (h : A ^ 2 + B ^ 2 ≤ 1) :
    0 ≤ spread A B ∧ spread A B ≤ Real.sqrt 2 * 180 / π ∧ Real.sqrt 2 * 180 / π < 81.03 := by
  have hp := Real.pi_pos
  have hr0 : 0 ≤ Real.sqrt (A * A + B * B) := Real.sqrt_nonneg _
  have hr1 : Real.sqrt (A * A + B * B) ≤ 1 := by
    rw [show (1 : ℝ) = Real.sqrt 1 by simp]
    apply Real.sqrt_le_sqrt; nlinarith
  have e : spread A B = Real.sqrt (2 - 2 * Real.sqrt (A * A + B * B)) * 180 / π := by
    simp [spread, Transc.sqrt, Transc.pi]
  rw [e]
  refine ⟨by positivity, ?_, ?_⟩
  · apply div_le_div_of_nonneg_right _ hp.le
    apply mul_le_mul_of_nonneg_right _ (by norm_num)
    apply Real.sqrt_le_sqrt; linarith
  · rw [div_lt_iff₀ hp]
    have h2 : Real.sqrt 2 < 1.41422 := by
      rw [show (1.41422 : ℝ) = Real.sqrt (1.41422 ^ 2) by rw [Real.sqrt_sq (by norm_num)]]
      apply Real.sqrt_lt_sqrt (by norm_num); norm_num
    have h3 := Real.pi_gt_d6
    nlinarith

variable {N : ℕ} [NeZero N]

/-- `rot_moments`: rotating the spectrum by `k` direction bins leaves `e(f)` unchanged and rotates
the un-normalised first (second) moments by `k·Δθ` (`2k·Δθ`): for every `N`, `k`, `θ0`, `E`. -/
theorem rot_moments (θ0 : ℝ) (k : Fin N) (E : Fin N → ℝ) (m : ℕ) :
    eSum (rotE k E) = eSum E ∧
    Acos m θ0 (rotE k E) = cosd (m * ((k : ℕ) * dθ N)) * Acos m θ0 E - sind (m * ((k : ℕ) * dθ N)) * Bsin m θ0 E ∧
    Bsin m θ0 (rotE k E) = sind (m * ((k : ℕ) * dθ N)) * Acos m θ0 E + cosd (m * ((k : ℕ) * dθ N)) * Bsin m θ0 E :=
  ⟨eSum_rot k E, Acos_rot m θ0 k E, Bsin_rot m θ0 k E⟩

/-- these sums are what the model (hence, by the correspondence, the code) computes per frequency -/
theorem rowMoments_closed_form (θ0 : ℝ) (E : Fin N → ℝ) :
    rowMoments (gridSteps N) (trigTable (N := N) cosd 1 θ0) (trigTable (N := N) sind 1 θ0)
        (trigTable (N := N) cosd 2 θ0) (trigTable (N := N) sind 2 θ0) (rowOf E) =
      (eSum E, divOpt (Acos 1 θ0 E) (eSum E), divOpt (Bsin 1 θ0 E) (eSum E),
        divOpt (Acos 2 θ0 E) (eSum E), divOpt (Bsin 2 θ0 E) (eSum E)) :=
  rowMoments_uniform θ0 E

/-- the direction of a frequency (its first-moment vector is not zero) shifts by `k·Δθ` modulo a
full turn; its squared moment magnitude, hence its spread, is unchanged. -/
theorem direction_rotates (θ0 : ℝ) (k : Fin N) (E : Fin N → ℝ)
    (h : Acos 1 θ0 E ≠ 0 ∨ Bsin 1 θ0 E ≠ 0) :
    dirAngle (Acos 1 θ0 (rotE k E)) (Bsin 1 θ0 (rotE k E)) =
      dirAngle (Acos 1 θ0 E) (Bsin 1 θ0 E) + (((k : ℕ) * dθ N * π / 180 : ℝ) : Real.Angle) ∧
    Acos 1 θ0 (rotE k E) ^ 2 + Bsin 1 θ0 (rotE k E) ^ 2 = Acos 1 θ0 E ^ 2 + Bsin 1 θ0 E ^ 2 := by
  refine ⟨?_, mag_rot 1 θ0 k E⟩
  rw [Acos_rot, Bsin_rot]
  have := dirAngle_rot (Acos 1 θ0 E) (Bsin 1 θ0 E) ((k : ℕ) * dθ N * π / 180) h
  simp only [cosd, sind, Nat.cast_one, one_mul]
  exact this

/-- band averages rotate too: a frequency integral (trapezoidal rule, any grid) of moment pairs
that are all rotated by the same angle is the rotated integral. -/
theorem band_rotates (c s : ℝ) (l : List (ℝ × ℝ × ℝ)) :
    trapz (l.map fun q => (q.1, c * q.2.1 - s * q.2.2)) =
      c * trapz (l.map fun q => (q.1, q.2.1)) - s * trapz (l.map fun q => (q.1, q.2.2)) ∧
    trapz (l.map fun q => (q.1, s * q.2.1 + c * q.2.2)) =
      s * trapz (l.map fun q => (q.1, q.2.1)) + c * trapz (l.map fun q => (q.1, q.2.2)) := by
  constructor
  · have := trapz_lin2 c (-s) l
    simp only [neg_mul, ← sub_eq_add_neg] at this
    exact this
  · exact trapz_lin2 s c l

/-- `mirror_moments` (grids starting at 0°): mirroring the direction axis keeps `e(f)` and the cosine
moments and negates the sine moments; hence the direction is negated (mod 360°). -/
theorem mirror_moments (E : Fin N → ℝ) (m : ℕ) :
    eSum (mirE E) = eSum E ∧ Acos m 0 (mirE E) = Acos m 0 E ∧ Bsin m 0 (mirE E) = -Bsin m 0 E :=
  ⟨eSum_mir E, Acos_mir m E, Bsin_mir m E⟩

theorem direction_mirrors (E : Fin N → ℝ) (h : Acos 1 0 E ≠ 0 ∨ Bsin 1 0 E ≠ 0) :
    dirAngle (Acos 1 0 (mirE E)) (Bsin 1 0 (mirE E)) = -dirAngle (Acos 1 0 E) (Bsin 1 0 E) := by
  rw [Acos_mir, Bsin_mir]
  exact dirAngle_mirror _ _ h

/-! ### Non-vacuity: the hypotheses are met by a one-bin spectrum on an 8-direction grid -/

example : (Acos (N := 8) 1 0 (fun j => if j = 1 then 1 else 0)) ≠ 0 ∨
    (Bsin (N := 8) 1 0 (fun j => if j = 1 then 1 else 0)) ≠ 0 := by
  right
  simp only [Bsin, Fin.sum_univ_eight]
  simp [theta, dθ, sind]
  have : Real.sin (360 / 8 * π / 180) = Real.sin (π / 4) := by congr 1; ring
  rw [this, Real.sin_pi_div_four]
  positivity

end Osu.Rot
