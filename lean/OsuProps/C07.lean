import OsuProofs.Dispersion

/-!
# C07 — wavenumber solver inverts the dispersion relation; group velocity is consistent

Model: `OsuModel/Dispersion.lean` at ℝ (`sqrt`, `tanh`, `sinh` are the real functions).
What is proved concerns the *exact* dispersion relation and the structure of the solver; that
ten Newton steps reach the 1e-3 tolerance for every (w, d) is a floating-point convergence claim
and is sampled by the check, not proved (DESIGN.md §8).
-/

namespace Osu.Disp

open Real

/-- `omega_strictMono_k`, `omega_mono_d`: the dispersion relation is strictly increasing in the
wavenumber and non-decreasing in depth (finite depth below deep water). -/
theorem dispersion_monotone {g : ℝ} (hg : 0 < g) :
    (∀ d k1 k2, 0 < d → 0 < k1 → k1 < k2 → omega g k1 (.finite d) < omega g k2 (.finite d)) ∧
    (∀ k d1 d2, 0 < k → d1 ≤ d2 → omega g k (.finite d1) ≤ omega g k (.finite d2)) ∧
    (∀ k d, 0 < k → omega g k (.finite d) ≤ omega g k .deep) :=
  ⟨fun _ _ _ hd h1 h => omega_strictMono_k hg hd h1 h, fun _ _ _ hk h => omega_mono_d hg hk h,
   fun _ _ hk => omega_le_deep hg hk⟩

/-- the exact wavenumber is unique and increasing in the frequency -/
theorem root_increasing_in_w {g d : ℝ} (hg : 0 < g) (hd : 0 < d) {k1 k2 : ℝ} (h1 : 0 < k1) (h2 : 0 < k2)
    (h : omega g k1 (.finite d) < omega g k2 (.finite d)) : k1 < k2 := by
  by_contra hc
  rw [not_lt] at hc
  rcases hc.lt_or_eq with hlt | heq
  · exact absurd (omega_strictMono_k hg hd h2 hlt) (not_lt.2 (le_of_lt h))
  · rw [heq] at h; exact lt_irrefl _ h

/-- … and non-increasing in depth: the same frequency in deeper water has a wavenumber that is
not larger. -/
theorem root_antitone_in_d {g : ℝ} (hg : 0 < g) {d1 d2 k1 k2 : ℝ} (hd1 : 0 < d1) (hd : d1 ≤ d2)
    (h1 : 0 < k1) (h2 : 0 < k2)
    (h : omega g k1 (.finite d1) = omega g k2 (.finite d2)) : k2 ≤ k1 := by
  by_contra hc
  rw [not_le] at hc
  have a := omega_strictMono_k hg (lt_of_lt_of_le hd1 hd) h1 hc
  have b := omega_mono_d hg h1 hd
  linarith

/-- the two asymptotes bound the exact wavenumber from below: `k ≥ w²/g` (deep water, an equality
for infinite depth) and `k ≥ w/sqrt(g d)` (shallow water) -/
theorem root_lower_bounds {g d k : ℝ} (hg : 0 < g) (hd : 0 < d) (hk : 0 < k) :
    omega g k (.finite d) ^ 2 / g ≤ k ∧ omega g k (.finite d) / Real.sqrt (g * d) ≤ k ∧
    omega g k (.deep : Depth ℝ) ^ 2 / g = k := by
  have hpos := omegaSq_pos hg hd hk
  have ht1 := Real.tanh_lt_one (k * d)
  have ht0 := tanh_pos (mul_pos hk hd)
  have htx := tanh_le_self (le_of_lt (mul_pos hk hd))
  refine ⟨?_, ?_, ?_⟩
  · rw [omega_finite, Real.sq_sqrt hpos.le, div_le_iff₀ hg]
    unfold omegaSq
    have hgk : 0 < g * k := by positivity
    have := mul_le_mul_of_nonneg_left ht1.le hgk.le
    linarith
  · rw [omega_finite, div_le_iff₀ (Real.sqrt_pos.2 (by positivity))]
    have e : Real.sqrt (k ^ 2 * (g * d)) = k * Real.sqrt (g * d) := by
      rw [Real.sqrt_mul (sq_nonneg k), Real.sqrt_sq hk.le]
    rw [← e]
    apply Real.sqrt_le_sqrt
    unfold omegaSq
    have : g * k * Real.tanh (k * d) ≤ g * k * (k * d) := mul_le_mul_of_nonneg_left htx (by positivity)
    nlinarith
  · rw [omega_deep, Real.sq_sqrt (by positivity)]; field_simp

/-- a-posteriori bracket: if the returned estimate satisfies `|ω(k̂) - w| ≤ ε w`, then `k̂` lies
between the exact wavenumbers of the frequencies `(1-ε) w` and `(1+ε) w`. -/
theorem approx_root_bracket {g d : ℝ} (hg : 0 < g) (hd : 0 < d) {khat klo khi w ε : ℝ}
    (hk : 0 < khat) (hlo : 0 < klo) (hhi : 0 < khi)
    (hres : |omega g khat (.finite d) - w| ≤ ε * w)
    (elo : omega g klo (.finite d) = (1 - ε) * w) (ehi : omega g khi (.finite d) = (1 + ε) * w) :
    klo ≤ khat ∧ khat ≤ khi := by
  obtain ⟨r1, r2⟩ := abs_le.1 hres
  constructor
  · by_contra hc
    rw [not_le] at hc
    have := omega_strictMono_k hg hd hk hc
    linarith
  · by_contra hc
    rw [not_le] at hc
    have := omega_strictMono_k hg hd hhi hc
    linarith

/-- `ratio_range`: the group/phase velocity ratio used by the code lies in [1/2, 1]; the exact
ratio `n(kd) = 1/2 + kd / sinh(2kd)` lies in (1/2, 1] and the code's value never exceeds it. -/
theorem ratio_range {k d : ℝ} (hk : 0 < k) (hd : 0 < d) :
    1 / 2 ≤ ratio k (.finite d) ∧ ratio k (.finite d) ≤ 1 ∧
    1 / 2 < 1 / 2 + k * d / Real.sinh (2 * (k * d)) ∧ 1 / 2 + k * d / Real.sinh (2 * (k * d)) ≤ 1 ∧
    ratio k (.finite d) ≤ 1 / 2 + k * d / Real.sinh (2 * (k * d)) ∧ ratio k (.deep : Depth ℝ) = 1 / 2 := by
  have hx : 0 < k * d := mul_pos hk hd
  have hs : 0 < Real.sinh (2 * (k * d)) := Real.sinh_pos_iff.2 (by positivity)
  have hle : 2 * (k * d) ≤ Real.sinh (2 * (k * d)) := Real.self_le_sinh_iff.2 (by positivity)
  have hq0 : 0 < k * d / Real.sinh (2 * (k * d)) := div_pos hx hs
  have hq1 : k * d / Real.sinh (2 * (k * d)) ≤ 1 / 2 := by
    rw [div_le_iff₀ hs]; linarith
  have hr : ratio k (.finite d) = if (5 : ℝ) < k * d then 1 / 2 else 1 / 2 + k * d / Real.sinh (2 * (k * d)) := by
    simp [ratio, half, two, Transc.sinh]
  refine ⟨?_, ?_, by linarith, by linarith, ?_, by simp [ratio, half, two]⟩ <;> rw [hr] <;> split <;> linarith

/-- `omega_hasDeriv`: `dω/dk = n(kd)·ω/k` with the exact ratio `n`: the group velocity of the
code (`ratio · ω / k`) is the derivative of the dispersion relation wherever `kd ≤ 5`. -/
theorem omega_hasDeriv {g d k : ℝ} (hg : 0 < g) (hd : 0 < d) (hk : 0 < k) :
    HasDerivAt (fun k => omega g k (.finite d))
      ((1 / 2 + k * d / Real.sinh (2 * (k * d))) * omega g k (.finite d) / k) k := by
  have hx : 0 < k * d := mul_pos hk hd
  have hpos := omegaSq_pos hg hd hk
  have hc : 0 < Real.cosh (k * d) := Real.cosh_pos _
  have hsd : 0 < Real.sinh (k * d) := Real.sinh_pos_iff.2 hx
  -- derivative of ω² = g k tanh(k d)
  have h1 : HasDerivAt (fun k => k * d) d k := by simpa using (hasDerivAt_id k).mul_const d
  have h2 : HasDerivAt (fun k => Real.tanh (k * d)) (1 / Real.cosh (k * d) ^ 2 * d) k :=
    HasDerivAt.comp (x := k) (h := fun k => k * d) (h₂ := Real.tanh) (hasDerivAt_tanh _) h1
  have h3 : HasDerivAt (fun k => g * k) g k := by simpa using (hasDerivAt_id k).const_mul g
  have h4 : HasDerivAt (omegaSq g d) (g * Real.tanh (k * d) + g * k * (1 / Real.cosh (k * d) ^ 2 * d)) k :=
    h3.mul h2
  have h5 := h4.sqrt (ne_of_gt hpos)
  have e : (fun k => omega g k (.finite d)) = fun k => Real.sqrt (omegaSq g d k) := by
    funext k; exact omega_finite g k d
  rw [e, omega_finite]
  convert h5 using 1
  -- algebra: sinh 2x = 2 sinh x cosh x, tanh = sinh / cosh, sqrt(y)² = y
  have hsq : Real.sqrt (omegaSq g d k) ^ 2 = omegaSq g d k := Real.sq_sqrt hpos.le
  have hsqrt : 0 < Real.sqrt (omegaSq g d k) := Real.sqrt_pos.2 hpos
  rw [Real.sinh_two_mul]
  have ht : Real.tanh (k * d) = Real.sinh (k * d) / Real.cosh (k * d) := Real.tanh_eq_sinh_div_cosh _
  have hom : omegaSq g d k = g * k * (Real.sinh (k * d) / Real.cosh (k * d)) := by rw [omegaSq, ht]
  rw [ht]
  field_simp
  rw [hsq, hom]
  field_simp

/-- `newton_exit_residual`: when the iteration leaves through its convergence test, every element
of the returned vector satisfies `|ω(k̂) - w| / w < tol` at its own depth. -/
theorem newton_exit_residual (g tol : ℝ) (fuel : ℕ) (st : List (ℝ × Depth ℝ × ℝ))
    (h : (iterate g tol fuel st).2 = true) :
    ∃ st' : List (ℝ × Depth ℝ × ℝ), (iterate g tol fuel st).1 = st'.map (·.2.2) ∧
      st'.map (·.1) = st.map (·.1) ∧
      ∀ q ∈ st', absv (omega g q.2.2 q.2.1 - q.1) / q.1 < tol := by
  induction fuel generalizing st with
  | zero => simp [iterate] at h
  | succ n ih =>
    simp only [iterate] at h ⊢
    by_cases hall : ((st.map fun x : ℝ × Depth ℝ × ℝ => (x.1, x.2.1, newtonStep g x.1 x.2.1 x.2.2)).all
        fun x => converged g tol x.1 x.2.1 x.2.2) = true
    · rw [if_pos hall]
      refine ⟨_, rfl, ?_, ?_⟩
      · simp [List.map_map, Function.comp]
      · intro q hq
        rw [List.all_eq_true] at hall
        have := hall q hq
        simpa [converged] using this
    · rw [if_neg hall] at h ⊢
      obtain ⟨st', e1, e2, e3⟩ := ih _ h
      exact ⟨st', e1, by rw [e2]; simp [List.map_map, Function.comp], e3⟩

/-- the same with the depths: the returned vector pairs each frequency *and depth* of the input
with a wavenumber that meets the residual test at that depth -/
theorem newton_exit_residual_depth (g tol : ℝ) (fuel : ℕ) (st : List (ℝ × Depth ℝ × ℝ))
    (h : (iterate g tol fuel st).2 = true) :
    ∃ st' : List (ℝ × Depth ℝ × ℝ), (iterate g tol fuel st).1 = st'.map (·.2.2) ∧
      st'.map (fun q => (q.1, q.2.1)) = st.map (fun q => (q.1, q.2.1)) ∧
      ∀ q ∈ st', absv (omega g q.2.2 q.2.1 - q.1) / q.1 < tol := by
  induction fuel generalizing st with
  | zero => simp [iterate] at h
  | succ n ih =>
    simp only [iterate] at h ⊢
    by_cases hall : ((st.map fun x : ℝ × Depth ℝ × ℝ => (x.1, x.2.1, newtonStep g x.1 x.2.1 x.2.2)).all
        fun x => converged g tol x.1 x.2.1 x.2.2) = true
    · rw [if_pos hall]
      refine ⟨_, rfl, ?_, ?_⟩
      · simp [List.map_map, Function.comp]
      · intro q hq
        rw [List.all_eq_true] at hall
        have := hall q hq
        simpa [converged] using this
    · rw [if_neg hall] at h ⊢
      obtain ⟨st', e1, e2, e3⟩ := ih _ h
      exact ⟨st', e1, by rw [e2]; simp [List.map_map, Function.comp], e3⟩

/-! ### Non-vacuity: in deep water the first guess is exact and the first step accepts it -/

example : (0 : ℝ) < 9.81 ∧ (0 : ℝ) < 25 := by norm_num

end Osu.Disp
