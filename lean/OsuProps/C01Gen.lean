import OsuProofs.Gen.Spec
import OsuProps.C01
import Mathlib.Tactic.Ring
import Mathlib.Tactic.NormNum
/-!
# C01, second tie: the definitions of m0/m1/m2, Hm0, Tm01, Tm02, machine-translated

`tools/py2lean_spec.py` re-translates, from /repo's current source on every run, what the methods
`m0`, `m1`, `m2`, `hm0`, `tm01`, `tm02`, `significant_waveheight`, `mean_period`, `zero_crossing_period` of
`WaveSpectrum` return *now*: which power each moment uses, that the band limits are handed on unchanged
(a call such as `self.m2(fmin)` is outside the translated subset and breaks the tie), and the closed forms.
The theorems state that these are the model's definitions, about which `OsuProps/C01.lean` proves the laws.
-/
namespace Osu.Props.C01Gen
open Osu.Spec

variable (fmin : ℝ) (fmax : Option ℝ) (fs : List ℝ) (es : List (Option ℝ))

/-- `m0`, `m1`, `m2` are the frequency moments of power 0, 1, 2 over the same band -/
theorem gen_moments_eq :
    Osu.GenSpec.m0 (fun p => moment p fmin fmax fs es) = moment 0 fmin fmax fs es ∧
    Osu.GenSpec.m1 (fun p => moment p fmin fmax fs es) = moment 1 fmin fmax fs es ∧
    Osu.GenSpec.m2 (fun p => moment p fmin fmax fs es) = moment 2 fmin fmax fs es := by
  simp only [Osu.GenSpec.m0, Osu.GenSpec.m1, Osu.GenSpec.m2, and_self]

/-- `hm0` is `4 sqrt(m0)` of the model -/
theorem gen_hm0_eq :
    Osu.GenSpec.hm0 (Osu.GenSpec.m0 (fun p => moment p fmin fmax fs es)) = hm0 fmin fmax fs es := by
  simp only [Osu.GenSpec.hm0, Osu.GenSpec.m0, hm0]

/-- `tm01` is the model's `m0 / m1` wherever the model defines it (`m1 ≠ 0`) -/
theorem gen_tm01_eq (h : moment 1 fmin fmax fs es ≠ 0) :
    tm01 fmin fmax fs es = some (Osu.GenSpec.tm01 (Osu.GenSpec.m0 (fun p => moment p fmin fmax fs es))
      (Osu.GenSpec.m1 (fun p => moment p fmin fmax fs es))) := by
  simp only [tm01, divOpt, h, if_false, Osu.GenSpec.tm01, Osu.GenSpec.m0, Osu.GenSpec.m1]

/-- `tm02` is the model's `sqrt(m0 / m2)` -/
theorem gen_tm02_eq :
    Osu.GenSpec.tm02 (Osu.GenSpec.m0 (fun p => moment p fmin fmax fs es))
      (Osu.GenSpec.m2 (fun p => moment p fmin fmax fs es)) = tm02 fmin fmax fs es := by
  simp only [Osu.GenSpec.tm02, Osu.GenSpec.m0, Osu.GenSpec.m2, tm02]

/-- the three properties are the three methods with their default band -/
theorem gen_bulk_properties (h m z : ℝ) :
    Osu.GenSpec.significant_waveheight h = h ∧ Osu.GenSpec.mean_period m = m ∧
    Osu.GenSpec.zero_crossing_period z = z := by
  simp only [Osu.GenSpec.significant_waveheight, Osu.GenSpec.mean_period, Osu.GenSpec.zero_crossing_period, and_self]

end Osu.Props.C01Gen
