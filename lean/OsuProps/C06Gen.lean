import OsuProofs.Gen.Arith
import OsuProofs.Estimators
/-!
# C06, second tie: the first guess of the Lagrange multipliers, machine-translated

`OsuProofs/Gen/Arith.lean` is rewritten from `/repo/src` by `tools/py2lean_arith.py` on every run
of the check.  The theorem says that what `mem2.py: initial_value` computes *now* is the model's
`initialValue` (about which `OsuProps/C06.lean` proves rotation equivariance).
-/
namespace Osu.Props.C06Gen
open Osu.Est

theorem gen_initial_value_eq (a1 b1 a2 b2 : ℝ) :
    Osu.GenArith.initial_value a1 b1 a2 b2 = initialValue a1 b1 a2 b2 := by
  simp only [Osu.GenArith.initial_value, initialValue, two, Nat.cast_ofNat]
  congr 1
  · ring
  congr 1
  · ring
  congr 1
  · ring
  congr 1
  · ring

end Osu.Props.C06Gen
