import OsuProofs.Peak
import OsuProps.C07

/-!
# C04 — peak parameters locate the maximum of e(f) inside the requested band

Model: `peakIndex` in `OsuModel/Spectral.lean` (`e.where(band, -inf).argmax(frequency)` with NaN
skipped).  Peak frequency / period / direction / spread are the grid frequency, its reciprocal and
the per-frequency values *at that index* (plain indexing, tied by the correspondence); each
spectrum of a batch is scanned independently (`List.map`).
-/

namespace Osu.Spec

variable {α : Type} [Field α] [LinearOrder α] [IsStrictOrderedRing α]
set_option linter.unusedSectionVars false

/-- `peakIndex_spec`: if the scan returns index `r` then `r` is a grid index inside the band with a
non-missing energy `v`; `v` is the maximum of the in-band non-missing energies; and no earlier
in-band index attains it (first maximum: ties go to the lowest index). -/
theorem peakIndex_spec (fmin : α) (fmax : Option α) (fs : List α) (es : List (Option α)) (r : ℕ)
    (h : peakIndex fmin fmax fs es = some r) :
    ∃ f v, (fs.zip es)[r]? = some (f, some v) ∧ inBand fmin fmax f = true ∧
      ∀ k g u, (fs.zip es)[k]? = some (g, some u) → inBand fmin fmax g = true →
        u ≤ v ∧ (k < r → u < v) := by
  have hs := peakIndexAux_spec fmin fmax (fs.zip es) [] none (by intro q hq; simp at hq)
  simp only [List.nil_append, List.length_nil] at hs
  simp only [peakIndex] at h
  cases hb : peakIndexAux fmin fmax (fs.zip es) 0 none with
  | none => rw [hb] at h; cases h
  | some jv =>
    obtain ⟨j, v⟩ := jv
    rw [hb] at h hs
    simp at h
    subst h
    obtain ⟨⟨f, hf, hfb⟩, hall⟩ := hs
    exact ⟨f, v, hf, hfb, hall⟩

/-- `peakIndex_none`: the scan fails (numpy raises on an all-NaN slice; an empty band has no peak)
exactly when no in-band bin has a non-missing energy. -/
theorem peakIndex_none (fmin : α) (fmax : Option α) (fs : List α) (es : List (Option α)) :
    peakIndex fmin fmax fs es = none ↔
      ∀ q ∈ fs.zip es, inBand fmin fmax q.1 = true → q.2 = none := by
  have hs := peakIndexAux_spec fmin fmax (fs.zip es) [] none (by intro q hq; simp at hq)
  simp only [List.nil_append, List.length_nil] at hs
  simp only [peakIndex]
  cases hb : peakIndexAux fmin fmax (fs.zip es) 0 none with
  | none =>
    rw [hb] at hs
    simp only [Option.map_none, true_iff]
    exact hs
  | some jv =>
    obtain ⟨j, v⟩ := jv
    rw [hb] at hs
    obtain ⟨⟨f, hf, hfb⟩, _⟩ := hs
    simp only [Option.map_some, reduceCtorEq, false_iff]
    intro hall
    have := hall (f, some v) (List.mem_of_getElem? hf) hfb
    cases this

/-- the peak never leaves the band, also when all in-band energies are zero or negative (the
degenerate case in which masking with 0 instead of -∞ selected an out-of-band bin) -/
theorem peakIndex_in_band (fmin : α) (fmax : Option α) (fs : List α) (es : List (Option α)) (r : ℕ)
    (h : peakIndex fmin fmax fs es = some r) :
    ∃ f, fs[r]? = some f ∧ inBand fmin fmax f = true := by
  obtain ⟨f, v, hz, hb, _⟩ := peakIndex_spec fmin fmax fs es r h
  refine ⟨f, ?_, hb⟩
  rw [List.getElem?_zip_eq_some] at hz
  exact hz.1

/-! ### Non-vacuity -/

-- plateau (tie) → first index; global peak outside the band is ignored; NaN skipped
example : peakIndex (2 : ℚ) (some 6) [1, 2, 3, 4, 5, 6] [some 9, some 1, none, some 4, some 4, some 7] = some 3 := by
  decide +kernel
-- zero energy inside the band: still an in-band index
example : peakIndex (3 : ℚ) none [1, 2, 3, 4] [some 5, some 5, some 0, some 0] = some 2 := by decide +kernel

open Osu.Disp in
/-- the peak wavenumber: the dispersion solver applied to the radian peak frequency `w` and the
spectrum's depth (`deep` for a missing depth).  If the solver leaves through its convergence test,
the returned wavenumber satisfies the linear dispersion relation at the peak frequency to the
solver's relative tolerance (1e-3 in the code) — whatever the depth. -/
theorem peak_wavenumber_dispersion (g tol w : ℝ) (dep : Depth ℝ) (n : ℕ)
    (h : (solve g tol n [(w, dep)]).2 = true) :
    ∃ k, (solve g tol n [(w, dep)]).1 = [k] ∧ absv (omega g k dep - w) / w < tol := by
  simp only [solve, List.map_cons, List.map_nil] at h ⊢
  obtain ⟨st', h1, h2, h3⟩ := newton_exit_residual_depth g tol n [(w, dep, firstGuess g w dep)] h
  match st', h1, h2, h3 with
  | [q], h1, h2, h3 =>
    refine ⟨q.2.2, by simpa using h1, ?_⟩
    have hq := h3 q (by simp)
    simp only [List.map_cons, List.map_nil, List.cons.injEq, and_true, Prod.mk.injEq] at h2
    rw [h2.1, h2.2] at hq
    exact hq
  | [], _, h2, _ => simp at h2
  | _ :: _ :: _, _, h2, _ => simp at h2

/-- every spectrum of a batch gets its own peak: the batch model is a map -/
theorem peak_batch_independent (fmin : ℝ) (fmax : Option ℝ) (fs : List ℝ) (batch : List (List (Option ℝ))) (i : ℕ)
    (h : i < batch.length) :
    (batch.map (peakIndex fmin fmax fs))[i]'(by simpa using h) = peakIndex fmin fmax fs batch[i] := by simp


end Osu.Spec
