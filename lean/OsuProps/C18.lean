import OsuProofs.FileCacheOps
import OsuProofs.FileCacheOrder

/-!
# C18 — file cache: contents, hits, size bound and LRU eviction over any request history

Property theorems only; helper lemmas are in `OsuProofs/FileCache*.lean`, the model in
`OsuModel/FileCache.lean`.  Every theorem holds for every `resOf`, every state reachable by
any list of operations (`reachable_inv`), every request list with distinct keys and every
schedule `ran` of the download workers.
-/

namespace Osu.FC

variable (resOf : Nat → Nat)

/-- Well-formed operation: the URIs of one request are distinct. -/
def Op.WF : Op → Prop
  | .get reqs _ => reqs.Pairwise (fun a b => a.key ≠ b.key)
  | _ => True

theorem inv_init (maxSize slack : Nat) (tolerant : Bool) : Inv resOf (init maxSize slack tolerant) := by
  refine ⟨⟨?_, ?_, ?_, ?_⟩, List.nodup_nil, ?_⟩ <;> simp [init, present]

/-- The invariant (index = cache files on disk, every cache file complete and of the resource of
its key, distinct stamps) is preserved by every operation, including a crash at any elementary
step of a request followed by reopening the directory. -/
theorem inv_step {s : State} (op : Op) (h : Inv resOf s) (hwf : op.WF) :
    Inv resOf (step resOf s op).1 := by
  cases op with
  | get reqs ran =>
    simp only [step]
    cases hs : scheduleOk s.tolerant (reqs.filter (isMiss s)) ran
    · rw [get_bad resOf hs]; exact h
    · rw [get_state resOf hs]
      have hyp := getHyp_of_scheduleOk resOf h hwf hs
      have f := (preEvict_facts resOf hyp).1
      split
      · exact f
      · exact inv_evict resOf f
  | getCrash reqs ran cut ev =>
    simp only [step]
    split
    · exact h
    · apply inv_reopen
      apply diskInv_crash
      exact diskInv_execs resOf h.disk (legalList_take resOf cut (legalList_getActs resOf s reqs ran))
  | remove k =>
    simp only [step]
    split
    · exact inv_rmCache resOf h k
    · exact h
  | purge => exact inv_rmCaches resOf h _
  | reopen ev => exact inv_reopen resOf h.disk ev
  | touch k => exact inv_touch resOf h k
  | foreign n size => exact inv_foreign resOf h n size

theorem inv_run {s : State} (ops : List Op) (h : Inv resOf s) (hwf : ∀ op ∈ ops, op.WF) :
    Inv resOf (run resOf s ops) := by
  induction ops generalizing s with
  | nil => exact h
  | cons op ops ih =>
    exact ih (inv_step resOf op h (hwf op List.mem_cons_self))
      (fun o ho => hwf o (List.mem_cons_of_mem _ ho))

/-- Every state reachable from an empty cache directory satisfies the invariant. -/
theorem reachable_inv (maxSize slack : Nat) (tolerant : Bool) (ops : List Op)
    (hwf : ∀ op ∈ ops, op.WF) : Inv resOf (run resOf (init maxSize slack tolerant) ops) :=
  inv_run resOf ops (inv_init resOf _ _ _) hwf

/-- `entries_count`: the index has no repetitions and lists exactly the cache files on disk. -/
theorem entries_count {s : State} (h : Inv resOf s) :
    s.entries.Nodup ∧ ∀ k, k ∈ s.entries ↔ (s.disk (.cache k)).isSome = true :=
  ⟨h.nodup, h.idx⟩

/-- `distinct_keys_distinct_files`: different keys (in particular one resource under two
comments) never share a file. -/
theorem distinct_keys_distinct_files (k₁ k₂ : Nat) (h : k₁ ≠ k₂) : FName.cache k₁ ≠ FName.cache k₂ := by
  intro he; exact h (FName.cache.inj he)

section get

variable {s : State} {reqs : List Req} {ran : List Nat}

theorem returned_keys_nodup (hk : reqs.Pairwise (fun a b => a.key ≠ b.key)) :
    ((returned s reqs ran).map (·.key)).Nodup := by
  unfold returned
  exact List.pairwise_map.2 (hk.filter _)

/-- `requested_never_evicted`: no file whose path the request returns (or would return, had
another download not raised) is evicted by that request. -/
theorem requested_never_evicted (h : Inv resOf s) (hk : reqs.Pairwise (fun a b => a.key ≠ b.key))
    (hs : scheduleOk s.tolerant (reqs.filter (isMiss s)) ran = true) :
    ∀ q ∈ returned s reqs ran, q.key ∉ (get resOf s reqs ran).evicted := by
  intro q hq
  rw [get_evicted resOf hs]
  split
  · simp
  · have hyp := getHyp_of_scheduleOk resOf h hk hs
    obtain ⟨hinv5, hd5, he5, hfit, _⟩ := preEvict_facts resOf hyp
    have f := phase4_facts resOf s reqs ran hyp
    have hst : ∀ k, stampOf (preEvict resOf s reqs ran) k = stampOf (phase4 resOf s reqs ran) k := by
      intro k; simp only [stampOf, hd5]
    apply protected_not_evicted (evictOrder _) _ ((returned s reqs ran).map (·.key)) hinv5.nodup
      (evictOrder_nodup _ hinv5.nodup) (evictOrder_mem _) (evictOrder_sorted _)
      (returned_keys_nodup hk)
    · intro r hr e he heR
      obtain ⟨q', hq', rfl⟩ := List.mem_map.1 hr
      rw [hst, hst]
      rw [he5] at he
      have h1 := (f.ret q' hq').2
      have h2 := f.old e he (fun q'' hq'' hk'' => heR (List.mem_map.2 ⟨q'', hq'', hk''⟩))
      omega
    · exact hfit
    · exact List.mem_map.2 ⟨q, hq, rfl⟩

theorem evict_disk (t : State) (n : FName) :
    (evict t).disk n = if n ∈ (evictedBy (evictOrder t) t).map FName.cache then none else t.disk n := by
  unfold evict
  rw [evictLoop_eq_execs, execs_rmCache_disk]

/-- `get_paths_valid`: every returned path exists after the request, is in the index, and
holds the complete bytes of the resource its key denotes. -/
theorem get_paths_valid (h : Inv resOf s) (hk : reqs.Pairwise (fun a b => a.key ≠ b.key))
    {ks : List Nat} (ho : (get resOf s reqs ran).out = .paths ks) :
    ∀ k ∈ ks, k ∈ (get resOf s reqs ran).state.entries ∧
      ∃ f pp, (get resOf s reqs ran).state.disk (.cache k) = some f ∧
        f.content = .full (resOf k) pp := by
  obtain ⟨hs, rfl⟩ := get_out_paths resOf ho
  intro k hkm
  obtain ⟨q, hq, rfl⟩ := List.mem_map.1 hkm
  have hinv' : Inv resOf (get resOf s reqs ran).state := inv_step resOf (.get reqs ran) h hk
  have hyp := getHyp_of_scheduleOk resOf h hk hs
  obtain ⟨hinv5, hd5, he5, _, _⟩ := preEvict_facts resOf hyp
  have f := phase4_facts resOf s reqs ran hyp
  have hne := requested_never_evicted resOf h hk hs q hq
  have hp : present (get resOf s reqs ran).state q.key = true := by
    have hp4 := (f.ret q hq).1
    simp only [present] at hp4 ⊢
    rw [get_state resOf hs]
    rw [get_evicted resOf hs] at hne
    split
    · rw [hd5]; exact hp4
    · next hm =>
      simp only [hm] at hne
      rw [evict_disk, hd5]
      simp only [List.mem_map, FName.cache.injEq, exists_eq_right]
      simp at hne
      simp [hne, hp4]
  refine ⟨(hinv'.idx q.key).2 hp, ?_⟩
  simp only [present] at hp
  cases hd : (get resOf s reqs ran).state.disk (.cache q.key) with
  | none => simp [hd] at hp
  | some f' =>
    obtain ⟨pp, hpp⟩ := hinv'.disk.cache_full _ _ hd
    exact ⟨f', pp, rfl, hpp⟩

/-- `hit_no_download`: a key that is in the index (and not rejected by a validation directive)
is served without contacting the resource. -/
theorem hit_no_download (h : Inv resOf s) (hk : reqs.Pairwise (fun a b => a.key ≠ b.key))
    (hs : (get resOf s reqs ran).out ≠ .badSchedule) :
    ∀ q ∈ reqs, q.key ∈ s.entries → q.validate ≠ some false →
      q.key ∉ (get resOf s reqs ran).downloads := by
  intro q hq he hv hd
  cases hsc : scheduleOk s.tolerant (reqs.filter (isMiss s)) ran
  · rw [get_bad resOf hsc] at hs; exact hs rfl
  · have hyp := getHyp_of_scheduleOk resOf h hk hsc
    have : (get resOf s reqs ran).downloads = ran := by simp [get, hsc]
    rw [this] at hd
    obtain ⟨q', hq', hm, hkq⟩ := hyp.ranMiss _ hd
    have := key_inj hk hq' hq hkq
    subst this
    simp [isMiss, he] at hm
    exact hv hm

/-- `size_bound`: after a request with at least one miss the index (= all cache files) totals
at most the configured size, which is the old one unless the returned files alone exceed it,
in which case it is their total plus the fixed slack. -/
theorem size_bound (h : Inv resOf s) (hk : reqs.Pairwise (fun a b => a.key ≠ b.key))
    (hs : scheduleOk s.tolerant (reqs.filter (isMiss s)) ran = true)
    (hm : (reqs.filter (isMiss s)).isEmpty = false) :
    let s' := (get resOf s reqs ran).state
    total s' ≤ s'.maxSize ∧
    (s'.maxSize = s.maxSize ∨
      ∃ requested, s.maxSize < requested ∧ s'.maxSize = requested + s.slack) := by
  have hyp := getHyp_of_scheduleOk resOf h hk hs
  obtain ⟨hinv5, _, _, _, hmax⟩ := preEvict_facts resOf hyp
  simp only [get_state resOf hs, hm, Bool.false_eq_true, if_false]
  refine ⟨?_, ?_⟩
  · unfold evict
    exact total_evictLoop_le _ _ (fun k hk => (evictOrder_mem _ k).2 hk)
  · unfold evict
    rw [maxSize_evictLoop]
    rcases hmax with h1 | ⟨h1, h2⟩
    · exact Or.inl h1
    · exact Or.inr ⟨_, h1, h2⟩

/-- A request without misses changes neither the index nor the total size. -/
theorem size_all_hits (hs : scheduleOk s.tolerant (reqs.filter (isMiss s)) ran = true)
    (hm : (reqs.filter (isMiss s)).isEmpty = true) :
    (get resOf s reqs ran).evicted = [] := by
  rw [get_evicted resOf hs]; simp [hm]

/-- `evict_lru_prefix`: what a request evicts is an initial segment of the oldest-first order of
the index (ordered by last use), and each evicted file had to go: just before its removal the
index was still over the limit. -/
theorem evict_lru_prefix (hs : scheduleOk s.tolerant (reqs.filter (isMiss s)) ran = true) :
    let s5 := preEvict resOf s reqs ran
    let ev := (get resOf s reqs ran).evicted
    (∃ n, ev = (evictOrder s5).take n) ∧
    (evictOrder s5).Pairwise (fun a b => stampOf s5 a ≤ stampOf s5 b) ∧
    (∀ k, k ∈ evictOrder s5 ↔ k ∈ s5.entries) ∧
    (∀ n, n < ev.length → total (execs s5 ((ev.take n).map Act.rmCache)) > s5.maxSize) := by
  simp only [get_evicted resOf hs]
  refine ⟨?_, evictOrder_sorted _, evictOrder_mem _, ?_⟩
  · split
    · exact ⟨0, rfl⟩
    · exact evictedBy_prefix _ _
  · split
    · intro n hn; simp at hn
    · intro n hn; exact evictedBy_needed _ _ n hn

/-- `hit_refreshes`: after the request every returned file (hit or download) is newer than
every other file of the index, so a later eviction takes the others first: eviction order is
by last *use*. -/
theorem hit_refreshes (h : Inv resOf s) (hk : reqs.Pairwise (fun a b => a.key ≠ b.key))
    (hs : scheduleOk s.tolerant (reqs.filter (isMiss s)) ran = true) :
    let s' := (get resOf s reqs ran).state
    ∀ q ∈ returned s reqs ran, ∀ e ∈ s'.entries, (∀ q' ∈ returned s reqs ran, q'.key ≠ e) →
      stampOf s' e < stampOf s' q.key := by
  intro s' q hq e he hne
  have hyp := getHyp_of_scheduleOk resOf h hk hs
  obtain ⟨hinv5, hd5, he5, _, _⟩ := preEvict_facts resOf hyp
  have f := phase4_facts resOf s reqs ran hyp
  have hnev := requested_never_evicted resOf h hk hs q hq
  have key : ∀ k, k ∉ (get resOf s reqs ran).evicted →
      s'.disk (.cache k) = (phase4 resOf s reqs ran).disk (.cache k) := by
    intro k hkn
    show (get resOf s reqs ran).state.disk _ = _
    rw [get_state resOf hs]
    rw [get_evicted resOf hs] at hkn
    split
    · rw [hd5]
    · next hm =>
      simp only [hm] at hkn
      rw [evict_disk, hd5]
      simp only [List.mem_map, FName.cache.injEq, exists_eq_right]
      simp at hkn
      simp [hkn]
  have he4 : e ∈ (phase4 resOf s reqs ran).entries ∧ e ∉ (get resOf s reqs ran).evicted := by
    have : e ∈ (get resOf s reqs ran).state.entries := he
    rw [get_state resOf hs] at this
    rw [get_evicted resOf hs]
    split at this
    · next hm => simp [hm]; rw [← he5]; exact this
    · next hm =>
      simp only [hm]
      unfold evict at this
      rw [evictLoop_eq_execs, execs_rmCache_entries] at this
      simp at this
      rw [← he5]; simpa using this
  simp only [stampOf]
  rw [key e he4.2, key q.key hnev]
  have h1 := (f.ret q hq).2
  have h2 := f.old e he4.1 hne
  simp only [stampOf] at h1 h2
  omega

end get

/-! ### Files that are not cache files -/

theorem exec_foreign (s : State) (a : Act) (n : Nat) :
    (exec s a).disk (.foreign n) = s.disk (.foreign n) := by
  cases a <;> simp only [exec] <;> (try split) <;> simp [upd]

theorem execs_foreign (s : State) (as : List Act) (n : Nat) :
    (execs s as).disk (.foreign n) = s.disk (.foreign n) := by
  induction as generalizing s with
  | nil => rfl
  | cons a as ih => rw [execs_cons, ih, exec_foreign]

theorem evict_foreign (s : State) (n : Nat) : (evict s).disk (.foreign n) = s.disk (.foreign n) := by
  unfold evict; rw [evictLoop_eq_execs, execs_foreign]

theorem reopen_foreign (s : State) (ev : Bool) (n : Nat) :
    (reopen s ev).1.disk (.foreign n) = s.disk (.foreign n) := by
  unfold reopen
  simp only []
  split
  · rw [evict_foreign]; rfl
  · split <;> rfl

theorem preEvict_foreign (s : State) (reqs : List Req) (ran : List Nat) (n : Nat) :
    (preEvict resOf s reqs ran).disk (.foreign n) = s.disk (.foreign n) := by
  have h4 : (phase4 resOf s reqs ran).disk (.foreign n) = s.disk (.foreign n) := by
    simp only [phase4, execs_foreign]
  simp only [preEvict, enlarge]
  split
  · rw [exec_foreign, h4]
  · exact h4

/-- `foreign_frame`: a file that does not match the cache-file pattern is never modified or
deleted by any operation of the cache (here: its name, content, size and stamp are identical
before and after), whatever the history, schedule or crash point. -/
theorem foreign_frame (s : State) (op : Op) (n : Nat) (hop : ∀ size, op ≠ .foreign n size) :
    (step resOf s op).1.disk (.foreign n) = s.disk (.foreign n) := by
  cases op with
  | get reqs ran =>
    simp only [step]
    cases hs : scheduleOk s.tolerant (reqs.filter (isMiss s)) ran
    · rw [get_bad resOf hs]
    · rw [get_state resOf hs]
      split
      · exact preEvict_foreign resOf s reqs ran n
      · rw [evict_foreign]; exact preEvict_foreign resOf s reqs ran n
  | getCrash reqs ran cut ev =>
    simp only [step]
    split
    · rfl
    · rw [reopen_foreign]; simp [crash, execs_foreign]
  | remove k => simp only [step]; split <;> simp [exec_foreign]
  | purge => simp [step, execs_foreign]
  | reopen ev => simp [step, reopen_foreign]
  | touch k => simp [step, exec_foreign]
  | foreign m size =>
    have : n ≠ m := fun h => hop size (h ▸ rfl)
    simp [step, upd, this]

/-! ### Non-vacuity: a concrete history with a hit, an eviction and an enlargement -/

def demoOps : List Op :=
  [ .get [⟨0, none, false, .ok 40⟩, ⟨1, none, false, .ok 40⟩] [0, 1],   -- two downloads
    .get [⟨0, none, false, .ok 40⟩, ⟨2, none, true, .ok 40⟩] [2],        -- hit 0, download 2, evicts 1
    .foreign 7 500,
    .get [⟨3, none, false, .ok 300⟩] [3],                                -- does not fit: enlarged
    .getCrash [⟨4, none, false, .ok 10⟩] [4] 2 true ]                    -- dies mid-download, reopen

example : ∀ op ∈ demoOps, op.WF := by
  intro op hop
  simp only [demoOps, List.mem_cons, List.not_mem_nil, or_false] at hop
  rcases hop with rfl | rfl | rfl | rfl | rfl <;> simp [Op.WF]

example : (run (fun k => k) (init 100 16 true) (demoOps.take 2)).entries = [0, 2] := by decide +kernel
example : (run (fun k => k) (init 100 16 true) (demoOps.take 4)).maxSize = 316 := by decide +kernel
example : (run (fun k => k) (init 100 16 true) demoOps).entries = [3] := by decide +kernel

/-- **sequential ≡ parallel, results**: the completion order of the downloads — the only thing
that differs between `parallel=False`, `parallel=True` and any thread schedule — enters the
result of a request only through *which* downloads ran: two admissible schedules with the same
set of completed downloads give the same returned paths and the same raised error. -/
theorem output_order_independent (resOf : Nat → Nat) (s : State) (reqs : List Req) (ran₁ ran₂ : List Nat)
    (h₁ : scheduleOk s.tolerant (reqs.filter (isMiss s)) ran₁ = true)
    (h₂ : scheduleOk s.tolerant (reqs.filter (isMiss s)) ran₂ = true)
    (hset : ∀ k, k ∈ ran₁ ↔ k ∈ ran₂) :
    (get resOf s reqs ran₁).out = (get resOf s reqs ran₂).out := by
  have hdec : ∀ k, decide (k ∈ ran₁) = decide (k ∈ ran₂) := fun k => by simp [hset k]
  have hret : returned s reqs ran₁ = returned s reqs ran₂ := by
    simp only [returned]
    apply List.filter_congr
    intro q _
    rw [hdec]
  have hfil : (reqs.filter (isMiss s)).filter (fun q => decide (q.key ∈ ran₁)) =
      (reqs.filter (isMiss s)).filter (fun q => decide (q.key ∈ ran₂)) := by
    apply List.filter_congr
    intro q _
    exact hdec q.key
  simp only [get, h₁, h₂, Bool.not_true, Bool.false_eq_true, if_false, hret, hfil]


/-- **sequential ≡ parallel, state**: for every reachable state, every request with distinct keys and
any two admissible completion orders with the same set of completed downloads, the caches left
behind are observationally equal — same index, same size limit, same clock, same content and size
of every file in the directory (cache, temporary and foreign) — and the same files are evicted.
Only the time stamps of the files downloaded by this request may differ (they record the
completion order itself). -/
theorem state_order_independent (s : State) (reqs : List Req) (ran₁ ran₂ : List Nat) (h : Inv resOf s)
    (hk : reqs.Pairwise (fun a b => a.key ≠ b.key))
    (h₁ : scheduleOk s.tolerant (reqs.filter (isMiss s)) ran₁ = true)
    (h₂ : scheduleOk s.tolerant (reqs.filter (isMiss s)) ran₂ = true)
    (hset : ∀ k, k ∈ ran₁ ↔ k ∈ ran₂) :
    ObsEq (get resOf s reqs ran₁).state (get resOf s reqs ran₂).state ∧
    (get resOf s reqs ran₁).evicted = (get resOf s reqs ran₂).evicted :=
  get_obsEq resOf s reqs ran₁ ran₂ h hk h₁ h₂ hset

end Osu.FC
