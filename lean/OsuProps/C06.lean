import OsuProofs.EstJacobian
import OsuProofs.EstRotation
import OsuProofs.EstPSD
import OsuProofs.NewtonRotation
import OsuProofs.JacobianRotation
import OsuProofs.StepEquivariant
import OsuProofs.NewtonMirror
import OsuProofs.MemRotation
import OsuProofs.CholeskyNewton
import OsuProofs.CholeskyPD
import OsuProofs.JacobianPD
/-
C06 — estimators reproduce the input moments; solvers agree; the Jacobian is the derivative of
the constraint function; output rotates with input.

Model: `OsuModel/Estimators.lean` at ℝ.
-/
namespace Osu.Props.C06

open Osu.Est

/-- an accepted line-search trial carries its own residual and strictly reduces the residual norm -/
theorem lineSearch_spec (moments delta : List ℝ) (T : List (List ℝ)) (cur upd : List ℝ) (magCur magUpd magF : ℝ)
    (depth : ℕ) (factor : ℝ) (next nf : List ℝ)
    (h : lineSearch moments delta T cur upd magCur magUpd magF depth factor = some (next, nf)) :
    nf = constraints next moments delta T ∧ norm2 nf < magF := by
  induction depth generalizing factor with
  | zero => simp [lineSearch] at h
  | succ d ih =>
    simp only [lineSearch] at h
    split at h
    · rename_i hlt
      simp only [Option.some.injEq, Prod.mk.injEq] at h
      obtain ⟨rfl, rfl⟩ := h
      exact ⟨rfl, hlt⟩
    · exact ih _ h

/-- Newton loop invariant: the carried residual is the constraint function of the carried iterate;
hence a result flagged `converged` has residual norm below `atol`, and the residual norm never
exceeds the initial one. -/
theorem newtonLoop_spec (solve : List (List ℝ) → List ℝ → List ℝ) (atol : ℝ) (lsDepth : ℕ)
    (moments delta : List ℝ) (T : List (List ℝ)) (fuel it : ℕ) (cur f : List ℝ)
    (hf : f = constraints cur moments delta T) :
    let r := newtonLoop solve atol lsDepth moments delta T fuel it cur f
    (r.converged = true → norm2 (constraints r.lam moments delta T) < atol) ∧
    norm2 (constraints r.lam moments delta T) ≤ norm2 f := by
  induction fuel generalizing it cur f with
  | zero => simp [newtonLoop, hf]
  | succ n ih =>
    simp only [newtonLoop]
    split
    · rename_i hlt
      simp only [true_implies]
      exact ⟨by rw [← hf]; exact hlt, by rw [← hf]⟩
    · split
      · rename_i next nf hls
        obtain ⟨hnf, hdec⟩ := lineSearch_spec _ _ _ _ _ _ _ _ _ _ _ _ hls
        have := ih (it + 1) next nf hnf
        exact ⟨this.1, le_trans this.2 (le_of_lt hdec)⟩
      · simp only [Bool.false_eq_true, false_implies, true_and]
        rw [← hf]

/-- stopping rule: when `mem2_newton_solver` reports convergence the four-moment residual of the
returned multipliers is below the absolute tolerance -/
theorem newton_converged_residual (solve : List (List ℝ) → List ℝ → List ℝ) (atol : ℝ) (maxIter lsDepth : ℕ)
    (moments delta : List ℝ) (T : List (List ℝ)) (guess : List ℝ)
    (h : (newton solve atol maxIter lsDepth moments delta T guess).converged = true) :
    norm2 (constraints (newton solve atol maxIter lsDepth moments delta T guess).lam moments delta T) < atol :=
  (newtonLoop_spec solve atol lsDepth moments delta T maxIter 0 guess _ rfl).1 h

/-- the iteration never returns something worse than the first guess -/
theorem newton_residual_le_initial (solve : List (List ℝ) → List ℝ → List ℝ) (atol : ℝ) (maxIter lsDepth : ℕ)
    (moments delta : List ℝ) (T : List (List ℝ)) (guess : List ℝ) :
    norm2 (constraints (newton solve atol maxIter lsDepth moments delta T guess).lam moments delta T) ≤
      norm2 (constraints guess moments delta T) :=
  (newtonLoop_spec solve atol lsDepth moments delta T maxIter 0 guess _ rfl).2

/-! ### reproduction of the moments, agreement of two solutions -/

theorem abs_le_norm2 (v : List ℝ) (x : ℝ) (hx : x ∈ v) : |x| ≤ norm2 v := by
  simp only [norm2, Transc.sqrt]
  rw [← Real.sqrt_sq (abs_nonneg x), sq_abs]
  apply Real.sqrt_le_sqrt
  induction v with
  | nil => simp at hx
  | cons a v ih =>
    simp only [List.map_cons, lsum]
    have hnn : ∀ l : List ℝ, 0 ≤ lsum (l.map fun x => x * x) := by
      intro l
      exact lsum_map_nonneg (fun x => x * x) (fun x => mul_self_nonneg x) l
    rcases List.mem_cons.1 hx with h | h
    · subst h; have := hnn v; nlinarith
    · have := ih h; have := mul_self_nonneg a; linarith

/-- a converged Newton solution reproduces each of a1, b1, a2, b2 to within the tolerance -/
theorem newton_reproduces_moments (solve : List (List ℝ) → List ℝ → List ℝ) (atol : ℝ) (maxIter lsDepth : ℕ)
    (moments delta : List ℝ) (T : List (List ℝ)) (guess : List ℝ) (m : ℕ) (hm : m < 4)
    (h : (newton solve atol maxIter lsDepth moments delta T guess).converged = true) :
    |moments.getD m 0 - recon (newton solve atol maxIter lsDepth moments delta T guess).lam delta T m| < atol := by
  refine lt_of_le_of_lt (abs_le_norm2 _ _ ?_) (newton_converged_residual solve atol maxIter lsDepth moments delta T guess h)
  rw [constraints_eq]
  exact List.mem_map.2 ⟨m, by simpa using hm, rfl⟩

/-- two solutions that both meet the stopping rule (Newton and scipy, say) give reconstructed
moments that agree to twice the tolerance, component by component -/
theorem solutions_agree (lam1 lam2 moments delta : List ℝ) (T : List (List ℝ)) (atol : ℝ) (m : ℕ) (hm : m < 4)
    (h1 : norm2 (constraints lam1 moments delta T) < atol)
    (h2 : norm2 (constraints lam2 moments delta T) < atol) :
    |recon lam1 delta T m - recon lam2 delta T m| < 2 * atol := by
  have hmem : ∀ lam, moments.getD m 0 - recon lam delta T m ∈ constraints lam moments delta T := by
    intro lam; rw [constraints_eq]; exact List.mem_map.2 ⟨m, by simpa using hm, rfl⟩
  have e1 := lt_of_le_of_lt (abs_le_norm2 _ _ (hmem lam1)) h1
  have e2 := lt_of_le_of_lt (abs_le_norm2 _ _ (hmem lam2)) h2
  rw [abs_lt] at *
  constructor <;> linarith [e1.1, e1.2, e2.1, e2.2]

/-! ### the Jacobian -/

/-- every entry of `mem2_jacobian` is the covariance
`Σ w T_m T_n − (Σ w T_m)(Σ w T_n)` under the weights `w_j = D_j Δ_j`; in particular mirroring the
lower triangle (what the code does) gives exactly the values the upper triangle formula would -/
theorem jacobian_is_covariance (lam delta : List ℝ) (T : List (List ℝ)) (m n : ℕ) (hm : m < 4) (hn : n < 4)
    (hδ : ∀ d ∈ delta, 0 < d) (hT : T ≠ []) (hd : delta ≠ []) :
    ((jacobian lam delta T).getD m []).getD n 0 = covEntry lam (T.zip delta) m n := by
  rw [jacobian_getD _ _ _ _ _ hm hn]
  split
  · exact jacEntry_closed _ _ _ _ _ hn hδ hT hd
  · rw [jacEntry_closed _ _ _ _ _ hm hδ hT hd, covEntry_symm]

theorem jacobian_symmetric (lam delta : List ℝ) (T : List (List ℝ)) (m n : ℕ) (hm : m < 4) (hn : n < 4)
    (hδ : ∀ d ∈ delta, 0 < d) (hT : T ≠ []) (hd : delta ≠ []) :
    ((jacobian lam delta T).getD m []).getD n 0 = ((jacobian lam delta T).getD n []).getD m 0 := by
  rw [jacobian_is_covariance _ _ _ _ _ hm hn hδ hT hd, jacobian_is_covariance _ _ _ _ _ hn hm hδ hT hd, covEntry_symm]

/-- the Jacobian is positive semidefinite: `xᵀ J x` is the variance of `x·T` under the weights
`D·Δ` (the code calls it "square and positive definite"; definiteness can fail only when `x·T` is
constant on the grid, and rounding can break it — hence the Cholesky fallback) -/
theorem jacobian_psd (lam delta : List ℝ) (T : List (List ℝ)) (x0 x1 x2 x3 : ℝ)
    (hδ : ∀ d ∈ delta, 0 < d) (hT : T ≠ []) (hd : delta ≠ []) :
    let J := fun m n => ((jacobian lam delta T).getD m []).getD n 0
    0 ≤ x0 * (x0 * J 0 0 + x1 * J 0 1 + x2 * J 0 2 + x3 * J 0 3) + x1 * (x0 * J 1 0 + x1 * J 1 1 + x2 * J 1 2 + x3 * J 1 3)
      + x2 * (x0 * J 2 0 + x1 * J 2 1 + x2 * J 2 2 + x3 * J 2 3) + x3 * (x0 * J 3 0 + x1 * J 3 1 + x2 * J 3 2 + x3 * J 3 3) := by
  intro J
  have hJ : ∀ m n, m < 4 → n < 4 → J m n = covEntry lam (T.zip delta) m n :=
    fun m n hm hn => jacobian_is_covariance lam delta T m n hm hn hδ hT hd
  simp only [hJ 0 0 (by omega) (by omega), hJ 0 1 (by omega) (by omega), hJ 0 2 (by omega) (by omega), hJ 0 3 (by omega) (by omega),
    hJ 1 0 (by omega) (by omega), hJ 1 1 (by omega) (by omega), hJ 1 2 (by omega) (by omega), hJ 1 3 (by omega) (by omega),
    hJ 2 0 (by omega) (by omega), hJ 2 1 (by omega) (by omega), hJ 2 2 (by omega) (by omega), hJ 2 3 (by omega) (by omega),
    hJ 3 0 (by omega) (by omega), hJ 3 1 (by omega) (by omega), hJ 3 2 (by omega) (by omega), hJ 3 3 (by omega) (by omega)]
  apply cov_psd
  · intro r hr; exact hδ _ (List.of_mem_zip hr).2
  · cases T with
    | nil => exact absurd rfl hT
    | cons a T => cases delta with
      | nil => exact absurd rfl hd
      | cons b d => simp

/-- `mem2_jacobian` is the derivative of `moment_constraints`: entry (m, n) is the derivative of
residual `m` with respect to multiplier `n` (the min-shift inside the distribution notwithstanding) -/
theorem jacobian_is_derivative (lam moments delta : List ℝ) (T : List (List ℝ)) (m n : ℕ) (hm : m < 4) (hn : n < 4)
    (hl : lam.length = 4) (hδ : ∀ d ∈ delta, 0 < d) (hT : T ≠ []) (hd : delta ≠ []) :
    HasDerivAt (fun t : ℝ => (constraints (vadd lam (vscale t (unitVec n))) moments delta T).getD m 0)
      (((jacobian lam delta T).getD m []).getD n 0) 0 := by
  rw [jacobian_is_covariance _ _ _ _ _ hm hn hδ hT hd]
  have hf : (fun t : ℝ => (constraints (vadd lam (vscale t (unitVec n))) moments delta T).getD m 0)
      = fun t => moments.getD m 0 - recon (vadd lam (vscale t (unitVec n))) delta T m := by
    funext t
    rw [constraints_eq]
    interval_cases m <;> rfl
  rw [hf]
  have := (hasDerivAt_recon lam delta T m n hn hl hδ hT hd).const_sub (moments.getD m 0)
  exact this.congr_deriv (by ring)

/-! ### rotation of the input moments -/

/-- the first guess (MEM AP2) of rotated moments (`c1 ↦ c1 e^{iφ}`, `c2 ↦ c2 e^{2iφ}`) is the
rotated first guess: the Newton iteration starts from equivariant multipliers in every quadrant -/
theorem first_guess_rotates (φ a1 b1 a2 b2 : ℝ) :
    initialValue (rotMoments φ a1 b1 a2 b2).1 (rotMoments φ a1 b1 a2 b2).2.1
        (rotMoments φ a1 b1 a2 b2).2.2.1 (rotMoments φ a1 b1 a2 b2).2.2.2
      = rotLam φ (initialValue a1 b1 a2 b2) := initialValue_rot φ a1 b1 a2 b2

/-- the exponent `λ·T(θ)` of rotated multipliers is the exponent at `θ − φ` -/
theorem exponent_rotates (φ θ : ℝ) (lam : List ℝ) :
    ipOf (rotLam φ lam) (twiddleCol θ) = ipOf lam (twiddleCol (θ - φ)) := ipOf_rot φ θ lam

/-- hence, for any multipliers, the MEM2 distribution of the rotated multipliers on a uniform
grid is the distribution rotated by the same number of bins (every `N`, `θ0`, `k`) -/
theorem distribution_rotates {N : ℕ} [NeZero N] (θ0 Δ : ℝ) (k : Fin N) (lam : List ℝ) :
    distF (fun j : Fin N => ipOf (rotLam ((k : ℕ) * Osu.Rot.dθ N * Real.pi / 180) lam)
        (twiddleCol (Osu.Rot.theta θ0 j * Real.pi / 180))) Δ
      = Osu.Rot.rotE k (distF (fun j : Fin N => ipOf lam (twiddleCol (Osu.Rot.theta θ0 j * Real.pi / 180))) Δ) := by
  rw [exponents_rot θ0 k lam, distF_rot]

/-- the list model's distribution on a uniform grid is that function -/
theorem distribution_model_bridge {N : ℕ} (lam : List ℝ) (Δ : ℝ) (cols : Fin N → List ℝ) :
    dist lam (List.ofFn fun _ : Fin N => Δ) (List.ofFn cols) = List.ofFn (distF (fun j => ipOf lam (cols j)) Δ) :=
  dist_bridge lam Δ cols

/-- the `approximate` variant as a whole: rotating the input moments by `k` bins rotates the
output distribution by `k` bins -/
theorem approximate_rotates {N : ℕ} [NeZero N] (θ0 Δ : ℝ) (k : Fin N) (a1 b1 a2 b2 : ℝ) :
    let φ := (k : ℕ) * Osu.Rot.dθ N * Real.pi / 180
    let m' := rotMoments φ a1 b1 a2 b2
    distF (fun j : Fin N => ipOf (initialValue m'.1 m'.2.1 m'.2.2.1 m'.2.2.2)
        (twiddleCol (Osu.Rot.theta θ0 j * Real.pi / 180))) Δ
      = Osu.Rot.rotE k (distF (fun j : Fin N => ipOf (initialValue a1 b1 a2 b2)
        (twiddleCol (Osu.Rot.theta θ0 j * Real.pi / 180))) Δ) :=
  approximate_rot θ0 Δ k a1 b1 a2 b2

/-- MEM (Lygre & Krogstad): the un-normalised value of moments rotated by `φ` at direction `θ` is
the value of the original moments at `θ − φ` (`Φ1 ↦ Φ1 e^{iφ}`, `Φ2 ↦ Φ2 e^{2iφ}`, numerator unchanged) -/
theorem mem_value_rotates (φ a1 b1 a2 b2 θ : ℝ) :
    memRawAt (rotMoments φ a1 b1 a2 b2).1 (rotMoments φ a1 b1 a2 b2).2.1 (rotMoments φ a1 b1 a2 b2).2.2.1
        (rotMoments φ a1 b1 a2 b2).2.2.2 θ = memRawAt a1 b1 a2 b2 (θ - φ) := memRawAt_rot φ a1 b1 a2 b2 θ

/-- MEM as a whole (with its discrete normalisation) rotates with its input on every uniform grid -/
theorem mem_rotates {N : ℕ} [NeZero N] (θ0 : ℝ) (k : Fin N) (a1 b1 a2 b2 : ℝ) :
    let φ := (k : ℕ) * Osu.Rot.dθ N * Real.pi / 180
    let m' := rotMoments φ a1 b1 a2 b2
    memF (fun j : Fin N => memRawAt m'.1 m'.2.1 m'.2.2.1 m'.2.2.2 (Osu.Rot.theta θ0 j * Real.pi / 180))
      = Osu.Rot.rotE k (memF (fun j : Fin N => memRawAt a1 b1 a2 b2 (Osu.Rot.theta θ0 j * Real.pi / 180))) :=
  mem_grid_rot θ0 k a1 b1 a2 b2

/-- the list model `mem` on a grid is that function -/
theorem mem_model_bridge {N : ℕ} (a1 b1 a2 b2 : ℝ) (θ : Fin N → ℝ) :
    mem a1 b1 a2 b2 (List.ofFn fun j => (Real.cos (θ j), Real.sin (θ j), Real.cos (2 * θ j), Real.sin (2 * θ j)))
      = List.ofFn (memF fun j => memRawAt a1 b1 a2 b2 (θ j)) := mem_bridge a1 b1 a2 b2 θ

/-- the constraint function is equivariant on the uniform grid: `F(Rλ; RM) = R F(λ; M)` -/
theorem constraints_rotate {N : ℕ} [NeZero N] (θ0 Δ : ℝ) (k : Fin N) (lam M : List ℝ) (hM : M.length = 4) :
    constraints (rotLam (phiR k) lam) (rotLam (phiR k) M) (gridDelta N Δ) (gridT (N := N) θ0)
      = rotLam (phiR k) (constraints lam M (gridDelta N Δ) (gridT (N := N) θ0)) :=
  constraints_rot θ0 Δ k lam M hM

/-- `J(Rλ) = R J(λ) Rᵀ`: on every uniform grid the Jacobian at the rotated multipliers is the
Jacobian conjugated by the rotation (entry by entry, `Rmat` being the entries of `R`) — the fact
that makes an exact Newton step equivariant -/
theorem jacobian_rotates {N : ℕ} [NeZero N] (θ0 Δ : ℝ) (hΔ : 0 < Δ) (k : Fin N) (lam : List ℝ) (m n : ℕ)
    (hm : m < 4) (hn : n < 4) :
    ((jacobian (rotLam (phiR k) lam) (gridDelta N Δ) (gridT (N := N) θ0)).getD m []).getD n 0
      = ∑ a ∈ Finset.range 4, ∑ b ∈ Finset.range 4, Rmat (phiR k) m a * Rmat (phiR k) n b *
          ((jacobian lam (gridDelta N Δ) (gridT (N := N) θ0)).getD a []).getD b 0 := by
  have hN : 0 < N := Nat.pos_of_ne_zero (NeZero.ne N)
  have hδ : ∀ d ∈ gridDelta N Δ, 0 < d := by
    intro d hd; simp only [gridDelta, List.mem_ofFn] at hd; obtain ⟨_, rfl⟩ := hd; exact hΔ
  have hT : gridT (N := N) θ0 ≠ [] := by
    intro h; have := congrArg List.length h; simp [gridT] at this; omega
  have hd : gridDelta N Δ ≠ [] := by
    intro h; have := congrArg List.length h; simp [gridDelta] at this; omega
  rw [jacobian_is_covariance _ _ _ m n hm hn hδ hT hd, covEntry_rot θ0 Δ k lam m n hm hn]
  apply Finset.sum_congr rfl; intro a ha
  apply Finset.sum_congr rfl; intro b hb
  rw [jacobian_is_covariance _ _ _ a b (Finset.mem_range.1 ha) (Finset.mem_range.1 hb) hδ hT hd]

/-- **MEM2 / Newton rotates with its input**: the whole damped Newton iteration with its line search
(any tolerance, iteration cap, line-search depth; converged or not) maps moments rotated by `k` bins
to the distribution rotated by `k` bins, on every uniform grid, provided the Newton step
(Jacobian + linear solve) is equivariant — hypothesis `StepEquivariant`, discharged for exact linear
solves by `exact_step_equivariant` below -/
theorem newton_rotates {N : ℕ} [NeZero N] (solve : List (List ℝ) → List ℝ → List ℝ) (atol : ℝ) (maxIter lsDepth : ℕ)
    (θ0 Δ : ℝ) (k : Fin N) (hS : StepEquivariant solve θ0 Δ k) (a1 b1 a2 b2 : ℝ) :
    ∃ D : Fin N → ℝ,
      mem2Newton solve atol maxIter lsDepth [a1, b1, a2, b2] (gridDelta N Δ) (gridT (N := N) θ0) = List.ofFn D ∧
      mem2Newton solve atol maxIter lsDepth (rotLam (phiR k) [a1, b1, a2, b2]) (gridDelta N Δ) (gridT (N := N) θ0)
        = List.ofFn (Osu.Rot.rotE k D) :=
  mem2Newton_rot solve atol maxIter lsDepth θ0 Δ k hS a1 b1 a2 b2

/-- an exact Newton step is equivariant: if `solve` returns the solution of `J x = g` and the
Jacobians are nonsingular, then `solve J(Rλ) (R g) = R (solve J(λ) g)` (from `jacobian_rotates` and
the orthogonality of `R`) -/
theorem exact_step_equivariant {N : ℕ} [NeZero N] (solve : List (List ℝ) → List ℝ → List ℝ) (θ0 Δ : ℝ) (hΔ : 0 < Δ)
    (k : Fin N) (hE : ExactSolve (N := N) solve θ0 Δ) : StepEquivariant solve θ0 Δ k :=
  stepEquivariant_of_exact solve θ0 Δ hΔ k hE

/-- **MEM2 / Newton with an exact linear solver rotates with its input** — no further hypothesis:
for every uniform grid, rotation `k`, tolerance, iteration cap and line-search depth, converged
or not, the distribution returned for the rotated moments is the rotated distribution -/
theorem newton_rotates_exact {N : ℕ} [NeZero N] (solve : List (List ℝ) → List ℝ → List ℝ) (atol : ℝ) (maxIter lsDepth : ℕ)
    (θ0 Δ : ℝ) (hΔ : 0 < Δ) (k : Fin N) (hE : ExactSolve (N := N) solve θ0 Δ) (a1 b1 a2 b2 : ℝ) :
    ∃ D : Fin N → ℝ,
      mem2Newton solve atol maxIter lsDepth [a1, b1, a2, b2] (gridDelta N Δ) (gridT (N := N) θ0) = List.ofFn D ∧
      mem2Newton solve atol maxIter lsDepth (rotLam (phiR k) [a1, b1, a2, b2]) (gridDelta N Δ) (gridT (N := N) θ0)
        = List.ofFn (Osu.Rot.rotE k D) :=
  mem2Newton_rot_exact solve atol maxIter lsDepth θ0 Δ hΔ k hE a1 b1 a2 b2

/-! ### mirror image (`b1, b2 ↦ −b1, −b2`; `D(θ) ↦ D(−θ)`), uniform grids starting at 0 -/

/-- MEM: the value of mirrored moments at `θ` is the value of the original moments at `−θ`, and MEM
with its discrete normalisation mirrors on the grid -/
theorem mem_mirrors {N : ℕ} [NeZero N] (a1 b1 a2 b2 : ℝ) :
    memF (fun j : Fin N => memRawAt a1 (-b1) a2 (-b2) (thetaR (N := N) 0 j))
      = Osu.Rot.mirE (memF (fun j : Fin N => memRawAt a1 b1 a2 b2 (thetaR (N := N) 0 j))) :=
  mem_grid_mirror a1 b1 a2 b2

/-- the `approximate` variant mirrors with its input -/
theorem approximate_mirrors {N : ℕ} [NeZero N] (Δ a1 b1 a2 b2 : ℝ) :
    distF (fun j : Fin N => ipOf (initialValue a1 (-b1) a2 (-b2)) (twiddleCol (thetaR (N := N) 0 j))) Δ
      = Osu.Rot.mirE (distF (fun j : Fin N => ipOf (initialValue a1 b1 a2 b2) (twiddleCol (thetaR (N := N) 0 j))) Δ) :=
  approximate_mirror Δ a1 b1 a2 b2

/-- MEM2 / Newton with an exact linear solver mirrors with its input (`J(Sλ) = S J(λ) S`, the
constraint function commutes with the mirror, the line search makes identical decisions) -/
theorem newton_mirrors_exact {N : ℕ} [NeZero N] (solve : List (List ℝ) → List ℝ → List ℝ) (atol : ℝ) (maxIter lsDepth : ℕ)
    (Δ : ℝ) (hΔ : 0 < Δ) (hE : ExactSolve (N := N) solve 0 Δ) (a1 b1 a2 b2 : ℝ) :
    ∃ D : Fin N → ℝ,
      mem2Newton solve atol maxIter lsDepth [a1, b1, a2, b2] (gridDelta N Δ) (gridT (N := N) 0) = List.ofFn D ∧
      mem2Newton solve atol maxIter lsDepth [a1, -b1, a2, -b2] (gridDelta N Δ) (gridT (N := N) 0)
        = List.ofFn (Osu.Rot.mirE D) :=
  mem2Newton_mirror_exact solve atol maxIter lsDepth Δ hΔ hE a1 b1 a2 b2

/-! non-vacuity: the hypotheses of the theorems above are met by concrete inputs -/
example : (∀ d ∈ ([1, 1, 1] : List ℝ), 0 < d) ∧ ([[1, 0, 1, 0], [0, 1, -1, 0], [-1, 0, 1, 0]] : List (List ℝ)) ≠ [] ∧
    ([0.1, 0.2, 0, 0] : List ℝ).length = 4 := by
  refine ⟨?_, by simp, rfl⟩
  intro d hd; simp at hd; rcases hd with rfl | rfl | rfl <;> norm_num
example : rotMoments (0 : ℝ) 0.5 0.1 0.2 0 = ((0.5 : ℝ), (0.1 : ℝ), (0.2 : ℝ), (0 : ℝ)) := by simp [rotMoments]

-- the hypothesis `StepEquivariant` is satisfiable (a steepest-descent step: the update is the residual itself)
example {N : ℕ} [NeZero N] (θ0 Δ : ℝ) (k : Fin N) :
    StepEquivariant (fun _ g => [g.getD 0 0, g.getD 1 0, g.getD 2 0, g.getD 3 0]) θ0 Δ k := by
  refine ⟨?_, fun _ _ => rfl⟩
  intro lam g _ _
  simp [rotLam]

/-! ### the linear solve of the Newton step (`solve_cholesky`) -/

/-- **`solve_cholesky` is an exact solver on symmetric 4×4 systems**: whenever it returns a vector
(every pivot positive) that vector satisfies all four equations, for any matrix and right-hand side
(model `cholSolve`: Cholesky–Banachiewicz factorisation, forward and back substitution, as coded) -/
theorem cholesky_solves_4x4 (a00 a10 a11 a20 a21 a22 a30 a31 a32 a33 b0 b1 b2 b3 : ℝ) (x : List ℝ)
    (h : cholSolve [[a00, a10, a20, a30], [a10, a11, a21, a31], [a20, a21, a22, a32], [a30, a31, a32, a33]]
      [b0, b1, b2, b3] = some x) :
    ∃ x0 x1 x2 x3 : ℝ, x = [x0, x1, x2, x3] ∧
      a00 * x0 + a10 * x1 + a20 * x2 + a30 * x3 = b0 ∧
      a10 * x0 + a11 * x1 + a21 * x2 + a31 * x3 = b1 ∧
      a20 * x0 + a21 * x1 + a22 * x2 + a32 * x3 = b2 ∧
      a30 * x0 + a31 * x1 + a32 * x2 + a33 * x3 = b3 :=
  cholSolve4_solves a00 a10 a11 a20 a21 a22 a30 a31 a32 a33 b0 b1 b2 b3 x h

/-- hence the step the Newton iteration takes with it is the exact Newton step `J x = g` for the
constraint Jacobian of any multipliers, on any grid (the `solves` clause of `ExactSolve`, which the
rotation and mirror theorems of the Newton iteration assume of the solver) -/
theorem cholesky_newton_step_exact (lam delta : List ℝ) (T : List (List ℝ)) (g0 g1 g2 g3 : ℝ) (x : List ℝ)
    (h : cholSolve (jacobian lam delta T) [g0, g1, g2, g3] = some x) :
    x.length = 4 ∧ Matrix.mulVec (toMat (jacobian lam delta T)) (toVec x) = toVec [g0, g1, g2, g3] :=
  cholSolve_jacobian_exact lam delta T g0 g1 g2 g3 x h

/-- **total correctness on symmetric positive definite systems**: if `vᵀ A v > 0` for every `v ≠ 0`
then no pivot of the factorisation is non-positive, a vector is returned, and it solves the system -/
theorem cholesky_total_on_spd (a00 a10 a11 a20 a21 a22 a30 a31 a32 a33 b0 b1 b2 b3 : ℝ)
    (hPD : PosDef4 a00 a10 a11 a20 a21 a22 a30 a31 a32 a33) :
    ∃ x0 x1 x2 x3 : ℝ,
      cholSolve [[a00, a10, a20, a30], [a10, a11, a21, a31], [a20, a21, a22, a32], [a30, a31, a32, a33]]
        [b0, b1, b2, b3] = some [x0, x1, x2, x3] ∧
      a00 * x0 + a10 * x1 + a20 * x2 + a30 * x3 = b0 ∧
      a10 * x0 + a11 * x1 + a21 * x2 + a31 * x3 = b1 ∧
      a20 * x0 + a21 * x1 + a22 * x2 + a32 * x3 = b2 ∧
      a30 * x0 + a31 * x1 + a32 * x2 + a33 * x3 = b3 := by
  obtain ⟨x, hx⟩ := cholSolve4_succeeds a00 a10 a11 a20 a21 a22 a30 a31 a32 a33 b0 b1 b2 b3 hPD
  obtain ⟨x0, x1, x2, x3, rfl, h0, h1, h2, h3⟩ := cholSolve4_solves _ _ _ _ _ _ _ _ _ _ _ _ _ _ x hx
  exact ⟨x0, x1, x2, x3, hx, h0, h1, h2, h3⟩

/-- positive definite matrices exist: the identity -/
example : PosDef4 1 0 1 0 0 1 0 0 0 1 := by
  intro v0 v1 v2 v3 h
  simp only [quad4]
  have : 0 < v0 * v0 + v1 * v1 + v2 * v2 + v3 * v3 := by
    rcases h with h | h | h | h
    · have := mul_self_pos.2 h; nlinarith [mul_self_nonneg v1, mul_self_nonneg v2, mul_self_nonneg v3]
    · have := mul_self_pos.2 h; nlinarith [mul_self_nonneg v0, mul_self_nonneg v2, mul_self_nonneg v3]
    · have := mul_self_pos.2 h; nlinarith [mul_self_nonneg v0, mul_self_nonneg v1, mul_self_nonneg v3]
    · have := mul_self_pos.2 h; nlinarith [mul_self_nonneg v0, mul_self_nonneg v1, mul_self_nonneg v2]
  nlinarith

/-! ### closing the loop: the iteration with the model's own solver -/

/-- **the constraint Jacobian is positive definite** (not only semidefinite) for every multiplier
vector on every uniform grid with at least five directions: `x·T(θ)` cannot be constant on five or
more equally spaced directions unless `x = 0` (its sample variance is `|x|²/2`, discrete Parseval),
and a variance under positive weights vanishes only for constants -/
theorem jacobian_positive_definite {N : ℕ} [NeZero N] (hN : 5 ≤ N) (θ0 Δ : ℝ) (hΔ : 0 < Δ) (lam : List ℝ) :
    PosDef4 (jacEntry lam (gridDelta N Δ) (gridT (N := N) θ0) 0 0)
      (jacEntry lam (gridDelta N Δ) (gridT (N := N) θ0) 1 0) (jacEntry lam (gridDelta N Δ) (gridT (N := N) θ0) 1 1)
      (jacEntry lam (gridDelta N Δ) (gridT (N := N) θ0) 2 0) (jacEntry lam (gridDelta N Δ) (gridT (N := N) θ0) 2 1)
      (jacEntry lam (gridDelta N Δ) (gridT (N := N) θ0) 2 2)
      (jacEntry lam (gridDelta N Δ) (gridT (N := N) θ0) 3 0) (jacEntry lam (gridDelta N Δ) (gridT (N := N) θ0) 3 1)
      (jacEntry lam (gridDelta N Δ) (gridT (N := N) θ0) 3 2) (jacEntry lam (gridDelta N Δ) (gridT (N := N) θ0) 3 3) :=
  jacobian_posDef hN θ0 Δ hΔ lam

/-- so the Cholesky solver of the model (`cholSolve4`: the value the iteration uses) never fails on
it and is an exact solver: the hypothesis of the rotation / mirror theorems holds for it -/
theorem cholesky_is_exact_solver {N : ℕ} [NeZero N] (hN : 5 ≤ N) (bad θ0 Δ : ℝ) (hΔ : 0 < Δ) :
    ExactSolve (N := N) (cholSolve4 bad) θ0 Δ :=
  exactSolve_cholesky hN bad θ0 Δ hΔ

/-- **MEM2 / Newton as modelled — damped Newton iteration, line search, Cholesky solve — rotates with
its input, with no hypothesis on the solver**: for every uniform grid with `N ≥ 5`, every rotation `k`,
tolerance, iteration cap and line-search depth, converged or not -/
theorem newton_rotates_cholesky {N : ℕ} [NeZero N] (hN : 5 ≤ N) (bad atol : ℝ) (maxIter lsDepth : ℕ)
    (θ0 Δ : ℝ) (hΔ : 0 < Δ) (k : Fin N) (a1 b1 a2 b2 : ℝ) :
    ∃ D : Fin N → ℝ,
      mem2Newton (cholSolve4 bad) atol maxIter lsDepth [a1, b1, a2, b2] (gridDelta N Δ) (gridT (N := N) θ0) = List.ofFn D ∧
      mem2Newton (cholSolve4 bad) atol maxIter lsDepth (rotLam (phiR k) [a1, b1, a2, b2]) (gridDelta N Δ) (gridT (N := N) θ0)
        = List.ofFn (Osu.Rot.rotE k D) :=
  mem2Newton_rot_exact (cholSolve4 bad) atol maxIter lsDepth θ0 Δ hΔ k (exactSolve_cholesky hN bad θ0 Δ hΔ) a1 b1 a2 b2

/-- … and mirrors with it (grid starting at 0) -/
theorem newton_mirrors_cholesky {N : ℕ} [NeZero N] (hN : 5 ≤ N) (bad atol : ℝ) (maxIter lsDepth : ℕ)
    (Δ : ℝ) (hΔ : 0 < Δ) (a1 b1 a2 b2 : ℝ) :
    ∃ D : Fin N → ℝ,
      mem2Newton (cholSolve4 bad) atol maxIter lsDepth [a1, b1, a2, b2] (gridDelta N Δ) (gridT (N := N) 0) = List.ofFn D ∧
      mem2Newton (cholSolve4 bad) atol maxIter lsDepth [a1, -b1, a2, -b2] (gridDelta N Δ) (gridT (N := N) 0)
        = List.ofFn (Osu.Rot.mirE D) :=
  mem2Newton_mirror_exact (cholSolve4 bad) atol maxIter lsDepth Δ hΔ (exactSolve_cholesky hN bad 0 Δ hΔ) a1 b1 a2 b2

/-- the hypothesis is met: the identity matrix is factorised and the system solved -/
example : cholSolve [[1, 0, 0, 0], [0, 1, 0, 0], [0, 0, 1, 0], [0, 0, 0, (1 : ℝ)]] [1, 2, 3, 4] = some [1, 2, 3, 4] := by
  norm_num [cholSolve, cholForward, cholRow0, cholRow1, cholRow2, cholRow3, cholBackward4]

end Osu.Props.C06
