import OsuProofs.SourceTerms
import OsuProofs.Support
/-
C08 — source terms: sign, support, scaling; bulk rates integrate the spectral rates.

Model `OsuModel/SourceTerms.lean` at ℝ.  Parameters are assumed physical: densities, constants,
frequencies, group velocities and bin widths non-negative (the hypotheses are explicit).
-/
namespace Osu.Props.C08
open Osu.ST Osu.Solv

/-- physical generation parameters -/
structure GenOk (p : GenP ℝ) : Prop where
  betamax : 0 ≤ p.betamax
  rhoAir : 0 ≤ p.rhoAir
  rhoWater : 0 ≤ p.rhoWater

/-! ### wind input -/

theorem st4Growth_nonneg (p : GenP ℝ) (hp : GenOk p) (k om ustar z0 c : ℝ) (hom : 0 ≤ om) :
    0 ≤ st4Growth p k om ustar z0 c := by
  simp only [st4Growth]
  have h1 : 0 ≤ p.betamax / (p.kappa * p.kappa) * p.rhoAir / p.rhoWater := by
    have := hp.betamax; have := hp.rhoAir; have := hp.rhoWater
    have : 0 ≤ p.kappa * p.kappa := mul_self_nonneg _
    positivity
  have h2 := npow_even_nonneg (if 0 < Transc.log (k * z0) + p.kappa / (k * ustar / om * c + p.zalpha * c) then 0
      else Transc.log (k * z0) + p.kappa / (k * ustar / om * c + p.zalpha * c))
  have h3 : 0 ≤ k * ustar / om * c * (k * ustar / om * c) := mul_self_nonneg _
  have h4 := (Real.exp_pos (if 0 < Transc.log (k * z0) + p.kappa / (k * ustar / om * c + p.zalpha * c) then 0
      else Transc.log (k * z0) + p.kappa / (k * ustar / om * c + p.zalpha * c))).le
  exact mul_nonneg (mul_nonneg (mul_nonneg (mul_nonneg h1 h4) h2) h3) hom

/-- the wind-input term of a bin is non-negative -/
theorem st4Rate_nonneg (p : GenP ℝ) (hp : GenOk p) (k om ustar z0 c e : ℝ) (hom : 0 ≤ om) (he : 0 ≤ e) :
    0 ≤ st4Rate p k om ustar z0 c e := by
  simp only [st4Rate]
  split
  · exact mul_nonneg (st4Growth_nonneg p hp k om ustar z0 c hom) he
  · exact le_refl _

/-- zero in a bin without energy -/
theorem st4Rate_zero_of_no_energy (p : GenP ℝ) (k om ustar z0 c : ℝ) : st4Rate p k om ustar z0 c 0 = 0 := by
  simp [st4Rate]

/-- zero in a direction with no downwind component -/
theorem st4Rate_zero_of_no_downwind (p : GenP ℝ) (k om ustar z0 c e : ℝ) (hc : c ≤ 0) :
    st4Rate p k om ustar z0 c e = 0 := by
  simp [st4Rate, not_lt.2 hc]

/-- at fixed roughness length (hence fixed friction velocity) proportional to the variance density -/
theorem st4Rate_linear (p : GenP ℝ) (k om ustar z0 c a e : ℝ) :
    st4Rate p k om ustar z0 c (a * e) = a * st4Rate p k om ustar z0 c e := by
  simp only [st4Rate]
  split <;> ring

/-- the whole field: non-negative for a non-negative spectrum, whatever the wind and roughness -/
theorem st4Input_nonneg (flr : ℝ → ℝ) (p : GenP ℝ) (hp : GenOk p) (g : Grid ℝ) (kin : Kin ℝ) (E : List (List ℝ))
    (w : Wind ℝ) (z0 : ℝ) (hE : ∀ row ∈ E, ∀ e ∈ row, 0 ≤ e) (hom : ∀ om ∈ g.omega, 0 ≤ om) :
    ∀ row ∈ st4Input flr p g kin E w z0, ∀ x ∈ row, 0 ≤ x := by
  intro row hrow x hx
  simp only [st4Input] at hrow
  obtain ⟨erow, herow, ko, hko, rfl⟩ := mem_zipWith _ _ _ _ hrow
  obtain ⟨e, he, c, _, rfl⟩ := mem_zipWith _ _ _ _ hx
  exact st4Rate_nonneg p hp _ _ _ _ _ _ (hom _ (List.of_mem_zip hko).2) (hE _ herow _ he)

/-- the whole field scales with the spectrum at fixed roughness -/
theorem st4Input_scale (flr : ℝ → ℝ) (p : GenP ℝ) (g : Grid ℝ) (kin : Kin ℝ) (E : List (List ℝ)) (w : Wind ℝ) (z0 a : ℝ) :
    st4Input flr p g kin (E.map fun row => row.map (a * ·)) w z0 =
      (st4Input flr p g kin E w z0).map fun row => row.map (a * ·) := by
  simp only [st4Input]
  generalize kin.k.zip g.omega = KO
  induction E generalizing KO with
  | nil => simp
  | cons row E ih =>
    cases KO with
    | nil => simp
    | cons ko KO =>
      simp only [List.map_cons, List.zipWith_cons_cons, ih KO]
      congr 1
      exact zipWith_scale _ a (fun e c => st4Rate_linear p _ _ _ _ c a e) row _

/-! ### dissipation -/

theorem satEntry_nonpos (bp : BrkP ℝ) (om iso e b : ℝ) (hcs : 0 ≤ bp.csat) (hom : 0 ≤ om) (he : 0 ≤ e) :
    satEntry bp om iso e b ≤ 0 := by
  simp only [satEntry]
  have h := mul_self_nonneg (iso + if (b - bp.threshold) / bp.threshold * (1 - bp.dirControl) < 0 then 0
      else (b - bp.threshold) / bp.threshold * (1 - bp.dirControl))
  have : 0 ≤ bp.csat * ((iso + if (b - bp.threshold) / bp.threshold * (1 - bp.dirControl) < 0 then 0
      else (b - bp.threshold) / bp.threshold * (1 - bp.dirControl)) * (iso + if (b - bp.threshold) / bp.threshold * (1 - bp.dirControl) < 0 then 0
      else (b - bp.threshold) / bp.threshold * (1 - bp.dirControl))) * om * e := by positivity
  linarith

theorem satEntry_zero_of_no_energy (bp : BrkP ℝ) (om iso b : ℝ) : satEntry bp om iso 0 b = 0 := by
  simp [satEntry]

theorem cumEntry_nonpos (bp : BrkP ℝ) (s e : ℝ) (hc : 0 ≤ bp.ccu) (hs : 0 ≤ s) (he : 0 ≤ e) : cumEntry bp s e ≤ 0 := by
  simp only [cumEntry]
  have : (0 : ℝ) ≤ ((144 : ℕ) : ℝ) / ((100 : ℕ) : ℝ) * bp.ccu * s * e := by positivity
  linarith

theorem cumEntry_zero_of_no_energy (bp : BrkP ℝ) (s : ℝ) : cumEntry bp s 0 = 0 := by simp [cumEntry]

/-- the strength integral of the cumulative term is non-negative -/
theorem cumulativeStrength_nonneg (bp : BrkP ℝ) (g : Grid ℝ) (kin : Kin ℝ) (T : List (List ℝ)) (om ce cn : ℝ)
    (hdf : ∀ d ∈ g.df, 0 ≤ d) (hdth : ∀ d ∈ g.dth, 0 ≤ d) (hcg : ∀ c ∈ kin.cg, 0 ≤ c) :
    0 ≤ cumulativeStrength bp g kin T om ce cn := by
  simp only [cumulativeStrength]
  apply lsum_nonneg
  intro x hx
  simp only [List.mem_map] at hx
  obtain ⟨r, hr, rfl⟩ := hx
  have hr' := (List.takeWhile_sublist _).subset hr
  have h1 := (List.of_mem_zip hr').2
  have h2 := (List.of_mem_zip h1).2
  have hcg' : 0 ≤ r.2.2.1 := hcg _ (List.of_mem_zip h2).1
  have hdf' : 0 ≤ r.2.2.2.2 := hdf _ (List.of_mem_zip (List.of_mem_zip h2).2).2
  apply lsum_nonneg
  intro y hy
  obtain ⟨t, _, td, htd, rfl⟩ := mem_zipWith _ _ _ _ hy
  have hdth' : 0 ≤ td.2 := hdth _ (List.of_mem_zip htd).2
  split
  · exact le_refl _
  · have hs := Real.sqrt_nonneg ((Transc.cos td.1 * r.2.2.2.1 - ce) * (Transc.cos td.1 * r.2.2.2.1 - ce) +
        (Transc.sin td.1 * r.2.2.2.1 - cn) * (Transc.sin td.1 * r.2.2.2.1 - cn))
    have hpi := Real.pi_pos
    have hj : 0 ≤ twoPi * (1 / r.2.2.1) * (Transc.pi / ((180 : ℕ) : ℝ)) := by
      simp only [twoPi, Solv.two, Transc.pi]
      positivity
    have ht : 0 ≤ t * t := mul_self_nonneg t
    simp only [Transc.sqrt]
    positivity

/-- ST4 breaking (saturation + cumulative) is non-positive for a non-negative spectrum -/
theorem saturationBreaking_nonpos (bp : BrkP ℝ) (g : Grid ℝ) (E B : List (List ℝ))
    (hE : ∀ row ∈ E, ∀ e ∈ row, 0 ≤ e) (hom : ∀ om ∈ g.omega, 0 ≤ om) :
    ∀ row ∈ saturationBreaking bp g E B, ∀ x ∈ row, x ≤ 0 := by
  intro row hrow x hx
  simp only [saturationBreaking] at hrow
  split at hrow
  · simp only [List.mem_map] at hrow
    obtain ⟨r, _, rfl⟩ := hrow
    simp only [List.mem_map] at hx
    obtain ⟨_, _, rfl⟩ := hx
    exact le_refl _
  · rename_i hcs
    rw [not_not] at hcs
    obtain ⟨eb, heb, om, hom', rfl⟩ := mem_zipWith _ _ _ _ hrow
    obtain ⟨e, he, b, _, rfl⟩ := mem_zipWith _ _ _ _ hx
    exact satEntry_nonpos bp om _ e b hcs.le (hom _ hom') (hE _ (List.of_mem_zip heb).1 _ he)

theorem cumulativeBreaking_nonpos (bp : BrkP ℝ) (g : Grid ℝ) (kin : Kin ℝ) (E B : List (List ℝ))
    (hE : ∀ row ∈ E, ∀ e ∈ row, 0 ≤ e)
    (hdf : ∀ d ∈ g.df, 0 ≤ d) (hdth : ∀ d ∈ g.dth, 0 ≤ d) (hcg : ∀ c ∈ kin.cg, 0 ≤ c) :
    ∀ row ∈ cumulativeBreaking bp g kin E B, ∀ x ∈ row, x ≤ 0 := by
  intro row hrow x hx
  simp only [cumulativeBreaking] at hrow
  split at hrow
  · simp only [List.mem_map] at hrow
    obtain ⟨r, _, rfl⟩ := hrow
    simp only [List.mem_map] at hx
    obtain ⟨_, _, rfl⟩ := hx
    exact le_refl _
  · rename_i hcc
    rw [not_not] at hcc
    obtain ⟨erow, herow, oc, _, rfl⟩ := mem_zipWith _ _ _ _ hrow
    obtain ⟨e, he, th, _, rfl⟩ := mem_zipWith _ _ _ _ hx
    exact cumEntry_nonpos bp _ e hcc.le (cumulativeStrength_nonneg bp g kin _ _ _ _ hdf hdth hcg) (hE _ herow _ he)

/-- ST6 -/
theorem st6Entry_nonpos (sp : St6P ℝ) (rel run om e : ℝ) (ha1 : 0 ≤ sp.a1) (ha2 : 0 ≤ sp.a2)
    (hrel : 0 ≤ rel) (hrun : 0 ≤ run) (hom : 0 ≤ om) (he : 0 ≤ e) : st6Entry sp rel run om e ≤ 0 := by
  simp only [st6Entry, Solv.two, Transc.pi]
  have h1 := npow_nonneg rel hrel sp.p1
  have h2 := npow_nonneg run hrun sp.p2
  have hpi := Real.pi_pos
  have : 0 ≤ sp.a1 * npow rel sp.p1 * (om / ((2 : ℕ) : ℝ) / Real.pi) * e := by positivity
  have : 0 ≤ sp.a2 * npow run sp.p2 * e := by positivity
  linarith

theorem st6Entry_zero_of_no_energy (sp : St6P ℝ) (rel run om : ℝ) : st6Entry sp rel run om 0 = 0 := by
  simp [st6Entry]

/-! ### bulk rates and the imbalance -/

/-- the bulk rate is the double sum of the spectral rate with the spectrum's own bin widths
(definition of the model; tied to `numba_integrate_spectral_data` by the correspondence) -/
theorem bulk_def (g : Grid ℝ) (data : List (List ℝ)) :
    bulk g data = lsum (List.zipWith (fun row df => lsum (List.zipWith (fun v dth => v * df * dth) row g.dth)) data g.df) := rfl

/-- the bulk rate of a non-negative field is non-negative (so bulk input ≥ 0, bulk dissipation ≤ 0) -/
theorem bulk_nonneg (g : Grid ℝ) (data : List (List ℝ)) (h : ∀ row ∈ data, ∀ x ∈ row, 0 ≤ x)
    (hdf : ∀ d ∈ g.df, 0 ≤ d) (hdth : ∀ d ∈ g.dth, 0 ≤ d) : 0 ≤ bulk g data := by
  simp only [bulk]
  apply lsum_nonneg
  intro x hx
  obtain ⟨row, hrow, df, hdf', rfl⟩ := mem_zipWith _ _ _ _ hx
  apply lsum_nonneg
  intro y hy
  obtain ⟨v, hv, dth, hdth', rfl⟩ := mem_zipWith _ _ _ _ hy
  have := h row hrow v hv; have := hdf df hdf'; have := hdth dth hdth'
  positivity

/-- each point of a batch gets the result it would get alone: the batch model is a map -/
theorem batch_independent {β γ : Type} (term : β → γ) (batch : List β) (i : ℕ) (h : i < batch.length) :
    (batch.map term)[i]'(by simpa using h) = term batch[i] := by simp

/-! ### whole fields: sign, support, empty spectrum -/

/-- entries of a sum of two fields -/
theorem addFields_nonpos (A B : List (List ℝ)) (hA : ∀ row ∈ A, ∀ x ∈ row, x ≤ 0) (hB : ∀ row ∈ B, ∀ x ∈ row, x ≤ 0) :
    ∀ row ∈ addFields A B, ∀ x ∈ row, x ≤ 0 := by
  intro row hrow x hx
  obtain ⟨ra, hra, rb, hrb, rfl⟩ := mem_zipWith _ _ _ _ hrow
  obtain ⟨a, ha, b, hb, rfl⟩ := mem_zipWith _ _ _ _ hx
  have := hA ra hra a ha; have := hB rb hrb b hb
  linarith

/-- **ST4 whitecapping (saturation + cumulative) is non-positive everywhere** for a non-negative spectrum -/
theorem st4Dissipation_nonpos (flr : ℝ → ℝ) (bp : BrkP ℝ) (g : Grid ℝ) (kin : Kin ℝ) (E : List (List ℝ))
    (hE : ∀ row ∈ E, ∀ e ∈ row, 0 ≤ e) (hom : ∀ om ∈ g.omega, 0 ≤ om)
    (hdf : ∀ d ∈ g.df, 0 ≤ d) (hdth : ∀ d ∈ g.dth, 0 ≤ d) (hcg : ∀ c ∈ kin.cg, 0 ≤ c) :
    ∀ row ∈ st4Dissipation flr bp g kin E, ∀ x ∈ row, x ≤ 0 := by
  simp only [st4Dissipation]
  exact addFields_nonpos _ _ (cumulativeBreaking_nonpos bp g kin E _ hE hdf hdth hcg)
    (saturationBreaking_nonpos bp g E _ hE hom)

theorem st6Exceedance_nonneg (sp : St6P ℝ) (g : Grid ℝ) (kin : Kin ℝ) (E : List (List ℝ)) :
    ∀ r ∈ st6Exceedance sp g kin E, 0 ≤ r := by
  intro r hr
  simp only [st6Exceedance] at hr
  obtain ⟨e1, _, ck, _, rfl⟩ := mem_zipWith _ _ _ _ hr
  split
  · exact le_of_lt ‹_›
  · exact le_refl _

theorem runSums_nonneg (acc : ℝ) (hacc : 0 ≤ acc) (xs : List ℝ) (hx : ∀ x ∈ xs, 0 ≤ x) : ∀ s ∈ runSums acc xs, 0 ≤ s := by
  induction xs generalizing acc with
  | nil => simp [runSums]
  | cons x xs ih =>
    intro s hs
    simp only [runSums, List.mem_cons] at hs
    have hx0 := hx x List.mem_cons_self
    rcases hs with rfl | hs
    · linarith
    · exact ih (acc + x) (by linarith) (fun y hy => hx y (List.mem_cons_of_mem _ hy)) s hs

/-- **ST6 whitecapping is non-positive everywhere** for a non-negative spectrum -/
theorem st6Dissipation_nonpos (sp : St6P ℝ) (g : Grid ℝ) (kin : Kin ℝ) (E : List (List ℝ))
    (ha1 : 0 ≤ sp.a1) (ha2 : 0 ≤ sp.a2)
    (hE : ∀ row ∈ E, ∀ e ∈ row, 0 ≤ e) (hom : ∀ om ∈ g.omega, 0 ≤ om) (hdf : ∀ d ∈ g.df, 0 ≤ d) :
    ∀ row ∈ st6Dissipation sp g kin E, ∀ x ∈ row, x ≤ 0 := by
  intro row hrow x hx
  simp only [st6Dissipation] at hrow
  obtain ⟨erow, herow, ro, hro, rfl⟩ := mem_zipWith _ _ _ _ hrow
  simp only [List.mem_map] at hx
  obtain ⟨e, he, rfl⟩ := hx
  have h1 := List.of_mem_zip hro
  have h2 := List.of_mem_zip h1.2
  apply st6Entry_nonpos sp _ _ _ _ ha1 ha2 (st6Exceedance_nonneg sp g kin E _ h1.1) _ (hom _ h2.2) (hE _ herow _ he)
  apply runSums_nonneg 0 (le_refl _) _ _ _ h2.1
  intro y hy
  obtain ⟨r, hr, d, hd, rfl⟩ := mem_zipWith _ _ _ _ hy
  exact mul_nonneg (st6Exceedance_nonneg sp g kin E r hr) (hdf d hd)

/-- **support of the wind input**: zero in every bin where the spectrum has no energy (positionally) -/
theorem st4Input_support (flr : ℝ → ℝ) (p : GenP ℝ) (g : Grid ℝ) (kin : Kin ℝ) (E : List (List ℝ)) (w : Wind ℝ) (z0 : ℝ) :
    Supp E (st4Input flr p g kin E w z0) := by
  simp only [st4Input]
  apply supp_zipWith
  intro row ko
  exact suppRow_zipWith _ (fun c => st4Rate_zero_of_no_energy p _ _ _ _ c) row _

/-- **support of the ST4 dissipation** -/
theorem st4Dissipation_support (flr : ℝ → ℝ) (bp : BrkP ℝ) (g : Grid ℝ) (kin : Kin ℝ) (E : List (List ℝ)) :
    Supp E (st4Dissipation flr bp g kin E) := by
  simp only [st4Dissipation]
  apply supp_add
  · simp only [cumulativeBreaking]
    split
    · exact supp_map_zero E
    · apply supp_zipWith
      intro row oc
      exact suppRow_zipWith _ (fun th => cumEntry_zero_of_no_energy bp _) row _
  · simp only [saturationBreaking]
    split
    · exact supp_map_zero E
    · apply supp_zipWith_zip
      intro eb om
      exact suppRow_zipWith _ (fun b => satEntry_zero_of_no_energy bp om _ b) eb.1 eb.2

/-- **support of the ST6 dissipation** -/
theorem st6Dissipation_support (sp : St6P ℝ) (g : Grid ℝ) (kin : Kin ℝ) (E : List (List ℝ)) :
    Supp E (st6Dissipation sp g kin E) := by
  simp only [st6Dissipation]
  apply supp_zipWith
  intro row ro
  exact suppRow_map _ (st6Entry_zero_of_no_energy sp _ _ _) row

/-- a field supported on an empty spectrum is identically zero -/
theorem zero_of_empty (E D : List (List ℝ)) (h : Supp E D) (hE : ∀ row ∈ E, ∀ e ∈ row, e = 0) : ∀ i j, entry D i j = 0 := by
  intro i j
  apply h
  simp only [entry, List.getD_eq_getElem?_getD]
  cases hr : E[i]? with
  | none => simp
  | some row =>
    simp only [Option.getD_some]
    cases he : row[j]? with
    | none => simp
    | some e => simpa using hE row (List.mem_of_getElem? hr) e (List.mem_of_getElem? he)

/-- **dissipation of an empty spectrum is identically zero** (ST4 and ST6) -/
theorem dissipation_of_empty_spectrum (flr : ℝ → ℝ) (bp : BrkP ℝ) (sp : St6P ℝ) (g : Grid ℝ) (kin : Kin ℝ) (E : List (List ℝ))
    (hE : ∀ row ∈ E, ∀ e ∈ row, e = 0) :
    (∀ i j, entry (st4Dissipation flr bp g kin E) i j = 0) ∧ (∀ i j, entry (st6Dissipation sp g kin E) i j = 0) :=
  ⟨zero_of_empty E _ (st4Dissipation_support flr bp g kin E) hE, zero_of_empty E _ (st6Dissipation_support sp g kin E) hE⟩

/-- wind input in directions with no downwind component is zero: every entry of a row whose
mutual-angle cosine is `≤ 0` -/
theorem st4Input_row_zero_upwind (p : GenP ℝ) (k om ustar z0 : ℝ) (row cs : List ℝ) (j : ℕ)
    (hc : cs.getD j 0 ≤ 0) :
    (List.zipWith (fun e c => st4Rate p k om ustar z0 c e) row cs).getD j 0 = 0 := by
  simp only [List.getD_eq_getElem?_getD, List.getElem?_zipWith] at hc ⊢
  cases hr : row[j]? with
  | none => simp
  | some e =>
    cases hcs : cs[j]? with
    | none => simp
    | some c =>
      simp only [hcs, Option.getD_some] at hc
      simp [st4Rate_zero_of_no_downwind p k om ustar z0 c e hc]

example : GenOk (⟨9.81, none, 0.01, 1.225, 1024, 0.4, 0.006, 1.52, 10, 1.48e-5, 0⟩ : GenP ℝ) := by
  constructor <;> norm_num

end Osu.Props.C08
