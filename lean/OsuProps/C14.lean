import OsuProofs.InterpPeriodic
import Mathlib.Tactic.LinearCombination

/-!
# C14 — periodic coordinates and angular data interpolate across the wrap

Model: `enclosingPeriodic`, `fracPeriodic`, `interpPeriodicData` (`OsuModel/Interp.lean`) and
`wrapDiff` (`OsuModel/Spectral.lean`).  The unit-vector average of `_periodic_data_interpolator`
is characterised at field level (`c² + s² = 1`), its `arctan2` is libm's (exercised only).
-/

namespace Osu.Interp
open Osu.Spec

variable {α : Type} [Field α] [LinearOrder α] [IsStrictOrderedRing α]
set_option linter.unusedSectionVars false

/-- `periodic_shift`: targets that differ by any whole number of periods get the same enclosing
indices and the same fraction, hence equal results. -/
theorem targets_mod_period {floor : α → ℤ} (hf : IsFloor floor) {xp : List α} (g : Grid xp) (P : α) (hP : 0 < P)
    (x : α) (k : ℤ) (nearest : Bool) (slab : ℕ → List (Option α)) (np : ℕ) :
    interpAtPeriodic floor nearest xp P slab np (x + k * P) = interpAtPeriodic floor nearest xp P slab np x := by
  obtain ⟨h1, h2⟩ := periodic_shift hf g P hP x k
  simp only [interpAtPeriodic, h1, h2]

/-- `periodic_neighbours`: every target is interpolated between two cyclically adjacent nodes
(including the bin that spans the wrap) with a fraction in [0, 1) — no target is out of range. -/
theorem no_target_out_of_range {floor : α → ℤ} (hf : IsFloor floor) {xp : List α} {P : α}
    (cg : CircleGrid xp P) (x : α) :
    (enclosingPeriodic floor xp P x).1 < xp.length ∧
    (enclosingPeriodic floor xp P x).2 = ((enclosingPeriodic floor xp P x).1 + 1) % xp.length ∧
    0 ≤ fracPeriodic floor xp P x ∧ fracPeriodic floor xp P x < 1 :=
  periodic_neighbours hf cg x

/-- … so with clean neighbours the result is never missing: it is the convex combination of the
two cyclic neighbours. -/
theorem periodic_result_defined {floor : α → ℤ} (hf : IsFloor floor) {xp : List α} {P : α}
    (cg : CircleGrid xp P) (x : α) (slab : ℕ → List (Option α)) (np : ℕ)
    (hclean : ∀ i, (slab i).all Option.isSome = true) :
    ∀ r ∈ interpAtPeriodic floor false xp P slab np x, r ≠ none := by
  obtain ⟨_, _, t0, t1⟩ := periodic_neighbours hf cg x
  intro r hr
  simp only [interpAtPeriodic, weights, Bool.false_eq_true, if_false, combine, cornerOK, hclean,
    Bool.and_true, List.mem_map] at hr
  obtain ⟨j, _, hj⟩ := hr
  set t := fracPeriodic floor xp P x
  have hw : (1 : α) / ((2 : ℕ) : α) <
      (if decide (0 < 1 - t) = true then fill0 (some (1 - t)) else 0) +
      (if decide (0 < t) = true then fill0 (some t) else 0) := by
    have h1 : decide ((0 : α) < 1 - t) = true := by simp; linarith
    rw [if_pos h1]
    by_cases h0 : 0 < t
    · rw [if_pos (by simpa using h0)]; simp only [fill0_some]; norm_num
    · have : t = 0 := le_antisymm (not_lt.1 h0) t0
      rw [if_neg (by simpa using h0)]; simp only [fill0_some, this]; norm_num
  rw [if_pos hw] at hj
  rw [← hj]; simp

/-- `unit_vector_arc`: the weighted average of two unit vectors lies between them on the shorter
arc: it is turned away from each neighbour in the same sense (both cross products have the sign
of `u₀ × u₁`, scaled by the weights), and its projection on the bisector `u₀ + u₁` is
`1 + u₀·u₁ ≥ 0`, positive unless the neighbours are antipodal. -/
theorem unit_vector_arc (c0 s0 c1 s1 t : α) (h0 : c0 ^ 2 + s0 ^ 2 = 1) (h1 : c1 ^ 2 + s1 ^ 2 = 1) :
    let X := (1 - t) * c0 + t * c1
    let Y := (1 - t) * s0 + t * s1
    c0 * Y - s0 * X = t * (c0 * s1 - s0 * c1) ∧
    X * s1 - Y * c1 = (1 - t) * (c0 * s1 - s0 * c1) ∧
    X * (c0 + c1) + Y * (s0 + s1) = 1 + (c0 * c1 + s0 * s1) ∧
    0 ≤ 1 + (c0 * c1 + s0 * s1) := by
  refine ⟨by ring, by ring, ?_, ?_⟩
  · linear_combination (1 - t) * h0 + t * h1
  · nlinarith [sq_nonneg (c0 + c1), sq_nonneg (s0 + s1)]

/-- `wrap_range`: an interpolated angle is returned in `[discont - P, discont)` — `[0, 360)` for
direction variables (`P = discont = 360`), `[-180, 180)` for longitudes — and is equivalent to the
unwrapped value modulo `P`. -/
theorem wrap_range {floor : α → ℤ} (hf : IsFloor floor) (P d y : α) (hP : 0 < P) :
    d - P ≤ wrapDiff floor P d y ∧ wrapDiff floor P d y < d ∧ ∃ k : ℤ, wrapDiff floor P d y = y - P * k :=
  let ⟨⟨a, b⟩, c⟩ := wrapDiff_spec hf P d y hP
  ⟨a, b, c⟩

/-- `interpolate_periodic_arc`: between two samples `a`, `b` of an angular series the result is
`a + t·Δ` (mod `P`) where `Δ ≡ b - a (mod P)` is the shorter-arc difference, `|Δ| ≤ P/2`:
never the long way round the seam. -/
theorem interpolate_periodic_arc {floor : α → ℤ} (hf : IsFloor floor) (P d a b t : α) (hP : 0 < P) :
    let Δ := wrapDiff floor P (P / ((2 : ℕ) : α)) (b - a)
    (-(P / 2) ≤ Δ ∧ Δ < P / 2) ∧ (∃ k : ℤ, Δ = (b - a) - P * k) ∧
    ∃ k : ℤ, wrapDiff floor P d (a + Δ * t) = a + Δ * t - P * k := by
  obtain ⟨⟨h1, h2⟩, h3⟩ := wrapDiff_spec hf P (P / ((2 : ℕ) : α)) (b - a) hP
  obtain ⟨_, h4⟩ := wrapDiff_spec hf P d (a + wrapDiff floor P (P / ((2 : ℕ) : α)) (b - a) * t) hP
  refine ⟨⟨?_, ?_⟩, h3, h4⟩
  · norm_num at h1 ⊢; linarith
  · norm_num at h2 ⊢; linarith

/-- the model's `interpolate_periodic` takes exactly that form between two samples -/
theorem interpPeriodicData_inside {floor : α → ℤ} (xp : List α) (fp : List (Option α)) (P d : α) (x : α)
    (a b : α) (k : ℕ) (hk : k + 1 < xp.length)
    (hc : countLE xp x = k + 1)
    (hfa : fp.getD k none = some a) (hfb : fp.getD (k + 1) none = some b)
    (hx0 : ¬ x < getD0 xp 0) (hx1 : ¬ getD0 xp (xp.length - 1) < x)
    (hgap : 0 < getD0 xp (k + 1) - getD0 xp k) :
    interpPeriodicData floor xp fp (some (P, d)) none none x =
      some (wrapDiff floor P d (a + wrapDiff floor P (P / ((2 : ℕ) : α)) (b - a) *
        (x - getD0 xp k) / (getD0 xp (k + 1) - getD0 xp k))) := by
  have e0 : min (k + 1 - 1) (xp.length - 1) = k := by omega
  have e1 : min (k + 1) (xp.length - 1) = k + 1 := by omega
  simp only [interpPeriodicData, hc, e0, e1, hfa, hfb, hgap, if_true, hx0, hx1, if_false]

/-! ### Non-vacuity -/

-- 345 and 15 degrees average to 0, not to 180; 705 = 345 + 360 gives the same indices
example : interpPeriodicData Rat.floor ([0, 10] : List ℚ) [some 345, some 15] (some (360, 360)) none none 5 = some 0 := by
  decide +kernel
example : enclosingPeriodic Rat.floor ([0, 90, 180, 270] : List ℚ) 360 345 = (3, 0) := by decide +kernel
example : enclosingPeriodic Rat.floor ([0, 90, 180, 270] : List ℚ) 360 705 = (3, 0) := by decide +kernel
example : enclosingPeriodic Rat.floor ([0, 90, 180, 270] : List ℚ) 360 (-15) = (3, 0) := by decide +kernel

end Osu.Interp
