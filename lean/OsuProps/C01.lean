import OsuProofs.SpectralMoment
import Mathlib.Analysis.Real.Sqrt

/-!
# C01 — spectral moments and integral wave parameters equal their defining integrals

Model: `OsuModel/Spectral.lean` (`moment`, `trapz`, `inBand`, `fill0`).  `moment p fmin fmax fs es`
*is* the trapezoidal integral of `e(f)·f^p` over the grid nodes with `fmin ≤ f < fmax`, missing
values counted as zero.  The theorems below are its consequences, for every grid, band, NaN
pattern and power (a batch is a list of such spectra; each member is treated alone).
-/

namespace Osu.Spec

section field
variable {α : Type} [Field α] [LinearOrder α] [IsStrictOrderedRing α]
set_option linter.unusedSectionVars false

/-- `trapz_nodeWeights` (closed form): the moment is `Σ a·φ^p` over the atoms of the selected
nodes — for each pair of adjacent selected nodes, half the spacing times the energy at either
end, at that end's frequency. -/
theorem moment_closed_form (p : ℕ) (fmin : α) (fmax : Option α) (fs : List α) (es : List (Option α)) :
    moment p fmin fmax fs es = S p (atoms (nodes fmin fmax fs es)) :=
  moment_eq_S p fmin fmax fs es

/-- fewer than two grid points in the band: every moment is zero -/
theorem moment_short_band (p : ℕ) (fmin : α) (fmax : Option α) (fs : List α) (es : List (Option α))
    (h : (selectBand fmin fmax fs es).length ≤ 1) : moment p fmin fmax fs es = 0 := by
  simp only [moment]
  match hs : selectBand fmin fmax fs es with
  | [] => simp [trapz]
  | [_] => simp [trapz]
  | _ :: _ :: _ => rw [hs] at h; simp at h

/-- `moment_smul`: scaling the variance density by `c` scales every moment by `c`. -/
theorem moment_scale (p : ℕ) (c : α) (fmin : α) (fmax : Option α) (fs : List α) (es : List (Option α)) :
    moment p fmin fmax fs (es.map (Option.map (c * ·))) = c * moment p fmin fmax fs es :=
  moment_smul p c fmin fmax fs es

/-- `moment_add`: moments of a sum are sums of moments (the two spectra share the grid and have
missing values in the same bins; with one-sided NaN the code's `fillna` makes this false, see the
`example` at the end). -/
theorem moment_additive (p : ℕ) (fmin : α) (fmax : Option α) (l : List (α × Option α × Option α))
    (hmask : ∀ q ∈ l, q.2.1.isSome = q.2.2.isSome) :
    moment p fmin fmax (l.map (·.1)) (l.map fun q => optAdd q.2.1 q.2.2) =
      moment p fmin fmax (l.map (·.1)) (l.map (·.2.1)) +
      moment p fmin fmax (l.map (·.1)) (l.map (·.2.2)) :=
  moment_add p fmin fmax l hmask

/-- periods are scale invariant: `tm01` and `tm02²` do not change when the spectrum is scaled by
`c ≠ 0`. -/
theorem tm01_scale (c : α) (hc : c ≠ 0) (fmin : α) (fmax : Option α) (fs : List α) (es : List (Option α)) :
    tm01 fmin fmax fs (es.map (Option.map (c * ·))) = tm01 fmin fmax fs es := by
  simp only [tm01, divOpt, moment_smul]
  by_cases h : moment 1 fmin fmax fs es = 0
  · simp [h]
  · simp [h, hc, mul_div_mul_left]

theorem tm02_scale (c : α) (hc : c ≠ 0) (fmin : α) (fmax : Option α) (fs : List α) (es : List (Option α)) :
    tm02sq fmin fmax fs (es.map (Option.map (c * ·))) = tm02sq fmin fmax fs es := by
  simp only [tm02sq, divOpt, moment_smul]
  by_cases h : moment 2 fmin fmax fs es = 0
  · simp [h]
  · simp [h, hc, mul_div_mul_left]

/-- hypotheses for the inequalities: strictly increasing grid, non-negative energies -/
structure NonNegSpectrum (fs : List α) (es : List (Option α)) : Prop where
  sorted : fs.Pairwise (· < ·)
  nonneg : ∀ e ∈ es, 0 ≤ fill0 e

theorem atoms_ok (fmin : α) (fmax : Option α) {fs : List α} {es : List (Option α)}
    (h : NonNegSpectrum fs es) : ∀ q ∈ atoms (nodes fmin fmax fs es), 0 ≤ q.1 := by
  apply atoms_nonneg _ (nodes_sorted fmin fmax fs es h.sorted)
  intro n hn
  obtain ⟨_, _, e, he, heq⟩ := nodes_mem fmin fmax fs es n hn
  rw [heq]; exact h.nonneg e he

theorem moment_nonneg (p : ℕ) (fmin : α) (fmax : Option α) {fs : List α} {es : List (Option α)}
    (h : NonNegSpectrum fs es) (hf : ∀ f ∈ fs, 0 ≤ f) : 0 ≤ moment p fmin fmax fs es := by
  rw [moment_eq_S]
  apply List.sum_nonneg
  intro y hy
  simp only [List.mem_map] at hy
  obtain ⟨q, hq, rfl⟩ := hy
  obtain ⟨n, hn, hnq⟩ := atoms_freq_mem _ q hq
  have := (nodes_mem fmin fmax fs es n hn).1
  exact mul_nonneg (atoms_ok fmin fmax h q hq) (pow_nonneg (hnq ▸ hf n.1 this) p)

/-- `m1_sq_le` (Cauchy–Schwarz on the node weights): `m1² ≤ m0·m2` for non-negative spectra. -/
theorem m1_sq_le (fmin : α) (fmax : Option α) {fs : List α} {es : List (Option α)}
    (h : NonNegSpectrum fs es) :
    moment 1 fmin fmax fs es ^ 2 ≤ moment 0 fmin fmax fs es * moment 2 fmin fmax fs es := by
  simp only [moment_eq_S]
  exact cauchy_schwarz _ (atoms_ok fmin fmax h)

/-- `tm02_le_tm01` in squared form: `m0/m2 ≤ (m0/m1)²` whenever `m1, m2 > 0`. -/
theorem tm02sq_le_tm01sq (fmin : α) (fmax : Option α) {fs : List α} {es : List (Option α)}
    (h : NonNegSpectrum fs es) (h1 : 0 < moment 1 fmin fmax fs es) (h2 : 0 < moment 2 fmin fmax fs es) :
    moment 0 fmin fmax fs es / moment 2 fmin fmax fs es ≤
      (moment 0 fmin fmax fs es / moment 1 fmin fmax fs es) ^ 2 := by
  have hcs := m1_sq_le fmin fmax h
  have h0 : 0 ≤ moment 0 fmin fmax fs es := by
    rw [moment_eq_S]; exact S0_nonneg _ (atoms_ok fmin fmax h)
  rw [div_pow, div_le_div_iff₀ h2 (by positivity)]
  nlinarith [mul_le_mul_of_nonneg_left hcs h0]

/-- `tm_bounds`: if every selected frequency lies in `[lo, hi]` with `0 < lo`, then
`lo·m0 ≤ m1 ≤ hi·m0` and `lo²·m0 ≤ m2 ≤ hi²·m0`; hence `1/hi ≤ Tm01 ≤ 1/lo` and
`1/hi² ≤ Tm02² ≤ 1/lo²`. -/
theorem moment_bounds (fmin : α) (fmax : Option α) {fs : List α} {es : List (Option α)}
    (h : NonNegSpectrum fs es) (lo hi : α) (hlo : 0 ≤ lo)
    (hsel : ∀ n ∈ nodes fmin fmax fs es, lo ≤ n.1 ∧ n.1 ≤ hi) :
    lo * moment 0 fmin fmax fs es ≤ moment 1 fmin fmax fs es ∧
    moment 1 fmin fmax fs es ≤ hi * moment 0 fmin fmax fs es ∧
    lo ^ 2 * moment 0 fmin fmax fs es ≤ moment 2 fmin fmax fs es ∧
    moment 2 fmin fmax fs es ≤ hi ^ 2 * moment 0 fmin fmax fs es := by
  simp only [moment_eq_S]
  have ha := atoms_ok fmin fmax h
  have hφ : ∀ q ∈ atoms (nodes fmin fmax fs es), lo ≤ q.2 ∧ q.2 ≤ hi := by
    intro q hq
    obtain ⟨n, hn, hnq⟩ := atoms_freq_mem _ q hq
    rw [← hnq]; exact hsel n hn
  rcases hl : atoms (nodes fmin fmax fs es) with _ | ⟨q0, r0⟩
  · simp [S]
  rw [← hl]
  have hhi : 0 ≤ hi := by
    have := hφ q0 (by rw [hl]; simp)
    linarith
  have u0 := S_succ_le 0 _ ha hi (fun q hq => ⟨le_trans hlo (hφ q hq).1, (hφ q hq).2⟩)
  have u1 := S_succ_le 1 _ ha hi (fun q hq => ⟨le_trans hlo (hφ q hq).1, (hφ q hq).2⟩)
  have l0 := S_succ_ge 0 _ ha lo hlo (fun q hq => (hφ q hq).1)
  have l1 := S_succ_ge 1 _ ha lo hlo (fun q hq => (hφ q hq).1)
  refine ⟨l0, u0, ?_, ?_⟩
  · calc lo ^ 2 * S 0 _ = lo * (lo * S 0 _) := by ring
      _ ≤ lo * S 1 _ := mul_le_mul_of_nonneg_left l0 hlo
      _ ≤ S 2 _ := l1
  · calc S 2 _ ≤ hi * S 1 _ := u1
      _ ≤ hi * (hi * S 0 _) := mul_le_mul_of_nonneg_left u0 hhi
      _ = hi ^ 2 * S 0 _ := by ring

end field

/-! ### With the square roots (ℝ) -/

/-- `Hm0 = 4·sqrt(m0)` -/
noncomputable def hm0 (fmin : ℝ) (fmax : Option ℝ) (fs : List ℝ) (es : List (Option ℝ)) : ℝ :=
  4 * Real.sqrt (moment 0 fmin fmax fs es)

/-- `Tm02 = sqrt(m0/m2)` -/
noncomputable def tm02 (fmin : ℝ) (fmax : Option ℝ) (fs : List ℝ) (es : List (Option ℝ)) : ℝ :=
  Real.sqrt (moment 0 fmin fmax fs es / moment 2 fmin fmax fs es)

/-- `hm0_smul`: scaling the spectrum by `c ≥ 0` scales Hm0 by `sqrt c`. -/
theorem hm0_scale (c : ℝ) (hc : 0 ≤ c) (fmin : ℝ) (fmax : Option ℝ) (fs : List ℝ) (es : List (Option ℝ)) :
    hm0 fmin fmax fs (es.map (Option.map (c * ·))) = Real.sqrt c * hm0 fmin fmax fs es := by
  simp only [hm0, moment_smul, Real.sqrt_mul hc]; ring

/-- `tm02_le_tm01`: for non-negative spectra with `m1, m2 > 0`: `Tm02 ≤ Tm01`. -/
theorem tm02_le_tm01 (fmin : ℝ) (fmax : Option ℝ) {fs : List ℝ} {es : List (Option ℝ)}
    (h : NonNegSpectrum fs es) (h1 : 0 < moment 1 fmin fmax fs es) (h2 : 0 < moment 2 fmin fmax fs es) :
    tm02 fmin fmax fs es ≤ moment 0 fmin fmax fs es / moment 1 fmin fmax fs es := by
  have h0 : 0 ≤ moment 0 fmin fmax fs es := by
    rw [moment_eq_S]; exact S0_nonneg _ (atoms_ok fmin fmax h)
  have hq : 0 ≤ moment 0 fmin fmax fs es / moment 1 fmin fmax fs es := div_nonneg h0 h1.le
  unfold tm02
  rw [← Real.sqrt_sq hq]
  exact Real.sqrt_le_sqrt (tm02sq_le_tm01sq fmin fmax h h1 h2)

/-- `tm_bounds` for the periods: `1/f_last ≤ Tm02 ≤ Tm01 ≤ 1/f_first` over the band. -/
theorem period_bounds (fmin : ℝ) (fmax : Option ℝ) {fs : List ℝ} {es : List (Option ℝ)}
    (h : NonNegSpectrum fs es) (lo hi : ℝ) (hlo : 0 < lo)
    (hsel : ∀ n ∈ nodes fmin fmax fs es, lo ≤ n.1 ∧ n.1 ≤ hi)
    (h0 : 0 < moment 0 fmin fmax fs es) :
    1 / hi ≤ tm02 fmin fmax fs es ∧ tm02 fmin fmax fs es ≤ moment 0 fmin fmax fs es / moment 1 fmin fmax fs es ∧
    moment 0 fmin fmax fs es / moment 1 fmin fmax fs es ≤ 1 / lo := by
  obtain ⟨b1, b2, b3, b4⟩ := moment_bounds fmin fmax h lo hi hlo.le hsel
  have h1 : 0 < moment 1 fmin fmax fs es := lt_of_lt_of_le (mul_pos hlo h0) b1
  have h2 : 0 < moment 2 fmin fmax fs es := lt_of_lt_of_le (mul_pos (pow_pos hlo 2) h0) b3
  have hhi : 0 < hi := by
    by_contra hn
    have : hi * moment 0 fmin fmax fs es ≤ 0 := mul_nonpos_of_nonpos_of_nonneg (not_lt.1 hn) h0.le
    linarith
  refine ⟨?_, tm02_le_tm01 fmin fmax h h1 h2, ?_⟩
  · unfold tm02
    rw [show (1 / hi) = Real.sqrt ((1 / hi) ^ 2) from (Real.sqrt_sq (by positivity)).symm]
    apply Real.sqrt_le_sqrt
    rw [div_pow, one_pow, div_le_div_iff₀ (by positivity) h2]
    linarith
  · rw [div_le_div_iff₀ h1 hlo]; linarith

/-! ### Non-vacuity and the recorded negative fact -/

/-- a concrete non-uniform grid starting at f = 0 with a NaN bin satisfies the hypotheses -/
example : NonNegSpectrum ([0, 1/10, 1/4, 1/2] : List ℚ) [some 0, some 2, none, some 1] :=
  ⟨by decide +kernel, by decide +kernel⟩

example : moment 1 (0 : ℚ) (some (1/2)) [0, 1/10, 1/4, 1/2] [some 0, some 2, none, some 1] = 1/40 := by
  decide +kernel

/-- with a NaN on one side only, moments are *not* additive (the code fills after adding) -/
example : moment 0 (0 : ℚ) none [0, 1] [optAdd (some 1) none, optAdd (some 1) (some 1)] ≠
    moment 0 (0 : ℚ) none [0, 1] [some 1, some 1] + moment 0 (0 : ℚ) none [0, 1] [none, some 1] := by
  decide +kernel

end Osu.Spec
