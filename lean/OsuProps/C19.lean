import OsuProps.C18

/-!
# C19 — file cache: failed or interrupted downloads never poison the cache

Fault kinds: `Outcome.notFound`, `raiseBefore`, `raisePartial n`, `raisePost size`, and a
validation directive that rejects a hit (`Req.validate = some false`).  Crash points: any
prefix (`List.take cut`) of the elementary-action trace `getActs` of a request, followed by
loss of the in-memory index and `reopen`.
-/

namespace Osu.FC

variable (resOf : Nat → Nat)

/-- `no_partial_hit` (disk level): at *every* crash point of *every* request, for every fault
outcome and schedule, each file carrying a cache-pattern name is complete, post-processed if
post-processing was requested for the download that created it, and of the resource of its
key.  A partial (`part`) or unprocessed (`raw`) file only ever exists under a temporary name. -/
theorem no_partial_file_at_any_crash_point {s : State} (h : DiskInv resOf s)
    (reqs : List Req) (ran : List Nat) (cut : Nat) :
    ∀ k f, (execs s ((getActs resOf s reqs ran).take cut)).disk (.cache k) = some f →
      ∃ pp, f.content = .full (resOf k) pp :=
  (diskInv_execs resOf h (legalList_take resOf cut (legalList_getActs resOf s reqs ran))).cache_full

/-- `reopen_adopts_only_full`: after a crash at any point and reopening the directory, the
invariant holds again; in particular every entry of the rebuilt index is a complete file of the
right resource, so nothing partial can be served as a hit later (by `get_paths_valid`). -/
theorem reopen_adopts_only_full {s : State} (h : Inv resOf s)
    (reqs : List Req) (ran : List Nat) (cut : Nat) (ev : Bool) :
    let s' := (step resOf s (.getCrash reqs ran cut ev)).1
    Inv resOf s' ∧ ∀ k ∈ s'.entries, ∃ f pp, s'.disk (.cache k) = some f ∧
      f.content = .full (resOf k) pp := by
  have hi := inv_step resOf (.getCrash reqs ran cut ev) h trivial
  refine ⟨hi, ?_⟩
  intro k hk
  have hp := (hi.idx k).1 hk
  simp only [present] at hp
  cases hd : (step resOf s (.getCrash reqs ran cut ev)).1.disk (.cache k) with
  | none => simp [hd] at hp
  | some f =>
    obtain ⟨pp, hpp⟩ := hi.disk.cache_full k f hd
    exact ⟨f, pp, rfl, hpp⟩

/-- `no_partial_hit` (history level): in every reachable state — any list of operations
including faulty requests and crashes at any elementary step — every index entry is a complete
file of the resource of its key. -/
theorem no_partial_hit (maxSize slack : Nat) (tolerant : Bool) (ops : List Op)
    (hwf : ∀ op ∈ ops, op.WF) :
    let s := run resOf (init maxSize slack tolerant) ops
    ∀ k ∈ s.entries, ∃ f pp, s.disk (.cache k) = some f ∧ f.content = .full (resOf k) pp := by
  intro s k hk
  have hi := reachable_inv resOf maxSize slack tolerant ops hwf
  have hp := (hi.idx k).1 hk
  simp only [present] at hp
  cases hd : s.disk (.cache k) with
  | none => simp [s] at hd; simp [hd] at hp
  | some f =>
    obtain ⟨pp, hpp⟩ := hi.disk.cache_full k f hd
    exact ⟨f, pp, rfl, hpp⟩

section get

variable {s : State} {reqs : List Req} {ran : List Nat}

theorem present_evict_le (t : State) (k : Nat) (h : present t k = false) :
    present (evict t) k = false := by
  simp only [present] at h ⊢
  rw [evict_disk]
  split
  · rfl
  · exact h

/-- `failed_key_clean`: a requested key whose download failed, raised or was not attempted has
no cache file and no index entry after the request (whether the request returned or raised),
so the next request for it is a miss and fetches it afresh. -/
theorem failed_key_clean (h : Inv resOf s) (hk : reqs.Pairwise (fun a b => a.key ≠ b.key))
    (hs : scheduleOk s.tolerant (reqs.filter (isMiss s)) ran = true) :
    let s' := (get resOf s reqs ran).state
    ∀ q ∈ reqs, q ∉ returned s reqs ran →
      s'.disk (.cache q.key) = none ∧ q.key ∉ s'.entries ∧
      ∀ q' : Req, q'.key = q.key → isMiss s' q' = true := by
  intro s' q hq hnr
  have hyp := getHyp_of_scheduleOk resOf h hk hs
  obtain ⟨hinv5, hd5, _, _, _⟩ := preEvict_facts resOf hyp
  have f := phase4_facts resOf s reqs ran hyp
  have hinv' : Inv resOf s' := inv_step resOf (.get reqs ran) h hk
  have hp : present s' q.key = false := by
    show present (get resOf s reqs ran).state q.key = false
    rw [get_state resOf hs]
    have h5 : present (preEvict resOf s reqs ran) q.key = false := by
      have := f.failed q hq hnr
      simp only [present, hd5] at this ⊢; exact this
    split
    · exact h5
    · exact present_evict_le _ _ h5
  have hne : q.key ∉ s'.entries := fun he => by
    have := (hinv'.idx q.key).1 he; rw [hp] at this; cases this
  refine ⟨?_, hne, ?_⟩
  · simp only [present] at hp
    cases hd : s'.disk (.cache q.key) with
    | none => rfl
    | some g => simp [hd] at hp
  · intro q' hq'
    simp [isMiss, hq', hne]

/-- `fault_isolated`, part 1: every requested key that was a valid hit keeps its file, with the
same content and size, also when another download of the same request fails or raises. -/
theorem fault_isolated_hits (h : Inv resOf s) (hk : reqs.Pairwise (fun a b => a.key ≠ b.key))
    (hs : scheduleOk s.tolerant (reqs.filter (isMiss s)) ran = true) :
    let s' := (get resOf s reqs ran).state
    ∀ q ∈ reqs, isMiss s q = false →
      (s'.disk (.cache q.key)).map (fun f => (f.content, f.size)) =
        (s.disk (.cache q.key)).map (fun f => (f.content, f.size)) ∧ q.key ∈ s'.entries := by
  intro s' q hq hm
  have hyp := getHyp_of_scheduleOk resOf h hk hs
  obtain ⟨hinv5, hd5, he5, _, _⟩ := preEvict_facts resOf hyp
  have f := phase4_facts resOf s reqs ran hyp
  have hret : q ∈ returned s reqs ran := by simp [returned, hq, hm]
  have hnev := requested_never_evicted resOf h hk hs q hret
  have hinv' : Inv resOf s' := inv_step resOf (.get reqs ran) h hk
  have hdisk : s'.disk (.cache q.key) = (phase4 resOf s reqs ran).disk (.cache q.key) := by
    show (get resOf s reqs ran).state.disk _ = _
    rw [get_state resOf hs]
    rw [get_evicted resOf hs] at hnev
    split
    · rw [hd5]
    · next hmm =>
      simp only [hmm] at hnev
      rw [evict_disk, hd5]
      simp only [List.mem_map, FName.cache.injEq, exists_eq_right]
      simp at hnev
      simp [hnev]
  refine ⟨by rw [hdisk]; exact f.hitData q hq hm, ?_⟩
  apply (hinv'.idx q.key).2
  simp only [present]; rw [hdisk]
  exact (f.ret q hret).1

/-- `fault_isolated`, part 2: every other download of the request that completed is on disk,
complete and in the index, also when the request raises. -/
theorem fault_isolated_downloads (h : Inv resOf s) (hk : reqs.Pairwise (fun a b => a.key ≠ b.key))
    (hs : scheduleOk s.tolerant (reqs.filter (isMiss s)) ran = true) :
    let s' := (get resOf s reqs ran).state
    ∀ q ∈ reqs, isMiss s q = true → q.key ∈ ran → q.succeeds = true →
      q.key ∈ s'.entries ∧ ∃ f pp, s'.disk (.cache q.key) = some f ∧
        f.content = .full (resOf q.key) pp ∧ s.clock ≤ f.stamp := by
  intro s' q hq hm hr hsu
  have hyp := getHyp_of_scheduleOk resOf h hk hs
  obtain ⟨hinv5, hd5, he5, _, _⟩ := preEvict_facts resOf hyp
  have f := phase4_facts resOf s reqs ran hyp
  have hret : q ∈ returned s reqs ran := by simp [returned, hq, hr, hsu]
  have hnev := requested_never_evicted resOf h hk hs q hret
  have hinv' : Inv resOf s' := inv_step resOf (.get reqs ran) h hk
  have hdisk : s'.disk (.cache q.key) = (phase4 resOf s reqs ran).disk (.cache q.key) := by
    show (get resOf s reqs ran).state.disk _ = _
    rw [get_state resOf hs]
    rw [get_evicted resOf hs] at hnev
    split
    · rw [hd5]
    · next hmm =>
      simp only [hmm] at hnev
      rw [evict_disk, hd5]
      simp only [List.mem_map, FName.cache.injEq, exists_eq_right]
      simp at hnev
      simp [hnev]
  have ⟨hp, hst⟩ := f.ret q hret
  simp only [present, stampOf] at hp hst
  rw [← hdisk] at hp hst
  refine ⟨(hinv'.idx q.key).2 (by simpa [present] using hp), ?_⟩
  cases hd : s'.disk (.cache q.key) with
  | none => simp [hd] at hp
  | some g =>
    obtain ⟨pp, hpp⟩ := hinv'.disk.cache_full _ _ hd
    rw [hd] at hst
    exact ⟨g, pp, rfl, hpp, hst⟩

/-- Tolerant mode omits exactly the not-found keys; every other fault kind raises.  If the
request returns paths, each requested key that is absent from them was a miss whose resource
reported "not found", and the cache is in missing-file tolerant mode. -/
theorem omitted_only_not_found {ks : List Nat} (ho : (get resOf s reqs ran).out = .paths ks) :
    ∀ q ∈ reqs, q.key ∉ ks → q.outcome = .notFound ∧ s.tolerant = true := by
  obtain ⟨hs, rfl⟩ := get_out_paths resOf ho
  intro q hq hnk
  have hnr : q ∉ returned s reqs ran := fun hr => hnk (List.mem_map.2 ⟨q, hr, rfl⟩)
  simp only [returned, List.mem_filter, hq, true_and, Bool.or_eq_true, Bool.not_eq_true',
    Bool.and_eq_true, decide_eq_true_eq, not_or, not_and] at hnr
  have hm : isMiss s q = true := by cases h : isMiss s q <;> simp_all
  -- no worker that ran raised, hence every miss ran
  simp only [get, hs, Bool.not_true, Bool.false_eq_true, if_false] at ho
  split at ho
  · split at ho <;> simp at ho
  · next hfind =>
    rw [List.find?_eq_none] at hfind
    simp only [scheduleOk, Bool.and_eq_true, Bool.or_eq_true] at hs
    have hall : ∀ q' ∈ reqs.filter (isMiss s), q'.key ∈ ran := by
      rcases hs.2 with h1 | h1
      · rw [List.any_eq_true] at h1
        obtain ⟨q', hq', hr'⟩ := h1
        exact absurd hr' (hfind q' hq')
      · rw [List.all_eq_true] at h1
        intro q' hq'; simpa using h1 q' hq'
    have hqm : q ∈ reqs.filter (isMiss s) := by simp [hq, hm]
    have hran := hall q hqm
    have hns : q.succeeds = false := by
      cases h : q.succeeds
      · rfl
      · exact absurd h (by simpa using hnr.2 hran)
    have hnraise := hfind q (by simp [hq, hm, hran])
    -- not succeeded and not raising: only a tolerated not-found is left
    revert hns hnraise
    cases hqo : q.outcome <;> cases ht : s.tolerant <;> cases hp : q.postprocess <;>
      simp [Req.succeeds, Req.raises, Req.wres, hqo, ht, hp]

/-- `validate_fail_refetch`: a hit rejected by its validation directive is treated as a miss:
it is never returned from the old file.  Either the key is re-downloaded in this request (then
the returned file was written during this request) or the key is gone from cache and index. -/
theorem validate_fail_refetch (h : Inv resOf s) (hk : reqs.Pairwise (fun a b => a.key ≠ b.key))
    (hs : scheduleOk s.tolerant (reqs.filter (isMiss s)) ran = true) :
    let s' := (get resOf s reqs ran).state
    ∀ q ∈ reqs, q.key ∈ s.entries → q.validate = some false →
      (q ∈ returned s reqs ran ∧ q.key ∈ (get resOf s reqs ran).downloads ∧
        ∃ f, s'.disk (.cache q.key) = some f ∧ s.clock ≤ f.stamp) ∨
      (q ∉ returned s reqs ran ∧ s'.disk (.cache q.key) = none ∧ q.key ∉ s'.entries) := by
  intro s' q hq he hv
  have hm : isMiss s q = true := by simp [isMiss, he, hv]
  by_cases hr : q ∈ returned s reqs ran
  · left
    have hr' := hr
    simp only [returned, List.mem_filter, hq, true_and, hm, Bool.not_true, Bool.false_or,
      Bool.and_eq_true, decide_eq_true_eq] at hr'
    have hd : (get resOf s reqs ran).downloads = ran := by simp [get, hs]
    obtain ⟨_, f, pp, h1, _, h3⟩ := fault_isolated_downloads resOf h hk hs q hq hm hr'.1 hr'.2
    exact ⟨hr, by rw [hd]; exact hr'.1, f, h1, h3⟩
  · right
    obtain ⟨h1, h2, _⟩ := failed_key_clean resOf h hk hs q hq hr
    exact ⟨hr, h1, h2⟩

end get

/-! ### Non-vacuity -/

/-- a request on a non-empty cache with a hit, a partial-write failure and a success, in strict
mode, satisfies the hypotheses used above -/
def demoState : State := run (fun k => k) (init 100 16 false) [.get [⟨0, none, false, .ok 40⟩] [0]]
def demoReqs : List Req :=
  [⟨0, none, false, .ok 40⟩, ⟨1, none, true, .ok 30⟩, ⟨2, none, false, .raisePartial 7⟩]

example : scheduleOk demoState.tolerant (demoReqs.filter (isMiss demoState)) [1, 2] = true := by
  decide +kernel
example : (get (fun k => k) demoState demoReqs [1, 2]).out = .raisedIO := by decide +kernel
example : (get (fun k => k) demoState demoReqs [1, 2]).state.entries = [0, 1] := by decide +kernel
example : demoReqs.Pairwise (fun a b => a.key ≠ b.key) := by decide

end Osu.FC
