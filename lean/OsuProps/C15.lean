import OsuModel.SpectrumObj

/-!
# C15 — spectrum objects: no aliasing or mutation of operands; restructuring round-trips

Model: `OsuModel/SpectrumObj.lean`.  The store model states the *discipline* the code follows
(every operation builds a fresh dataset; only `fillna` / `multiply(inplace=True)` rebind); that the
code does follow it is what the check observes (byte snapshots of every live operand before and
after each operation, `np.shares_memory` for deep copies).  The index theorems are about the
C-order arithmetic of `flatten`.
-/

namespace Osu.Obj

/-! ### C-order pairing (`flatten_pairing`) -/

theorem ravel_lt : ∀ (shape idx : List Nat), validIndex shape idx = true → ravel shape idx < prod shape
  | [], [], _ => by simp [ravel, prod]
  | n :: ns, i :: is, h => by
    simp only [validIndex, Bool.and_eq_true, decide_eq_true_eq] at h
    have ih := ravel_lt ns is h.2
    simp only [ravel, prod]
    have : i * prod ns + ravel ns is < (i + 1) * prod ns := by rw [Nat.add_mul, Nat.one_mul]; omega
    exact Nat.lt_of_lt_of_le this (Nat.mul_le_mul_right _ h.1)
  | [], _ :: _, h => by simp [validIndex] at h
  | _ :: _, [], h => by simp [validIndex] at h

/-- every valid multi-index is recovered from its linear index: element `i·n₂ + j` of the
flattened batch is element `(i, j)` of the original, for every number of leading dimensions -/
theorem unravel_ravel : ∀ (shape idx : List Nat), validIndex shape idx = true →
    unravel shape (ravel shape idx) = idx
  | [], [], _ => rfl
  | n :: ns, i :: is, h => by
    simp only [validIndex, Bool.and_eq_true, decide_eq_true_eq] at h
    have hlt := ravel_lt ns is h.2
    have hp : 0 < prod ns := Nat.lt_of_le_of_lt (Nat.zero_le _) hlt
    simp only [ravel, unravel]
    have e1 : (i * prod ns + ravel ns is) / prod ns = i := by
      rw [Nat.add_comm, Nat.add_mul_div_right _ _ hp, Nat.div_eq_of_lt hlt, Nat.zero_add]
    have e2 : (i * prod ns + ravel ns is) % prod ns = ravel ns is := by
      rw [Nat.add_comm, Nat.add_mul_mod_self_right, Nat.mod_eq_of_lt hlt]
    rw [e1, e2, unravel_ravel ns is h.2]
  | [], _ :: _, h => by simp [validIndex] at h
  | _ :: _, [], h => by simp [validIndex] at h

/-- every linear index below the number of spectra gives a valid multi-index that ravels back -/
theorem ravel_unravel : ∀ (shape : List Nat) (k : Nat), k < prod shape →
    validIndex shape (unravel shape k) = true ∧ ravel shape (unravel shape k) = k
  | [], k, h => by simp [prod] at h; simp [unravel, validIndex, ravel, h]
  | n :: ns, k, h => by
    simp only [prod] at h
    have hp : 0 < prod ns := by
      rcases Nat.eq_zero_or_pos (prod ns) with h0 | h0
      · rw [h0] at h; omega
      · exact h0
    have ih := ravel_unravel ns (k % prod ns) (Nat.mod_lt _ hp)
    simp only [unravel, validIndex, ravel, Bool.and_eq_true, decide_eq_true_eq]
    refine ⟨⟨?_, ih.1⟩, ?_⟩
    · rw [Nat.div_lt_iff_lt_mul hp]; exact h
    · rw [ih.2]; exact Nat.div_add_mod' k (prod ns)

/-- `flatten` keeps the spectrum count (the product of the leading lengths) and pairs spectrum
`k` of the result with the coordinates of multi-index `unravel shape k` -/
theorem flatten_pairing {β : Type} (shape : List Nat) (get : List Nat → β) :
    (flattenWith shape get).length = prod shape ∧
    ∀ idx, validIndex shape idx = true →
      (flattenWith shape get)[ravel shape idx]? = some (get idx) := by
  refine ⟨by simp [flattenWith], ?_⟩
  intro idx h
  have hlt := ravel_lt shape idx h
  simp [flattenWith, hlt, unravel_ravel shape idx h]

/-- `concat_select`: selecting element `i` of the concatenation of N spectra returns the `i`-th
input (variance density, moments, time, position, depth travel together as one record) -/
theorem concat_select {β γ : Type} (ss : List β) (f : β → γ) (i : Nat) :
    (ss.map f)[i]? = (ss[i]?).map f := by simp

/-! ### No aliasing, no mutation (`frame`) -/

/-- well-formed store: every wrapper's dataset id is below `nextDs`, every array below `nextArr`,
and two live objects never wrap the same dataset -/
structure WF (s : Store) : Prop where
  ds_lt : ∀ d ∈ s.wrappers, d < s.nextDs
  nodup : s.wrappers.Nodup
  arr_lt : ∀ d ∈ s.wrappers, ∀ p ∈ s.datasets d, p.2 < s.nextArr

theorem mem_freshVars (vars : List String) (start : Nat) (p : String × Nat) (h : p ∈ freshVars vars start) :
    start ≤ p.2 ∧ p.2 < start + vars.length := by
  simp only [freshVars, List.mem_map] at h
  obtain ⟨q, hq, rfl⟩ := h
  have := (List.of_mem_zip hq).2
  simp at this
  simp; omega

theorem wf_empty : WF empty := ⟨by simp [empty], by simp [empty], by simp [empty]⟩

theorem wf_step (s : Store) (op : Op) (h : WF s) : WF (step s op) := by
  obtain ⟨h1, h2, h3⟩ := h
  cases op with
  | derive srcs vars =>
    refine ⟨?_, ?_, ?_⟩
    · intro d hd
      show d < s.nextDs + 1
      have hd' : d ∈ s.wrappers ++ [s.nextDs] := hd
      rcases List.mem_append.1 hd' with hd | hd
      · have := h1 d hd; omega
      · simp at hd; omega
    · show (s.wrappers ++ [s.nextDs]).Nodup
      rw [List.nodup_append]
      refine ⟨h2, by simp, ?_⟩
      intro a ha b hb
      simp at hb; subst hb
      have := h1 a ha; omega
    · intro d hd p hp
      show p.2 < s.nextArr + vars.length
      have hd' : d ∈ s.wrappers ++ [s.nextDs] := hd
      have hp' : p ∈ (if d = s.nextDs then freshVars vars s.nextArr else s.datasets d) := hp
      by_cases hdd : d = s.nextDs
      · rw [if_pos hdd] at hp'
        exact (mem_freshVars _ _ _ hp').2
      · rw [if_neg hdd] at hp'
        rcases List.mem_append.1 hd' with hd | hd
        · have := h3 d hd p hp'; omega
        · simp at hd; exact absurd hd hdd
  | shallowCopy src =>
    cases hs : s.wrappers[src]? with
    | none => simp only [step, hs]; exact ⟨h1, h2, h3⟩
    | some d0 =>
      have hd0 : d0 ∈ s.wrappers := List.mem_of_getElem? hs
      simp only [step, hs]
      refine ⟨?_, ?_, ?_⟩
      · intro d hd
        show d < s.nextDs + 1
        have hd' : d ∈ s.wrappers ++ [s.nextDs] := hd
        rcases List.mem_append.1 hd' with hd | hd
        · have := h1 d hd; omega
        · simp at hd; omega
      · show (s.wrappers ++ [s.nextDs]).Nodup
        rw [List.nodup_append]
        refine ⟨h2, by simp, ?_⟩
        intro a ha b hb
        simp at hb; subst hb
        have := h1 a ha; omega
      · intro d hd p hp
        show p.2 < s.nextArr
        have hd' : d ∈ s.wrappers ++ [s.nextDs] := hd
        have hp' : p ∈ (if d = s.nextDs then s.datasets d0 else s.datasets d) := hp
        by_cases hdd : d = s.nextDs
        · rw [if_pos hdd] at hp'
          exact h3 d0 hd0 p hp'
        · rw [if_neg hdd] at hp'
          rcases List.mem_append.1 hd' with hd | hd
          · exact h3 d hd p hp'
          · simp at hd; exact absurd hd hdd
  | inplace tgt vars =>
    cases hs : s.wrappers[tgt]? with
    | none => simp only [step, hs]; exact ⟨h1, h2, h3⟩
    | some d0 =>
      simp only [step, hs]
      refine ⟨h1, h2, ?_⟩
      intro d hd p hp
      show p.2 < s.nextArr + vars.length
      have hp' : p ∈ (if d = d0 then freshVars vars s.nextArr else s.datasets d) := hp
      by_cases hdd : d = d0
      · rw [if_pos hdd] at hp'
        exact (mem_freshVars _ _ _ hp').2
      · rw [if_neg hdd] at hp'
        have := h3 d hd p hp'; omega

theorem lt_of_getElem? {β : Type} {l : List β} {j : Nat} {d : β} (h : l[j]? = some d) : j < l.length := by
  cases Nat.lt_or_ge j l.length with
  | inl h' => exact h'
  | inr h' => rw [List.getElem?_eq_none h'] at h; cases h

/-- `frame`: an operation that is not one of the documented in-place ones leaves the content of
**every** pre-existing object exactly as it was; an in-place operation changes only its own
target. -/
theorem frame (s : Store) (op : Op) (h : WF s) (j : Nat) (d : Nat) (hj : s.wrappers[j]? = some d)
    (hop : ∀ vars, op ≠ .inplace j vars) :
    (step s op).wrappers[j]? = some d ∧ (step s op).datasets d = s.datasets d := by
  have hd : d ∈ s.wrappers := List.mem_of_getElem? hj
  have hlt : j < s.wrappers.length := lt_of_getElem? hj
  have hdlt := h.ds_lt d hd
  cases op with
  | derive srcs vars =>
    refine ⟨?_, ?_⟩
    · show (s.wrappers ++ [s.nextDs])[j]? = some d
      rw [List.getElem?_append_left hlt]; exact hj
    · show (if d = s.nextDs then freshVars vars s.nextArr else s.datasets d) = s.datasets d
      rw [if_neg (by omega)]
  | shallowCopy src =>
    cases hs : s.wrappers[src]? with
    | none => simp only [step, hs]; exact ⟨hj, trivial⟩
    | some d0 =>
      simp only [step, hs]
      refine ⟨?_, ?_⟩
      · rw [List.getElem?_append_left hlt]; exact hj
      · rw [if_neg (by omega)]
  | inplace tgt vars =>
    cases hs : s.wrappers[tgt]? with
    | none => simp only [step, hs]; exact ⟨hj, trivial⟩
    | some d0 =>
      simp only [step, hs]
      refine ⟨hj, ?_⟩
      have hne : tgt ≠ j := fun e => hop vars (e ▸ rfl)
      have : d ≠ d0 := by
        intro e; subst e
        have htl : tgt < s.wrappers.length := lt_of_getElem? hs
        have e1 : s.wrappers[tgt] = d := by
          have := List.getElem?_eq_getElem htl; rw [this] at hs; exact Option.some.inj hs
        have e2 : s.wrappers[j] = d := by
          have := List.getElem?_eq_getElem hlt; rw [this] at hj; exact Option.some.inj hj
        have pw := List.pairwise_iff_getElem.1 h.nodup
        rcases Nat.lt_trichotomy tgt j with hl | he | hg
        · exact pw tgt j htl hlt hl (e1.trans e2.symm)
        · exact hne he
        · exact pw j tgt hlt htl hg (e2.trans e1.symm)
      rw [if_neg this]

/-- lifted to every sequence of operations by induction: an object is unchanged by any history
that contains no in-place operation on it -/
theorem frame_run (ops : List Op) (s : Store) (h : WF s) (j : Nat) (d : Nat)
    (hj : s.wrappers[j]? = some d) (hops : ∀ op ∈ ops, ∀ vars, op ≠ .inplace j vars) :
    (run s ops).wrappers[j]? = some d ∧ (run s ops).datasets d = s.datasets d := by
  induction ops generalizing s with
  | nil => exact ⟨hj, rfl⟩
  | cons op ops ih =>
    obtain ⟨f1, f2⟩ := frame s op h j d hj (hops op List.mem_cons_self)
    have := ih (step s op) (wf_step s op h) f1 (fun o ho => hops o (List.mem_cons_of_mem _ ho))
    exact ⟨this.1, this.2.trans f2⟩

/-- `deepcopy_fresh`: a derived object (in particular a deep copy) shares no array with any object
that existed before -/
theorem deepcopy_fresh (s : Store) (h : WF s) (srcs : List Nat) (vars : List String) :
    ∀ d ∈ s.wrappers, ∀ p ∈ s.datasets d, ∀ q ∈ (step s (.derive srcs vars)).datasets s.nextDs, p.2 ≠ q.2 := by
  intro d hd p hp q hq
  have hq' : q ∈ (if s.nextDs = s.nextDs then freshVars vars s.nextArr else s.datasets s.nextDs) := hq
  rw [if_pos rfl] at hq'
  have h1 := (mem_freshVars _ _ _ hq').1
  have h2 := h.arr_lt d hd p hp
  omega

/-! ### Non-vacuity -/

example : unravel [2, 3] 4 = [1, 1] ∧ ravel [2, 3] [1, 1] = 4 ∧ prod [2, 3] = 6 := by decide
example : WF (run empty [.derive [] ["variance_density", "a1"], .derive [0] ["variance_density", "a1"], .inplace 1 ["variance_density"]]) := by
  simp only [run, List.foldl]
  exact wf_step _ _ (wf_step _ _ (wf_step _ _ wf_empty))

end Osu.Obj
