import OsuProofs.Gen.Arith
import OsuProofs.RealTransc
import OsuModel.Dispersion
import Mathlib.Tactic.Ring
import Mathlib.Tactic.NormNum
/-!
# C07, second tie: dispersion relation and group-velocity ratio, machine-translated

What `lineardispersion.py: intrinsic_dispersion_relation` and
`ratio_group_velocity_to_phase_velocity` compute *now* (translated on every run) are the model's
`omega` and `ratio` for a finite depth.
-/
namespace Osu.Props.C07Gen
open Osu.Disp

theorem gen_omega_eq (k d g : ℝ) :
    Osu.GenArith.intrinsic_dispersion_relation k d g = omega g k (.finite d) := by
  simp only [Osu.GenArith.intrinsic_dispersion_relation, omega, tanhKd, Transc.sqrt, Transc.tanh]

theorem gen_ratio_eq (k d : ℝ) :
    Osu.GenArith.ratio_group_velocity_to_phase_velocity k d = ratio k (.finite d) := by
  simp only [Osu.GenArith.ratio_group_velocity_to_phase_velocity, ratio, half, two, Transc.sinh, Nat.cast_ofNat, gt_iff_lt]

theorem gen_phase_velocity_eq (k d g : ℝ) :
    Osu.GenArith.phase_velocity k d g = phaseVelocity g k (.finite d) := by
  simp only [Osu.GenArith.phase_velocity, phaseVelocity, gen_omega_eq]

theorem gen_group_velocity_eq (k d g : ℝ) :
    Osu.GenArith.intrinsic_group_velocity k d g = groupVelocity g k (.finite d) := by
  simp only [Osu.GenArith.intrinsic_group_velocity, groupVelocity, gen_ratio_eq, gen_phase_velocity_eq]

end Osu.Props.C07Gen
