import OsuProofs.SourceTerms
import Mathlib.Analysis.SpecialFunctions.Trigonometric.Basic
/-
C09 — source terms, roughness and stress are invariant under joint rotation.
-/
namespace Osu.Props.C09
open Osu.ST Osu.Solv

/-- the floor function of the angle wraps at ℝ -/
noncomputable def rfloor (x : ℝ) : ℝ := (⌊x⌋ : ℝ)

/-- the mutual-angle wrap `(x + π) % 2π − π` does not change the cosine -/
theorem cos_wrapPi (x : ℝ) : Real.cos (wrapPi rfloor x) = Real.cos x := by
  simp only [wrapPi, modTwoPi, twoPi, Solv.two, Transc.pi, rfloor]
  have : x + Real.pi - ((2 : ℕ) : ℝ) * Real.pi * (⌊(x + Real.pi) / (((2 : ℕ) : ℝ) * Real.pi)⌋ : ℝ) - Real.pi
      = x - (⌊(x + Real.pi) / (((2 : ℕ) : ℝ) * Real.pi)⌋ : ℝ) * (2 * Real.pi) := by push_cast; ring
  rw [this, Real.cos_sub_int_mul_two_pi]

end Osu.Props.C09
