import OsuProofs.RotationST
import OsuProofs.RotationField
import OsuProofs.RotationST4
import OsuProofs.RotationStress
import OsuProofs.MirrorField
/-
C09 — source terms, roughness and stress are invariant under joint rotation.

Uniform grid of `N` directions `θ_j = θ0 + j·360/N` (any `N`, any `θ0`), spectrum rotated by `k`
bins (`rotE k E j = E (j - k)`), wind direction increased by `k·360/N` degrees; mirror image for
grids starting at 0.  The statements are about the kernels of `OsuModel/SourceTerms.lean` written
as functions of the bin index (the bridge lemma ties the list form to the function form).
-/
namespace Osu.Props.C09
open Osu.ST Osu.Rot

variable {N : ℕ} [NeZero N]

/-- the mutual-angle wrap `(x + π) % 2π − π` does not change the cosine -/
theorem cos_wrap (x : ℝ) : Real.cos (wrapPi rfloor x) = Real.cos x := cos_wrapPi x

/-- wind input: a joint rotation by `k` bins rotates the field by `k` bins, for every `k` and `N` -/
theorem wind_input_rotates (p : GenP ℝ) (kk om ustar z0 θ0 wdir : ℝ) (k : Fin N) (E : Fin N → ℝ) :
    inputRow p kk om ustar z0 θ0 (wdir + (k : ℕ) * dθ N) (rotE k E) = rotE k (inputRow p kk om ustar z0 θ0 wdir E) :=
  inputRow_rot p kk om ustar z0 θ0 wdir k E

/-- the list form used by the model and the driver is that function -/
theorem wind_input_model_row (p : GenP ℝ) (kk om ustar z0 θ0 wdir : ℝ) (E : Fin N → ℝ) :
    List.zipWith (fun e c => st4Rate p kk om ustar z0 c e) (List.ofFn E)
      (cosMutual rfloor (List.ofFn fun j : Fin N => deg2rad (theta θ0 j)) wdir)
      = List.ofFn (inputRow p kk om ustar z0 θ0 wdir E) :=
  st4_row_bridge p kk om ustar z0 θ0 wdir E

/-- mirror image -/
theorem wind_input_mirrors (p : GenP ℝ) (kk om ustar z0 wdir : ℝ) (E : Fin N → ℝ) :
    inputRow p kk om ustar z0 0 (-wdir) (mirE E) = mirE (inputRow p kk om ustar z0 0 wdir E) :=
  inputRow_mirror p kk om ustar z0 wdir E

/-- ST4 band-integrated saturation (the ±width integral over neighbouring directions) rotates with
the spectrum: it is a circular convolution whose kernel depends on the index difference only -/
theorem saturation_rotates (bp : BrkP ℝ) (θ0 : ℝ) (k : Fin N) (sat : Fin N → ℝ) :
    bandRow bp θ0 (rotE k sat) = rotE k (bandRow bp θ0 sat) := bandRow_rot bp θ0 k sat

/-- … and the model's list form of one frequency row is that function -/
theorem saturation_model_row (bp : BrkP ℝ) (θ0 cg k : ℝ) (E : Fin N → ℝ) (om df : List ℝ) :
    bandSaturationRow rfloor bp
      { omega := om, theta := List.ofFn fun j : Fin N => deg2rad (theta θ0 j), df := df, dth := List.ofFn fun _ : Fin N => dθ N }
      (List.ofFn E) cg k
      = List.ofFn (bandRow bp θ0 (fun j => E j * cg * (k * k * k) / Solv.two / Transc.pi)) :=
  band_row_bridge bp θ0 cg k E om df

/-- the cumulative-breaking strength (wave-speed vector differences) rotates with the exceedance
field, for every pair of frequencies -/
theorem cumulative_strength_rotates (θ0 c c' w : ℝ) (k : Fin N) (X : Fin N → ℝ) :
    strengthRow θ0 c c' w (rotE k X) = rotE k (strengthRow θ0 c c' w X) := strengthRow_rot θ0 c c' w k X

/-- mirror image (grid starting at 0): both kernels are even in the index difference — the wrap of
`-x` has the magnitude of the wrap of `x` — so saturation and cumulative strength of the mirrored
spectrum are the mirrored fields -/
theorem saturation_mirrors (bp : BrkP ℝ) (sat : Fin N → ℝ) :
    bandRow bp 0 (mirE sat) = mirE (bandRow bp 0 sat) := bandRow_mirror bp sat

theorem cumulative_strength_mirrors (c c' w : ℝ) (X : Fin N → ℝ) :
    strengthRow 0 c c' w (mirE X) = mirE (strengthRow 0 c c' w X) := strengthRow_mirror c c' w X

/-- a bin-wise function of a rotated field is the rotated bin-wise function (saturation and
cumulative entries given their rotated saturation / strength; the ST6 terms, whose per-frequency
coefficients are direction integrals) -/
theorem binwise_rotates (f : ℝ → ℝ → ℝ) (k : Fin N) (E B : Fin N → ℝ) :
    (fun j => f (rotE k E j) (rotE k B j)) = rotE k (fun j => f (E j) (B j)) := rfl

/-- direction integrals with the (uniform) bin width are unchanged: ST6's saturation spectrum and
every bulk rate -/
theorem direction_integral_invariant (k : Fin N) (x : Fin N → ℝ) (w : ℝ) :
    ∑ j, rotE k x j * w = ∑ j, x j * w := dirIntegral_rot k x w

/-- the stress vector (east, north) of a rotated wind-input row is the rotated vector -/
theorem stress_vector_rotates (θ0 : ℝ) (k : Fin N) (S : Fin N → ℝ) :
    stressEast θ0 (rotE k S) = cosd ((k : ℕ) * dθ N) * stressEast θ0 S - sind ((k : ℕ) * dθ N) * stressNorth θ0 S ∧
    stressNorth θ0 (rotE k S) = sind ((k : ℕ) * dθ N) * stressEast θ0 S + cosd ((k : ℕ) * dθ N) * stressNorth θ0 S :=
  stress_rot θ0 k S

/-- … so the stress magnitude is unchanged … -/
theorem stress_magnitude_invariant (e n c s : ℝ) (h : c ^ 2 + s ^ 2 = 1) :
    Real.sqrt ((s * e + c * n) * (s * e + c * n) + (c * e - s * n) * (c * e - s * n)) = Real.sqrt (n * n + e * e) :=
  magnitude_rot e n c s h

/-- … and the stress direction (likewise the dissipation-weighted wave direction and the wind
direction derived from it) shifts by the rotation angle, modulo a full turn -/
theorem stress_direction_shifts (e n φ : ℝ) (h : e ≠ 0 ∨ n ≠ 0) :
    dirAngle (Real.cos φ * e - Real.sin φ * n) (Real.sin φ * e + Real.cos φ * n) = dirAngle e n + (φ : Real.Angle) :=
  direction_rot e n φ h

/-- mirror image of the stress vector: east kept, north negated, so the direction is negated -/
theorem stress_vector_mirrors (S : Fin N → ℝ) :
    stressEast 0 (mirE S) = stressEast 0 S ∧ stressNorth 0 (mirE S) = -stressNorth 0 S := stress_mirror S

theorem direction_mirrors (e n : ℝ) (h : e ≠ 0 ∨ n ≠ 0) : dirAngle e (-n) = -dirAngle e n := dirAngle_mirror e n h

/-- roughness length and estimated wind speed are a solver applied to a balance function; when
the balance function is the same before and after the rotation (it only contains rotation
invariant quantities: bulk rates, stress magnitude), so is the solver's result -/
theorem solver_congruence (F G : ℝ → ℝ) (h : ∀ x, F x = G x) (cfg : Solv.NRConfig ℝ) (guess : ℝ) :
    Solv.newtonRaphson F cfg guess = Solv.newtonRaphson G cfg guess := by
  have : F = G := funext h
  rw [this]

example : rotE (N := 4) 1 (fun j => (j : ℕ)) 0 = 3 := by simp [rotE]

/-- **whole field, ST4 wind input**: for every frequency grid, wavenumber table, depth and parameter set,
the model's `st4Input` of the jointly rotated (spectrum, wind) is the rotated field -/
theorem wind_input_field_rotates (p : GenP ℝ) (θ0 : ℝ) (om df : List ℝ) (kin : Kin ℝ) (rows : List (Fin N → ℝ))
    (w : Wind ℝ) (z0 : ℝ) (k : Fin N) :
    st4Input rfloor p (uniformGrid (N := N) θ0 om df) kin (fieldOf (rotField k rows))
        { w with dirDeg := w.dirDeg + (k : ℕ) * dθ N } z0
      = (st4Input rfloor p (uniformGrid (N := N) θ0 om df) kin (fieldOf rows) w z0).map
          (fun row => List.ofFn (rotE k (fun j : Fin N => row.getD j 0))) := by
  rw [st4Input_field_rot, st4Input_field]
  simp only [fieldOf, rotField, List.map_map]
  apply List.map_congr_left
  intro r _
  simp only [Function.comp]
  congr 1
  funext j
  simp [rotE]

/-- **whole field, ST6 dissipation**: the field of the rotated spectrum is the rotated field — the
per-frequency coefficients depend on the spectrum only through direction integrals -/
theorem st6_field_rotates (sp : St6P ℝ) (θ0 : ℝ) (om df : List ℝ) (kin : Kin ℝ) (rows : List (Fin N → ℝ)) (k : Fin N) :
    st6Dissipation sp (uniformGrid (N := N) θ0 om df) kin (fieldOf (rotField k rows))
      = (st6Dissipation sp (uniformGrid (N := N) θ0 om df) kin (fieldOf rows)).map
          (fun row => List.ofFn (rotE k (fun j : Fin N => row.getD j 0))) := by
  obtain ⟨coef, h0, hk⟩ := st6_field_rot sp θ0 om df kin rows k
  rw [hk, h0]
  simp only [fieldOf, rotField, List.map_map]
  apply List.map_congr_left
  intro r _
  simp only [Function.comp]
  congr 1
  funext j
  simp [rotE]

/-- reading a field of function rows back as lists: rotating the rows is rotating every list -/
theorem field_rot_as_map (k : Fin N) (D : List (Fin N → ℝ)) :
    fieldOf (rotField k D) = (fieldOf D).map (fun row => List.ofFn (rotE k (fun j : Fin N => row.getD j 0))) := by
  simp only [fieldOf, rotField, List.map_map]
  apply List.map_congr_left
  intro r _
  simp only [Function.comp]
  congr 1
  funext j
  simp [rotE]

/-- **whole field, ST4 dissipation** (band-integrated saturation, saturation term with its isotropic
maximum, cumulative term with its `break` over longer waves, and their sum): the model's
`st4Dissipation` of the rotated spectrum is the rotated field, for every `N`, `k`, frequency grid,
kinematics table and parameter set -/
theorem st4_dissipation_field_rotates (bp : BrkP ℝ) (θ0 : ℝ) (om df : List ℝ) (kin : Kin ℝ)
    (rows : List (Fin N → ℝ)) (k : Fin N) :
    st4Dissipation rfloor bp (uniformGrid (N := N) θ0 om df) kin (fieldOf (rotField k rows))
      = (st4Dissipation rfloor bp (uniformGrid (N := N) θ0 om df) kin (fieldOf rows)).map
          (fun row => List.ofFn (rotE k (fun j : Fin N => row.getD j 0))) := by
  rw [st4Dissipation_field, st4Dissipation_field, st4DissRows_rot, field_rot_as_map]

/-- the largest band saturation of a frequency (the isotropic part of the saturation term) does not
depend on where the directions start -/
theorem isotropic_exceedance_invariant (bp : BrkP ℝ) (k : Fin N) (b : Fin N → ℝ) :
    isoExceedance bp (List.ofFn (rotE k b)) = isoExceedance bp (List.ofFn b) := isoExceedance_rot bp k b

/-- **resolved wave stress, whole field**: the (east, north) stress of the rotated source term is
the rotated vector -/
theorem resolved_stress_rotates (p : GenP ℝ) (θ0 : ℝ) (om df : List ℝ) (kin : Kin ℝ) (S : List (Fin N → ℝ)) (k : Fin N) :
    IsRot ((k : ℕ) * dθ N) (resolvedStress p (uniformGrid (N := N) θ0 om df) kin (fieldOf S))
      (resolvedStress p (uniformGrid (N := N) θ0 om df) kin (fieldOf (rotField k S))) :=
  resolvedStress_rot p θ0 om df kin S k

/-- **WAM tail stress**: fails for the rotated input exactly when it fails for the original, and
otherwise is the rotated vector -/
theorem tail_stress_rotates (p : GenP ℝ) (θ0 : ℝ) (om df : List ℝ) (rows : List (Fin N → ℝ)) (w : Wind ℝ) (z0 : ℝ) (k : Fin N) :
    OptRot ((k : ℕ) * dθ N) (wamTail p (uniformGrid (N := N) θ0 om df) (fieldOf rows) w z0)
      (wamTail p (uniformGrid (N := N) θ0 om df) (fieldOf (rotField k rows)) (turnWind k w) z0) :=
  wamTail_rot p θ0 om df rows w z0 k

/-- **total stress** (resolved + tail + viscous): same magnitude, and the same failure, after a joint rotation -/
theorem total_stress_magnitude_invariant (p : GenP ℝ) (θ0 : ℝ) (om df : List ℝ) (kin : Kin ℝ) (rows : List (Fin N → ℝ))
    (w : Wind ℝ) (z0 : ℝ) (k : Fin N) :
    (totalStress rfloor p (uniformGrid (N := N) θ0 om df) kin (fieldOf (rotField k rows)) (turnWind k w) z0).map Prod.fst
      = (totalStress rfloor p (uniformGrid (N := N) θ0 om df) kin (fieldOf rows) w z0).map Prod.fst :=
  totalStress_magnitude_rot p θ0 om df kin rows w z0 k

/-- **total stress vector** (resolved + tail + viscous): the model's `totalStress` reports the magnitude and the
direction of this vector, and the vector rotates with the sea and the wind — so the reported stress direction moves by
the rotation angle modulo 360 (`stress_direction_shifts` turns the rotated vector into the angle statement) -/
theorem total_stress_vector_rotates (p : GenP ℝ) (θ0 : ℝ) (om df : List ℝ) (kin : Kin ℝ) (rows : List (Fin N → ℝ))
    (w : Wind ℝ) (z0 : ℝ) (k : Fin N) :
    OptRot ((k : ℕ) * dθ N) (totalStressVec p (uniformGrid (N := N) θ0 om df) kin (fieldOf rows) w z0)
      (totalStressVec p (uniformGrid (N := N) θ0 om df) kin (fieldOf (rotField k rows)) (turnWind k w) z0) :=
  totalStressVec_rot p θ0 om df kin rows w z0 k

/-- … so, whenever both are defined and the stress does not vanish, the direction of the total stress of the rotated input
is the direction of the original plus the rotation angle (as angles modulo a full turn) -/
theorem total_stress_direction_shifts (p : GenP ℝ) (θ0 : ℝ) (om df : List ℝ) (kin : Kin ℝ) (rows : List (Fin N → ℝ))
    (w : Wind ℝ) (z0 : ℝ) (k : Fin N) (v v' : ℝ × ℝ)
    (h : totalStressVec p (uniformGrid (N := N) θ0 om df) kin (fieldOf rows) w z0 = some v)
    (h' : totalStressVec p (uniformGrid (N := N) θ0 om df) kin (fieldOf (rotField k rows)) (turnWind k w) z0 = some v')
    (hv : v.1 ≠ 0 ∨ v.2 ≠ 0) :
    dirAngle v'.1 v'.2 = dirAngle v.1 v.2 + ((((k : ℕ) * dθ N) * Real.pi / 180 : ℝ) : Real.Angle) := by
  have hr := totalStressVec_rot p θ0 om df kin rows w z0 k
  rw [h, h'] at hr
  exact IsRot.dirAngle hr hv

theorem total_stress_is_magnitude_and_direction (p : GenP ℝ) (g : Grid ℝ) (kin : Kin ℝ) (E : List (List ℝ)) (w : Wind ℝ) (z0 : ℝ)
    (hu : (frictionVelocity p w z0 == 0) = false) :
    totalStress rfloor p g kin E w z0 = (totalStressVec p g kin E w z0).map fun v =>
      (Transc.sqrt (v.2 * v.2 + v.1 * v.1), some (mod360 rfloor (Transc.atan2 v.2 v.1 * ((180 : ℕ) : ℝ) / Transc.pi))) :=
  totalStress_of_vec p g kin E w z0 hu

/-- the hypothesis is met: a friction-velocity wind of 1 m/s -/
example (p : GenP ℝ) (z0 : ℝ) : (frictionVelocity p { speed := 1, dirDeg := 0, isU10 := false } z0 == 0) = false := by
  simp [frictionVelocity]

/-- **stress balance**: the function of `log z0` whose root is the roughness is unchanged -/
theorem stress_balance_invariant (p : GenP ℝ) (θ0 : ℝ) (om df : List ℝ) (kin : Kin ℝ) (rows : List (Fin N → ℝ))
    (w : Wind ℝ) (k : Fin N) (lz : ℝ) :
    stressBalance rfloor p (uniformGrid (N := N) θ0 om df) kin (fieldOf (rotField k rows)) (turnWind k w) lz
      = stressBalance rfloor p (uniformGrid (N := N) θ0 om df) kin (fieldOf rows) w lz :=
  stressBalance_rot p θ0 om df kin rows w k lz

/-- **roughness length**: the model's `roughness` (Newton–Raphson on the stress balance, with its
brackets, step limits and failure modes) returns the same value or the same failure -/
theorem roughness_invariant (tot : Option ℝ → ℝ) (p : GenP ℝ) (θ0 : ℝ) (om df : List ℝ) (kin : Kin ℝ)
    (rows : List (Fin N → ℝ)) (w : Wind ℝ) (guess : ℝ) (k : Fin N) :
    roughness (fun lz => tot (stressBalance rfloor p (uniformGrid (N := N) θ0 om df) kin (fieldOf (rotField k rows)) (turnWind k w) lz))
        p (turnWind k w) guess
      = roughness (fun lz => tot (stressBalance rfloor p (uniformGrid (N := N) θ0 om df) kin (fieldOf rows) w lz)) p w guess :=
  roughness_rot tot p θ0 om df kin rows w guess k

/-- **bulk rates** (`Σ_f Σ_θ · Δf Δθ` of any source-term field) are unchanged when the field is rotated -/
theorem bulk_rate_invariant (θ0 : ℝ) (om df : List ℝ) (D : List (Fin N → ℝ)) (k : Fin N) :
    bulk (uniformGrid (N := N) θ0 om df) (fieldOf (rotField k D)) = bulk (uniformGrid (N := N) θ0 om df) (fieldOf D) :=
  bulk_rot θ0 om df D k

/-- **bulk wind input** at fixed roughness is unchanged by a joint rotation -/
theorem bulk_input_invariant (p : GenP ℝ) (θ0 : ℝ) (om df : List ℝ) (kin : Kin ℝ) (rows : List (Fin N → ℝ))
    (w : Wind ℝ) (z0 : ℝ) (k : Fin N) :
    bulk (uniformGrid (N := N) θ0 om df) (st4Input rfloor p (uniformGrid (N := N) θ0 om df) kin (fieldOf (rotField k rows)) (turnWind k w) z0)
      = bulk (uniformGrid (N := N) θ0 om df) (st4Input rfloor p (uniformGrid (N := N) θ0 om df) kin (fieldOf rows) w z0) := by
  obtain ⟨S, hS, hS'⟩ := st4Input_turn p θ0 om df kin rows w z0 k
  rw [hS, hS', bulk_rot]

/-- **roughness as the library computes it** (zero wind gives NaN, a failed balance evaluation is
passed to the solver as `nan`) is unchanged -/
theorem roughness_of_invariant (nan : ℝ) (p : GenP ℝ) (θ0 : ℝ) (om df : List ℝ) (kin : Kin ℝ) (rows : List (Fin N → ℝ))
    (w : Wind ℝ) (guess : ℝ) (k : Fin N) :
    roughnessOf nan rfloor p (uniformGrid (N := N) θ0 om df) kin (fieldOf (rotField k rows)) (turnWind k w) guess
      = roughnessOf nan rfloor p (uniformGrid (N := N) θ0 om df) kin (fieldOf rows) w guess :=
  roughnessOf_rot nan p θ0 om df kin rows w guess k

/-- **wind inversion**: the balance function `u10 ↦ bulk input − target − dE/dt|active` (with the
roughness solved anew at every `u10`) is the same function after rotating spectrum, rate of change
and wind direction together … -/
theorem u10_balance_invariant (nan : ℝ) (p : GenP ℝ) (θ0 : ℝ) (om df : List ℝ) (kin : Kin ℝ) (rows dEdt : List (Fin N → ℝ))
    (dir target : ℝ) (k : Fin N) :
    u10Balance nan rfloor p (uniformGrid (N := N) θ0 om df) kin (fieldOf (rotField k rows)) (dir + (k : ℕ) * dθ N) target
        (fieldOf (rotField k dEdt))
      = u10Balance nan rfloor p (uniformGrid (N := N) θ0 om df) kin (fieldOf rows) dir target (fieldOf dEdt) :=
  u10Balance_rot nan p θ0 om df kin rows dEdt dir target k

/-- … so the estimated wind speed (or its failure) is unchanged and the reported direction is the
guess direction, which moves by the rotation -/
theorem u10_estimate_invariant (nan : ℝ) (p : GenP ℝ) (θ0 : ℝ) (om df : List ℝ) (kin : Kin ℝ) (rows dEdt : List (Fin N → ℝ))
    (dir target bulkRate guess : ℝ) (k : Fin N) :
    u10FromBulkRate (u10Balance nan rfloor p (uniformGrid (N := N) θ0 om df) kin (fieldOf (rotField k rows))
        (dir + (k : ℕ) * dθ N) target (fieldOf (rotField k dEdt))) bulkRate guess (dir + (k : ℕ) * dθ N)
      = ((u10FromBulkRate (u10Balance nan rfloor p (uniformGrid (N := N) θ0 om df) kin (fieldOf rows) dir target (fieldOf dEdt))
          bulkRate guess dir).1, dir + (k : ℕ) * dθ N) :=
  u10Estimate_rot nan p θ0 om df kin rows dEdt dir target bulkRate guess k

/-- **dissipation-weighted wave direction**: the wavenumber vector rotates with the field, so its
direction moves by the rotation angle (as an angle modulo a full turn) and the bulk rate is unchanged -/
theorem dissipation_vector_rotates (θ0 : ℝ) (om df : List ℝ) (kin : Kin ℝ) (D : List (Fin N → ℝ)) (k : Fin N) :
    IsRot ((k : ℕ) * dθ N) (dissipationVector (uniformGrid (N := N) θ0 om df) kin (fieldOf D))
      (dissipationVector (uniformGrid (N := N) θ0 om df) kin (fieldOf (rotField k D))) :=
  dissipationVector_rot θ0 om df kin D k

theorem dissipation_direction_shifts (θ0 : ℝ) (om df : List ℝ) (kin : Kin ℝ) (D : List (Fin N → ℝ)) (k : Fin N)
    (h : (dissipationVector (uniformGrid (N := N) θ0 om df) kin (fieldOf D)).1 ≠ 0 ∨
         (dissipationVector (uniformGrid (N := N) θ0 om df) kin (fieldOf D)).2 ≠ 0) :
    dirAngle (dissipationVector (uniformGrid (N := N) θ0 om df) kin (fieldOf (rotField k D))).1
        (dissipationVector (uniformGrid (N := N) θ0 om df) kin (fieldOf (rotField k D))).2
      = dirAngle (dissipationVector (uniformGrid (N := N) θ0 om df) kin (fieldOf D)).1
          (dissipationVector (uniformGrid (N := N) θ0 om df) kin (fieldOf D)).2
        + (((k : ℕ) * dθ N * Real.pi / 180 : ℝ) : Real.Angle) :=
  (dissipationVector_rot θ0 om df kin D k).dirAngle h

/-- the hypothesis of `dissipation_direction_shifts` is met: one bin, one frequency, negative rate -/
example : (dissipationVector (uniformGrid (N := 1) 0 [1] [1]) { k := [1], cg := [1], c := [1] } (fieldOf (N := 1) [fun _ => (-1 : ℝ)])).1 ≠ 0 ∨
    (dissipationVector (uniformGrid (N := 1) 0 [1] [1]) { k := [1], cg := [1], c := [1] } (fieldOf (N := 1) [fun _ => (-1 : ℝ)])).2 ≠ 0 := by
  left
  simp [dissipationVector, uniformGrid, fieldOf, lsum, theta, deg2rad, dθ, Osu.Transc.cos]

/-! ### mirror image of the whole fields (grid starting at 0): direction axis and wind direction negated -/

theorem field_mir_as_map (D : List (Fin N → ℝ)) :
    fieldOf (mirField D) = (fieldOf D).map (fun row => List.ofFn (mirE (fun j : Fin N => row.getD j 0))) := by
  simp only [fieldOf, mirField, List.map_map]
  apply List.map_congr_left
  intro r _
  simp only [Function.comp]
  congr 1
  funext j
  simp [mirE]

/-- wind input: the field of the mirrored spectrum under the mirrored wind is the mirrored field -/
theorem wind_input_field_mirrors (p : GenP ℝ) (om df : List ℝ) (kin : Kin ℝ) (rows : List (Fin N → ℝ)) (w : Wind ℝ) (z0 : ℝ) :
    st4Input rfloor p (uniformGrid (N := N) 0 om df) kin (fieldOf (mirField rows)) (flipWind w) z0
      = (st4Input rfloor p (uniformGrid (N := N) 0 om df) kin (fieldOf rows) w z0).map
          (fun row => List.ofFn (mirE (fun j : Fin N => row.getD j 0))) := by
  obtain ⟨S, hS, hS'⟩ := st4Input_flip p om df kin rows w z0
  rw [hS, hS', field_mir_as_map]

/-- ST6 dissipation -/
theorem st6_field_mirrors (sp : St6P ℝ) (om df : List ℝ) (kin : Kin ℝ) (rows : List (Fin N → ℝ)) :
    st6Dissipation sp (uniformGrid (N := N) 0 om df) kin (fieldOf (mirField rows))
      = (st6Dissipation sp (uniformGrid (N := N) 0 om df) kin (fieldOf rows)).map
          (fun row => List.ofFn (mirE (fun j : Fin N => row.getD j 0))) := by
  obtain ⟨D, h0, h1⟩ := st6_field_mir sp om df kin rows
  rw [h0, h1, field_mir_as_map]

/-- ST4 dissipation (band saturation, saturation and cumulative terms) -/
theorem st4_dissipation_field_mirrors (bp : BrkP ℝ) (om df : List ℝ) (kin : Kin ℝ) (rows : List (Fin N → ℝ)) :
    st4Dissipation rfloor bp (uniformGrid (N := N) 0 om df) kin (fieldOf (mirField rows))
      = (st4Dissipation rfloor bp (uniformGrid (N := N) 0 om df) kin (fieldOf rows)).map
          (fun row => List.ofFn (mirE (fun j : Fin N => row.getD j 0))) := by
  rw [st4Dissipation_field, st4Dissipation_field, st4DissRows_mir, field_mir_as_map]

/-- resolved stress and tail stress are reflected (east kept, north negated) -/
theorem resolved_stress_mirrors (p : GenP ℝ) (om df : List ℝ) (kin : Kin ℝ) (S : List (Fin N → ℝ)) :
    IsMir (resolvedStress p (uniformGrid (N := N) 0 om df) kin (fieldOf S))
      (resolvedStress p (uniformGrid (N := N) 0 om df) kin (fieldOf (mirField S))) :=
  resolvedStress_mir p om df kin S

theorem tail_stress_mirrors (p : GenP ℝ) (om df : List ℝ) (rows : List (Fin N → ℝ)) (w : Wind ℝ) (z0 : ℝ) :
    OptMir (wamTail p (uniformGrid (N := N) 0 om df) (fieldOf rows) w z0)
      (wamTail p (uniformGrid (N := N) 0 om df) (fieldOf (mirField rows)) (flipWind w) z0) :=
  wamTail_mir p om df rows w z0

/-- the total stress vector is reflected, so the reported stress direction is negated -/
theorem total_stress_vector_mirrors (p : GenP ℝ) (om df : List ℝ) (kin : Kin ℝ) (rows : List (Fin N → ℝ)) (w : Wind ℝ) (z0 : ℝ) :
    OptMir (totalStressVec p (uniformGrid (N := N) 0 om df) kin (fieldOf rows) w z0)
      (totalStressVec p (uniformGrid (N := N) 0 om df) kin (fieldOf (mirField rows)) (flipWind w) z0) :=
  totalStressVec_mir p om df kin rows w z0

/-- stress magnitude, stress balance and roughness are unchanged by the mirror image -/
theorem total_stress_magnitude_mirror_invariant (p : GenP ℝ) (om df : List ℝ) (kin : Kin ℝ) (rows : List (Fin N → ℝ))
    (w : Wind ℝ) (z0 : ℝ) :
    (totalStress rfloor p (uniformGrid (N := N) 0 om df) kin (fieldOf (mirField rows)) (flipWind w) z0).map Prod.fst
      = (totalStress rfloor p (uniformGrid (N := N) 0 om df) kin (fieldOf rows) w z0).map Prod.fst :=
  totalStress_magnitude_mir p om df kin rows w z0

theorem roughness_of_mirror_invariant (nan : ℝ) (p : GenP ℝ) (om df : List ℝ) (kin : Kin ℝ) (rows : List (Fin N → ℝ))
    (w : Wind ℝ) (guess : ℝ) :
    roughnessOf nan rfloor p (uniformGrid (N := N) 0 om df) kin (fieldOf (mirField rows)) (flipWind w) guess
      = roughnessOf nan rfloor p (uniformGrid (N := N) 0 om df) kin (fieldOf rows) w guess :=
  roughnessOf_mir nan p om df kin rows w guess

/-- bulk rates, the balance function of the wind inversion and hence the estimated wind speed -/
theorem bulk_rate_mirror_invariant (om df : List ℝ) (D : List (Fin N → ℝ)) :
    bulk (uniformGrid (N := N) 0 om df) (fieldOf (mirField D)) = bulk (uniformGrid (N := N) 0 om df) (fieldOf D) :=
  bulk_mir om df D

theorem u10_balance_mirror_invariant (nan : ℝ) (p : GenP ℝ) (om df : List ℝ) (kin : Kin ℝ) (rows dEdt : List (Fin N → ℝ))
    (dir target : ℝ) :
    u10Balance nan rfloor p (uniformGrid (N := N) 0 om df) kin (fieldOf (mirField rows)) (-dir) target (fieldOf (mirField dEdt))
      = u10Balance nan rfloor p (uniformGrid (N := N) 0 om df) kin (fieldOf rows) dir target (fieldOf dEdt) :=
  u10Balance_mir nan p om df kin rows dEdt dir target

theorem u10_estimate_mirror_invariant (nan : ℝ) (p : GenP ℝ) (om df : List ℝ) (kin : Kin ℝ) (rows dEdt : List (Fin N → ℝ))
    (dir target bulkRate guess : ℝ) :
    u10FromBulkRate (u10Balance nan rfloor p (uniformGrid (N := N) 0 om df) kin (fieldOf (mirField rows)) (-dir) target
        (fieldOf (mirField dEdt))) bulkRate guess (-dir)
      = ((u10FromBulkRate (u10Balance nan rfloor p (uniformGrid (N := N) 0 om df) kin (fieldOf rows) dir target (fieldOf dEdt))
          bulkRate guess dir).1, -dir) := by
  rw [u10Balance_mir]
  simp only [u10FromBulkRate]
  split <;> rfl

/-- the dissipation-weighted wavenumber vector is reflected, so its direction is negated -/
theorem dissipation_vector_mirrors (om df : List ℝ) (kin : Kin ℝ) (D : List (Fin N → ℝ)) :
    IsMir (dissipationVector (uniformGrid (N := N) 0 om df) kin (fieldOf D))
      (dissipationVector (uniformGrid (N := N) 0 om df) kin (fieldOf (mirField D))) :=
  dissipationVector_mir om df kin D

/-- the hypotheses-free statements above are about a non-degenerate rotation: a quarter turn on four
bins moves the energy of bin 0 to bin 1 -/
example : rotE (N := 4) 1 (fun j => if j = 0 then 1 else 0) 1 = 1 := by simp [rotE]

end Osu.Props.C09
