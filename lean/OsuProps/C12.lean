import OsuModel.WindEstimate
import OsuProofs.MeanMethod
import OsuProofs.Directional
import OsuProofs.RealTransc

/-!
# C12 — equilibrium-range wind estimate: closed form and direction conventions

Model: `OsuModel/WindEstimate.lean`.  `u* = 8π³ E_eq / (4 g I β)`, `z0 = α u*² / g`,
`U10 = u*/κ · ln(10/z0)` are the model's definitions (tied to the code by the correspondence);
the theorems are about the selection of `E_eq`, scaling, and the direction conventions.
-/

namespace Osu.Wind
open Osu.Spec

section field
variable {α : Type} [Field α] [LinearOrder α] [IsStrictOrderedRing α]
set_option linter.unusedSectionVars false

/-- the running maximum of `argmax`: the result bounds every element and is attained -/
theorem argmaxAux_spec (l : List α) (i : ℕ) (best : Option (ℕ × α)) :
    (∀ r, argmaxAux l i best = some r →
      (∀ x ∈ l, x ≤ r.2) ∧ (∀ b, best = some b → b.2 ≤ r.2) ∧
      (r.2 ∈ l ∨ ∃ b, best = some b ∧ b.2 = r.2)) ∧
    (argmaxAux l i best = none ↔ l = [] ∧ best = none) := by
  induction l generalizing i best with
  | nil =>
    refine ⟨?_, by simp [argmaxAux]⟩
    intro r hr
    simp only [argmaxAux] at hr
    exact ⟨by simp, fun b hb => by rw [hr] at hb; cases hb; exact le_refl _, Or.inr ⟨r, hr, rfl⟩⟩
  | cons v l ih =>
    constructor
    · intro r hr
      simp only [argmaxAux] at hr
      obtain ⟨h1, h2, h3⟩ := (ih (i + 1) _).1 r hr
      cases best with
      | none =>
        simp only at h2 h3
        have hv : v ≤ r.2 := h2 (i, v) rfl
        refine ⟨?_, by simp, ?_⟩
        · intro x hx
          rcases List.mem_cons.1 hx with h | h
          · rw [h]; exact hv
          · exact h1 x h
        · rcases h3 with h | ⟨b, hb, hbe⟩
          · exact Or.inl (List.mem_cons_of_mem _ h)
          · cases hb; exact Or.inl (by rw [← hbe]; exact List.mem_cons_self)
      | some jb =>
        obtain ⟨j, b⟩ := jb
        simp only at h2 h3
        by_cases hlt : b < v
        · simp only [hlt, if_true] at h2 h3
          have hv : v ≤ r.2 := h2 (i, v) rfl
          refine ⟨?_, ?_, ?_⟩
          · intro x hx
            rcases List.mem_cons.1 hx with h | h
            · rw [h]; exact hv
            · exact h1 x h
          · intro b' hb'; cases hb'; exact le_trans (le_of_lt hlt) hv
          · rcases h3 with h | ⟨b', hb', hbe⟩
            · exact Or.inl (List.mem_cons_of_mem _ h)
            · cases hb'; exact Or.inl (by rw [← hbe]; exact List.mem_cons_self)
        · simp only [hlt, if_false] at h2 h3
          have hb : b ≤ r.2 := h2 (j, b) rfl
          refine ⟨?_, ?_, ?_⟩
          · intro x hx
            rcases List.mem_cons.1 hx with h | h
            · rw [h]; exact le_trans (not_lt.1 hlt) hb
            · exact h1 x h
          · intro b' hb'; cases hb'; exact hb
          · rcases h3 with h | ⟨b', hb', hbe⟩
            · exact Or.inl (List.mem_cons_of_mem _ h)
            · cases hb'; exact Or.inr ⟨(j, b), rfl, hbe⟩
    · simp only [argmaxAux]
      rw [(ih (i + 1) _).2]
      constructor
      · rintro ⟨_, h⟩; cases best <;> simp at h; split at h <;> cases h
      · rintro ⟨h, _⟩; cases h

/-- `eq_level_tail` (peak method): if `E f^p ≤ c` everywhere (missing counted as 0) and `= c` at
some frequency — e.g. any spectrum whose tail is `c f^-p` and lies below it elsewhere — the
equilibrium level is exactly `c`. -/
theorem eq_level_peak (p : ℕ) (fs : List α) (es a1 b1 : List (Option α)) (c : α)
    (hle : ∀ x ∈ scaledFilled p fs es, x ≤ c) (hat : c ∈ scaledFilled p fs es) :
    ∃ a b, eqPeak p fs es a1 b1 = some (c, a, b) := by
  have hs := argmaxAux_spec (scaledFilled p fs es) 0 none
  cases hr : argmax (scaledFilled p fs es) with
  | none =>
    have := (hs.2.1 (by simpa [argmax] using hr)).1
    rw [this] at hat; simp at hat
  | some r =>
    obtain ⟨h1, _, h3⟩ := hs.1 r (by simpa [argmax] using hr)
    have hmem : r.2 ∈ scaledFilled p fs es := by
      rcases h3 with h | ⟨b, hb, _⟩
      · exact h
      · cases hb
    have : r.2 = c := le_antisymm (hle _ hmem) (h1 c hat)
    refine ⟨a1.getD r.1 none, b1.getD r.1 none, ?_⟩
    simp only [eqPeak, hr, Option.map_some, this]

/-- the index picked by `argmax` does not change when every value is multiplied by `c > 0` -/
theorem argmaxAux_scale (c : α) (hc : 0 < c) (l : List α) (i : ℕ) (best : Option (ℕ × α)) :
    argmaxAux (l.map (c * ·)) i (best.map fun b => (b.1, c * b.2)) =
      (argmaxAux l i best).map fun r => (r.1, c * r.2) := by
  induction l generalizing i best with
  | nil => simp [argmaxAux]
  | cons v l ih =>
    simp only [List.map_cons, argmaxAux]
    cases best with
    | none => simpa using ih (i + 1) (some (i, v))
    | some jb =>
      obtain ⟨j, b⟩ := jb
      simp only [Option.map_some]
      have : (c * b < c * v) ↔ b < v := by
        constructor
        · intro h; exact lt_of_mul_lt_mul_left h hc.le
        · intro h; exact mul_lt_mul_of_pos_left h hc
      by_cases hlt : b < v
      · simp only [this.2 hlt, hlt, if_true]
        simpa using ih (i + 1) (some (i, v))
      · have : ¬ (c * b < c * v) := fun h => hlt (this.1 h)
        simp only [this, hlt, if_false]
        simpa using ih (i + 1) (some (j, b))

theorem scaledFilled_scale (c : α) (p : ℕ) (fs : List α) (es : List (Option α)) :
    scaledFilled p fs (es.map (Option.map (c * ·))) = (scaledFilled p fs es).map (c * ·) := by
  simp only [scaledFilled]
  induction fs generalizing es with
  | nil => simp
  | cons f fs ih =>
    cases es with
    | nil => simp
    | cons e es =>
      simp only [List.map_cons, List.zipWith_cons_cons, ih]
      congr 1
      cases e <;> simp [fill0, mul_assoc]

/-- `ustar_linear`, selection part: scaling the spectrum by `c > 0` selects the same frequency
(same a1, b1, hence the same direction) and scales the equilibrium level by `c`. -/
theorem eqPeak_scale (c : α) (hc : 0 < c) (p : ℕ) (fs : List α) (es a1 b1 : List (Option α)) :
    eqPeak p fs (es.map (Option.map (c * ·))) a1 b1 =
      (eqPeak p fs es a1 b1).map fun r => (c * r.1, r.2.1, r.2.2) := by
  simp only [eqPeak, argmax, scaledFilled_scale]
  have := argmaxAux_scale c hc (scaledFilled p fs es) 0 none
  simp only [Option.map_none] at this
  rw [this]
  cases argmaxAux (scaledFilled p fs es) 0 none <;> simp

/-- directions are returned in [0, 360) and are congruent to the unwrapped angle -/
theorem direction_range {floor : α → ℤ} (hf : IsFloor floor) (x : α) :
    0 ≤ pmod floor x 360 ∧ pmod floor x 360 < 360 ∧ ∃ k : ℤ, pmod floor x 360 = x - 360 * k :=
  ⟨(pmod_range hf x 360 (by norm_num)).1, (pmod_range hf x 360 (by norm_num)).2, ⟨floor (x / 360), rfl⟩⟩

end field

/-! ### At ℝ: the closed forms -/

open Real

/-- `ustar_def` and `ustar_linear`: `u* = 8π³ E_eq / (4 g I β)`, linear in the equilibrium level -/
theorem ustar_def (eq g I beta : ℝ) :
    ustar eq g I beta = 8 * π ^ 3 * eq / (4 * g * I * beta) ∧
    ∀ c, ustar (c * eq) g I beta = c * ustar eq g I beta := by
  constructor
  · simp only [ustar, Transc.pi]; push_cast
    by_cases h : 4 * g * I * beta = 0
    · rcases mul_eq_zero.1 h with h | h
      · rcases mul_eq_zero.1 h with h | h
        · rcases mul_eq_zero.1 h with h | h
          · norm_num at h
          · subst h; simp
        · subst h; simp
      · subst h; simp
    · have hg : g ≠ 0 := by intro h'; apply h; rw [h']; ring
      have hI : I ≠ 0 := by intro h'; apply h; rw [h']; ring
      have hb : beta ≠ 0 := by intro h'; apply h; rw [h']; ring
      field_simp
  · intro c; simp only [ustar]; ring

/-- the conversion to the meteorological convention is `(270 - θ) mod 360`, in [0, 360);
applying it twice returns the original direction modulo 360 -/
theorem convention (θ : ℝ) :
    0 ≤ toMeteorological (fun x => ⌊x⌋) θ ∧ toMeteorological (fun x => ⌊x⌋) θ < 360 ∧
    ∃ k : ℤ, toMeteorological (fun x => ⌊x⌋) θ = 270 - θ - 360 * k := by
  have hf : IsFloor (fun x : ℝ => ⌊x⌋) := fun x => ⟨Int.floor_le x, Int.lt_floor_add_one x⟩
  have := direction_range hf (270 - θ)
  simp only [toMeteorological]
  push_cast
  exact this

/-- U10 from the logarithmic profile with the Charnock roughness of the friction velocity -/
theorem u10_def (kappa charnock g us : ℝ) :
    u10Of kappa us (charnockZ0 charnock g us) = us / kappa * Real.log (10 / (charnock * us ^ 2 / g)) := by
  simp [u10Of, charnockZ0, Transc.log, pow_two]

/-! ### Non-vacuity -/

example : eqPeak 4 ([1, 2, 4] : List ℚ) [some 3, some (1/8), some (1/128)] [some 0, some 1, none] [some 0, some 0, some 0]
    = some (3, some 0, some 0) := by decide +kernel

section mean
variable {α : Type} [Field α] [LinearOrder α] [IsStrictOrderedRing α]

/-- the pieces of `eqMean` as the code names them -/
def meanScaled (p : ℕ) (fs es : List α) : List α := List.zipWith (fun f e => e * npow f p) fs es
def meanIMin (absv : α → α) (fs : List α) : ℕ := nearestIdx absv fs 0
def meanIMax (absv : α → α) (nb : ℕ) (fmax : α) (fs : List α) : ℕ :=
  min (max (meanIMin absv fs + 1) (nearestIdx absv fs fmax + 1 - nb)) (fs.length - nb)
def meanIStar (absv : α → α) (p nb : ℕ) (fmax : α) (fs es : List α) : ℕ :=
  argminIdx (windowVariances (meanScaled p fs es) nb fs.length (meanIMin absv fs) (meanIMax absv nb fmax fs)) + meanIMin absv fs

theorem eqMean_level_eq (absv : α → α) (p nb : ℕ) (fmax : α) (fs es a1 b1 : List α) :
    (eqMean absv p nb fmax fs es a1 b1).1 = pickAt (meanScaled p fs es) nb fs.length (meanIStar absv p nb fmax fs es) := rfl

/-- **mean method**: if one of the scanned `nb`-bin windows lies in a range where `E f^p` is
constant (zero relative variance — e.g. a `c f^-p` range), then the window the code selects is
itself flat, and (when the start-index clip does not bite and the window mean is not zero) the
returned equilibrium level is exactly the constant value of that window -/
theorem eqMean_level_of_flat_window (absv : α → α) (p nb : ℕ) (fmax : α) (fs es a1 b1 : List α)
    (hes : fs.length ≤ es.length) (hnb : 0 < nb) (c0 : ℕ)
    (hc0 : c0 < meanIMax absv nb fmax fs - meanIMin absv fs)
    (hflat : relVar (candidate (meanScaled p fs es) nb fs.length (meanIMin absv fs + c0)) = 0)
    (hnoclip : meanIStar absv p nb fmax fs es + nb ≤ fs.length - nb)
    (hmean : lmean (candidate (meanScaled p fs es) nb fs.length (meanIStar absv p nb fmax fs es)) ≠ 0) :
    (eqMean absv p nb fmax fs es a1 b1).1 =
        lmean (candidate (meanScaled p fs es) nb fs.length (meanIStar absv p nb fmax fs es)) ∧
    ∀ x ∈ candidate (meanScaled p fs es) nb fs.length (meanIStar absv p nb fmax fs es),
      x = lmean (candidate (meanScaled p fs es) nb fs.length (meanIStar absv p nb fmax fs es)) := by
  obtain ⟨hz, _⟩ := selected_variance_zero (meanScaled p fs es) nb fs.length (meanIMin absv fs) (meanIMax absv nb fmax fs) c0 hc0 hflat
  have hstar : meanIMin absv fs + argminIdx (windowVariances (meanScaled p fs es) nb fs.length (meanIMin absv fs) (meanIMax absv nb fmax fs))
      = meanIStar absv p nb fmax fs es := by simp only [meanIStar]; omega
  rw [hstar] at hz
  -- the selected window is the full `nb`-bin window starting at iStar
  have hwin : candidate (meanScaled p fs es) nb fs.length (meanIStar absv p nb fmax fs es)
      = ((meanScaled p fs es).drop (meanIStar absv p nb fmax fs es)).take nb := by
    simp only [candidate]
    congr 1
    omega
  have hlen : fs.length ≤ (meanScaled p fs es).length := by
    simp only [meanScaled, List.length_zipWith]; omega
  have hne : candidate (meanScaled p fs es) nb fs.length (meanIStar absv p nb fmax fs es) ≠ [] := by
    rw [hwin]
    intro h
    have := congrArg List.length h
    simp only [List.length_take, List.length_drop, List.length_nil] at this
    omega
  have hconst := relVar_zero_const _ hne hmean hz
  refine ⟨?_, hconst⟩
  rw [eqMean_level_eq]
  apply pickAt_const _ _ _ _ _ hnb hnoclip hlen
  rw [← hwin]
  exact hconst

end mean

end Osu.Wind
