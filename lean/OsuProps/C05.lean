import OsuProofs.Estimators
/-
C05 — directional estimators return valid distributions and conserve energy.

All statements are about `OsuModel/Estimators.lean` instantiated at ℝ.  The tie to
`estimators/mem.py`, `estimators/mem2.py` is the correspondence check of `harness/check_est.py`
(Float instance of the same definitions against the jitted kernels) plus implementation oracles.
-/
namespace Osu.Props.C05

open Osu.Est

/-- MEM2, any multipliers: every value of the distribution is strictly positive. -/
theorem dist_pos (lam delta : List ℝ) (T : List (List ℝ))
    (hδ : ∀ d ∈ delta, 0 < d) (hT : T ≠ []) (hd : delta ≠ []) :
    ∀ x ∈ dist lam delta T, 0 < x := by
  intro x hx
  rw [dist_eq_distWith] at hx
  simp only [distWith, List.mem_map] at hx
  obtain ⟨s, hs, rfl⟩ := hx
  have hip : innerProduct lam T ≠ [] := by simp [innerProduct, hT]
  have hz := z_pos (innerProduct lam T) delta (lmin (innerProduct lam T)) hδ hip hd
  have hs' : 0 < s := shapeOf_pos _ _ s hs
  exact mul_pos hs' (by positivity)

/-- MEM2, any multipliers: the distribution integrates to one with the direction increments
(`Σ_j D_j Δ_j = 1`). -/
theorem dist_normalised (lam delta : List ℝ) (T : List (List ℝ))
    (hδ : ∀ d ∈ delta, 0 < d) (hT : T ≠ []) (hd : delta ≠ []) :
    lsum (List.zipWith (· * ·) (dist lam delta T) delta) = 1 := by
  rw [dist_eq_distWith]
  have hip : innerProduct lam T ≠ [] := by simp [innerProduct, hT]
  have hz := z_pos (innerProduct lam T) delta (lmin (innerProduct lam T)) hδ hip hd
  simp only [distWith]
  rw [zipWith_map_left_mul, lsum_map_mul]
  field_simp

/-- The shift by `min ip` (against overflow) does not change the distribution: any other
constant gives the same values. -/
theorem dist_shift_invariant (lam delta : List ℝ) (T : List (List ℝ)) (c : ℝ) :
    dist lam delta T = distWith (innerProduct lam T) delta c := by
  rw [dist_eq_distWith]; exact distWith_shift _ _ _ _

/-- Every MEM2-Newton result — converged, out of iterations, or line search failed, and for any
linear solver `solve` (Cholesky, least squares, even a wrong one) — is a positive distribution
integrating to one. -/
theorem mem2_newton_valid (solve : List (List ℝ) → List ℝ → List ℝ) (atol : ℝ) (maxIter lsDepth : ℕ)
    (moments delta : List ℝ) (T : List (List ℝ))
    (hδ : ∀ d ∈ delta, 0 < d) (hT : T ≠ []) (hd : delta ≠ []) :
    (∀ x ∈ mem2Newton solve atol maxIter lsDepth moments delta T, 0 < x) ∧
    lsum (List.zipWith (· * ·) (mem2Newton solve atol maxIter lsDepth moments delta T) delta) = 1 :=
  ⟨dist_pos _ _ _ hδ hT hd, dist_normalised _ _ _ hδ hT hd⟩

/-- The same for the `approximate` variant. -/
theorem mem2_approximate_valid (moments delta : List ℝ) (T : List (List ℝ))
    (hδ : ∀ d ∈ delta, 0 < d) (hT : T ≠ []) (hd : delta ≠ []) :
    (∀ x ∈ mem2Approximate moments delta T, 0 < x) ∧
    lsum (List.zipWith (· * ·) (mem2Approximate moments delta T) delta) = 1 :=
  ⟨dist_pos _ _ _ hδ hT hd, dist_normalised _ _ _ hδ hT hd⟩

/-- Energy round trip: multiplying the distribution by `e(f)` (and the degree Jacobian `π/180` of
`estimate_directional_distribution`) and integrating over direction (increments in degrees) gives
`e(f)` back. -/
theorem energy_roundtrip (e : ℝ) (lam delta : List ℝ) (T : List (List ℝ))
    (hδ : ∀ d ∈ delta, 0 < d) (hT : T ≠ []) (hd : delta ≠ []) :
    lsum (List.zipWith (· * ·) ((dist lam delta T).map (· * (e * (Real.pi / 180))))
      (delta.map (· * (180 / Real.pi)))) = e := by
  have h := dist_normalised lam delta T hδ hT hd
  have key : ∀ (l r : List ℝ), lsum (List.zipWith (· * ·) (l.map (· * (e * (Real.pi / 180)))) (r.map (· * (180 / Real.pi))))
      = lsum (List.zipWith (· * ·) l r) * e := by
    intro l
    induction l with
    | nil => simp [lsum]
    | cons a l ih =>
      intro r
      cases r with
      | nil => simp [lsum]
      | cons b r =>
        simp only [List.map_cons, List.zipWith_cons_cons, lsum, ih r]
        have : Real.pi ≠ 0 := Real.pi_ne_zero
        field_simp
  rw [key, h, one_mul]

/-! ### MEM -/

/-- the un-normalised MEM values share the sign of the numerator; after the division by their own
discrete integral every value is non-negative (real arithmetic; in IEEE arithmetic a zero
numerator gives 0/0, which is the recorded finding about `|Φ2| = 1`). -/
theorem mem_nonneg (a1 b1 a2 b2 : ℝ) (trig : List (ℝ × ℝ × ℝ × ℝ)) :
    ∀ x ∈ mem a1 b1 a2 b2 trig, 0 ≤ x := by
  intro x hx
  rw [mem_eq] at hx
  simp only [List.mem_map] at hx
  obtain ⟨r, ⟨t, _, rfl⟩, rfl⟩ := hx
  by_cases hn : (memCoeffs a1 b1 a2 b2).2.2 = 0
  · simp [hn]
  · have hpi := Real.pi_pos
    have hG := lsum_map_nonneg (memG a1 b1 a2 b2) (memG_nonneg a1 b1 a2 b2) trig
    rw [show (memCoeffs a1 b1 a2 b2).2.2 * lsum (trig.map (memG a1 b1 a2 b2)) * Real.pi * 2 / (trig.length : ℝ)
        = (memCoeffs a1 b1 a2 b2).2.2 * (lsum (trig.map (memG a1 b1 a2 b2)) * Real.pi * 2 / (trig.length : ℝ)) by ring]
    rw [mul_div_mul_left _ _ hn]
    apply div_nonneg (memG_nonneg a1 b1 a2 b2 t)
    positivity

/-- MEM integrates to one over the circle with the uniform increment `2π/N` whenever its
numerator and un-normalised integral are not zero. -/
theorem mem_normalised (a1 b1 a2 b2 : ℝ) (trig : List (ℝ × ℝ × ℝ × ℝ))
    (hn : (memCoeffs a1 b1 a2 b2).2.2 ≠ 0) (h : lsum (trig.map (memG a1 b1 a2 b2)) ≠ 0) (hN : trig ≠ []) :
    lsum (mem a1 b1 a2 b2 trig) * (2 * Real.pi / (trig.length : ℝ)) = 1 := by
  rw [mem_eq, lsum_map_div, lsum_map_const_mul]
  have hpi := Real.pi_ne_zero
  have hlen : (trig.length : ℝ) ≠ 0 := by
    have : trig.length ≠ 0 := by simpa [List.length_eq_zero_iff] using hN
    exact_mod_cast this
  field_simp

/-- The MEM numerator is `(1 - |c1|²)(1 - |Φ2|²)`: positive exactly when `|Φ2| < 1` for moments
with `a1² + b1² < 1`; it vanishes on `|Φ2| = 1`, where the code divides 0 by 0. -/
theorem mem_numerator (a1 b1 a2 b2 : ℝ) (h : a1 * a1 + b1 * b1 ≠ 1) :
    (memCoeffs a1 b1 a2 b2).2.2 =
      (1 - (a1 * a1 + b1 * b1)) * (1 - cnormSq (memCoeffs a1 b1 a2 b2).2.1) := by
  have hD : (1 : ℝ) - (a1 * a1 + b1 * b1) ≠ 0 := fun hh => h (by linarith)
  have hD' : (1 : ℝ) - (a1 ^ 2 + b1 ^ 2) ≠ 0 := fun hh => hD (by linarith)
  simp only [memCoeffs, cmul, csub, conj, cnormSq, cdivReal]
  field_simp
  ring

/-- each spectrum of a batch gets the result it would get alone: the batch model is the map of
the per-spectrum function (the tie to the reshaping code is the batch-equals-single oracle) -/
theorem batch_independent (est : List ℝ → List ℝ) (batch : List (List ℝ)) (i : ℕ) (h : i < batch.length) :
    (batch.map est)[i]'(by simpa using h) = est batch[i] := by simp

/-! non-vacuity -/
example : (∀ d ∈ ([1, 1] : List ℝ), 0 < d) ∧ ([[1, 0, 1, 0], [0, 1, -1, 0]] : List (List ℝ)) ≠ [] := by
  constructor
  · intro d hd; simp at hd; rcases hd with rfl | rfl <;> norm_num
  · simp

end Osu.Props.C05
