import OsuProofs.TimeIntegrationLoop

/-!
# C20 — time integration: exact stencils, linearity, start value, jitter fallback

Model: `OsuModel/TimeIntegration.lean` (`stencil`, `integrate`).  `stencil order n : List ℚ` is
the coefficient-array algorithm of `integration_stencil` evaluated in exact rationals.
-/

namespace Osu.TI

/-- `stencil_table` / `stencil_exact_poly`: for every order 1..8 and every number of implicit
points 1..order the stencil has `order` weights, and for **every** polynomial of degree below the
order (coefficients `c`, lowest power first, in the node coordinate `x = 0, 1, …, order-1`) the
weighted sum of its node values equals its exact integral over the step `[m-1, m]`,
`m = order - n`.  (The finite table over monomials is checked by the kernel in exact rational
arithmetic, `table8`; linearity lifts it to all polynomials.) -/
theorem stencil_exact_poly {order n : ℕ} (ho : 1 ≤ order) (ho8 : order ≤ 8) (hn : 1 ≤ n)
    (hno : n ≤ order) (c : List ℚ) (hc : c.length ≤ order) :
    (stencil order n : List ℚ).length = order ∧
    wsum (stencil order n) (fun i => polyEvalFrom c 0 (i : ℚ)) =
      polyIntFrom c 0 (((order - n : ℕ) : ℚ) - 1) ((order - n : ℕ) : ℚ) := by
  refine ⟨(table_entry ho ho8 hn hno (k := 0) (by omega)).1, ?_⟩
  apply exact_of_moments _ _ order _ c 0 (by omega)
  intro k hk
  have := (table_entry ho ho8 hn hno hk).2
  rw [moment_eq_wsum] at this
  rw [this, exactMoment, npow_eq_pow, npow_eq_pow]

/-- The weights sum to one. -/
theorem stencil_sum_one {order n : ℕ} (ho : 1 ≤ order) (ho8 : order ≤ 8) (hn : 1 ≤ n)
    (hno : n ≤ order) : wsum (stencil order n) (fun _ => 1) = 1 := by
  have h := (stencil_exact_poly ho ho8 hn hno [1] (by simp; omega)).2
  simp only [polyEvalFrom, polyIntFrom, pow_zero, mul_one, add_zero] at h
  rw [h]; norm_num

/-- `cubic_exact_step`: the default stencil (order 4, one implicit point) integrates every cubic
`c0 + c1 x + c2 x² + c3 x³` exactly over its step `[2, 3]` (nodes 0..3 = samples i-3..i). -/
theorem cubic_exact_step (c0 c1 c2 c3 : ℚ) :
    wsum (stencil 4 1) (fun i => c0 + c1 * (i : ℚ) + c2 * (i : ℚ) ^ 2 + c3 * (i : ℚ) ^ 3) =
      c0 * (3 - 2) + c1 * (3 ^ 2 - 2 ^ 2) / 2 + c2 * (3 ^ 3 - 2 ^ 3) / 3 + c3 * (3 ^ 4 - 2 ^ 4) / 4 := by
  have h := (stencil_exact_poly (order := 4) (n := 1) (by omega) (by omega) (by omega) (by omega)
    [c0, c1, c2, c3] (by simp)).2
  simp only [polyEvalFrom, polyIntFrom] at h
  have e : (fun i : ℕ => c0 + c1 * (i : ℚ) + c2 * (i : ℚ) ^ 2 + c3 * (i : ℚ) ^ 3) =
      (fun i : ℕ => c0 * (i : ℚ) ^ 0 + (c1 * (i : ℚ) ^ (0 + 1) + (c2 * (i : ℚ) ^ (0 + 1 + 1) +
        (c3 * (i : ℚ) ^ (0 + 1 + 1 + 1) + 0)))) := by
    funext i; ring
  rw [e, h]; norm_num; ring

section ordered
variable {α : Type} [Field α] [LinearOrder α] [IsStrictOrderedRing α]
set_option linter.unusedSectionVars false

/-- `integrate_start`: the cumulative integral starts at the requested start value. -/
theorem integrate_start (tol : α) (W : List α) (n nt : ℕ) (t x : ℕ → α) (s : α) :
    (integrate tol W n nt t x s).head? = some s := rfl

/-- it has one output per sample (for `nt ≥ 1`) -/
theorem integrate_length (tol : α) (W : List α) (n nt : ℕ) (t x : ℕ → α) (s : α) (h : 1 ≤ nt) :
    (integrate tol W n nt t x s).length = nt := by
  have : ∀ k ii st, (loop tol W n nt t x k ii st).length = k := by
    intro k; induction k with
    | zero => intros; rfl
    | succ k ih => intro ii st; simp [loop, ih]
  simp [integrate, integrateK, this]; omega

/-- `integrate_linear`: cumulative integration is linear in (signal, start value), for every
time axis, stencil, tolerance — the stencil choice depends on the time axis only. -/
theorem integrate_is_linear (tol : α) (W : List α) (n nt : ℕ) (t x y : ℕ → α) (a b s1 s2 : α) :
    integrate tol W n nt t (fun i => a * x i + b * y i) (a * s1 + b * s2) =
      List.zipWith (fun p q => a * p + b * q)
        (integrate tol W n nt t x s1) (integrate tol W n nt t y s2) :=
  integrate_linear tol W n nt t x y a b s1 s2

/-- `primary_only_on_uniform`: if step `i = p + 1` is taken with the high-order stencil then the
stencil lies inside the record (`i + n - 1 < nt`) and each of the last `W.length` steps up to and
including `i` is within the tolerance of the step before it: `|dt_j - dt_{j-1}| ≤ tol * dt_j`.
Every number of implicit points `n`. -/
theorem primary_only_on_uniform (tol : α) (W : List α) (n nt : ℕ) (t x : ℕ → α) (s : α) (p : ℕ) (v : α)
    (h : (integrateK tol W n nt t x s)[p]? = some (v, Kind.primary)) :
    (p + 1 + n - 1 < nt) ∧
    ∀ j, 2 ≤ j → p + 1 < j + W.length → j ≤ p + 1 →
      |dt t j - dt t (j - 1)| ≤ tol * dt t j := by
  have := loop_primary_uniform tol W n nt t x (nt - 1) 1 _ (Q_init tol t W.length s) p v h
  refine ⟨by have := this.1; omega, ?_⟩
  intro j h2 h3 h4
  have hj := this.2 j h2 (by omega) (by omega)
  unfold Jit at hj
  rw [absv_eq_abs] at hj
  exact not_lt.1 hj

/-- `trapezoid_on_jitter_and_ends`: where a jitter test fires (the step `n-1` ahead, or the
current step, differs from the previous step by more than the tolerance), or where the stencil
would reach past the end of the record, the step is a trapezoid step, and a trapezoid step adds
`(x[i-1] + x[i]) / 2 * dt`. -/
theorem trapezoid_on_jitter_and_ends (tol : α) (W : List α) (n nt : ℕ) (t x : ℕ → α) (ii : ℕ)
    (st : Loop α) (h1 : 1 ≤ ii)
    (h : ¬ (ii + n - 1 < nt) ∨
      tol * (t ii - t (ii - 1)) < |t (ii + n - 1) - t (ii + n - 2) - st.prevDt| ∨
      tol * (t ii - t (ii - 1)) < |t ii - t (ii - 1) - st.prevDt|) :
    (stepOnce tol W n nt t x ii st).2 = .trapezoid ∧
    (stepOnce tol W n nt t x ii st).1.last =
      st.last + (x (ii - 1) + x ii) / 2 * (t ii - t (ii - 1)) := by
  have hd := decide_trapezoid tol W.length n nt t ii st (by simp only [absv_eq_abs]; exact h)
  simp only [stepOnce]
  rcases hdec : plan tol W.length n nt t ii st with ⟨kind, r', c'⟩
  rw [hdec] at hd
  simp only at hd
  subst hd
  simp [trapezoid_step x ii h1]

end ordered

/-! ### Non-vacuity -/

example : (stencil 4 1 : List ℚ) = [1/24, -5/24, 19/24, 3/8] := by decide +kernel
example : (integrateK (1/100 : ℚ) (stencil 4 1) 1 8 (fun i => (i : ℚ) / 2) (fun i => (i : ℚ)) 0).map (·.2)
    = [.trapezoid, .trapezoid, .trapezoid, .trapezoid, .primary, .primary, .primary] := by
  decide +kernel

end Osu.TI
