import OsuProofs.RealTransc
import OsuModel.TimeSeries
import Mathlib.Tactic.Ring
import Mathlib.Tactic.Linarith
import Mathlib.Tactic.FieldSimp
import OsuProofs.Parseval

/-!
# C16 — synthetic time series carry the spectrum's variance and are reproducible

Model: `OsuModel/TimeSeries.lean` at ℝ.  The resampling of the spectrum onto the FFT bins is the
interpolation of C13; the phases are `default_rng(seed).uniform` (a function of the seed,
modelled as an input).
-/

namespace Osu.TS

open Real Finset

/-- `length_eq`: the series has exactly `n = nfft` samples — as many as the time axis. -/
theorem length_eq (a : List (ℝ × ℝ)) (fs : ℝ) (n : ℕ) :
    (series a n).length = n ∧ (timeAxis fs n).length = n := by
  simp [series, timeAxis]

/-- `time_axis`: sample `t` of the time axis is `t / fs` (spacing `1 / fs`, starting at 0) -/
theorem time_axis (fs : ℝ) (n t : ℕ) (h : t < n) : (timeAxis fs n)[t]? = some ((t : ℝ) / fs) := by
  simp [timeAxis, h]

/-- `nfft` is the even number at or just below the requested length -/
theorem nfft_even (L : ℕ) : nfftOf L % 2 = 0 ∧ nfftOf L ≤ L ∧ L < nfftOf L + 2 := by
  unfold nfftOf; omega

/-- squared magnitude of an amplitude: `|a|² = (area·E/2)·|factor|²` for `area·E ≥ 0` — the
energy put into Fourier bin `k` does not depend on the random phase. -/
theorem amplitude_normSq (area e phase : ℝ) (f : ℝ × ℝ) (h : 0 ≤ area * e) :
    (amplitude area e phase f).1 ^ 2 + (amplitude area e phase f).2 ^ 2 =
      area * e / 2 * (f.1 ^ 2 + f.2 ^ 2) := by
  have hs : Real.sqrt (area * e / 2) ^ 2 = area * e / 2 := Real.sq_sqrt (by linarith)
  have hc := Real.cos_sq_add_sin_sq phase
  simp only [amplitude, cmul, two, Transc.sqrt, Transc.cos, Transc.sin, Nat.cast_ofNat]
  have : (Real.sqrt (area * e / 2) * Real.cos phase * f.1 - Real.sqrt (area * e / 2) * Real.sin phase * f.2) ^ 2 +
      (Real.sqrt (area * e / 2) * Real.cos phase * f.2 + Real.sqrt (area * e / 2) * Real.sin phase * f.1) ^ 2 =
      Real.sqrt (area * e / 2) ^ 2 * (Real.cos phase ^ 2 + Real.sin phase ^ 2) * (f.1 ^ 2 + f.2 ^ 2) := by ring
  rw [this, hs, hc]; ring

/-- the transfer factors: vertical velocity carries `ω²`, the horizontal components split as
`cos²θ` and `sin²θ` (displacement) resp. `ω² cos²θ`, `ω² sin²θ` (velocity) -/
theorem factor_normSq (om th : ℝ) :
    (factor .z om th).1 ^ 2 + (factor .z om th).2 ^ 2 = 1 ∧
    (factor .w om th).1 ^ 2 + (factor .w om th).2 ^ 2 = om ^ 2 ∧
    (factor .x om th).1 ^ 2 + (factor .x om th).2 ^ 2 = Real.cos th ^ 2 ∧
    (factor .y om th).1 ^ 2 + (factor .y om th).2 ^ 2 = Real.sin th ^ 2 ∧
    (factor .u om th).1 ^ 2 + (factor .u om th).2 ^ 2 = om ^ 2 * Real.cos th ^ 2 ∧
    (factor .v om th).1 ^ 2 + (factor .v om th).2 ^ 2 = om ^ 2 * Real.sin th ^ 2 := by
  simp only [factor, Transc.cos, Transc.sin]
  refine ⟨by ring, by ring, by ring, by ring, by ring, by ring⟩

/-- `series_sqrt_scale`, amplitude part: scaling the variance density by `c ≥ 0` scales every
amplitude by `sqrt c`. -/
theorem amplitude_scale (c area e phase : ℝ) (f : ℝ × ℝ) (hc : 0 ≤ c) :
    amplitude area (c * e) phase f =
      (Real.sqrt c * (amplitude area e phase f).1, Real.sqrt c * (amplitude area e phase f).2) := by
  have : Real.sqrt (area * (c * e) / 2) = Real.sqrt c * Real.sqrt (area * e / 2) := by
    rw [show area * (c * e) / 2 = c * (area * e / 2) by ring, Real.sqrt_mul hc]
  simp only [amplitude, cmul, two, Transc.sqrt, Transc.cos, Transc.sin, Nat.cast_ofNat, this]
  ext <;> simp <;> ring

theorem lsum_smul (c : ℝ) (l : List ℝ) : lsum (l.map (c * ·)) = c * lsum l := by
  induction l with
  | nil => simp [lsum]
  | cons a l ih => simp only [List.map_cons, lsum, ih]; ring

/-- … series part: the inverse transform is linear, so the series scales by the same factor. -/
theorem series_scale (c : ℝ) (a : List (ℝ × ℝ)) (n : ℕ) :
    series (a.map fun z => (c * z.1, c * z.2)) n = (series a n).map (c * ·) := by
  simp only [series, List.map_map]
  apply List.map_congr_left
  intro t _
  simp only [Function.comp, irfftAt]
  have hget : ∀ k, (a.map fun z : ℝ × ℝ => (c * z.1, c * z.2)).getD k (0, 0) =
      (c * (a.getD k (0, 0)).1, c * (a.getD k (0, 0)).2) := by
    intro k
    simp only [List.getD_eq_getElem?_getD, List.getElem?_map]
    cases a[k]? <;> simp
  simp only [hget]
  have : (List.range (n / 2 - 1)).map (fun j =>
      c * (a.getD (j + 1) (0, 0)).1 * Transc.cos (two * Transc.pi * (((j + 1) * t : ℕ) : ℝ) / ((n : ℕ) : ℝ)) -
      c * (a.getD (j + 1) (0, 0)).2 * Transc.sin (two * Transc.pi * (((j + 1) * t : ℕ) : ℝ) / ((n : ℕ) : ℝ))) =
      ((List.range (n / 2 - 1)).map (fun j =>
      (a.getD (j + 1) (0, 0)).1 * Transc.cos (two * Transc.pi * (((j + 1) * t : ℕ) : ℝ) / ((n : ℕ) : ℝ)) -
      (a.getD (j + 1) (0, 0)).2 * Transc.sin (two * Transc.pi * (((j + 1) * t : ℕ) : ℝ) / ((n : ℕ) : ℝ)))).map (c * ·) := by
    rw [List.map_map]; apply List.map_congr_left; intro j _; simp only [Function.comp]; ring
  rw [this, lsum_smul]
  ring

/-- `same_seed_same_series`: the series is a function of (spectrum, phases); equal phases — equal
seeds — give identical series. -/
theorem same_phases_same_series (area e : List ℝ) (ph1 ph2 : List ℝ) (f : List (ℝ × ℝ)) (n : ℕ)
    (h : ph1 = ph2) :
    series (List.zipWith (fun (p : ℝ × ℝ × ℝ) g => amplitude p.1 p.2.1 p.2.2 g) (List.zip area (List.zip e ph1)) f) n =
    series (List.zipWith (fun (p : ℝ × ℝ × ℝ) g => amplitude p.1 p.2.1 p.2.2 g) (List.zip area (List.zip e ph2)) f) n := by
  rw [h]

example : nfftOf 101 = 100 ∧ nfftOf 8 = 8 := by decide



theorem lsum_range_map (f : ℕ → ℝ) (m : ℕ) : lsum ((List.range m).map f) = ∑ j ∈ range m, f j := by
  induction m with
  | zero => simp [lsum]
  | succ m ih =>
    rw [List.range_succ, List.map_append, Finset.sum_range_succ]
    have happ : ∀ l₁ l₂ : List ℝ, lsum (l₁ ++ l₂) = lsum l₁ + lsum l₂ := by
      intro l₁ l₂
      induction l₁ with
      | nil => simp [lsum]
      | cons a l ih' => simp only [List.cons_append, lsum, ih']; ring
    rw [happ, ih]; simp [lsum]

/-- sample `t` of the model's series is the real inverse DFT written with harmonics `1 .. n/2 - 1` -/
theorem series_eq_signal (a : List (ℝ × ℝ)) (n t : ℕ) (hn : 0 < n) :
    (n : ℝ) * irfftAt a n t =
      Osu.Parseval.signal n (n / 2 - 1) (a.getD 0 (0, 0)).1 (fun k => (a.getD k (0, 0)).1) (fun k => (a.getD k (0, 0)).2) t := by
  have hn' : (n : ℝ) ≠ 0 := by exact_mod_cast hn.ne'
  simp only [irfftAt, Osu.Parseval.signal, Osu.Parseval.harm, lsum_range_map, two, Transc.pi, Transc.cos, Transc.sin]
  rw [mul_div_cancel₀ _ hn']
  congr 2
  apply Finset.sum_congr rfl
  intro k _
  push_cast
  have : (2 : ℝ) * π * (((k : ℝ) + 1) * (t : ℝ)) / (n : ℝ) = 2 * π * ((k : ℝ) + 1) * (t : ℝ) / (n : ℝ) := by ring
  rw [this]

/-- **Parseval for the synthetic series**: the sample variance (`numpy.var`: mean square minus
squared mean) of the `n` samples is twice the summed squared magnitude of the Fourier amplitudes
`1 .. n/2 - 1`; the zero-frequency amplitude only sets the mean. -/
theorem series_variance (a : List (ℝ × ℝ)) (n : ℕ) (hn : 0 < n) :
    (∑ t ∈ range n, ((n : ℝ) * irfftAt a n t) ^ 2) / n - ((∑ t ∈ range n, (n : ℝ) * irfftAt a n t) / n) ^ 2 =
      2 * ∑ k ∈ range (n / 2 - 1), ((a.getD (k + 1) (0, 0)).1 ^ 2 + (a.getD (k + 1) (0, 0)).2 ^ 2) := by
  simp only [series_eq_signal a n _ hn]
  exact Osu.Parseval.signal_variance n (n / 2 - 1) _ _ _ (by omega)

/-- the sample mean is the real part of the zero-frequency amplitude -/
theorem series_mean (a : List (ℝ × ℝ)) (n : ℕ) (hn : 0 < n) :
    (∑ t ∈ range n, (n : ℝ) * irfftAt a n t) / n = (a.getD 0 (0, 0)).1 := by
  simp only [series_eq_signal a n _ hn]
  exact Osu.Parseval.signal_mean n (n / 2 - 1) _ _ _ (by omega)


/-- … so for a 1D spectrum (one amplitude `sqrt(area·E/2)·e^{iφ}·factor` per FFT bin) the sample
variance is `Σ_{k ≥ 1} area_k E_k |factor_k|²`: the spectral variance of the resampled spectrum
weighted by the component's transfer function, whatever the random phases -/
theorem series_variance_spectrum (area e phase : ℕ → ℝ) (f : ℕ → ℝ × ℝ) (n : ℕ) (hn : 0 < n)
    (hpos : ∀ k, 0 ≤ area k * e k) :
    let a := (List.range (n / 2)).map fun k => amplitude (area k) (e k) (phase k) (f k)
    (∑ t ∈ range n, ((n : ℝ) * irfftAt a n t) ^ 2) / n - ((∑ t ∈ range n, (n : ℝ) * irfftAt a n t) / n) ^ 2 =
      ∑ k ∈ range (n / 2 - 1), area (k + 1) * e (k + 1) * ((f (k + 1)).1 ^ 2 + (f (k + 1)).2 ^ 2) := by
  intro a
  rw [series_variance a n hn, Finset.mul_sum]
  apply Finset.sum_congr rfl
  intro k hk
  have hk' : k + 1 < n / 2 := by have := Finset.mem_range.1 hk; omega
  have hget : a.getD (k + 1) (0, 0) = amplitude (area (k + 1)) (e (k + 1)) (phase (k + 1)) (f (k + 1)) := by
    simp [a, List.getD, hk']
  rw [hget, amplitude_normSq _ _ _ _ (hpos (k + 1))]
  ring

end Osu.TS
