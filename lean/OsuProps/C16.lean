import OsuProofs.RealTransc
import OsuModel.TimeSeries
import Mathlib.Tactic.Ring
import Mathlib.Tactic.Linarith
import Mathlib.Tactic.FieldSimp

/-!
# C16 — synthetic time series carry the spectrum's variance and are reproducible

Model: `OsuModel/TimeSeries.lean` at ℝ.  The resampling of the spectrum onto the FFT bins is the
interpolation of C13; the phases are `default_rng(seed).uniform` (a function of the seed,
modelled as an input).
-/

namespace Osu.TS

open Real

/-- `length_eq`: the series has exactly `n = nfft` samples — as many as the time axis. -/
theorem length_eq (a : List (ℝ × ℝ)) (fs : ℝ) (n : ℕ) :
    (series a n).length = n ∧ (timeAxis fs n).length = n := by
  simp [series, timeAxis]

/-- `time_axis`: sample `t` of the time axis is `t / fs` (spacing `1 / fs`, starting at 0) -/
theorem time_axis (fs : ℝ) (n t : ℕ) (h : t < n) : (timeAxis fs n)[t]? = some ((t : ℝ) / fs) := by
  simp [timeAxis, h]

/-- `nfft` is the even number at or just below the requested length -/
theorem nfft_even (L : ℕ) : nfftOf L % 2 = 0 ∧ nfftOf L ≤ L ∧ L < nfftOf L + 2 := by
  unfold nfftOf; omega

/-- squared magnitude of an amplitude: `|a|² = (area·E/2)·|factor|²` for `area·E ≥ 0` — the
energy put into Fourier bin `k` does not depend on the random phase. -/
theorem amplitude_normSq (area e phase : ℝ) (f : ℝ × ℝ) (h : 0 ≤ area * e) :
    (amplitude area e phase f).1 ^ 2 + (amplitude area e phase f).2 ^ 2 =
      area * e / 2 * (f.1 ^ 2 + f.2 ^ 2) := by
  have hs : Real.sqrt (area * e / 2) ^ 2 = area * e / 2 := Real.sq_sqrt (by linarith)
  have hc := Real.cos_sq_add_sin_sq phase
  simp only [amplitude, cmul, two, Transc.sqrt, Transc.cos, Transc.sin, Nat.cast_ofNat]
  have : (Real.sqrt (area * e / 2) * Real.cos phase * f.1 - Real.sqrt (area * e / 2) * Real.sin phase * f.2) ^ 2 +
      (Real.sqrt (area * e / 2) * Real.cos phase * f.2 + Real.sqrt (area * e / 2) * Real.sin phase * f.1) ^ 2 =
      Real.sqrt (area * e / 2) ^ 2 * (Real.cos phase ^ 2 + Real.sin phase ^ 2) * (f.1 ^ 2 + f.2 ^ 2) := by ring
  rw [this, hs, hc]; ring

/-- the transfer factors: vertical velocity carries `ω²`, the horizontal components split as
`cos²θ` and `sin²θ` (displacement) resp. `ω² cos²θ`, `ω² sin²θ` (velocity) -/
theorem factor_normSq (om th : ℝ) :
    (factor .z om th).1 ^ 2 + (factor .z om th).2 ^ 2 = 1 ∧
    (factor .w om th).1 ^ 2 + (factor .w om th).2 ^ 2 = om ^ 2 ∧
    (factor .x om th).1 ^ 2 + (factor .x om th).2 ^ 2 = Real.cos th ^ 2 ∧
    (factor .y om th).1 ^ 2 + (factor .y om th).2 ^ 2 = Real.sin th ^ 2 ∧
    (factor .u om th).1 ^ 2 + (factor .u om th).2 ^ 2 = om ^ 2 * Real.cos th ^ 2 ∧
    (factor .v om th).1 ^ 2 + (factor .v om th).2 ^ 2 = om ^ 2 * Real.sin th ^ 2 := by
  simp only [factor, Transc.cos, Transc.sin]
  refine ⟨by ring, by ring, by ring, by ring, by ring, by ring⟩

/-- `series_sqrt_scale`, amplitude part: scaling the variance density by `c ≥ 0` scales every
amplitude by `sqrt c`. -/
theorem amplitude_scale (c area e phase : ℝ) (f : ℝ × ℝ) (hc : 0 ≤ c) :
    amplitude area (c * e) phase f =
      (Real.sqrt c * (amplitude area e phase f).1, Real.sqrt c * (amplitude area e phase f).2) := by
  have : Real.sqrt (area * (c * e) / 2) = Real.sqrt c * Real.sqrt (area * e / 2) := by
    rw [show area * (c * e) / 2 = c * (area * e / 2) by ring, Real.sqrt_mul hc]
  simp only [amplitude, cmul, two, Transc.sqrt, Transc.cos, Transc.sin, Nat.cast_ofNat, this]
  ext <;> simp <;> ring

theorem lsum_smul (c : ℝ) (l : List ℝ) : lsum (l.map (c * ·)) = c * lsum l := by
  induction l with
  | nil => simp [lsum]
  | cons a l ih => simp only [List.map_cons, lsum, ih]; ring

/-- … series part: the inverse transform is linear, so the series scales by the same factor. -/
theorem series_scale (c : ℝ) (a : List (ℝ × ℝ)) (n : ℕ) :
    series (a.map fun z => (c * z.1, c * z.2)) n = (series a n).map (c * ·) := by
  simp only [series, List.map_map]
  apply List.map_congr_left
  intro t _
  simp only [Function.comp, irfftAt]
  have hget : ∀ k, (a.map fun z : ℝ × ℝ => (c * z.1, c * z.2)).getD k (0, 0) =
      (c * (a.getD k (0, 0)).1, c * (a.getD k (0, 0)).2) := by
    intro k
    simp only [List.getD_eq_getElem?_getD, List.getElem?_map]
    cases a[k]? <;> simp
  simp only [hget]
  have : (List.range (n / 2 - 1)).map (fun j =>
      c * (a.getD (j + 1) (0, 0)).1 * Transc.cos (two * Transc.pi * (((j + 1) * t : ℕ) : ℝ) / ((n : ℕ) : ℝ)) -
      c * (a.getD (j + 1) (0, 0)).2 * Transc.sin (two * Transc.pi * (((j + 1) * t : ℕ) : ℝ) / ((n : ℕ) : ℝ))) =
      ((List.range (n / 2 - 1)).map (fun j =>
      (a.getD (j + 1) (0, 0)).1 * Transc.cos (two * Transc.pi * (((j + 1) * t : ℕ) : ℝ) / ((n : ℕ) : ℝ)) -
      (a.getD (j + 1) (0, 0)).2 * Transc.sin (two * Transc.pi * (((j + 1) * t : ℕ) : ℝ) / ((n : ℕ) : ℝ)))).map (c * ·) := by
    rw [List.map_map]; apply List.map_congr_left; intro j _; simp only [Function.comp]; ring
  rw [this, lsum_smul]
  ring

/-- `same_seed_same_series`: the series is a function of (spectrum, phases); equal phases — equal
seeds — give identical series. -/
theorem same_phases_same_series (area e : List ℝ) (ph1 ph2 : List ℝ) (f : List (ℝ × ℝ)) (n : ℕ)
    (h : ph1 = ph2) :
    series (List.zipWith (fun (p : ℝ × ℝ × ℝ) g => amplitude p.1 p.2.1 p.2.2 g) (List.zip area (List.zip e ph1)) f) n =
    series (List.zipWith (fun (p : ℝ × ℝ × ℝ) g => amplitude p.1 p.2.1 p.2.2 g) (List.zip area (List.zip e ph2)) f) n := by
  rw [h]

example : nfftOf 101 = 100 ∧ nfftOf 8 = 8 := by decide

end Osu.TS
