import OsuProofs.Gen.Spec
import Mathlib.Tactic.Ring
import Mathlib.Tactic.NormNum
import Mathlib.Tactic.FieldSimp
/-!
# C04 / C07, second tie: peak period, radian frequencies, wavelength and phase speed, machine-translated

The closed forms the spectrum object wraps around the peak index and the dispersion solver, as the source has
them now: `peak_period = 1 / f_p`, `peak_angular_frequency = 2π f_p`, `radian_frequency = 2π f`,
`wavelength = 2π / k`, `wave_speed = ω / k`, `peak_wave_speed = 2π f_p / k_p`.
-/
namespace Osu.Props.C04Gen

theorem gen_peak_period_eq (fp : ℝ) : Osu.GenSpec.peak_period fp = 1 / fp := by
  simp only [Osu.GenSpec.peak_period]

theorem gen_peak_angular_frequency_eq (fp : ℝ) : Osu.GenSpec.peak_angular_frequency fp = 2 * Real.pi * fp := by
  simp only [Osu.GenSpec.peak_angular_frequency]; ring

theorem gen_radian_frequency_eq (f : ℝ) : Osu.GenSpec.radian_frequency f = 2 * Real.pi * f := by
  simp only [Osu.GenSpec.radian_frequency]; ring

/-- the peak angular frequency is the radian frequency of the peak, and period × frequency = 1 -/
theorem gen_peak_consistent (fp : ℝ) (h : fp ≠ 0) :
    Osu.GenSpec.peak_angular_frequency fp = Osu.GenSpec.radian_frequency fp ∧
    Osu.GenSpec.peak_period fp * fp = 1 := by
  refine ⟨by simp only [Osu.GenSpec.peak_angular_frequency, Osu.GenSpec.radian_frequency]; ring, ?_⟩
  simp only [Osu.GenSpec.peak_period]; field_simp

theorem gen_wavelength_eq (k : ℝ) : Osu.GenSpec.wavelength k = 2 * Real.pi / k := by
  simp only [Osu.GenSpec.wavelength]

theorem gen_wave_speed_eq (k w : ℝ) : Osu.GenSpec.wave_speed k w = w / k := by
  simp only [Osu.GenSpec.wave_speed]; ring

theorem gen_peak_wave_speed_eq (fp kp : ℝ) :
    Osu.GenSpec.peak_wave_speed fp kp = Osu.GenSpec.wave_speed kp (Osu.GenSpec.peak_angular_frequency fp) := by
  simp only [Osu.GenSpec.peak_wave_speed, Osu.GenSpec.wave_speed, Osu.GenSpec.peak_angular_frequency]; ring

/-- wavelength × wavenumber = 2π and phase speed × wavenumber = ω for every non-zero wavenumber -/
theorem gen_wavelength_wave_speed (k w : ℝ) (h : k ≠ 0) :
    Osu.GenSpec.wavelength k * k = 2 * Real.pi ∧ Osu.GenSpec.wave_speed k w * k = w := by
  simp only [Osu.GenSpec.wavelength, Osu.GenSpec.wave_speed]
  constructor <;> field_simp

end Osu.Props.C04Gen
