import OsuProofs.SourceTerms
import OsuProofs.Newton
/-
C11 — wind inversion closes the source-term balance.
Model: `u10FromBulkRate` = the hybrid solver (`OsuModel/Solvers.lean`) applied to the balance
function `U10 ↦ bulk input(U10) − target − dE/dt|active` with hard bounds (0, ∞), step tolerance
0.01 m/s, `rtol = 1`.
-/
namespace Osu.Props.C11
open Osu.ST Osu.Solv

/-- the estimated U10 is zero when the integrated dissipation is zero -/
theorem u10_zero_of_no_dissipation (F : ℝ → ℝ) (guessU10 guessDir : ℝ) :
    u10FromBulkRate F 0 guessU10 guessDir = (some 0, guessDir) := by
  simp [u10FromBulkRate]

/-- without direction iteration the reported direction is the one handed in (the
dissipation-weighted mean wave direction) -/
theorem direction_passthrough (F : ℝ → ℝ) (bulkRate guessU10 guessDir : ℝ) :
    (u10FromBulkRate F bulkRate guessU10 guessDir).2 = guessDir := by
  simp only [u10FromBulkRate]; split <;> rfl

/-- the estimate is missing or non-negative: with hard bounds (0, ∞) and a non-negative first
guess no iterate of the solver is negative (a value of exactly 0 would need an update landing
exactly on the bound; the oracle checks positivity of what the code returns) -/
theorem u10_nonneg (F : ℝ → ℝ) (bulkRate guessU10 guessDir u : ℝ) (hg : 0 ≤ guessU10)
    (h : (u10FromBulkRate F bulkRate guessU10 guessDir).1 = some u) : 0 ≤ u := by
  simp only [u10FromBulkRate] at h
  split at h
  · simp only [Option.some.injEq] at h; rw [← h]
  · exact nrLoop_nonneg F u10Cfg rfl rfl _ _ _ (nonneg_init F guessU10 hg) (inv_init F guessU10) u h

/-- a returned non-zero-dissipation estimate carries the solver's certificate for the balance
function: the last step was shorter than 0.01 m/s, and if the root was bracketed the estimate
lies in a bracket at whose ends the balance has opposite signs -/
theorem u10_certified (F : ℝ → ℝ) (bulkRate guessU10 guessDir u : ℝ) (hb : bulkRate ≠ 0)
    (h : (u10FromBulkRate F bulkRate guessU10 guessDir).1 = some u) : Certified F u10Cfg u := by
  simp only [u10FromBulkRate] at h
  split at h
  · rename_i hz
    simp only [beq_iff_eq] at hz
    exact absurd hz hb
  · exact newtonRaphson_certified F u10Cfg rfl guessU10 u h

/-- with a continuous balance function, a bracketed estimate lies in an interval that contains an
exact zero of the balance (integrated wind input + dissipation − active rate of change = 0) -/
theorem u10_bracket_contains_root (F : ℝ → ℝ) (lo hi : ℝ) (hle : lo ≤ hi) (hc : ContinuousOn F (Set.Icc lo hi))
    (hs : F lo * F hi < 0) : ∃ u ∈ Set.Icc lo hi, F u = 0 :=
  root_of_sign_change F lo hi hle hc hs

/-- each point of a batch is inverted on its own: the batch model is a map -/
theorem u10_batch_independent {β : Type} (invert : β → Option ℝ × ℝ) (batch : List β) (i : ℕ) (h : i < batch.length) :
    (batch.map invert)[i]'(by simpa using h) = invert batch[i] := by simp

/-- the step tolerance of the certificate is the 0.01 m/s of the property -/
theorem u10_step_tolerance (F : ℝ → ℝ) (u : ℝ) (h : Certified F u10Cfg u) :
    ∃ prev : ℝ, absv (u - prev) < 1 / 100 := by
  obtain ⟨prev, _, _, _, h1, _, _⟩ := h
  exact ⟨prev, by simpa [u10Cfg] using h1⟩

/-- a returned estimate was reached by a regular step of the hybrid (under-relaxed Newton or secant
update, or a bisection), never by an Aitken extrapolation — a short extrapolation says nothing about
the distance to the root -/
theorem u10_reached_regularly (F : ℝ → ℝ) (bulkRate guessU10 guessDir u : ℝ) (hb : bulkRate ≠ 0)
    (h : (u10FromBulkRate F bulkRate guessU10 guessDir).1 = some u) : ReachedRegularly F u10Cfg u := by
  simp only [u10FromBulkRate] at h
  split at h
  · rename_i hz
    simp only [beq_iff_eq] at hz
    exact absurd hz hb
  · exact newtonRaphson_regular F u10Cfg rfl guessU10 u h

/-- … and for an (unclipped) Newton/secant step of slope `d` from `prev` to `u` the balance at `prev`
is exactly `-d (u - prev) / 0.9`: with a last step below 0.01 m/s the balance there is below
`|d| · 0.01 / 0.9` — integrated input plus dissipation vanishes to the step tolerance times the slope -/
theorem u10_residual_of_newton_step (F : ℝ → ℝ) (prev u d : ℝ) (hd : d ≠ 0)
    (hu : u = prev + -F prev / d * u10Cfg.underRelax) : F prev = -d * (u - prev) / (9 / 10) := by
  have h9 : (u10Cfg (α := ℝ)).underRelax = 9 / 10 := by simp [u10Cfg]
  rw [h9] at hu
  rw [hu]
  field_simp
  ring

/-- the rate-of-change term only counts the actively forced bins (`generation > 0`) -/
theorem active_region_zero_of_no_generation (g : Grid ℝ) (dEdt gen : List (List ℝ))
    (h : ∀ row ∈ gen, ∀ x ∈ row, x ≤ 0) : activeRegionDerivative g dEdt gen = 0 := by
  simp only [activeRegionDerivative]
  have hz : ∀ l : List ℝ, (∀ x ∈ l, x = 0) → lsum l = 0 := by
    intro l hl
    induction l with
    | nil => simp [lsum]
    | cons a l ih =>
      simp only [lsum, hl a List.mem_cons_self, ih fun x hx => hl x (List.mem_cons_of_mem _ hx), add_zero]
  apply hz
  intro x hx
  obtain ⟨rows, hrows, df, _, rfl⟩ := mem_zipWith _ _ _ _ hx
  apply hz
  intro y hy
  obtain ⟨dg, hdg, dth, _, rfl⟩ := mem_zipWith _ _ _ _ hy
  have hg := h _ (List.of_mem_zip hrows).2 _ (List.of_mem_zip hdg).2
  simp [not_lt.2 hg]

example : (u10FromBulkRate (fun x : ℝ => x - 3) 0 5 40).1 = some 0 := by simp [u10FromBulkRate]

end Osu.Props.C11
