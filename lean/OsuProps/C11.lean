import OsuProofs.SourceTerms
/-
C11 — wind inversion closes the source-term balance.
-/
namespace Osu.Props.C11
open Osu.ST Osu.Solv

/-- the estimated U10 is zero when the integrated dissipation is zero -/
theorem u10_zero_of_no_dissipation (F : ℝ → ℝ) (guessU10 guessDir : ℝ) :
    u10FromBulkRate F 0 guessU10 guessDir = (some 0, guessDir) := by
  simp [u10FromBulkRate]

/-- without direction iteration the reported direction is the one handed in (the
dissipation-weighted mean wave direction) -/
theorem direction_passthrough (F : ℝ → ℝ) (bulkRate guessU10 guessDir : ℝ) :
    (u10FromBulkRate F bulkRate guessU10 guessDir).2 = guessDir := by
  simp only [u10FromBulkRate]; split <;> rfl

end Osu.Props.C11
