import OsuProofs.Gen.Arith
import OsuProofs.RealTransc
import OsuModel.SourceTerms
import Mathlib.Tactic.Ring
import Mathlib.Tactic.NormNum
/-!
# C10, second tie: the Wu first guess of the roughness iteration, machine-translated
-/
namespace Osu.Props.C10Gen
open Osu.ST

theorem gen_roughness_wu_eq (U elev kappa : ℝ) :
    Osu.GenArith.roughness_wu U elev kappa = roughnessWu kappa elev U := by
  simp only [Osu.GenArith.roughness_wu, Osu.GenArith.drag_coefficient_wu, roughnessWu, Transc.exp, Transc.sqrt]
  norm_num

/-- the function whose root bounds the WAM tail-stress integral -/
theorem gen_wam_log_height_eq (p : GenP ℝ) (ch x : ℝ) :
    Osu.GenArith.log_dimensionless_critical_height x ch p.kappa p.zalpha = wamLogZ p ch x := by
  simp only [Osu.GenArith.log_dimensionless_critical_height, wamLogZ, Transc.log, Transc.exp, Solv.two, Nat.cast_ofNat]

/-- the Charnock relation with its cap -/
theorem gen_charnock_point_eq (p : GenP ℝ) (m u : ℝ) (hm : p.charnockMax = some m) :
    Osu.GenArith._charnock_relation_point u p.g p.charnock m = charnockPoint p u := by
  simp only [Osu.GenArith._charnock_relation_point, charnockPoint, hm, gt_iff_lt]
  have : u ^ 2 / p.g * p.charnock = u * u / p.g * p.charnock := by ring
  rw [this]

end Osu.Props.C10Gen
