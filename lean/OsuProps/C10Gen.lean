import OsuProofs.Gen.Arith
import OsuProofs.RealTransc
import OsuModel.SourceTerms
import Mathlib.Tactic.Ring
import Mathlib.Tactic.NormNum
/-!
# C10, second tie: the Wu first guess of the roughness iteration, machine-translated
-/
namespace Osu.Props.C10Gen
open Osu.ST

theorem gen_roughness_wu_eq (U elev kappa : ℝ) :
    Osu.GenArith.roughness_wu U elev kappa = roughnessWu kappa elev U := by
  simp only [Osu.GenArith.roughness_wu, Osu.GenArith.drag_coefficient_wu, roughnessWu, Transc.exp, Transc.sqrt]
  norm_num

end Osu.Props.C10Gen
