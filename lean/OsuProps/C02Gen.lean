import OsuProofs.Gen.Spec
import OsuProps.C02
import Mathlib.Tactic.Ring
import Mathlib.Tactic.NormNum
/-!
# C02 / C14, second tie: the wrapped difference and the direction step, machine-translated

`tools/math.py: wrapped_difference` (the arithmetic applied to the finite elements, and the default position of
the discontinuity) and `FrequencyDirectionSpectrum.direction_step` (wrapped cyclic forward difference with period
360) as the source has them now are the model's `wrapDiff` and the element map of `dirStep`.
-/
namespace Osu.Props.C02Gen
open Osu.Spec

theorem gen_wrapped_difference_eq (delta period discont : ℝ) :
    Osu.GenSpec.wrapped_difference delta period discont = wrapDiff (fun x : ℝ => ⌊x⌋) period discont delta := by
  simp only [Osu.GenSpec.wrapped_difference, wrapDiff, pmod]

theorem gen_default_discont_eq (period : ℝ) : Osu.GenSpec.default_discont period = period / 2 := by
  simp only [Osu.GenSpec.default_discont]

/-- `direction_step` applies, to every cyclic forward difference, the map the model's `dirStep` applies -/
theorem gen_direction_step_eq (d : ℝ) :
    Osu.GenSpec.direction_step d = wrapDiff (fun x : ℝ => ⌊x⌋) ((360 : ℕ) : ℝ) ((180 : ℕ) : ℝ) d := by
  simp only [Osu.GenSpec.direction_step, gen_wrapped_difference_eq, Osu.GenSpec.default_discont]
  norm_num

theorem gen_dirStep_eq (ds : List ℝ) :
    dirStep (fun x : ℝ => ⌊x⌋) ds = (cyclicDiff ds).map Osu.GenSpec.direction_step := by
  simp only [dirStep]
  congr 1
  funext d
  exact (gen_direction_step_eq d).symm

end Osu.Props.C02Gen
