import OsuProofs.Interp

/-!
# C13 — linear interpolation: exact at nodes, bounded, no extrapolation, NaN-aware

Model: `OsuModel/Interp.lean` (`enclosing`, `fracOf`, `weights`, `combine`, `interpAt`).
`slab i` is the data at grid node `i` for every element of the passive (not interpolated)
dimensions.  As in the code, a corner takes part only if **no** element of its slab is missing
(joint NaN mask over the passive dimensions) and its weight is positive.  The position of the
interpolated axis, the passing through of variables without the coordinate, the sequential
treatment of several coordinates and the energy-weighting of 1D-spectrum moments are wiring,
tied by the correspondence run.
-/

namespace Osu.Interp
open Osu.Spec

variable {α : Type} [Field α] [LinearOrder α] [IsStrictOrderedRing α]
set_option linter.unusedSectionVars false

/-- value of passive element `j` at node `i` (missing counted as 0; only used where not missing) -/
def val (slab : ℕ → List (Option α)) (i j : ℕ) : α := fill0 ((slab i).getD j none)

def clean (slab : ℕ → List (Option α)) (i : ℕ) : Prop := (slab i).all Option.isSome = true

theorem half_lt_one : ((1 : α) / ((2 : ℕ) : α)) < 1 := by norm_num

/-- `outside_none`: a target outside the grid yields missing values for every passive element
(the caller's fill value then replaces them) — no extrapolation. -/
theorem outside_none {xp : List α} (g : Grid xp) (floor : α → ℤ) (nearest : Bool)
    (slab : ℕ → List (Option α)) (np : ℕ) (x : α)
    (h : x < getD0 xp 0 ∨ getD0 xp (xp.length - 1) < x) :
    ∀ r ∈ interpAt floor nearest xp slab np x, r = none := by
  intro r hr
  simp only [interpAt, fracOf_outside g x h, weights, combine, cornerOK, Bool.false_and,
    Bool.false_eq_true, if_false, add_zero, List.mem_map] at hr
  obtain ⟨j, _, hj⟩ := hr
  have : ¬ ((1 : α) / ((2 : ℕ) : α) < 0) := by norm_num
  rw [if_neg this] at hj
  exact hj.symm

/-- `at_right_end`: the last grid node returns the data at that node. -/
theorem at_right_end {xp : List α} (g : Grid xp) (floor : α → ℤ)
    (slab : ℕ → List (Option α)) (np : ℕ) (hc : clean slab (xp.length - 1)) :
    interpAt floor false xp slab np (getD0 xp (xp.length - 1)) =
      (List.range np).map fun j => some (val slab (xp.length - 1) j) := by
  simp only [interpAt, enclosing_right_end g, fracOf_right_end g, weights, combine, cornerOK]
  have h1 : decide ((0 : α) < 1) = true := by simp
  have h0 : decide ((0 : α) < 0) = false := by simp
  simp only [Bool.false_eq_true, if_false, sub_zero, h1, h0, Bool.true_and, Bool.false_and,
    clean] at hc ⊢
  simp only [hc, if_true, fill0_some, add_zero]
  apply List.map_congr_left
  intro j _
  simp only [half_lt_one, if_true, div_one, one_mul, zero_mul, add_zero, val]

/-- the general form inside the grid: between nodes `k` and `k+1`, with fraction
`t = (x - xp[k]) / (xp[k+1] - xp[k]) ∈ [0, 1)` -/
theorem inside_form {xp : List α} (g : Grid xp) (floor : α → ℤ) (slab : ℕ → List (Option α)) (np : ℕ)
    (x : α) (h1 : getD0 xp 0 ≤ x) (h2 : x < getD0 xp (xp.length - 1)) :
    ∃ k t, k + 1 < xp.length ∧ getD0 xp k ≤ x ∧ x < getD0 xp (k + 1) ∧
      t = (x - getD0 xp k) / (getD0 xp (k + 1) - getD0 xp k) ∧ 0 ≤ t ∧ t < 1 ∧
      interpAt floor false xp slab np x = combine k (k + 1) (some (1 - t), some t) slab np := by
  obtain ⟨k, hk, he, hl, hr⟩ := enclosing_inside g x h1 h2
  refine ⟨k, _, hk, hl, hr, rfl, ?_, ?_, ?_⟩
  · apply div_nonneg <;> linarith
  · rw [div_lt_one (by linarith)]; linarith
  · simp only [interpAt, he, fracOf_inside g x k h1 h2 he, weights, Bool.false_eq_true, if_false]

/-- combination of two clean corners with weights `1 - t`, `t`, `0 < t < 1` -/
theorem combine_clean (k : ℕ) (t : α) (ht0 : 0 < t) (ht1 : t < 1) (slab : ℕ → List (Option α)) (np : ℕ)
    (c0 : clean slab k) (c1 : clean slab (k + 1)) :
    combine k (k + 1) (some (1 - t), some t) slab np =
      (List.range np).map fun j => some ((1 - t) * val slab k j + t * val slab (k + 1) j) := by
  simp only [combine, cornerOK, clean] at c0 c1 ⊢
  have h1 : decide ((0 : α) < 1 - t) = true := by simp; linarith
  have h0 : decide ((0 : α) < t) = true := by simp; exact ht0
  simp only [h1, h0, c0, c1, Bool.true_and, if_true, fill0_some]
  apply List.map_congr_left
  intro j _
  have hs : (1 - t) + t = 1 := by ring
  simp only [hs, half_lt_one, if_true, div_one, val]

/-- combination when the fraction is exactly 0 (target on node `k`): the right corner does not
take part, whatever it holds -/
theorem combine_at_node (k : ℕ) (slab : ℕ → List (Option α)) (np : ℕ) (c0 : clean slab k) :
    combine k (k + 1) (some (1 - 0), some (0 : α)) slab np =
      (List.range np).map fun j => some (val slab k j) := by
  simp only [combine, cornerOK, clean] at c0 ⊢
  have h1 : decide ((0 : α) < 1) = true := by simp
  have h0 : decide ((0 : α) < 0) = false := by simp
  simp only [h1, h0, c0, Bool.true_and, Bool.false_and, if_true, Bool.false_eq_true, if_false, fill0_some, sub_zero, add_zero]
  apply List.map_congr_left
  intro j _
  simp only [half_lt_one, if_true, div_one, one_mul, zero_mul, add_zero, val]

/-- `at_node`: a target exactly on a grid node returns the data at that node (for every passive
element, when that node's slab has no missing value), even if the next node is missing. -/
theorem at_node {xp : List α} (g : Grid xp) (floor : α → ℤ) (slab : ℕ → List (Option α)) (np : ℕ)
    (k : ℕ) (hk : k + 1 < xp.length) (c0 : clean slab k) :
    interpAt floor false xp slab np (getD0 xp k) = (List.range np).map fun j => some (val slab k j) := by
  have hs := g.sorted
  -- xp[0] ≤ xp[k] < xp[last]
  have mono : ∀ i j, i < j → j < xp.length → getD0 xp i < getD0 xp j := by
    intro i j hij hj
    have hi : i < xp.length := by omega
    simp only [getD0, List.getD_eq_getElem?_getD, List.getElem?_eq_getElem hi, List.getElem?_eq_getElem hj,
      Option.getD_some]
    exact List.pairwise_iff_getElem.1 hs i j hi hj hij
  have h1 : getD0 xp 0 ≤ getD0 xp k := by
    rcases Nat.eq_zero_or_pos k with h | h
    · subst h; exact le_refl _
    · exact le_of_lt (mono 0 k h (by omega))
  have h2 : getD0 xp k < getD0 xp (xp.length - 1) := mono k _ (by omega) (by omega)
  obtain ⟨k', hk', he, hl, hr⟩ := enclosing_inside g (getD0 xp k) h1 h2
  have hkk : k' = k := by
    by_contra hne
    rcases Nat.lt_or_gt_of_ne hne with h | h
    · have : getD0 xp (k' + 1) ≤ getD0 xp k := by
        rcases Nat.lt_or_ge (k' + 1) k with h' | h'
        · exact le_of_lt (mono _ _ h' (by omega))
        · have : k' + 1 = k := by omega
          rw [this]
      exact absurd hr (not_lt.2 this)
    · exact absurd hl (not_le.2 (mono k k' h (by omega)))
  subst hkk
  simp only [interpAt, he, fracOf_inside g _ k' h1 h2 he, weights, Bool.false_eq_true, if_false, sub_self,
    zero_div]
  exact combine_at_node k' slab np c0

/-- `between_neighbours` / the piecewise-linear value: strictly between two nodes with clean slabs
the result is the convex combination `(1-t)·v_k + t·v_{k+1}`, hence lies between the two
neighbouring values. -/
theorem between_neighbours {xp : List α} (g : Grid xp) (floor : α → ℤ) (slab : ℕ → List (Option α)) (np : ℕ)
    (x : α) (k : ℕ) (hk : k + 1 < xp.length) (hl : getD0 xp k < x) (hr : x < getD0 xp (k + 1))
    (c0 : clean slab k) (c1 : clean slab (k + 1)) :
    ∃ t, 0 < t ∧ t < 1 ∧ t = (x - getD0 xp k) / (getD0 xp (k + 1) - getD0 xp k) ∧
      interpAt floor false xp slab np x =
        (List.range np).map (fun j => some ((1 - t) * val slab k j + t * val slab (k + 1) j)) ∧
      ∀ j, min (val slab k j) (val slab (k + 1) j) ≤ (1 - t) * val slab k j + t * val slab (k + 1) j ∧
        (1 - t) * val slab k j + t * val slab (k + 1) j ≤ max (val slab k j) (val slab (k + 1) j) := by
  have hs := g.sorted
  have mono : ∀ i j, i < j → j < xp.length → getD0 xp i < getD0 xp j := by
    intro i j hij hj
    have hi : i < xp.length := by omega
    simp only [getD0, List.getD_eq_getElem?_getD, List.getElem?_eq_getElem hi, List.getElem?_eq_getElem hj,
      Option.getD_some]
    exact List.pairwise_iff_getElem.1 hs i j hi hj hij
  have h1 : getD0 xp 0 ≤ x := by
    rcases Nat.eq_zero_or_pos k with h | h
    · subst h; exact le_of_lt hl
    · exact le_of_lt (lt_trans (mono 0 k h (by omega)) hl)
  have h2 : x < getD0 xp (xp.length - 1) := by
    rcases Nat.lt_or_ge (k + 1) (xp.length - 1) with h | h
    · exact lt_trans hr (mono _ _ h (by omega))
    · have : k + 1 = xp.length - 1 := by omega
      rw [← this]; exact hr
  obtain ⟨k', hk', he, hl', hr'⟩ := enclosing_inside g x h1 h2
  have hkk : k' = k := by
    by_contra hne
    rcases Nat.lt_or_gt_of_ne hne with h | h
    · have : getD0 xp (k' + 1) ≤ getD0 xp k := by
        rcases Nat.lt_or_ge (k' + 1) k with h' | h'
        · exact le_of_lt (mono _ _ h' (by omega))
        · have : k' + 1 = k := by omega
          rw [this]
      linarith
    · have : getD0 xp (k + 1) ≤ getD0 xp k' := by
        rcases Nat.lt_or_ge (k + 1) k' with h' | h'
        · exact le_of_lt (mono _ _ h' (by omega))
        · have : k + 1 = k' := by omega
          rw [this]
      linarith
  subst hkk
  have ht0 : 0 < (x - getD0 xp k') / (getD0 xp (k' + 1) - getD0 xp k') := by
    apply div_pos <;> linarith
  have ht1 : (x - getD0 xp k') / (getD0 xp (k' + 1) - getD0 xp k') < 1 := by
    rw [div_lt_one (by linarith)]; linarith
  refine ⟨_, ht0, ht1, rfl, ?_, ?_⟩
  · simp only [interpAt, he, fracOf_inside g x k' h1 h2 he, weights, Bool.false_eq_true, if_false]
    exact combine_clean k' _ ht0 ht1 slab np c0 c1
  · intro j
    set t := (x - getD0 xp k') / (getD0 xp (k' + 1) - getD0 xp k')
    set a := val slab k' j
    set b := val slab (k' + 1) j
    constructor
    · rcases le_total a b with hab | hab
      · rw [min_eq_left hab]; nlinarith
      · rw [min_eq_right hab]; nlinarith
    · rcases le_total a b with hab | hab
      · rw [max_eq_right hab]; nlinarith
      · rw [max_eq_left hab]; nlinarith

/-- `linear_exact`: data that vary linearly with the coordinate (`v_i = a·xp[i] + b`) are
reproduced exactly. -/
theorem linear_exact (a b t x0 x1 x : α) (hne : x1 - x0 ≠ 0) (ht : t = (x - x0) / (x1 - x0)) :
    (1 - t) * (a * x0 + b) + t * (a * x1 + b) = a * x + b := by
  rw [ht]; field_simp; ring

/-- `nan_neighbour`: when the slab of one neighbour contains a missing value, that neighbour is
dropped and the weights are renormalised: the result is the surviving neighbour's data if its
weight exceeds one half, otherwise it is missing. -/
theorem nan_neighbour_right (k : ℕ) (t : α) (ht0 : 0 < t) (ht1 : t < 1) (slab : ℕ → List (Option α)) (np : ℕ)
    (c0 : clean slab k) (c1 : ¬ clean slab (k + 1)) :
    combine k (k + 1) (some (1 - t), some t) slab np =
      (List.range np).map fun j => if t < 1 / 2 then some (val slab k j) else none := by
  simp only [combine, cornerOK, clean] at c0 c1 ⊢
  have h1 : decide ((0 : α) < 1 - t) = true := by simp; linarith
  have c1' : (slab (k + 1)).all Option.isSome = false := by
    cases h : (slab (k + 1)).all Option.isSome <;> simp_all
  simp only [h1, c0, c1', Bool.true_and, Bool.and_false, if_true, Bool.false_eq_true, if_false, fill0_some, add_zero]
  apply List.map_congr_left
  intro j _
  have e : ((1 : α) / ((2 : ℕ) : α) < 1 - t) ↔ t < 1 / 2 := by
    constructor <;> intro h <;> norm_num at h ⊢ <;> linarith
  by_cases h : t < 1 / 2
  · rw [if_pos (e.2 h), if_pos h]
    have : (1 : α) - t ≠ 0 := by linarith
    simp only [zero_mul, add_zero, val]
    rw [mul_div_assoc, mul_comm, div_mul_cancel₀ _ this]
  · rw [if_neg (fun hh => h (e.1 hh)), if_neg h]

theorem nan_neighbour_left (k : ℕ) (t : α) (ht0 : 0 < t) (ht1 : t < 1) (slab : ℕ → List (Option α)) (np : ℕ)
    (c0 : ¬ clean slab k) (c1 : clean slab (k + 1)) :
    combine k (k + 1) (some (1 - t), some t) slab np =
      (List.range np).map fun j => if 1 / 2 < t then some (val slab (k + 1) j) else none := by
  simp only [combine, cornerOK, clean] at c0 c1 ⊢
  have h0 : decide ((0 : α) < t) = true := by simp; exact ht0
  have c0' : (slab k).all Option.isSome = false := by
    cases h : (slab k).all Option.isSome <;> simp_all
  simp only [h0, c0', c1, Bool.true_and, Bool.and_false, if_true, Bool.false_eq_true, if_false, fill0_some, zero_add]
  apply List.map_congr_left
  intro j _
  have e : ((1 : α) / ((2 : ℕ) : α) < t) ↔ 1 / 2 < t := by norm_num
  by_cases h : 1 / 2 < t
  · rw [if_pos (e.2 h), if_pos h]
    have : t ≠ 0 := by linarith
    simp only [zero_mul, zero_add, val]
    rw [mul_div_assoc, mul_comm, div_mul_cancel₀ _ this]
  · rw [if_neg (fun hh => h (e.1 hh)), if_neg h]

/-- `descending_eq_ascending`: a descending grid is handled in the coordinate frame
`x ↦ xp[0] - x` in which it ascends; indices (positions in the array) and fraction are those of
the ascending problem. -/
theorem descending_eq_ascending (a : α) (r : List α) (x : α)
    (hd : ∀ b, (a :: r).getLast? = some b → b < a) (hr : r ≠ []) :
    enclosing (a :: r) x = enclosing ((a :: r).map (a - ·)) (a - x) ∧
    fracOf (a :: r) x = fracOf ((a :: r).map (a - ·)) (a - x) := by
  obtain ⟨b, hb⟩ : ∃ b, (a :: r).getLast? = some b := by
    cases h : (a :: r).getLast? with
    | none => simp at h
    | some b => exact ⟨b, rfl⟩
  have hba := hd b hb
  have f1 : flip (a :: r) = ((a :: r).map (a - ·), fun x => a - x) := by
    simp only [flip, List.head?_cons, hb, hba, if_true]
  have f2 : flip ((a :: r).map (a - ·)) = ((a :: r).map (a - ·), id) := by
    have hl : ((a :: r).map (a - ·)).getLast? = some (a - b) := by
      rw [List.getLast?_map, hb]; rfl
    have hl' : (0 :: List.map (fun x => a - x) r).getLast? = some (a - b) := by
      have := hl; simpa [List.map_cons] using this
    simp only [flip, List.map_cons, List.head?_cons, sub_self, hl']
    have : ¬ (a - b < 0) := by linarith
    simp [this]
  constructor
  · simp only [enclosing, f1, f2, id, List.length_map]
  · simp only [fracOf, enclosing, f1, f2, id, List.length_map]

/-- `nearest_picks_closer`: in nearest-node mode the fraction is rounded half to even, so the
nearer node is used and a tie (`t = 1/2`) goes to the left node (`rint(0.5) = 0`). -/
theorem nearest_picks_closer {floor : α → ℤ} (hf : IsFloor floor) (t : α) (h0 : 0 ≤ t) (h1 : t < 1) :
    rint floor t = if t ≤ 1 / 2 then 0 else 1 := by
  have hfl : floor t = 0 := floor_unique hf t 0 (by simpa using h0) (by simpa using h1)
  simp only [rint, hfl, Int.cast_zero, sub_zero, zero_add, Int.cast_one]
  by_cases ha : t < 1 / ((2 : ℕ) : α)
  · rw [if_pos ha, if_pos]; norm_num at ha ⊢; linarith
  · rw [if_neg ha]
    by_cases hb : 1 / ((2 : ℕ) : α) < t
    · rw [if_pos hb, if_neg]; norm_num at hb ⊢; linarith
    · rw [if_neg hb]
      have : t = 1 / 2 := by norm_num at ha hb; linarith
      simp [this]

/-! ### Non-vacuity -/

example : Grid ([0, 1, 3, 7] : List ℚ) := ⟨by decide +kernel, by decide⟩

-- node, interior, right end, outside, NaN neighbour with weight > 1/2 and < 1/2
example : interpAt Rat.floor false ([0, 1, 3, 7] : List ℚ) (fun i => [[some 5], [some 1], [none], [some 9]].getD i []) 1 1 = [some 1] := by
  decide +kernel
example : interpAt Rat.floor false ([0, 1, 3, 7] : List ℚ) (fun i => [[some 5], [some 1], [none], [some 9]].getD i []) 1 (3/2) = [some 1] := by
  decide +kernel
example : interpAt Rat.floor false ([0, 1, 3, 7] : List ℚ) (fun i => [[some 5], [some 1], [none], [some 9]].getD i []) 1 (5/2) = [none] := by
  decide +kernel
example : interpAt Rat.floor false ([0, 1, 3, 7] : List ℚ) (fun i => [[some 5], [some 1], [none], [some 9]].getD i []) 1 8 = [none] := by
  decide +kernel

end Osu.Interp
