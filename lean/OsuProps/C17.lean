import OsuProofs.TimeConv

/-!
# C17 — time conversions denote the same UTC instant for every input representation

Model: `OsuModel/TimeConv.lean`.  An instant is an integer number of microseconds since the
epoch; calendar conversion is the proleptic Gregorian calendar for **all** years (the
round-trip theorems rest on two kernel-evaluated tables over one 400-year era, 146 097 days
each, `OsuProofs/Cal/*`, and an era-periodicity argument).
-/

namespace Osu.TC

/-- `civil_roundtrip`, first direction: every day number maps to a valid calendar date that
maps back to it. -/
theorem civil_roundtrip_days (z : Int) :
    daysFromCivil (civilFromDays z).1 (civilFromDays z).2.1 (civilFromDays z).2.2 = z ∧
    1 ≤ (civilFromDays z).2.1 ∧ (civilFromDays z).2.1 ≤ 12 ∧ 1 ≤ (civilFromDays z).2.2 ∧
    (civilFromDays z).2.2 ≤ daysInMonth (civilFromDays z).1 (civilFromDays z).2.1 :=
  ⟨days_civil_days z, civilFromDays_valid z⟩

/-- `civil_roundtrip`, second direction: every valid calendar date maps to a day number that
maps back to it. -/
theorem civil_roundtrip_date (y : Int) (m d : Nat) (h1 : 1 ≤ m) (h2 : m ≤ 12) (h3 : 1 ≤ d)
    (h4 : d ≤ daysInMonth y m) : civilFromDays (daysFromCivil y m d) = (y, m, d) :=
  civil_days_civil y m d h1 h2 h3 h4

/-- `iso_roundtrip` (field level, microseconds kept): the UTC calendar fields of an instant are
valid fields and denote that instant again.  (Formatting writes exactly these fields, parsing
reads them back: string <-> field conversion is Python's.) -/
theorem iso_roundtrip (us : Int) :
    instantOf (fieldsOf us) 0 = us ∧ (fieldsOf us).valid = true := by
  have hv := civilFromDays_valid (us / 1000000 / 86400)
  have hd := days_civil_days (us / 1000000 / 86400)
  simp only [fieldsOf]
  generalize civilFromDays (us / 1000000 / 86400) = c at hv hd
  obtain ⟨y, m, d⟩ := c
  simp only at hv hd
  refine ⟨?_, ?_⟩
  · simp only [instantOf, hd]
    omega
  · simp only [Fields.valid, Bool.and_eq_true, decide_eq_true_eq]
    refine ⟨⟨⟨⟨⟨⟨⟨hv.1, hv.2.1⟩, hv.2.2.1⟩, hv.2.2.2⟩, ?_⟩, ?_⟩, ?_⟩, ?_⟩ <;> omega

/-- valid UTC fields are recovered from the instant they denote -/
theorem fields_of_instant (f : Fields) (hv : f.valid = true) : fieldsOf (instantOf f 0) = f := by
  simp only [Fields.valid, Bool.and_eq_true, decide_eq_true_eq] at hv
  obtain ⟨⟨⟨⟨⟨⟨⟨h1, h2⟩, h3⟩, h4⟩, h5⟩, h6⟩, h7⟩, h8⟩ := hv
  have hc := civil_days_civil f.year f.month f.day h1 h2 h3 h4
  obtain ⟨y, mo, d, h, mi, s, u⟩ := f
  simp only at h1 h2 h3 h4 h5 h6 h7 h8 hc
  simp only [instantOf, fieldsOf]
  generalize hD : daysFromCivil y mo d = D at *
  have e1 : ((D * 86400 + ((h * 3600 + mi * 60 + s : Nat) : Int) - 0 * 60) * 1000000 + (u : Nat)) / 1000000
      = D * 86400 + ((h * 3600 + mi * 60 + s : Nat) : Int) := by omega
  rw [e1]
  have e2 : (D * 86400 + ((h * 3600 + mi * 60 + s : Nat) : Int)) / 86400 = D := by omega
  rw [e2, hc]
  simp only [Fields.mk.injEq, true_and]
  refine ⟨?_, ?_, ?_, ?_⟩ <;> omega

/-- `aware_same_instant`: local fields at offset `off` minutes denote local − offset. -/
theorem aware_same_instant (f : Fields) (off : Int) :
    instantOf f off = instantOf f 0 - off * 60 * 1000000 := by
  simp only [instantOf]; omega

/-- … and converting to UTC fields keeps the instant: `to_datetime_utc` of an aware datetime /
ISO string with any offset is the aware UTC datetime of the same instant. -/
theorem aware_to_utc_fields (f : Fields) (off : Int) :
    toUtc (.aware (fieldsOf (instantOf f off)) 0) = toUtc (.aware f off) := by
  simp only [toUtc, (iso_roundtrip _).1]

/-- `naive_is_utc` -/
theorem naive_is_utc (f : Fields) : toUtc (.naive f) = toUtc (.aware f 0) := rfl

/-- `none_to_none` -/
theorem none_to_none : toUtc .none = [none] := rfl

/-- `seq_map`: a (possibly heterogeneous) sequence converts element-wise, in order. -/
theorem seq_map (rs : List Repr) : toUtc (.seq rs) = rs.flatMap toUtc := by
  simp only [toUtc]
  induction rs with
  | nil => rfl
  | cons r rs ih => simp [toUtc.toUtcList, ih]

/-- `dt64_roundtrip`: for instants at or after the epoch, converting to datetime64 gives the
whole second at or below the instant, and converting that back gives that second again. -/
theorem dt64_roundtrip (us : Int) (h : 0 ≤ us) :
    toDt64 us = us / 1000000 * 1000000000 ∧
    toUtc (.dt64 1000000000 (toDt64 us)) = [some (us / 1000000 * 1000000)] := by
  have e : Int.tdiv us 1000000 = us / 1000000 := Int.tdiv_eq_ediv_of_nonneg h
  refine ⟨by simp only [toDt64, e], ?_⟩
  simp only [toUtc, toDt64, e]
  congr 2
  omega

/-- whole seconds survive the datetime64 round trip exactly -/
theorem dt64_roundtrip_whole (s : Int) (h : 0 ≤ s) :
    toUtc (.dt64 1000000000 (toDt64 (s * 1000000))) = toUtc (.epochInt s) := by
  rw [(dt64_roundtrip _ (by omega)).2]
  simp only [toUtc]
  congr 2
  omega

/-- `timeint_decode`: hhmmss (hh ≥ 01), hhmm (hh ≥ 01) and hh. -/
theorem timeint_decode (h m s : Int) (hh : 1 ≤ h) (hm : 0 ≤ m) (hm' : m < 100) (hs : 0 ≤ s) (hs' : s < 100) :
    timeFromTimeint (h * 10000 + m * 100 + s) = h * 3600 + m * 60 + s := by
  simp only [timeFromTimeint]
  have : h * 10000 + m * 100 + s ≥ 10000 := by omega
  simp only [this, if_true]
  have e1 : (h * 10000 + m * 100 + s) / 10000 = h := by omega
  rw [e1]
  have e2 : (h * 10000 + m * 100 + s - h * 10000) / 100 = m := by omega
  rw [e2]; omega

theorem timeint_decode_hhmm (h m : Int) (hh : 1 ≤ h) (hh' : h < 100) (hm : 0 ≤ m) (hm' : m < 100) :
    timeFromTimeint (h * 100 + m) = h * 3600 + m * 60 := by
  simp only [timeFromTimeint]
  have h1 : ¬ (h * 100 + m ≥ 10000) := by omega
  have h2 : h * 100 + m ≥ 100 := by omega
  simp only [h1, h2, if_true, if_false]
  have e1 : (h * 100 + m) / 100 = h := by omega
  rw [e1]; omega

theorem timeint_decode_hh (h : Int) (hh : h < 100) : timeFromTimeint h = h * 3600 := by
  simp only [timeFromTimeint]
  have h1 : ¬ (h ≥ 10000) := by omega
  have h2 : ¬ (h ≥ 100) := by omega
  simp only [h1, h2, if_false]; omega

/-- the format's own ambiguity: hhmmss with hh = 00 is read as hhmm -/
theorem timeint_ambiguity (m s : Int) (hm : 1 ≤ m) (hm' : m < 100) (hs : 0 ≤ s) (hs' : s < 100) :
    timeFromTimeint (0 * 10000 + m * 100 + s) = m * 3600 + s * 60 := by
  have := timeint_decode_hhmm m s hm hm' hs hs'
  simpa using this

/-- `dateint_decode`: yyyymmdd (for dates after year 100) and yymmdd (years 2000–2099). -/
theorem dateint_decode (y m d : Int) (hy : 101 ≤ y) (hm : 0 ≤ m) (hm' : m < 100) (hd : 0 ≤ d) (hd' : d < 100) :
    dateFromDateint (y * 10000 + m * 100 + d) = (y, m, d) := by
  simp only [dateFromDateint]
  have : y * 10000 + m * 100 + d > 1000000 := by omega
  simp only [this, if_true]
  have e1 : (y * 10000 + m * 100 + d) / 10000 = y := by omega
  rw [e1]
  have e2 : (y * 10000 + m * 100 + d - y * 10000) / 100 = m := by omega
  rw [e2]
  simp only [Prod.mk.injEq, true_and]; omega

theorem dateint_decode_yy (y m d : Int) (hy : 0 ≤ y) (hy' : y < 100) (hm : 0 ≤ m) (hm' : m < 100)
    (hd : 0 ≤ d) (hd' : d < 100) :
    dateFromDateint (y * 10000 + m * 100 + d) = (y + 2000, m, d) := by
  simp only [dateFromDateint]
  have : ¬ (y * 10000 + m * 100 + d > 1000000) := by omega
  simp only [this, if_false]
  have e1 : (y * 10000 + m * 100 + d) / 10000 = y := by omega
  rw [e1]
  have e2 : (y * 10000 + m * 100 + d - y * 10000) / 100 = m := by omega
  rw [e2]
  simp only [Prod.mk.injEq, true_and]; omega

/-! ### Non-vacuity -/

example : instantOf ⟨2022, 11, 9, 10, 20, 42, 0⟩ 0 = 1667989242000000 := by decide +kernel
example : (⟨2024, 2, 29, 23, 59, 59, 999999⟩ : Fields).valid = true := by decide +kernel
example : fieldsOf 4102444799999999 = ⟨2099, 12, 31, 23, 59, 59, 999999⟩ := by decide +kernel
example : instantOf ⟨2022, 11, 9, 15, 50, 42, 0⟩ 330 = instantOf ⟨2022, 11, 9, 10, 20, 42, 0⟩ 0 := by
  decide +kernel

end Osu.TC
