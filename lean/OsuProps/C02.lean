import OsuProofs.Directional

/-!
# C02 — directional integration of a 2D spectrum conserves energy and bounds the moments

Model: `OsuModel/Spectral.lean` (`wrapDiff`, `dirStep`, `dirInt`, `rowMoments`, `integrate2d`).
`e(f) = dirInt steps row` *is* the sum over directions of the variance density times the wrapped
direction bin width (missing bins skipped); `a1 … b2` are the same sums weighted by the trig
tables of the grid, divided by `e(f)`.
-/

namespace Osu.Spec

variable {α : Type} [Field α] [LinearOrder α] [IsStrictOrderedRing α]
set_option linter.unusedSectionVars false

/-- `wrapped_difference` returns the representative of its argument modulo the period that lies
in `[discont - period, discont)`. -/
theorem wrapped_difference_spec {floor : α → ℤ} (hf : IsFloor floor) (P d δ : α) (hP : 0 < P) :
    (d - P ≤ wrapDiff floor P d δ ∧ wrapDiff floor P d δ < d) ∧
    ∃ k : ℤ, wrapDiff floor P d δ = δ - P * (k : α) :=
  wrapDiff_spec hf P d δ hP

/-- `dirStep_pos_sum`: for a direction grid covering the circle — every forward difference in
(0°, 180°) and the closing difference `d₀ - d_last` in (-360°, -180°), i.e. a wrap gap in
(0°, 180°); uniform or not, any start angle — the bin widths are exactly the cyclic gaps, every
width is positive, and the widths sum to 360°. -/
theorem dirStep_pos_sum {floor : α → ℤ} (hf : IsFloor floor) (ds init : List α) (last : α)
    (hraw : cyclicDiff ds = init ++ [last])
    (hinit : ∀ δ ∈ init, 0 < δ ∧ δ < 180) (hlast : 0 < last + 360 ∧ last + 360 < 180) :
    dirStep floor ds = init ++ [last + 360] ∧ (∀ s ∈ dirStep floor ds, 0 < s) ∧
    lsum (dirStep floor ds) = 360 :=
  dirStep_spec hf ds init last hraw hinit hlast

/-- recorded limit of the statement: a gap of 180° or more gives a non-positive bin width -/
theorem dirStep_gap_too_wide {floor : α → ℤ} (hf : IsFloor floor) (δ : α) (h1 : 180 ≤ δ) (h2 : δ < 360) :
    wrapDiff floor 360 180 δ < 0 :=
  (wrapDiff_gap_too_wide hf δ h1 h2).2

/-- `e(f)` is the weighted sum over the direction bins (missing bins skipped) -/
theorem e_def (l : List (α × Option α × α × α)) :
    dirInt (l.map (·.1)) (l.map (·.2.1)) = (l.map binWeight).sum :=
  dirInt_eq l

/-- hypotheses of the bounds: non-negative widths and densities, trig tables on the unit circle -/
structure RowOK (l : List (α × Option α × α × α)) : Prop where
  weight : ∀ q ∈ l, 0 ≤ binWeight q
  circle : ∀ q ∈ l, q.2.2.1 ^ 2 + q.2.2.2 ^ 2 = 1

theorem binWeight_nonneg_of (q : α × Option α × α × α) (hs : 0 ≤ q.1) (he : ∀ x, q.2.1 = some x → 0 ≤ x) :
    0 ≤ binWeight q := by
  obtain ⟨s, e, c, sn⟩ := q
  cases e with
  | none => simp [binWeight, fill0]
  | some x => exact mul_nonneg (he x rfl) hs

/-- the normalised first-harmonic moments of one frequency, as the model computes them -/
def a1b1 (l : List (α × Option α × α × α)) : Option α × Option α :=
  let steps := l.map (·.1)
  let row := l.map (·.2.1)
  let e := dirInt steps row
  (divOpt (dirInt steps (List.zipWith (fun v c => v.map (· * c)) row (l.map (·.2.2.1)))) e,
   divOpt (dirInt steps (List.zipWith (fun v c => v.map (· * c)) row (l.map (·.2.2.2)))) e)

/-- … which is what `rowMoments` returns (for a1, b1 with the cos θ / sin θ tables, and for
a2, b2 with the cos 2θ / sin 2θ tables) -/
theorem rowMoments_a1b1 (l : List (α × Option α × α × α)) (c2 s2 : List α) :
    let r := rowMoments (l.map (·.1)) (l.map (·.2.2.1)) (l.map (·.2.2.2)) c2 s2 (l.map (·.2.1))
    (r.2.1, r.2.2.1) = a1b1 l := rfl

theorem rowMoments_a2b2 (l : List (α × Option α × α × α)) (c1 s1 : List α) :
    let r := rowMoments (l.map (·.1)) c1 s1 (l.map (·.2.2.1)) (l.map (·.2.2.2)) (l.map (·.2.1))
    (r.2.2.2.1, r.2.2.2.2) = a1b1 l := rfl

/-- `moment_bounds`: for non-negative densities on a grid with non-negative bin widths and
`e(f) > 0`, both moments are defined, each has magnitude ≤ 1, and `a² + b² ≤ 1`. -/
theorem moment_bounds_dir (l : List (α × Option α × α × α)) (h : RowOK l)
    (he : 0 < (l.map binWeight).sum) :
    ∃ a b, a1b1 l = (some a, some b) ∧ |a| ≤ 1 ∧ |b| ≤ 1 ∧ a ^ 2 + b ^ 2 ≤ 1 := by
  have hne : (l.map binWeight).sum ≠ 0 := ne_of_gt he
  refine ⟨(l.map fun q => binWeight q * q.2.2.1).sum / (l.map binWeight).sum,
          (l.map fun q => binWeight q * q.2.2.2).sum / (l.map binWeight).sum, ?_, ?_, ?_, ?_⟩
  · simp only [a1b1, dirInt_eq, dirInt_weighted_eq l (fun q => q.2.2.1),
      dirInt_weighted_eq l (fun q => q.2.2.2), divOpt, hne, if_false]
  · rw [abs_div, abs_of_pos he, div_le_one he]
    apply abs_weighted_le l _ h.weight
    intro q hq
    have := h.circle q hq
    rw [← sq_le_one_iff_abs_le_one]
    nlinarith [sq_nonneg q.2.2.2]
  · rw [abs_div, abs_of_pos he, div_le_one he]
    apply abs_weighted_le l _ h.weight
    intro q hq
    have := h.circle q hq
    rw [← sq_le_one_iff_abs_le_one]
    nlinarith [sq_nonneg q.2.2.1]
  · have := moment_sq_le l h.weight h.circle
    rw [div_pow, div_pow, ← add_div, div_le_one (by positivity)]
    exact this

/-- where `e(f) = 0` the moments are undefined (0/0 = NaN in the code) -/
theorem moments_undefined_of_no_energy (l : List (α × Option α × α × α))
    (he : (l.map binWeight).sum = 0) : a1b1 l = (none, none) := by
  simp only [a1b1, dirInt_eq, divOpt, he, if_true]

/-- `numba_integrate_spectral_data`: the double sum `Σ_f Σ_θ x·Δf·Δθ` is the frequency-weighted sum
of the directional integrals (same `dirInt` inside). -/
theorem integrate2d_rows (fsteps dsteps : List α) (rows : List (List α)) :
    integrate2d fsteps dsteps rows =
      lsum (List.zipWith (fun df row => df * dirInt dsteps (row.map some)) fsteps rows) := by
  simp only [integrate2d]
  congr 1
  have key : ∀ (df : α) (row ds : List α),
      lsum (List.zipWith (fun x dd => x * df * dd) row ds) = df * dirInt ds (row.map some) := by
    intro df row
    induction row with
    | nil => intro ds; simp [dirInt, lsum]
    | cons x row ih =>
      intro ds
      cases ds with
      | nil => simp [dirInt, lsum]
      | cons d ds =>
        have := ih ds
        simp only [dirInt, List.map_cons, List.zipWith_cons_cons, lsum] at this ⊢
        rw [this]; ring
  induction fsteps generalizing rows with
  | nil => simp
  | cons df fs ih =>
    cases rows with
    | nil => simp
    | cons row rows => simp only [List.zipWith_cons_cons, key, ih]

/-- converting to a 1D spectrum keeps e(f): the 2D object's moments are *defined* as the moments
of its directionally integrated density, so every parameter computed from e(f) agrees. -/
theorem to1D_moment (p : ℕ) (fmin : α) (fmax : Option α) (fs : List α) (dsteps : List α)
    (rows : List (List (Option α))) :
    moment p fmin fmax fs ((rows.map (dirInt dsteps)).map some) =
      moment p fmin fmax fs (rows.map fun r => some (dirInt dsteps r)) := by
  rw [List.map_map]; rfl

/-! ### Non-vacuity -/

/-- a non-uniform 4-bin grid starting at 350°: gaps 20, 100, 110, 130 -/
example : cyclicDiff ([350, 10 + 360, 110 + 360, 220 + 360] : List ℚ) = [20, 100, 110] ++ [-230] := by
  decide +kernel

example : dirStep Rat.floor ([350, 370, 470, 580] : List ℚ) = [20, 100, 110, 130] := by decide +kernel

end Osu.Spec
