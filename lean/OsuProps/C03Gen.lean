import OsuProofs.Gen.Spec
import OsuProofs.RealTransc
import OsuProps.C03
import Mathlib.Tactic.Ring
import Mathlib.Tactic.NormNum
/-!
# C03, second tie: direction and spread from a pair of moments, machine-translated

What `WaveSpectrum._mean_direction` and `WaveSpectrum._spread` return now (re-translated on every run) are the
model's `meanDir` and `spread`, the functions `OsuProps/C03.lean` proves the range and rotation theorems about;
`radian_direction` is the degrees-to-radians map used by the directional moments.
-/
namespace Osu.Props.C03Gen
open Osu.Spec

theorem gen_mean_direction_eq (a1 b1 : ℝ) : Osu.GenSpec.mean_direction a1 b1 = meanDir a1 b1 := by
  simp only [Osu.GenSpec.mean_direction, meanDir, Transc.atan2, Transc.pi]
  norm_num

theorem gen_spread_eq (a1 b1 : ℝ) : Osu.GenSpec.spread a1 b1 = spread a1 b1 := by
  simp only [Osu.GenSpec.spread, spread, Transc.sqrt, Transc.pi]
  norm_num
  ring_nf

theorem gen_radian_direction_eq (d : ℝ) : Osu.GenSpec.radian_direction d = d * Real.pi / 180 := by
  simp only [Osu.GenSpec.radian_direction]

end Osu.Props.C03Gen
