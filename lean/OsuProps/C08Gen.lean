import OsuProofs.Gen.Spec
import OsuProofs.RealTransc
import OsuModel.SourceTerms
import OsuProofs.SourceTerms
import Mathlib.Tactic.Ring
import Mathlib.Tactic.NormNum
/-!
# C08 / C09, second tie: the ST4 wind-input kernel, machine-translated

`tools/py2lean_spec.py` re-translates, from /repo's current source on every run, the body of the loop nest of
`_st4_wind_generation_point` (the value written to `wind_source[i, j]` as a function of the scalars of that bin:
relative speed, directional factor, Janssen's critical height with its clamp, growth rate, the explicit zero for
bins without a down-wind component), the conversion of U10 to the friction velocity, and the cosine of the wrapped
mutual angle between wind and waves.  They are the model's `st4Rate`, `frictionVelocity` and the element map of
`cosMutual`, the definitions the sign, support, scaling and rotation theorems of C08 / C09 are stated about.
-/
namespace Osu.Props.C08Gen
open Osu.ST Osu.Solv

/-- the value of one bin of the wind-input field -/
theorem gen_st4_bin_eq (p : GenP ℝ) (e k om c ustar z0 : ℝ) :
    Osu.GenSpec.st4_wind_generation_bin e k om c ustar z0 p.kappa p.betamax p.rhoAir p.rhoWater p.zalpha
      = st4Rate p k om ustar z0 c e := by
  simp only [Osu.GenSpec.st4_wind_generation_bin, st4Rate, st4Growth, Transc.log, Transc.exp, gt_iff_lt, npow]
  split
  · ring_nf
  · rfl

/-- U10 → friction velocity through the logarithmic profile -/
theorem gen_friction_velocity_eq (p : GenP ℝ) (u dir z0 : ℝ) :
    Osu.GenSpec.st4_friction_velocity_from_u10 u p.kappa p.elevation z0
      = frictionVelocity p ⟨u, dir, true⟩ z0 := by
  simp only [Osu.GenSpec.st4_friction_velocity_from_u10, frictionVelocity, Transc.log, if_true]

/-- cosine of the mutual angle, wrapped to (−π, π] -/
theorem gen_cosine_mutual_eq (theta : List ℝ) (wdir : ℝ) :
    cosMutual (fun x : ℝ => ((⌊x⌋ : ℤ) : ℝ)) theta wdir
      = theta.map fun t => Osu.GenSpec.st4_cosine_mutual_angle t wdir := by
  simp only [cosMutual, Osu.GenSpec.st4_cosine_mutual_angle, wrapPi, modTwoPi, twoPi, two, deg2rad, Transc.cos, Transc.pi]
  norm_num

/-! ### ST6 dissipation: saturation, relative exceedance, running sum, inherent + cumulative entry -/

/-- one bin of `st6_dissipation` (`inherent + cumulative`), written with the translated pieces, is the model's
`st6Entry`; the frequency handed to the inherent term is `ω / 2 / π` -/
theorem gen_st6_entry_eq (sp : St6P ℝ) (rel run om e : ℝ) :
    Osu.GenSpec.st6_inherent_bin e rel (Osu.GenSpec.st6_frequency om) sp.a1 sp.p1
      + Osu.GenSpec.st6_cumulative_bin e run sp.a2 sp.p2 = st6Entry sp rel run om e := by
  simp only [Osu.GenSpec.st6_inherent_bin, Osu.GenSpec.st6_cumulative_bin, Osu.GenSpec.st6_frequency, st6Entry,
    npow_eq, two, Transc.pi]
  norm_num

/-- the clipped relative exceedance of the saturation spectrum, one frequency of the model's `st6Exceedance` -/
theorem gen_st6_exceedence_eq (sp : St6P ℝ) (e1 cg k : ℝ) :
    Osu.GenSpec.st6_relative_exceedence (Osu.GenSpec.st6_saturation e1 cg k) sp.threshold
      = (let sat := e1 * cg * (k * k * k) / two / Transc.pi
         let r := (sat - sp.threshold) / sp.threshold
         if 0 < r then r else 0) := by
  have h : e1 * cg * k ^ 3 / 2 / Real.pi = e1 * cg * (k * k * k) / (two : ℝ) / Transc.pi := by
    have : k ^ 3 = k * k * k := by ring
    rw [this]; simp only [two, Transc.pi]; norm_num
  simp only [Osu.GenSpec.st6_relative_exceedence, Osu.GenSpec.st6_saturation, gt_iff_lt, h]

/-- the running sum starts at zero and grows by `exceedance × Δf`: the model's `runSums 0 (rel * df)` -/
theorem gen_st6_run_sum_eq (rel df : List ℝ) :
    runSums Osu.GenSpec.st6_run_sum_start (List.zipWith Osu.GenSpec.st6_run_sum_increment rel df)
      = runSums 0 (List.zipWith (· * ·) rel df) := by
  have h : Osu.GenSpec.st6_run_sum_increment = fun (a b : ℝ) => a * b := by
    funext a b; simp only [Osu.GenSpec.st6_run_sum_increment]
  simp only [Osu.GenSpec.st6_run_sum_start, h]

end Osu.Props.C08Gen
