import OsuProps.C18
import OsuProps.C19
import OsuProps.C20
