import OsuModel.TimeConv
import OsuModel.Gen.TimeInt

namespace Osu.Driver.TC
open Osu.TC

def ints (ts : List String) : Option (List Int) := ts.mapM String.toInt?

def fieldsStr (f : Fields) : String :=
  s!"{f.year} {f.month} {f.day} {f.hour} {f.minute} {f.second} {f.micro}"

def step (ts : List String) : String :=
  match ts with
  | "instant" :: rest =>
    match ints rest with
    | some [y, m, d, hh, mi, s, us, off] =>
      let f : Fields := ⟨y, m.toNat, d.toNat, hh.toNat, mi.toNat, s.toNat, us.toNat⟩
      if !f.valid then "invalid" else toString (instantOf f off)
    | _ => "bad-op"
  | ["fields", us] =>
    match us.toInt? with
    | some us => fieldsStr (fieldsOf us)
    | none => "bad-op"
  | ["todt64", us] =>
    match us.toInt? with
    | some us => toString (toDt64 us)
    | none => "bad-op"
  | ["dt64", u, c] =>
    match u.toInt?, c.toInt? with
    | some u, some c =>
      match toUtc (.dt64 u c) with
      | [some v] => toString v
      | _ => "bad-op"
    | _, _ => "bad-op"
  | ["timeint", t] =>
    match t.toInt? with
    | some t => s!"{timeFromTimeint t} {Gen.time_from_timeint t}"
    | none => "bad-op"
  | ["dateint", t] =>
    match t.toInt? with
    | some t =>
      let a := dateFromDateint t
      let b := Gen.date_from_dateint t
      s!"{a.1} {a.2.1} {a.2.2} {b.1} {b.2.1} {b.2.2}"
    | none => "bad-op"
  | ["fromints", d, t] =>
    match d.toInt?, t.toInt? with
    | some d, some t => toString (fromDateTimeInts d t)
    | _, _ => "bad-op"
  | ["civil", z] =>
    match z.toInt? with
    | some z => let c := civilFromDays z; s!"{c.1} {c.2.1} {c.2.2}"
    | none => "bad-op"
  | _ => "bad-op"

end Osu.Driver.TC
