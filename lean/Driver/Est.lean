import OsuModel.Estimators
import Driver.Num
import Driver.Spec

namespace Osu.Driver.Est
open Osu.Est Osu.Driver.Num

def floats (ts : List String) : Option (List Float) := ts.mapM tokFloat
def strs (l : List Float) : String := " ".intercalate (l.map floatStr)

def nanF : Float := 0.0 / 0.0

def trigOf (theta : List Float) : List (Float × Float × Float × Float) :=
  theta.map fun t => (Float.cos t, Float.sin t, Float.cos (2 * t), Float.sin (2 * t))

def twiddle (theta : List Float) : List (List Float) :=
  theta.map fun t => [Float.cos t, Float.sin t, Float.cos (2 * t), Float.sin (2 * t)]

/-- smallest pivot of the decomposition relative to its diagonal entry (`none`: a pivot was not positive) -/
def minRelPivot (A : List (List Float)) (r : List Float) : Option Float :=
  match cholForward A r A.length 0 [] [] [] with
  | none => none
  | some (L, _, _) =>
    some <| (List.range A.length).foldl (fun acc i =>
      let d := (L.getD i []).getD i 0
      let a := (A.getD i []).getD i 0
      let q := d * d / a
      if q < acc then q else acc) 1.0

/-- where the decomposition is decided by the last bits of the matrix the code may take either
branch (Cholesky or the least-squares fallback): outside what the model run is compared on -/
def decided (A : List (List Float)) (r : List Float) : Bool :=
  match minRelPivot A r with
  | some q => q > 1e-7
  | none => false

/-- Cholesky solve, or the NaN vector where the solve fails or is not `decided` -/
def solveF (A : List (List Float)) (r : List Float) : List Float :=
  if decided A r then cholSolve4 nanF A r
  else r.map fun _ => nanF

def rows4 (l : List Float) : List (List Float) :=
  [l.take 4, (l.drop 4).take 4, (l.drop 8).take 4, (l.drop 12).take 4]

def step (ts : List String) : String :=
  match ts with
  | "mem" :: a1 :: b1 :: a2 :: b2 :: rest =>
    match tokFloat a1, tokFloat b1, tokFloat a2, tokFloat b2, takeN rest with
    | some a1, some b1, some a2, some b2, some (th, []) =>
      match floats th with
      | some th => strs (mem a1 b1 a2 b2 (trigOf th))
      | none => "bad-op"
    | _, _, _, _, _ => "bad-op"
  | ["init", a1, b1, a2, b2] =>
    match tokFloat a1, tokFloat b1, tokFloat a2, tokFloat b2 with
    | some a1, some b1, some a2, some b2 => strs (initialValue a1 b1 a2 b2)
    | _, _, _, _ => "bad-op"
  | "dist" :: rest =>
    match takeN rest with
    | some (lam, r1) => match takeN r1 with
      | some (dl, r2) => match takeN r2 with
        | some (th, []) =>
          match floats lam, floats dl, floats th with
          | some lam, some dl, some th => strs (dist lam dl (twiddle th))
          | _, _, _ => "bad-op"
        | _ => "bad-op"
      | none => "bad-op"
    | none => "bad-op"
  | "cons" :: rest =>
    match takeN rest with
    | some (lam, r0) => match takeN r0 with
      | some (mom, r1) => match takeN r1 with
        | some (dl, r2) => match takeN r2 with
          | some (th, []) =>
            match floats lam, floats mom, floats dl, floats th with
            | some lam, some mom, some dl, some th => strs (constraints lam mom dl (twiddle th))
            | _, _, _, _ => "bad-op"
          | _ => "bad-op"
        | none => "bad-op"
      | none => "bad-op"
    | none => "bad-op"
  | "jac" :: rest =>
    match takeN rest with
    | some (lam, r1) => match takeN r1 with
      | some (dl, r2) => match takeN r2 with
        | some (th, []) =>
          match floats lam, floats dl, floats th with
          | some lam, some dl, some th => strs ((jacobian lam dl (twiddle th)).flatten)
          | _, _, _ => "bad-op"
        | _ => "bad-op"
      | none => "bad-op"
    | none => "bad-op"
  | "chol" :: rest =>
    match takeN rest with
    | some (a, r1) => match takeN r1 with
      | some (b, []) =>
        match floats a, floats b with
        | some a, some b =>
          if a.length ≠ 16 ∨ b.length ≠ 4 then "bad-op" else
          match cholSolve (rows4 a) b with
          | some x => strs x
          | none => "fail"
        | _, _ => "bad-op"
      | _ => "bad-op"
    | none => "bad-op"
  | "newton" :: atol :: maxIter :: depth :: rest =>
    match tokFloat atol, maxIter.toNat?, depth.toNat?, takeN rest with
    | some atol, some maxIter, some depth, some (mom, r1) => match takeN r1 with
      | some (dl, r2) => match takeN r2 with
        | some (th, []) =>
          match floats mom, floats dl, floats th with
          | some mom, some dl, some th =>
            let T := twiddle th
            let guess := initialValue (mom.getD 0 0) (mom.getD 1 0) (mom.getD 2 0) (mom.getD 3 0)
            let r := newton solveF atol maxIter depth mom dl T guess
            if r.converged then s!"conv {r.iterations} {strs r.lam} {strs (dist r.lam dl T)}"
            else
              let f := constraints r.lam mom dl T
              if decided (jacobian r.lam dl T) (f.map fun x => -x) then
                s!"noconv {r.iterations} {strs r.lam} {strs (dist r.lam dl T)}"
              else s!"cholfail {r.iterations} {strs r.lam}"
          | _, _, _ => "bad-op"
        | _ => "bad-op"
      | none => "bad-op"
    | _, _, _, _ => "bad-op"
  | _ => "bad-op"

end Osu.Driver.Est
