import OsuModel.WindEstimate
import Driver.Num
import Driver.Spec

namespace Osu.Driver.Wind
open Osu.Wind Osu.Driver.Num

instance : IntCast Float := ⟨fun i => if i ≥ 0 then Float.ofNat i.toNat else -(Float.ofNat (-i).toNat)⟩

def ffloor (x : Float) : Int := (Float.floor x).toInt64.toInt

def optFloat (s : String) : Option (Option Float) :=
  if s == "nan" then some none else (tokFloat s).map some

def optFloats (ts : List String) : Option (List (Option Float)) := ts.mapM optFloat
def floats (ts : List String) : Option (List Float) := ts.mapM tokFloat

def ofStr : Option Float → String
  | some x => floatStr x
  | none => "nan"

def fabs (x : Float) : Float := Float.abs x

def step (ts : List String) : String :=
  match ts with
  | "peak" :: p :: rest =>
    match p.toNat?, takeN rest with
    | some p, some (ff, r1) => match takeN r1 with
      | some (ee, r2) => match takeN r2 with
        | some (aa, r3) => match takeN r3 with
          | some (bb, []) =>
            match floats ff, optFloats ee, optFloats aa, optFloats bb with
            | some f, some e, some a, some b =>
              match eqPeak p f e a b with
              | some (v, x, y) => s!"{floatStr v} {ofStr x} {ofStr y}"
              | none => "none"
            | _, _, _, _ => "bad-op"
          | _ => "bad-op"
        | none => "bad-op"
      | none => "bad-op"
    | _, _ => "bad-op"
  | "mean" :: p :: nb :: fmax :: rest =>
    match p.toNat?, nb.toNat?, tokFloat fmax, takeN rest with
    | some p, some nb, some fmax, some (ff, r1) => match takeN r1 with
      | some (ee, r2) => match takeN r2 with
        | some (aa, r3) => match takeN r3 with
          | some (bb, []) =>
            match floats ff, floats ee, floats aa, floats bb with
            | some f, some e, some a, some b =>
              let r := eqMean fabs p nb fmax f e a b
              s!"{floatStr r.1} {floatStr r.2.1} {floatStr r.2.2}"
            | _, _, _, _ => "bad-op"
          | _ => "bad-op"
        | none => "bad-op"
      | none => "bad-op"
    | _, _, _, _ => "bad-op"
  | ["ustar", e, g, i, b] =>
    match tokFloat e, tokFloat g, tokFloat i, tokFloat b with
    | some e, some g, some i, some b => floatStr (ustar e g i b)
    | _, _, _, _ => "bad-op"
  | ["u10", k, c, g, us] =>
    match tokFloat k, tokFloat c, tokFloat g, tokFloat us with
    | some k, some c, some g, some us => floatStr (u10Of k us (charnockZ0 c g us))
    | _, _, _, _ => "bad-op"
  | ["dir", a, b] =>
    match tokFloat a, tokFloat b with
    | some a, some b => floatStr (tailDirection ffloor a b)
    | _, _ => "bad-op"
  | ["met", d] =>
    match tokFloat d with
    | some d => floatStr (toMeteorological ffloor d)
    | none => "bad-op"
  | _ => "bad-op"

end Osu.Driver.Wind
