import OsuModel.SourceTerms
import Driver.Num
import Driver.Spec

namespace Osu.Driver.ST
open Osu.ST Osu.Solv Osu.Driver.Num

def floats (ts : List String) : Option (List Float) := ts.mapM tokFloat
def strs (l : List Float) : String := " ".intercalate (l.map floatStr)
def nanF : Float := 0.0 / 0.0
def flr (x : Float) : Float := Float.floor x

def optS : Option Float → String
  | some x => floatStr x
  | none => "nan"

/-- the context of one spatial point: grid, kinematics, spectrum, generation parameters -/
structure Ctx where
  g : Grid Float
  kin : Kin Float
  E : List (List Float)
  p : GenP Float

def chunks (n : Nat) : Nat → List Float → List (List Float)
  | 0, _ => []
  | m + 1, l => l.take n :: chunks n m (l.drop n)

def parseGenP (l : List Float) : Option (GenP Float) :=
  match l with
  | [g, cmax, ch, ra, rw, ka, za, bm, el, nu, vi] =>
    some { g := g, charnockMax := if cmax.isInf then none else some cmax, charnock := ch, rhoAir := ra, rhoWater := rw,
           kappa := ka, zalpha := za, betamax := bm, elevation := el, nuAir := nu, viscous := vi }
  | _ => none

/-- `ctx nf nd omega.. theta.. df.. dth.. k.. cg.. c.. E.. genp(11)` -/
def parseCtx (ts : List String) : Option Ctx :=
  match ts with
  | nf :: nd :: rest =>
    match nf.toNat?, nd.toNat?, floats rest with
    | some nf, some nd, some v =>
      if v.length ≠ 5 * nf + 2 * nd + nf * nd + 11 then none else
      let om := v.take nf
      let v := v.drop nf
      let th := v.take nd
      let v := v.drop nd
      let df := v.take nf
      let v := v.drop nf
      let dth := v.take nd
      let v := v.drop nd
      let k := v.take nf
      let v := v.drop nf
      let cg := v.take nf
      let v := v.drop nf
      let c := v.take nf
      let v := v.drop nf
      let E := chunks nd nf (v.take (nf * nd))
      let v := v.drop (nf * nd)
      match parseGenP v with
      | some p => some { g := { omega := om, theta := th, df := df, dth := dth }, kin := { k := k, cg := cg, c := c }, E := E, p := p }
      | none => none
    | _, _, _ => none
  | _ => none

def windOf (sp dir ty : String) : Option (Wind Float) :=
  match tokFloat sp, tokFloat dir with
  | some s, some d => some { speed := s, dirDeg := d, isU10 := ty == "u10" }
  | _, _ => none

def field (f : List (List Float)) : String := strs f.flatten

/-- the stress balance as a total function: a raised evaluation is a NaN value -/
def balF (c : Ctx) (w : Wind Float) (lz : Float) : Float := balanceTotal nanF flr c.p c.g c.kin c.E w lz

def roughF (c : Ctx) (w : Wind Float) (guess : Float) : Option Float := roughnessOf nanF flr c.p c.g c.kin c.E w guess

/-- `_u10_iteration_function` with the roughness guess reset for every evaluation -/
def u10F (c : Ctx) (dirDeg target : Float) (dEdt : List (List Float)) (u10 : Float) : Float :=
  u10Balance nanF flr c.p c.g c.kin c.E dirDeg target dEdt u10

def parseBrk (l : List Float) : Option (BrkP Float) :=
  match l with
  | [cs, dc, cp, wd, th, cc, rm] =>
    some { csat := cs, dirControl := dc, cosPow := cp.toUInt64.toNat, widthDeg := wd, threshold := th, ccu := cc, rmax := rm }
  | _ => none

def parseSt6 (l : List Float) : Option (St6P Float) :=
  match l with
  | [p1, p2, a1, a2, th] => some { p1 := p1.toUInt64.toNat, p2 := p2.toUInt64.toNat, a1 := a1, a2 := a2, threshold := th }
  | _ => none

def step (ctx : Option Ctx) (ts : List String) : Option Ctx × String :=
  match ts with
  | "ctx" :: rest =>
    match parseCtx rest with
    | some c => (some c, "ok")
    | none => (ctx, "bad-op")
  | cmd :: rest =>
    match ctx with
    | none => (ctx, "no-ctx")
    | some c =>
      let out : String :=
        match cmd, rest with
        | "in", [sp, dir, ty, z0] =>
          match windOf sp dir ty, tokFloat z0 with
          | some w, some z0 => field (st4Input flr c.p c.g c.kin c.E w z0)
          | _, _ => "bad-op"
        | "bulkin", [sp, dir, ty, z0] =>
          match windOf sp dir ty, tokFloat z0 with
          | some w, some z0 => floatStr (bulk c.g (st4Input flr c.p c.g c.kin c.E w z0))
          | _, _ => "bad-op"
        | "diss4", ps =>
          match (floats ps).bind parseBrk with
          | some bp =>
            let d := st4Dissipation flr bp c.g c.kin c.E
            let dd := dissipationDirection flr c.g c.kin d
            s!"{floatStr dd.2} {floatStr dd.1} {field d}"
          | none => "bad-op"
        | "diss6", ps =>
          match (floats ps).bind parseSt6 with
          | some sp =>
            let d := st6Dissipation sp c.g c.kin c.E
            let dd := dissipationDirection flr c.g c.kin d
            s!"{floatStr dd.2} {floatStr dd.1} {field d}"
          | none => "bad-op"
        | "stress", [sp, dir, ty, z0] =>
          match windOf sp dir ty, tokFloat z0 with
          | some w, some z0 =>
            match totalStress flr c.p c.g c.kin c.E w z0 with
            | some (m, d) => s!"{floatStr m} {optS d}"
            | none => "raised"
          | _, _ => "bad-op"
        | "tail", [sp, dir, ty, z0] =>
          match windOf sp dir ty, tokFloat z0 with
          | some w, some z0 =>
            match wamTail c.p c.g c.E w z0 with
            | some (e, n) => s!"{floatStr e} {floatStr n}"
            | none => "raised"
          | _, _ => "bad-op"
        | "balance", [sp, dir, ty, lz] =>
          match windOf sp dir ty, tokFloat lz with
          | some w, some lz => floatStr (balF c w lz)
          | _, _ => "bad-op"
        | "rough", [sp, dir, ty, guess] =>
          match windOf sp dir ty, tokFloat guess with
          | some w, some gs => optS (roughF c w gs)
          | _, _ => "bad-op"
        | "u10f", dir :: target :: u :: dedt =>
          match tokFloat dir, tokFloat target, tokFloat u, floats dedt with
          | some dir, some target, some u, some dedt =>
            floatStr (u10F c dir target (chunks c.g.theta.length c.g.omega.length dedt) u)
          | _, _, _, _ => "bad-op"
        | "u10", dir :: target :: guess :: dedt =>
          match tokFloat dir, tokFloat target, tokFloat guess, floats dedt with
          | some dir, some target, some guess, some dedt =>
            let r := u10FromBulkRate (u10F c dir target (chunks c.g.theta.length c.g.omega.length dedt)) target guess dir
            s!"{optS r.1} {floatStr r.2}"
          | _, _, _, _ => "bad-op"
        | _, _ => "bad-op"
      (ctx, out)
  | [] => (ctx, "bad-op")

/-- stateless commands: the two solvers on test functions, the Charnock functions -/
def testFn (name : String) (a b : Float) (x : Float) : Float :=
  match name with
  | "lin" => a * x + b
  | "cubic" => x * x * x + a * x + b
  | "exp" => Float.exp (a * x) + b
  | "sinfp" => a + b * Float.sin x
  | "quad" => x * x + a * x + b
  | "tanh" => Float.tanh (a * (x - b))
  | "abs3" => (if x < 0 then -x else x) * x * x + a * x + b
  | _ => nanF

def optBound (s : String) : Option (Option Float) :=
  if s == "none" then some none else (tokFloat s).map some

def stepPure (ts : List String) : String :=
  match ts with
  | ["nr", name, a, b, guess, lo, hi, maxIter, aitken, atol, rtol, numStep, err, rel, ur] =>
    match tokFloat a, tokFloat b, tokFloat guess, optBound lo, optBound hi, maxIter.toNat?, tokFloat atol, tokFloat rtol, tokFloat numStep, tokFloat ur with
    | some a, some b, some guess, some lo, some hi, some maxIter, some atol, some rtol, some numStep, some ur =>
      let cfg : NRConfig Float := { hardLo := lo, hardHi := hi, maxIter := maxIter, aitken := aitken == "1", atol := atol, rtol := rtol,
                                    numStep := numStep, errorOnMaxIter := err == "1", relativeStep := rel == "1", underRelax := ur }
      optS (newtonRaphson (testFn name a b) cfg guess) |>.replace "nan" "raised"
    | _, _, _, _, _, _, _, _, _, _ => "bad-op"
  | "charnock" :: kappa :: elev :: ch :: g :: visc :: nu :: us =>
    match tokFloat kappa, tokFloat elev, tokFloat ch, tokFloat g, tokFloat visc, tokFloat nu with
    | some kappa, some elev, some ch, some g, some visc, some nu =>
      let U : Option (List (Option Float)) := us.mapM fun t => if t == "nan" then some none else (tokFloat t).map some
      match U with
      | some U =>
        let z := charnockFromU10 kappa elev ch g visc nu U
        " ".intercalate (z.map optS) ++ " | " ++ " ".intercalate (z.map fun z => optS (z.map (dragCoefficient kappa elev)))
      | none => "bad-op"
    | _, _, _, _, _, _ => "bad-op"
  | "fp" :: name :: a :: b :: lo :: hi :: maxIter :: aitken :: atol :: rtol :: gs =>
    match tokFloat a, tokFloat b, optBound lo, optBound hi, maxIter.toNat?, tokFloat atol, tokFloat rtol with
    | some a, some b, some lo, some hi, some maxIter, some atol, some rtol =>
      let G : Option (List (Option Float)) := gs.mapM fun t => if t == "nan" then some none else (tokFloat t).map some
      match G with
      | some G =>
        let cfg : FPConfig Float := { lo := lo, hi := hi, maxIter := maxIter, aitken := aitken == "1", atol := atol, rtol := rtol }
        " ".intercalate ((fixedPoint (fun (_ : Unit) x => testFn name a b x) cfg (G.map fun g => ((), g))).map optS)
      | none => "bad-op"
    | _, _, _, _, _, _, _ => "bad-op"
  | _ => "bad-op"

end Osu.Driver.ST
