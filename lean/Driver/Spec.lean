import OsuModel.Spectral
import Driver.Num

namespace Osu.Driver.Spec
open Osu.Spec Osu.Driver.Num

instance : Osu.Transc Float where
  sqrt := Float.sqrt
  exp := Float.exp
  log := Float.log
  cos := Float.cos
  sin := Float.sin
  tanh := Float.tanh
  sinh := Float.sinh
  cosh := Float.cosh
  atan2 := Float.atan2
  pi := 3.141592653589793

def ratList (l : List Rat) : String := " ".intercalate (l.map ratStr)

/-- fmax token: `inf` or bits -/
def tokFmax (s : String) : Option (Option Rat) :=
  if s == "inf" then some none else (tokRat s).bind (fun r => r.map some)

def step (ts : List String) : String :=
  match ts with
  | "moment" :: p :: fmin :: fmax :: rest =>
    match p.toNat?, (tokRat fmin).bind id, tokFmax fmax, takeN rest with
    | some p, some fmin, some fmax, some (ff, rest2) =>
      match ratsOf ff, takeN rest2 with
      | some fs, some (ee, []) =>
        match optRatsOf ee with
        | some es => ratStr (moment p fmin fmax fs es)
        | none => "bad-op"
      | _, _ => "bad-op"
    | _, _, _, _ => "bad-op"
  | "weighted" :: fmin :: fmax :: rest =>
    match (tokRat fmin).bind id, tokFmax fmax, takeN rest with
    | some fmin, some fmax, some (ff, rest2) =>
      match ratsOf ff, takeN rest2 with
      | some fs, some (pp, rest3) =>
        match optRatsOf pp, takeN rest3 with
        | some ps, some (ee, []) =>
          match optRatsOf ee with
          | some es => optRatStr (weighted fmin fmax fs ps es)
          | none => "bad-op"
        | _, _ => "bad-op"
      | _, _ => "bad-op"
    | _, _, _ => "bad-op"
  | "peak" :: fmin :: fmax :: rest =>
    match (tokRat fmin).bind id, tokFmax fmax, takeN rest with
    | some fmin, some fmax, some (ff, rest2) =>
      match ratsOf ff, takeN rest2 with
      | some fs, some (ee, []) =>
        match optRatsOf ee with
        | some es => match peakIndex fmin fmax fs es with
          | some i => toString i
          | none => "none"
        | none => "bad-op"
      | _, _ => "bad-op"
    | _, _, _ => "bad-op"
  | "dirstep" :: rest =>
    match takeN rest with
    | some (dd, []) =>
      match ratsOf dd with
      | some ds => ratList (dirStep Rat.floor ds)
      | none => "bad-op"
    | _ => "bad-op"
  | "freqstep" :: rest =>
    match takeN rest with
    | some (ff, []) =>
      match ratsOf ff with
      | some fs => ratList (freqStep fs)
      | none => "bad-op"
    | _ => "bad-op"
  | "wrapdiff" :: [p, d, x] =>
    match (tokRat p).bind id, (tokRat d).bind id, (tokRat x).bind id with
    | some p, some d, some x => ratStr (wrapDiff Rat.floor p d x)
    | _, _, _ => "bad-op"
  | "rowmoments" :: rest =>
    -- steps c1 s1 c2 s2 row
    match takeN rest with
    | some (a, r1) => match takeN r1 with
      | some (b, r2) => match takeN r2 with
        | some (c, r3) => match takeN r3 with
          | some (d, r4) => match takeN r4 with
            | some (e, r5) => match takeN r5 with
              | some (f, []) =>
                match ratsOf a, ratsOf b, ratsOf c, ratsOf d, ratsOf e, optRatsOf f with
                | some steps, some c1, some s1, some c2, some s2, some row =>
                  let r := rowMoments steps c1 s1 c2 s2 row
                  s!"{ratStr r.1} {optRatStr r.2.1} {optRatStr r.2.2.1} {optRatStr r.2.2.2.1} {optRatStr r.2.2.2.2}"
                | _, _, _, _, _, _ => "bad-op"
              | _ => "bad-op"
            | none => "bad-op"
          | none => "bad-op"
        | none => "bad-op"
      | none => "bad-op"
    | none => "bad-op"
  | ["meandir", a, b] =>
    match tokFloat a, tokFloat b with
    | some a, some b => floatStr (meanDir a b)
    | _, _ => "bad-op"
  | ["spread", a, b] =>
    match tokFloat a, tokFloat b with
    | some a, some b => floatStr (spread a b)
    | _, _ => "bad-op"
  | _ => "bad-op"

end Osu.Driver.Spec
