import OsuModel.Dispersion
import Driver.Num
import Driver.Spec

namespace Osu.Driver.Disp
open Osu.Disp Osu.Driver.Num

def tokDepth (s : String) : Option (Depth Float) :=
  if s == "inf" then some .deep else (tokFloat s).map .finite

instance : NatCast Float := ⟨Float.ofNat⟩

def pairs : List String → Option (List (Float × Depth Float))
  | [] => some []
  | w :: d :: rest => do
      let w ← tokFloat w
      let d ← tokDepth d
      let r ← pairs rest
      pure ((w, d) :: r)
  | _ => none

def step (ts : List String) : String :=
  match ts with
  | ["omega", g, k, d] =>
    match tokFloat g, tokFloat k, tokDepth d with
    | some g, some k, some d => floatStr (omega g k d)
    | _, _, _ => "bad-op"
  | ["ratio", k, d] =>
    match tokFloat k, tokDepth d with
    | some k, some d => floatStr (ratio k d)
    | _, _ => "bad-op"
  | ["cg", g, k, d] =>
    match tokFloat g, tokFloat k, tokDepth d with
    | some g, some k, some d => floatStr (groupVelocity g k d)
    | _, _, _ => "bad-op"
  | "solve" :: g :: tol :: it :: rest =>
    match tokFloat g, tokFloat tol, it.toNat?, pairs rest with
    | some g, some tol, some it, some inp =>
      let r := solve g tol it inp
      " ".intercalate (r.1.map floatStr) ++ (if r.2 then " | conv" else " | noconv")
    | _, _, _, _ => "bad-op"
  | _ => "bad-op"

end Osu.Driver.Disp
