import Driver.Cache
import Driver.TI
import Driver.TC
import Driver.Spec
import Driver.Interp
import Driver.Disp
import Driver.TS
import Driver.Wind
import Driver.Est
import Driver.ST

open Osu.Driver

structure DState where
  cache : Option Cache.Sess := none
  st : Option ST.Ctx := none

def handle (st : DState) (line : String) : DState × String :=
  match (line.trimAscii.toString.splitOn " ").filter (· ≠ "") with
  | "cache" :: rest =>
    let (c, out) := Cache.step st.cache rest
    ({ st with cache := c }, out)
  | "ti" :: rest => (st, TI.step rest)
  | "tc" :: rest => (st, TC.step rest)
  | "spec" :: rest => (st, Spec.step rest)
  | "interp" :: rest => (st, Interp.step rest)
  | "disp" :: rest => (st, Disp.step rest)
  | "ts" :: rest => (st, TS.step rest)
  | "wind" :: rest => (st, Wind.step rest)
  | "est" :: rest => (st, Est.step rest)
  | "st" :: rest =>
    let (c, out) := ST.step st.st rest
    ({ st with st := c }, out)
  | "solv" :: rest => (st, ST.stepPure rest)
  | _ => (st, "bad-op")

partial def loop (h : IO.FS.Stream) (out : IO.FS.Stream) (st : DState) : IO Unit := do
  let line ← h.getLine
  if line.isEmpty then return ()
  let (st', o) := handle st line
  out.putStrLn o
  out.flush
  loop h out st'

def main : IO Unit := do
  loop (← IO.getStdin) (← IO.getStdout) {}
