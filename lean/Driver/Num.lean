/-! Numbers on the wire: doubles travel as decimal u64 bit patterns; exact results as `p/q`. -/
namespace Osu.Driver.Num

/-- exact rational value of an IEEE double given by its bit pattern; `none` for NaN / ±inf -/
def ratOfBits (b : UInt64) : Option Rat :=
  let sign : Bool := (b >>> 63) != 0
  let e : Nat := ((b >>> 52) &&& 0x7FF).toNat
  let m : Nat := (b &&& 0xFFFFFFFFFFFFF).toNat
  if e == 0x7FF then none else
  let mag : Rat :=
    if e == 0 then (m : Rat) / ((2 : Rat) ^ 1074)
    else
      let mant : Nat := m + 2 ^ 52
      if e ≥ 1075 then ((mant * 2 ^ (e - 1075) : Nat) : Rat)
      else (mant : Rat) / (((2 : Nat) ^ (1075 - e) : Nat) : Rat)
  some (if sign then -mag else mag)

def ratStr (q : Rat) : String := s!"{q.num}/{q.den}"

def optRatStr : Option Rat → String
  | some q => ratStr q
  | none => "nan"

def parseU64 (s : String) : Option UInt64 := s.toNat?.map UInt64.ofNat

/-- token → Rat (a `u64` bit pattern, or `nan`) -/
def tokRat (s : String) : Option (Option Rat) :=
  if s == "nan" then some none else (parseU64 s).map ratOfBits

def tokFloat (s : String) : Option Float :=
  (parseU64 s).map Float.ofBits

def floatStr (f : Float) : String := toString f.toBits.toNat

/-- split `n x1 … xn rest…` -/
def takeN (ts : List String) : Option (List String × List String) :=
  match ts with
  | n :: rest => n.toNat?.bind fun n => if rest.length < n then none else some (rest.take n, rest.drop n)
  | [] => none

def ratsOf (ts : List String) : Option (List Rat) :=
  ts.mapM fun t => (tokRat t).bind id

def optRatsOf (ts : List String) : Option (List (Option Rat)) :=
  ts.mapM tokRat

instance : NatCast Float := ⟨Float.ofNat⟩

end Osu.Driver.Num
