import OsuModel.TimeIntegration
import Driver.Num

namespace Osu.Driver.TI
open Osu.TI Osu.Driver.Num

def kindStr : Kind → String
  | .trapezoid => "T"
  | .primary => "P"

def step (ts : List String) : String :=
  match ts with
  | ["stencil", o, n] =>
    match o.toNat?, n.toNat? with
    | some o, some n => " ".intercalate ((stencil o n : List Rat).map ratStr)
    | _, _ => "bad-op"
  | ["lagrange", o, i] =>
    match o.toNat?, i.toNat? with
    | some o, some i => " ".intercalate ((lagrangeCoef o i : List Rat).map ratStr)
    | _, _ => "bad-op"
  | ["ilagrange", o, i] =>
    match o.toNat?, i.toNat? with
    | some o, some i => " ".intercalate ((integratedCoef o i : List Rat).map ratStr)
    | _, _ => "bad-op"
  | "integrate" :: o :: n :: tol :: start :: rest =>
    match o.toNat?, n.toNat?, (tokRat tol).bind id, (tokRat start).bind id, takeN rest with
    | some o, some n, some tol, some start, some (tt, rest2) =>
      match ratsOf tt, takeN rest2 with
      | some tv, some (xx, []) =>
        match ratsOf xx with
        | some xv =>
          if tv.length != xv.length || tv.length < 2 then "bad-op" else
          let ta := tv.toArray
          let xa := xv.toArray
          let r := integrateK tol (stencil o n : List Rat) n tv.length (fun i => ta.getD i 0) (fun i => xa.getD i 0) start
          " ".intercalate (ratStr start :: r.map (fun p => ratStr p.1)) ++ " | " ++ "".intercalate (r.map (fun p => kindStr p.2))
        | none => "bad-op"
      | _, _ => "bad-op"
    | _, _, _, _, _ => "bad-op"
  | _ => "bad-op"

end Osu.Driver.TI
