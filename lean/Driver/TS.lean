import OsuModel.TimeSeries
import Driver.Num
import Driver.Spec

namespace Osu.Driver.TS
open Osu.TS Osu.Driver.Num

def compOf : String → Option Component
  | "u" => some .u | "v" => some .v | "w" => some .w
  | "x" => some .x | "y" => some .y | "z" => some .z
  | _ => none

def floatsOf (ts : List String) : Option (List Float) := ts.mapM tokFloat

/-- `ts series comp n nf nd  <nf omegas> <nd thetas> <nf*nd areas> <nf*nd E> <nf*nd phases>` -/
def step (ts : List String) : String :=
  match ts with
  | "series" :: c :: n :: nf :: nd :: rest =>
    match compOf c, n.toNat?, nf.toNat?, nd.toNat? with
    | some c, some n, some nf, some nd =>
      if rest.length != nf + nd + 3 * nf * nd then "bad-op" else
      match floatsOf rest with
      | some v =>
        let va := v.toArray
        let om := fun i => va.getD i 0
        let th := fun j => va.getD (nf + j) 0
        let base := nf + nd
        let amps : List (Float × Float) := (List.range nf).map fun i =>
          (List.range nd).foldl (fun acc j =>
            let idx := i * nd + j
            let a := amplitude (va.getD (base + idx) 0) (va.getD (base + nf * nd + idx) 0)
              (va.getD (base + 2 * nf * nd + idx) 0) (factor c (om i) (th j))
            cadd acc a) (0, 0)
        " ".intercalate ((series amps n).map floatStr)
      | none => "bad-op"
    | _, _, _, _ => "bad-op"
  | _ => "bad-op"

end Osu.Driver.TS
