import OsuModel.FileCache

/-! Line-protocol front end for the file-cache model (C18, C19). -/

namespace Osu.Driver.Cache
open Osu.FC

def resOf (k : Nat) : Nat := k / 4

structure Sess where
  st : State
  nKeys : Nat
  nForeign : Nat

def contentStr : Content → String
  | .full r pp => s!"F{r}p{if pp then 1 else 0}"
  | .raw r => s!"F{r}p0"
  | .part r n => s!"T{r}n{n}"
  | .foreign n => s!"X{n}"

def fileStr (tag : String) (i : Nat) (f : FileData) : String :=
  s!"{tag}{i}:{contentStr f.content}:{f.size}"

def natsStr (l : List Nat) : String := ",".intercalate (l.map toString)

def sortNat (l : List Nat) : List Nat := (l.toArray.qsort (· < ·)).toList

def dump (se : Sess) (out : String) (dl ev : List Nat) : String :=
  let s := se.st
  let files := (List.range se.nKeys).flatMap fun k =>
    (match s.disk (.cache k) with | some f => [fileStr "c" k f] | none => []) ++
    (match s.disk (.tmp k) with | some f => [fileStr "t" k f] | none => [])
  let ffiles := (List.range se.nForeign).flatMap fun n =>
    match s.disk (.foreign n) with | some f => [fileStr "x" n f] | none => []
  s!"out={out} dl={natsStr dl} ev={natsStr (sortNat ev)} entries={natsStr (sortNat s.entries)} " ++
  s!"files={" ".intercalate (files ++ ffiles)} order={natsStr (evictOrder s)} max={s.maxSize} total={total s} n={s.entries.length}"

def outStr : Out → String
  | .paths ks => s!"paths[{natsStr ks}]"
  | .raisedNotFound => "raise-notfound"
  | .raisedIO => "raise-io"
  | .badSchedule => "bad-schedule"
  | .tooBig => "too-big"
  | .none => "none"

def parseReq (t : String) : Option Req :=
  match t.splitOn "," with
  | [k, v, pp, kind, arg] => do
      let key ← k.toNat?
      let validate ← (match v with | "n" => some none | "0" => some (some false) | "1" => some (some true) | _ => none)
      let pp ← (match pp with | "0" => some false | "1" => some true | _ => none)
      let a ← arg.toNat?
      let outcome ← (match kind with
        | "ok" => some (Outcome.ok a) | "nf" => some .notFound | "rb" => some .raiseBefore
        | "rp" => some (.raisePartial a) | "rpost" => some (.raisePost a) | _ => none)
      pure ⟨key, validate, pp, outcome⟩
  | _ => none

/-- parse `R req*R N ran*N rest…` -/
def parseGet (ts : List String) : Option (List Req × List Nat × List String) := do
  match ts with
  | r :: rest =>
    let r ← r.toNat?
    let reqs ← (rest.take r).mapM parseReq
    if reqs.length != r then none
    match rest.drop r with
    | n :: rest2 =>
      let n ← n.toNat?
      let ran ← (rest2.take n).mapM String.toNat?
      if ran.length != n then none
      pure (reqs, ran, rest2.drop n)
    | [] => none
  | [] => none

/-- length of the shortest prefix of `acts` that contains `j` temporary-file writes (for `j = 0`:
everything before the first write). -/
def cutAfterWrites : List Act → Nat → Nat → Nat
  | [], _, pos => pos
  | .writeTmp _ _ _ :: rest, j, pos => if j == 0 then pos else if j == 1 then pos + 1 else cutAfterWrites rest (j - 1) (pos + 1)
  | _ :: rest, j, pos => cutAfterWrites rest j (pos + 1)

def step (se : Option Sess) (ts : List String) : Option Sess × String :=
  match se, ts with
  | _, ["init", k, f, m, sl, tol] =>
    match k.toNat?, f.toNat?, m.toNat?, sl.toNat?, tol.toNat? with
    | some k, some f, some m, some sl, some tol =>
      let se : Sess := ⟨init m sl (tol != 0), k, f⟩
      (some se, dump se "none" [] [])
    | _, _, _, _, _ => (se, "bad-op")
  | some se, "get" :: rest =>
    match parseGet rest with
    | some (reqs, ran, []) =>
      let r := get resOf se.st reqs ran
      let se' := { se with st := r.state }
      (some se', dump se' (outStr r.out) r.downloads r.evicted)
    | _ => (some se, "bad-op")
  | some se, "getcrash" :: rest =>
    match parseGet rest with
    | some (reqs, ran, [cut, ev]) =>
      match cut.toNat?, ev.toNat? with
      | some cut, some ev =>
        let (st, out) := Osu.FC.step resOf se.st (.getCrash reqs ran cut (ev != 0))
        let se' := { se with st := st }
        (some se', dump se' (outStr out) [] [])
      | _, _ => (some se, "bad-op")
    | _ => (some se, "bad-op")
  | some se, "getcrashw" :: rest =>
    -- crash right after the j-th temporary-file write of the download phase (j = 0: when the
    -- first download starts)
    match parseGet rest with
    | some (reqs, ran, [j, ev]) =>
      match j.toNat?, ev.toNat? with
      | some j, some ev =>
        let acts := getActs resOf se.st reqs ran
        let cut := cutAfterWrites acts j 0
        let (st, out) := Osu.FC.step resOf se.st (.getCrash reqs ran cut (ev != 0))
        let se' := { se with st := st }
        (some se', dump se' (outStr out) [] [])
      | _, _ => (some se, "bad-op")
    | _ => (some se, "bad-op")
  | some se, "nacts" :: rest =>
    -- number of elementary actions of a request (for crash placement)
    match parseGet rest with
    | some (reqs, ran, []) => (some se, s!"nacts={(getActs resOf se.st reqs ran).length}")
    | _ => (some se, "bad-op")
  | some se, ["remove", k] =>
    match k.toNat? with
    | some k => let (st, o) := Osu.FC.step resOf se.st (.remove k)
                let se' := { se with st := st }; (some se', dump se' (outStr o) [] [])
    | none => (some se, "bad-op")
  | some se, ["purge"] =>
    let (st, o) := Osu.FC.step resOf se.st .purge
    let se' := { se with st := st }; (some se', dump se' (outStr o) [] [])
  | some se, ["reopen", ev] =>
    match ev.toNat? with
    | some ev => let (st, o) := Osu.FC.step resOf se.st (.reopen (ev != 0))
                 let se' := { se with st := st }; (some se', dump se' (outStr o) [] [])
    | none => (some se, "bad-op")
  | some se, ["touch", k] =>
    match k.toNat? with
    | some k => let (st, o) := Osu.FC.step resOf se.st (.touch k)
                let se' := { se with st := st }; (some se', dump se' (outStr o) [] [])
    | none => (some se, "bad-op")
  | some se, ["foreign", n, size] =>
    match n.toNat?, size.toNat? with
    | some n, some size => let (st, o) := Osu.FC.step resOf se.st (.foreign n size)
                           let se' := { se with st := st }; (some se', dump se' (outStr o) [] [])
    | _, _ => (some se, "bad-op")
  | se, _ => (se, "bad-op")

end Osu.Driver.Cache
