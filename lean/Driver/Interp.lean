import OsuModel.Interp
import Driver.Num

namespace Osu.Driver.Interp
open Osu.Interp Osu.Driver.Num

def optList (l : List (Option Rat)) : String := ",".intercalate (l.map optRatStr)

def slabOf (vals : List (Option Rat)) (np : Nat) : Nat → List (Option Rat) :=
  let arr := vals.toArray
  fun i => (List.range np).map fun j => arr.getD (i * np + j) none

def optTok (s : String) : Option (Option Rat) := if s == "none" then some none else (tokRat s).bind (fun r => r.map some)

def step (ts : List String) : String :=
  match ts with
  | "enclosing" :: rest =>
    match takeN rest with
    | some (xx, rest2) => match ratsOf xx, takeN rest2 with
      | some xp, some (tt, []) => match ratsOf tt with
        | some xs => " ".intercalate (xs.map fun x => let i := enclosing xp x; s!"{i.1},{i.2}")
        | none => "bad-op"
      | _, _ => "bad-op"
    | none => "bad-op"
  | "enclosingp" :: p :: rest =>
    match (tokRat p).bind id, takeN rest with
    | some P, some (xx, rest2) => match ratsOf xx, takeN rest2 with
      | some xp, some (tt, []) => match ratsOf tt with
        | some xs => " ".intercalate (xs.map fun x => let i := enclosingPeriodic Rat.floor xp P x; s!"{i.1},{i.2}")
        | none => "bad-op"
      | _, _ => "bad-op"
    | _, _ => "bad-op"
  | "frac" :: rest =>
    match takeN rest with
    | some (xx, rest2) => match ratsOf xx, takeN rest2 with
      | some xp, some (tt, []) => match ratsOf tt with
        | some xs => " ".intercalate (xs.map fun x => optRatStr (fracOf xp x))
        | none => "bad-op"
      | _, _ => "bad-op"
    | none => "bad-op"
  | "fracp" :: p :: rest =>
    match (tokRat p).bind id, takeN rest with
    | some P, some (xx, rest2) => match ratsOf xx, takeN rest2 with
      | some xp, some (tt, []) => match ratsOf tt with
        | some xs => " ".intercalate (xs.map fun x => ratStr (fracPeriodic Rat.floor xp P x))
        | none => "bad-op"
      | _, _ => "bad-op"
    | _, _ => "bad-op"
  | "at" :: nearest :: period :: np :: rest =>
    -- period: `none` or bits
    match nearest.toNat?, optTok period, np.toNat?, takeN rest with
    | some nr, some per, some np, some (xx, rest2) => match ratsOf xx, takeN rest2 with
      | some xp, some (vv, rest3) => match optRatsOf vv, takeN rest3 with
        | some vals, some (tt, []) => match ratsOf tt with
          | some xs =>
            let slab := slabOf vals np
            " ".intercalate (xs.map fun x =>
              optList (match per with
                | none => interpAt Rat.floor (nr != 0) xp slab np x
                | some P => interpAtPeriodic Rat.floor (nr != 0) xp P slab np x))
          | none => "bad-op"
        | _, _ => "bad-op"
      | _, _ => "bad-op"
    | _, _, _, _ => "bad-op"
  | "pdata" :: period :: discont :: left :: right :: rest =>
    match optTok period, optTok discont, optTok left, optTok right, takeN rest with
    | some per, some dis, some left, some right, some (xx, rest2) => match ratsOf xx, takeN rest2 with
      | some xp, some (ff, rest3) => match optRatsOf ff, takeN rest3 with
        | some fp, some (tt, []) => match ratsOf tt with
          | some xs =>
            let fpP := match per, dis with
              | some P, some d => some (P, d)
              | some P, none => some (P, P / 2)
              | none, _ => none
            " ".intercalate (xs.map fun x => optRatStr (interpPeriodicData Rat.floor xp fp fpP left right x))
          | none => "bad-op"
        | _, _ => "bad-op"
      | _, _ => "bad-op"
    | _, _, _, _, _ => "bad-op"
  | _ => "bad-op"

end Osu.Driver.Interp
