import Driver.Cache
import Driver.Main
