import OsuProofs.RotationST4

/-! Rotation of the stresses and invariance of the total stress, the stress balance and the roughness
for the list model on a uniform direction grid (C09). -/
namespace Osu.Rot

open Real Finset Osu.ST

variable {N : ℕ} [NeZero N]

/-- `v'` is `v` rotated by `φ` degrees -/
def IsRot (φ : ℝ) (v v' : ℝ × ℝ) : Prop :=
  v'.1 = cosd φ * v.1 - sind φ * v.2 ∧ v'.2 = sind φ * v.1 + cosd φ * v.2

theorem IsRot.add {φ : ℝ} {a a' b b' : ℝ × ℝ} (ha : IsRot φ a a') (hb : IsRot φ b b') :
    IsRot φ (a.1 + b.1, a.2 + b.2) (a'.1 + b'.1, a'.2 + b'.2) := by
  obtain ⟨h1, h2⟩ := ha
  obtain ⟨h3, h4⟩ := hb
  constructor <;> simp only [h1, h2, h3, h4] <;> ring

theorem IsRot.smul {φ : ℝ} {a a' : ℝ × ℝ} (ha : IsRot φ a a') (c : ℝ) :
    IsRot φ (a.1 * c, a.2 * c) (a'.1 * c, a'.2 * c) := by
  obtain ⟨h1, h2⟩ := ha
  constructor <;> simp only [h1, h2] <;> ring

theorem IsRot.norm {φ : ℝ} {a a' : ℝ × ℝ} (ha : IsRot φ a a') :
    Real.sqrt (a'.2 * a'.2 + a'.1 * a'.1) = Real.sqrt (a.2 * a.2 + a.1 * a.1) := by
  obtain ⟨h1, h2⟩ := ha
  rw [h1, h2]
  congr 1
  nlinarith [cosd_sq_add_sind_sq φ]

/-- the unit vector of the wind direction rotates -/
theorem unit_rot (d φ : ℝ) :
    IsRot φ (Real.cos (deg2rad d), Real.sin (deg2rad d)) (Real.cos (deg2rad (d + φ)), Real.sin (deg2rad (d + φ))) := by
  have h : deg2rad (d + φ) = deg2rad d + φ * π / 180 := by rw [deg2rad_eq, deg2rad_eq]; ring
  constructor
  · simp only [h, Real.cos_add, cosd, sind]; ring
  · simp only [h, Real.sin_add, cosd, sind]; ring

/-! ### resolved stress -/

theorem cos_deg2rad (x : ℝ) : Real.cos (deg2rad x) = cosd (((1 : ℕ) : ℝ) * x) := by
  rw [deg2rad_eq, cosd]; simp
theorem sin_deg2rad (x : ℝ) : Real.sin (deg2rad x) = sind (((1 : ℕ) : ℝ) * x) := by
  rw [deg2rad_eq, sind]; simp

/-- the inner direction sum of the resolved stress -/
theorem stress_inner_bridge (θ0 inv : ℝ) (s : Fin N → ℝ) :
    lsum (List.zipWith (fun (s : ℝ) (td : ℝ × ℝ) => Transc.cos td.1 * td.2 * s * inv) (List.ofFn s)
      ((List.ofFn fun j : Fin N => deg2rad (theta θ0 j)).zip (List.ofFn fun _ : Fin N => dθ N))) = Acos 1 θ0 s * inv ∧
    lsum (List.zipWith (fun (s : ℝ) (td : ℝ × ℝ) => Transc.sin td.1 * td.2 * s * inv) (List.ofFn s)
      ((List.ofFn fun j : Fin N => deg2rad (theta θ0 j)).zip (List.ofFn fun _ : Fin N => dθ N))) = Bsin 1 θ0 s * inv := by
  constructor
  · rw [List.zip, zipWith_ofFn, zipWith_ofFn, st_lsum_ofFn, Acos, Finset.sum_mul]
    apply Finset.sum_congr rfl
    intro j _
    show Real.cos (deg2rad (theta θ0 j)) * dθ N * s j * inv = _
    rw [cos_deg2rad]; ring
  · rw [List.zip, zipWith_ofFn, zipWith_ofFn, st_lsum_ofFn, Bsin, Finset.sum_mul]
    apply Finset.sum_congr rfl
    intro j _
    show Real.sin (deg2rad (theta θ0 j)) * dθ N * s j * inv = _
    rw [sin_deg2rad]; ring

/-- sum over frequencies of per-row vectors: rotating every row's vector rotates the sum -/
theorem lsum_rows_rot {β : Type} (φ : ℝ) (a b a' b' : (Fin N → ℝ) → β → ℝ) (k : Fin N)
    (h : ∀ r m, IsRot φ (a r m, b r m) (a' (rotE k r) m, b' (rotE k r) m))
    (rows : List (Fin N → ℝ)) (M : List β) :
    IsRot φ (lsum (List.zipWith a rows M), lsum (List.zipWith b rows M))
      (lsum (List.zipWith a' (rotField k rows) M), lsum (List.zipWith b' (rotField k rows) M)) := by
  simp only [rotField]
  induction rows generalizing M with
  | nil => simp [lsum, IsRot]
  | cons r rows ih =>
    cases M with
    | nil => simp [lsum, IsRot]
    | cons m M =>
      simp only [List.map_cons, List.zipWith_cons_cons, lsum]
      exact (h r m).add (ih M)

/-- a sum over rows of a scalar functional of each row, in function form -/
theorem zipWith_field_scalar {β : Type} (G : List ℝ → β → ℝ) (F : (Fin N → ℝ) → β → ℝ)
    (h : ∀ r b, G (List.ofFn r) b = F r b) (rows : List (Fin N → ℝ)) (bs : List β) :
    List.zipWith G (fieldOf rows) bs = List.zipWith F rows bs := by
  simp only [fieldOf]
  induction rows generalizing bs with
  | nil => simp
  | cons r rows ih =>
    cases bs with
    | nil => simp
    | cons b bs => simp only [List.map_cons, List.zipWith_cons_cons, ih bs, h]

theorem resolvedStress_rot (p : GenP ℝ) (θ0 : ℝ) (om df : List ℝ) (kin : Kin ℝ) (S : List (Fin N → ℝ)) (k : Fin N) :
    IsRot ((k : ℕ) * dθ N) (resolvedStress p (uniformGrid (N := N) θ0 om df) kin (fieldOf S))
      (resolvedStress p (uniformGrid (N := N) θ0 om df) kin (fieldOf (rotField k S))) := by
  simp only [resolvedStress, uniformGrid]
  apply IsRot.smul (a := (_, _)) (a' := (_, _))
  have hc : ∀ rows : List (Fin N → ℝ), List.zipWith (fun (row : List ℝ) (kod : ℝ × ℝ × ℝ) =>
        lsum (List.zipWith (fun (s : ℝ) (td : ℝ × ℝ) => Transc.cos td.1 * td.2 * s * (kod.1 / kod.2.1 * kod.2.2)) row
          ((List.ofFn fun j : Fin N => deg2rad (theta θ0 j)).zip (List.ofFn fun _ : Fin N => dθ N))))
        (fieldOf rows) (kin.k.zip (om.zip df))
      = List.zipWith (fun (r : Fin N → ℝ) (kod : ℝ × ℝ × ℝ) => Acos 1 θ0 r * (kod.1 / kod.2.1 * kod.2.2)) rows (kin.k.zip (om.zip df)) :=
    fun rows => zipWith_field_scalar _ _ (fun r m => (stress_inner_bridge θ0 _ r).1) rows _
  have hs : ∀ rows : List (Fin N → ℝ), List.zipWith (fun (row : List ℝ) (kod : ℝ × ℝ × ℝ) =>
        lsum (List.zipWith (fun (s : ℝ) (td : ℝ × ℝ) => Transc.sin td.1 * td.2 * s * (kod.1 / kod.2.1 * kod.2.2)) row
          ((List.ofFn fun j : Fin N => deg2rad (theta θ0 j)).zip (List.ofFn fun _ : Fin N => dθ N))))
        (fieldOf rows) (kin.k.zip (om.zip df))
      = List.zipWith (fun (r : Fin N → ℝ) (kod : ℝ × ℝ × ℝ) => Bsin 1 θ0 r * (kod.1 / kod.2.1 * kod.2.2)) rows (kin.k.zip (om.zip df)) :=
    fun rows => zipWith_field_scalar _ _ (fun r m => (stress_inner_bridge θ0 _ r).2) rows _
  rw [hc, hc, hs, hs]
  apply lsum_rows_rot
  intro r m
  have h := stress_rot θ0 k r
  simp only [stressEast, stressNorth] at h
  constructor
  · show Acos 1 θ0 (rotE k r) * _ = _
    rw [h.1]; ring
  · show Bsin 1 θ0 (rotE k r) * _ = _
    rw [h.2]; ring


/-! ### the WAM tail stress -/

/-- downwind weight of the last frequency row in the tail stress -/
noncomputable def tailWeight (θ0 wd : ℝ) (r : Fin N → ℝ) : Fin N → ℝ :=
  fun j => (if Real.cos (deg2rad (theta θ0 j) - deg2rad wd) ≤ 0 then 0
    else Real.cos (deg2rad (theta θ0 j) - deg2rad wd) * Real.cos (deg2rad (theta θ0 j) - deg2rad wd)) * r j

theorem cos_sep_rot (θ0 wd : ℝ) (j k : Fin N) :
    Real.cos (deg2rad (theta θ0 j) - deg2rad (wd + (k : ℕ) * dθ N)) = Real.cos (deg2rad (theta θ0 (j - k)) - deg2rad wd) := by
  have h := cosWind_rot θ0 wd j k
  simpa only [cosWind, cos_wrapPi] using h

theorem tailWeight_rot (θ0 wd : ℝ) (r : Fin N → ℝ) (k : Fin N) :
    tailWeight θ0 (wd + (k : ℕ) * dθ N) (rotE k r) = rotE k (tailWeight θ0 wd r) := by
  funext j
  simp only [tailWeight, rotE, cos_sep_rot]

/-- the direction sums of the tail stress, as the model writes them -/
noncomputable def tailDir (θ0 wr : ℝ) (trig : ℝ → ℝ) (last : List ℝ) : ℝ :=
  lsum (List.zipWith (fun (e : ℝ) (td : ℝ × ℝ) =>
      let cm := Transc.cos (td.1 - wr)
      if cm ≤ 0 then 0 else cm * cm * trig td.1 * e * td.2) last
    ((List.ofFn fun j : Fin N => deg2rad (theta θ0 j)).zip (List.ofFn fun _ : Fin N => dθ N)))

theorem tailDir_bridge (θ0 wd : ℝ) (r : Fin N → ℝ) :
    tailDir (N := N) θ0 (deg2rad wd) Transc.cos (List.ofFn r) = Acos 1 θ0 (tailWeight θ0 wd r) ∧
    tailDir (N := N) θ0 (deg2rad wd) Transc.sin (List.ofFn r) = Bsin 1 θ0 (tailWeight θ0 wd r) := by
  constructor
  · rw [tailDir, List.zip, zipWith_ofFn, zipWith_ofFn, st_lsum_ofFn, Acos]
    apply Finset.sum_congr rfl
    intro j _
    simp only [tailWeight]
    show (if Real.cos (deg2rad (theta θ0 j) - deg2rad wd) ≤ 0 then (0 : ℝ)
      else Real.cos (deg2rad (theta θ0 j) - deg2rad wd) * Real.cos (deg2rad (theta θ0 j) - deg2rad wd)
        * Real.cos (deg2rad (theta θ0 j)) * r j * dθ N) = _
    rw [cos_deg2rad]
    split <;> ring
  · rw [tailDir, List.zip, zipWith_ofFn, zipWith_ofFn, st_lsum_ofFn, Bsin]
    apply Finset.sum_congr rfl
    intro j _
    simp only [tailWeight]
    show (if Real.cos (deg2rad (theta θ0 j) - deg2rad wd) ≤ 0 then (0 : ℝ)
      else Real.cos (deg2rad (theta θ0 j) - deg2rad wd) * Real.cos (deg2rad (theta θ0 j) - deg2rad wd)
        * Real.sin (deg2rad (theta θ0 j)) * r j * dθ N) = _
    rw [sin_deg2rad]
    split <;> ring

theorem getLastD_field (rows : List (Fin N → ℝ)) :
    (fieldOf rows).getLastD [] = (rows.getLast?.map List.ofFn).getD [] := by
  simp only [fieldOf, List.getLastD_eq_getLast?, List.getLast?_map]

theorem tailDir_rot (θ0 wd : ℝ) (rows : List (Fin N → ℝ)) (k : Fin N) :
    IsRot ((k : ℕ) * dθ N)
      (tailDir (N := N) θ0 (deg2rad wd) Transc.cos ((fieldOf rows).getLastD []),
       tailDir (N := N) θ0 (deg2rad wd) Transc.sin ((fieldOf rows).getLastD []))
      (tailDir (N := N) θ0 (deg2rad (wd + (k : ℕ) * dθ N)) Transc.cos ((fieldOf (rotField k rows)).getLastD []),
       tailDir (N := N) θ0 (deg2rad (wd + (k : ℕ) * dθ N)) Transc.sin ((fieldOf (rotField k rows)).getLastD [])) := by
  rw [getLastD_field, getLastD_field]
  simp only [rotField, List.getLast?_map]
  cases rows.getLast? with
  | none => simp [tailDir, lsum, IsRot]
  | some r =>
    simp only [Option.map_some, Option.getD_some]
    rw [(tailDir_bridge θ0 wd r).1, (tailDir_bridge θ0 wd r).2, (tailDir_bridge θ0 _ (rotE k r)).1,
      (tailDir_bridge θ0 _ (rotE k r)).2, tailWeight_rot]
    have h := stress_rot θ0 k (tailWeight θ0 wd r)
    simp only [stressEast, stressNorth] at h
    exact h

/-- related optional vectors: both absent, or both present and rotated -/
def OptRot (φ : ℝ) : Option (ℝ × ℝ) → Option (ℝ × ℝ) → Prop
  | none, none => True
  | some a, some b => IsRot φ a b
  | _, _ => False

/-- the wind turned by `k` bins -/
noncomputable def turnWind (k : Fin N) (w : Wind ℝ) : Wind ℝ := { w with dirDeg := w.dirDeg + (k : ℕ) * dθ N }

theorem wamTail_rot (p : GenP ℝ) (θ0 : ℝ) (om df : List ℝ) (rows : List (Fin N → ℝ)) (w : Wind ℝ) (z0 : ℝ) (k : Fin N) :
    OptRot ((k : ℕ) * dθ N) (wamTail p (uniformGrid (N := N) θ0 om df) (fieldOf rows) w z0)
      (wamTail p (uniformGrid (N := N) θ0 om df) (fieldOf (rotField k rows)) (turnWind k w) z0) := by
  have hu : frictionVelocity p (turnWind k w) z0 = frictionVelocity p w z0 := rfl
  simp only [wamTail, hu, uniformGrid]
  cases wamTailIntegral p (frictionVelocity p w z0 * om.getLastD 0 / p.g)
      (z0 * p.g / (frictionVelocity p w z0 * frictionVelocity p w z0)) with
  | none => trivial
  | some fi =>
    simp only [OptRot]
    have hd := tailDir_rot θ0 w.dirDeg rows k
    have hw := unit_rot w.dirDeg ((k : ℕ) * dθ N)
    have h1 := ((hd.smul fi).smul (npow (om.getLastD 0) 5 / (twoPi * (p.g * p.g)) * (frictionVelocity p w z0 * frictionVelocity p w z0) * p.betamax / (p.kappa * p.kappa))).smul p.rhoAir
    have h2 := hw.smul (charnockPoint p (frictionVelocity p w z0) * charnockPoint p (frictionVelocity p w z0) / (z0 * z0) * (p.rhoAir * (frictionVelocity p w z0 * frictionVelocity p w z0)))
    exact h1.add h2


/-! ### total stress, stress balance, roughness -/

theorem st4Input_turn (p : GenP ℝ) (θ0 : ℝ) (om df : List ℝ) (kin : Kin ℝ) (rows : List (Fin N → ℝ))
    (w : Wind ℝ) (z0 : ℝ) (k : Fin N) :
    ∃ S : List (Fin N → ℝ),
      st4Input rfloor p (uniformGrid (N := N) θ0 om df) kin (fieldOf rows) w z0 = fieldOf S ∧
      st4Input rfloor p (uniformGrid (N := N) θ0 om df) kin (fieldOf (rotField k rows)) (turnWind k w) z0
        = fieldOf (rotField k S) :=
  ⟨_, st4Input_field p θ0 om df kin rows w z0, st4Input_field_rot p θ0 om df kin rows w z0 k⟩

/-- **the magnitude of the total stress does not change under a joint rotation** -/
theorem totalStress_magnitude_rot (p : GenP ℝ) (θ0 : ℝ) (om df : List ℝ) (kin : Kin ℝ) (rows : List (Fin N → ℝ))
    (w : Wind ℝ) (z0 : ℝ) (k : Fin N) :
    (totalStress rfloor p (uniformGrid (N := N) θ0 om df) kin (fieldOf (rotField k rows)) (turnWind k w) z0).map Prod.fst
      = (totalStress rfloor p (uniformGrid (N := N) θ0 om df) kin (fieldOf rows) w z0).map Prod.fst := by
  have hu : frictionVelocity p (turnWind k w) z0 = frictionVelocity p w z0 := rfl
  obtain ⟨S, hS, hS'⟩ := st4Input_turn p θ0 om df kin rows w z0 k
  have hr := resolvedStress_rot p θ0 om df kin S k
  have ht := wamTail_rot p θ0 om df rows w z0 k
  simp only [totalStress, hu, hS, hS']
  split
  · rfl
  · revert ht
    cases wamTail p (uniformGrid (N := N) θ0 om df) (fieldOf rows) w z0 with
    | none =>
      cases wamTail p (uniformGrid (N := N) θ0 om df) (fieldOf (rotField k rows)) (turnWind k w) z0 with
      | none => intro _; rfl
      | some t' => intro h; exact absurd h (by simp [OptRot])
    | some t =>
      cases wamTail p (uniformGrid (N := N) θ0 om df) (fieldOf (rotField k rows)) (turnWind k w) z0 with
      | none => intro h; exact absurd h (by simp [OptRot])
      | some t' =>
        intro h
        simp only [OptRot] at h
        have hw := (unit_rot w.dirDeg ((k : ℕ) * dθ N)).smul
          (p.viscous * p.rhoAir * frictionVelocity p w z0 * p.nuAir / p.kappa / z0)
        have hall := (hr.add h).add hw
        have hn := hall.norm
        simp only [Option.map_some, Option.some.injEq]
        dsimp only at hn
        simp only [turnWind, Transc.sin, Transc.cos, Transc.sqrt]
        refine Eq.trans ?_ (Eq.trans hn ?_) <;> (congr 1; ring)


/-- the total stress as a vector (east, north): resolved + tail + viscous; `none` where the tail fails -/
noncomputable def totalStressVec (p : GenP ℝ) (g : Grid ℝ) (kin : Kin ℝ) (E : List (List ℝ)) (w : Wind ℝ) (z0 : ℝ) : Option (ℝ × ℝ) :=
  let ustar := frictionVelocity p w z0
  let r := resolvedStress p g kin (st4Input rfloor p g kin E w z0)
  match wamTail p g E w z0 with
  | none => none
  | some t =>
    let visc := p.viscous * p.rhoAir * ustar * p.nuAir / p.kappa / z0
    some (r.1 + t.1 + visc * Transc.cos (deg2rad w.dirDeg), r.2 + t.2 + visc * Transc.sin (deg2rad w.dirDeg))

/-- the model's `totalStress` reports the magnitude and the direction of that vector -/
theorem totalStress_of_vec (p : GenP ℝ) (g : Grid ℝ) (kin : Kin ℝ) (E : List (List ℝ)) (w : Wind ℝ) (z0 : ℝ)
    (hu : (frictionVelocity p w z0 == 0) = false) :
    totalStress rfloor p g kin E w z0 = (totalStressVec p g kin E w z0).map fun v =>
      (Transc.sqrt (v.2 * v.2 + v.1 * v.1), some (mod360 rfloor (Transc.atan2 v.2 v.1 * ((180 : ℕ) : ℝ) / Transc.pi))) := by
  simp only [totalStress, totalStressVec, hu]
  cases wamTail p g E w z0 with
  | none => rfl
  | some t => rfl

/-- **the total stress vector rotates with the sea and the wind** (and fails for the rotated input
exactly when it fails for the original) -/
theorem totalStressVec_rot (p : GenP ℝ) (θ0 : ℝ) (om df : List ℝ) (kin : Kin ℝ) (rows : List (Fin N → ℝ))
    (w : Wind ℝ) (z0 : ℝ) (k : Fin N) :
    OptRot ((k : ℕ) * dθ N) (totalStressVec p (uniformGrid (N := N) θ0 om df) kin (fieldOf rows) w z0)
      (totalStressVec p (uniformGrid (N := N) θ0 om df) kin (fieldOf (rotField k rows)) (turnWind k w) z0) := by
  have hu : frictionVelocity p (turnWind k w) z0 = frictionVelocity p w z0 := rfl
  obtain ⟨S, hS, hS'⟩ := st4Input_turn p θ0 om df kin rows w z0 k
  have hr := resolvedStress_rot p θ0 om df kin S k
  have ht := wamTail_rot p θ0 om df rows w z0 k
  simp only [totalStressVec, hu, hS, hS']
  revert ht
  cases wamTail p (uniformGrid (N := N) θ0 om df) (fieldOf rows) w z0 with
  | none =>
    cases wamTail p (uniformGrid (N := N) θ0 om df) (fieldOf (rotField k rows)) (turnWind k w) z0 with
    | none => intro _; trivial
    | some t' => intro h; exact absurd h (by simp [OptRot])
  | some t =>
    cases wamTail p (uniformGrid (N := N) θ0 om df) (fieldOf (rotField k rows)) (turnWind k w) z0 with
    | none => intro h; exact absurd h (by simp [OptRot])
    | some t' =>
      intro h
      simp only [OptRot] at h ⊢
      have hw := (unit_rot w.dirDeg ((k : ℕ) * dθ N)).smul
        (p.viscous * p.rhoAir * frictionVelocity p w z0 * p.nuAir / p.kappa / z0)
      have hall := (hr.add h).add hw
      obtain ⟨h1, h2⟩ := hall
      dsimp only at h1 h2
      constructor
      · simp only [turnWind, Transc.sin, Transc.cos]
        linear_combination h1
      · simp only [turnWind, Transc.sin, Transc.cos]
        linear_combination h2

theorem stressBalance_eq_map (p : GenP ℝ) (g : Grid ℝ) (kin : Kin ℝ) (E : List (List ℝ)) (w : Wind ℝ) (lz : ℝ) :
    stressBalance rfloor p g kin E w lz
      = ((totalStress rfloor p g kin E w (Transc.exp lz)).map Prod.fst).map
          (fun mag => p.rhoAir * (frictionVelocity p w (Transc.exp lz) * frictionVelocity p w (Transc.exp lz)) - mag) := by
  simp only [stressBalance]
  cases totalStress rfloor p g kin E w (Transc.exp lz) with
  | none => rfl
  | some r => rfl

/-- **the stress balance whose root is the roughness is the same function after a joint rotation** -/
theorem stressBalance_rot (p : GenP ℝ) (θ0 : ℝ) (om df : List ℝ) (kin : Kin ℝ) (rows : List (Fin N → ℝ))
    (w : Wind ℝ) (k : Fin N) (lz : ℝ) :
    stressBalance rfloor p (uniformGrid (N := N) θ0 om df) kin (fieldOf (rotField k rows)) (turnWind k w) lz
      = stressBalance rfloor p (uniformGrid (N := N) θ0 om df) kin (fieldOf rows) w lz := by
  rw [stressBalance_eq_map, stressBalance_eq_map, totalStress_magnitude_rot]
  rfl

/-- **the roughness length is invariant under a joint rotation**: with any way `tot` of passing a
failed evaluation of the balance to the solver, the solver sees the same function, the same first
guess (which does not use the direction) and so returns the same roughness or fails the same way -/
theorem roughness_rot (tot : Option ℝ → ℝ) (p : GenP ℝ) (θ0 : ℝ) (om df : List ℝ) (kin : Kin ℝ)
    (rows : List (Fin N → ℝ)) (w : Wind ℝ) (guess : ℝ) (k : Fin N) :
    roughness (fun lz => tot (stressBalance rfloor p (uniformGrid (N := N) θ0 om df) kin (fieldOf (rotField k rows)) (turnWind k w) lz))
        p (turnWind k w) guess
      = roughness (fun lz => tot (stressBalance rfloor p (uniformGrid (N := N) θ0 om df) kin (fieldOf rows) w lz)) p w guess := by
  have hg : roughnessGuess p (turnWind k w) guess = roughnessGuess p w guess := rfl
  simp only [roughness, hg, stressBalance_rot]


/-! ### bulk rates -/

theorem bulk_rot (θ0 : ℝ) (om df : List ℝ) (D : List (Fin N → ℝ)) (k : Fin N) :
    bulk (uniformGrid (N := N) θ0 om df) (fieldOf (rotField k D)) = bulk (uniformGrid (N := N) θ0 om df) (fieldOf D) := by
  have h : ∀ rows : List (Fin N → ℝ),
      List.zipWith (fun (row : List ℝ) (f : ℝ) => lsum (List.zipWith (fun v dth => v * f * dth) row (List.ofFn fun _ : Fin N => dθ N)))
        (fieldOf rows) df = List.zipWith (fun (r : Fin N → ℝ) (f : ℝ) => ∑ j, r j * f * dθ N) rows df := by
    intro rows
    apply zipWith_field_scalar
    intro r f
    rw [zipWith_ofFn, st_lsum_ofFn]
  simp only [bulk, uniformGrid, h]
  congr 1
  simp only [rotField]
  generalize df = F
  induction D generalizing F with
  | nil => simp
  | cons r D ih =>
    cases F with
    | nil => simp
    | cons f F =>
      simp only [List.map_cons, List.zipWith_cons_cons, ih F]
      congr 1
      exact Fintype.sum_equiv (Equiv.subRight k) _ _ (fun j => by simp [rotE])


/-! ### the wind-speed inversion -/

theorem zipWith2_field_scalar {β : Type} (G : List ℝ × List ℝ → β → ℝ) (F : (Fin N → ℝ) × (Fin N → ℝ) → β → ℝ)
    (h : ∀ r1 r2 b, G (List.ofFn r1, List.ofFn r2) b = F (r1, r2) b) (R1 R2 : List (Fin N → ℝ)) (bs : List β) :
    List.zipWith G ((fieldOf R1).zip (fieldOf R2)) bs = List.zipWith F (R1.zip R2) bs := by
  simp only [fieldOf]
  induction R1 generalizing R2 bs with
  | nil => simp
  | cons r R1 ih =>
    cases R2 with
    | nil => simp
    | cons r2 R2 =>
      cases bs with
      | nil => simp
      | cons b bs => simp only [List.map_cons, List.zip_cons_cons, List.zipWith_cons_cons, ih R2 bs, h]

theorem activeRegion_rot (θ0 : ℝ) (om df : List ℝ) (D G : List (Fin N → ℝ)) (k : Fin N) :
    activeRegionDerivative (uniformGrid (N := N) θ0 om df) (fieldOf (rotField k D)) (fieldOf (rotField k G))
      = activeRegionDerivative (uniformGrid (N := N) θ0 om df) (fieldOf D) (fieldOf G) := by
  have h : ∀ A B : List (Fin N → ℝ),
      List.zipWith (fun (rows : List ℝ × List ℝ) (f : ℝ) =>
          lsum (List.zipWith (fun (dg : ℝ × ℝ) (dth : ℝ) => if 0 < dg.2 then dg.1 * dth * f else 0)
            (rows.1.zip rows.2) (List.ofFn fun _ : Fin N => dθ N)))
        ((fieldOf A).zip (fieldOf B)) df
      = List.zipWith (fun (r : (Fin N → ℝ) × (Fin N → ℝ)) (f : ℝ) => ∑ j, if 0 < r.2 j then r.1 j * dθ N * f else 0) (A.zip B) df := by
    intro A B
    apply zipWith2_field_scalar
    intro r1 r2 f
    rw [List.zip, zipWith_ofFn, zipWith_ofFn, st_lsum_ofFn]
  simp only [activeRegionDerivative, uniformGrid, h]
  congr 1
  simp only [rotField]
  generalize df = F
  induction D generalizing G F with
  | nil => simp
  | cons r D ih =>
    cases G with
    | nil => simp
    | cons r2 G =>
      cases F with
      | nil => simp
      | cons f F =>
        simp only [List.map_cons, List.zip_cons_cons, List.zipWith_cons_cons, ih G F]
        congr 1
        exact Fintype.sum_equiv (Equiv.subRight k) _ _ (fun j => by simp only [rotE, Equiv.subRight_apply]; rfl)

theorem balanceTotal_rot (nan : ℝ) (p : GenP ℝ) (θ0 : ℝ) (om df : List ℝ) (kin : Kin ℝ) (rows : List (Fin N → ℝ))
    (w : Wind ℝ) (k : Fin N) :
    balanceTotal nan rfloor p (uniformGrid (N := N) θ0 om df) kin (fieldOf (rotField k rows)) (turnWind k w)
      = balanceTotal nan rfloor p (uniformGrid (N := N) θ0 om df) kin (fieldOf rows) w := by
  funext lz
  simp only [balanceTotal, stressBalance_rot]

theorem roughnessOf_rot (nan : ℝ) (p : GenP ℝ) (θ0 : ℝ) (om df : List ℝ) (kin : Kin ℝ) (rows : List (Fin N → ℝ))
    (w : Wind ℝ) (guess : ℝ) (k : Fin N) :
    roughnessOf nan rfloor p (uniformGrid (N := N) θ0 om df) kin (fieldOf (rotField k rows)) (turnWind k w) guess
      = roughnessOf nan rfloor p (uniformGrid (N := N) θ0 om df) kin (fieldOf rows) w guess := by
  have hg : roughnessGuess p (turnWind k w) guess = roughnessGuess p w guess := rfl
  have hs : (turnWind k w).speed = w.speed := rfl
  simp only [roughnessOf, roughness, balanceTotal_rot, hg, hs]

/-- **the balance function of the wind inversion is unchanged by a joint rotation** of the spectrum,
the supplied rate of change and the wind direction -/
theorem u10Balance_rot (nan : ℝ) (p : GenP ℝ) (θ0 : ℝ) (om df : List ℝ) (kin : Kin ℝ) (rows dEdt : List (Fin N → ℝ))
    (dir target : ℝ) (k : Fin N) :
    u10Balance nan rfloor p (uniformGrid (N := N) θ0 om df) kin (fieldOf (rotField k rows)) (dir + (k : ℕ) * dθ N) target
        (fieldOf (rotField k dEdt))
      = u10Balance nan rfloor p (uniformGrid (N := N) θ0 om df) kin (fieldOf rows) dir target (fieldOf dEdt) := by
  funext u
  simp only [u10Balance]
  split
  · rfl
  · have hw : ({ speed := u, dirDeg := dir + (k : ℕ) * dθ N, isU10 := true } : Wind ℝ)
        = turnWind k { speed := u, dirDeg := dir, isU10 := true } := rfl
    rw [hw, roughnessOf_rot]
    cases roughnessOf nan rfloor p (uniformGrid (N := N) θ0 om df) kin (fieldOf rows) { speed := u, dirDeg := dir, isU10 := true } (-1) with
    | none => rfl
    | some z0 =>
      obtain ⟨S, hS, hS'⟩ := st4Input_turn p θ0 om df kin rows { speed := u, dirDeg := dir, isU10 := true } z0 k
      simp only [hS, hS', bulk_rot, activeRegion_rot]

/-- hence the estimated wind speed is unchanged and the reported direction moves with the guess -/
theorem u10Estimate_rot (nan : ℝ) (p : GenP ℝ) (θ0 : ℝ) (om df : List ℝ) (kin : Kin ℝ) (rows dEdt : List (Fin N → ℝ))
    (dir target bulkRate guess : ℝ) (k : Fin N) :
    u10FromBulkRate (u10Balance nan rfloor p (uniformGrid (N := N) θ0 om df) kin (fieldOf (rotField k rows))
        (dir + (k : ℕ) * dθ N) target (fieldOf (rotField k dEdt))) bulkRate guess (dir + (k : ℕ) * dθ N)
      = ((u10FromBulkRate (u10Balance nan rfloor p (uniformGrid (N := N) θ0 om df) kin (fieldOf rows) dir target (fieldOf dEdt))
          bulkRate guess dir).1, dir + (k : ℕ) * dθ N) := by
  rw [u10Balance_rot]
  simp only [u10FromBulkRate]
  split <;> rfl


/-! ### dissipation-weighted direction -/

theorem IsRot.neg {φ : ℝ} {a a' : ℝ × ℝ} (ha : IsRot φ a a') : IsRot φ (-a.1, -a.2) (-a'.1, -a'.2) := by
  obtain ⟨h1, h2⟩ := ha
  constructor <;> simp only [h1, h2] <;> ring

theorem diss_inner_bridge (θ0 kk f : ℝ) (d : Fin N → ℝ) :
    lsum (List.zipWith (fun (d : ℝ) (td : ℝ × ℝ) => kk * Transc.cos td.1 * d * f * td.2) (List.ofFn d)
      ((List.ofFn fun j : Fin N => deg2rad (theta θ0 j)).zip (List.ofFn fun _ : Fin N => dθ N))) = Acos 1 θ0 d * (kk * f) ∧
    lsum (List.zipWith (fun (d : ℝ) (td : ℝ × ℝ) => kk * Transc.sin td.1 * d * f * td.2) (List.ofFn d)
      ((List.ofFn fun j : Fin N => deg2rad (theta θ0 j)).zip (List.ofFn fun _ : Fin N => dθ N))) = Bsin 1 θ0 d * (kk * f) := by
  constructor
  · rw [List.zip, zipWith_ofFn, zipWith_ofFn, st_lsum_ofFn, Acos, Finset.sum_mul]
    apply Finset.sum_congr rfl
    intro j _
    show kk * Real.cos (deg2rad (theta θ0 j)) * d j * f * dθ N = _
    rw [cos_deg2rad]; ring
  · rw [List.zip, zipWith_ofFn, zipWith_ofFn, st_lsum_ofFn, Bsin, Finset.sum_mul]
    apply Finset.sum_congr rfl
    intro j _
    show kk * Real.sin (deg2rad (theta θ0 j)) * d j * f * dθ N = _
    rw [sin_deg2rad]; ring

/-- the dissipation-weighted wavenumber vector rotates with the field -/
theorem dissipationVector_rot (θ0 : ℝ) (om df : List ℝ) (kin : Kin ℝ) (D : List (Fin N → ℝ)) (k : Fin N) :
    IsRot ((k : ℕ) * dθ N) (dissipationVector (uniformGrid (N := N) θ0 om df) kin (fieldOf D))
      (dissipationVector (uniformGrid (N := N) θ0 om df) kin (fieldOf (rotField k D))) := by
  simp only [dissipationVector, uniformGrid]
  apply IsRot.neg (a := (_, _)) (a' := (_, _))
  have hc : ∀ rows : List (Fin N → ℝ), List.zipWith (fun (row : List ℝ) (kd : ℝ × ℝ) =>
        lsum (List.zipWith (fun (d : ℝ) (td : ℝ × ℝ) => kd.1 * Transc.cos td.1 * d * kd.2 * td.2) row
          ((List.ofFn fun j : Fin N => deg2rad (theta θ0 j)).zip (List.ofFn fun _ : Fin N => dθ N))))
        (fieldOf rows) (kin.k.zip df)
      = List.zipWith (fun (r : Fin N → ℝ) (kd : ℝ × ℝ) => Acos 1 θ0 r * (kd.1 * kd.2)) rows (kin.k.zip df) :=
    fun rows => zipWith_field_scalar _ _ (fun r m => (diss_inner_bridge θ0 _ _ r).1) rows _
  have hs : ∀ rows : List (Fin N → ℝ), List.zipWith (fun (row : List ℝ) (kd : ℝ × ℝ) =>
        lsum (List.zipWith (fun (d : ℝ) (td : ℝ × ℝ) => kd.1 * Transc.sin td.1 * d * kd.2 * td.2) row
          ((List.ofFn fun j : Fin N => deg2rad (theta θ0 j)).zip (List.ofFn fun _ : Fin N => dθ N))))
        (fieldOf rows) (kin.k.zip df)
      = List.zipWith (fun (r : Fin N → ℝ) (kd : ℝ × ℝ) => Bsin 1 θ0 r * (kd.1 * kd.2)) rows (kin.k.zip df) :=
    fun rows => zipWith_field_scalar _ _ (fun r m => (diss_inner_bridge θ0 _ _ r).2) rows _
  rw [hc, hc, hs, hs]
  apply lsum_rows_rot
  intro r m
  have h := stress_rot θ0 k r
  simp only [stressEast, stressNorth] at h
  constructor
  · show Acos 1 θ0 (rotE k r) * _ = _
    rw [h.1]; ring
  · show Bsin 1 θ0 (rotE k r) * _ = _
    rw [h.2]; ring

/-- the direction of a rotated vector, as an angle modulo a full turn -/
theorem IsRot.dirAngle {φ : ℝ} {a a' : ℝ × ℝ} (ha : IsRot φ a a') (h : a.1 ≠ 0 ∨ a.2 ≠ 0) :
    dirAngle a'.1 a'.2 = dirAngle a.1 a.2 + ((φ * π / 180 : ℝ) : Real.Angle) := by
  obtain ⟨h1, h2⟩ := ha
  rw [h1, h2]
  exact dirAngle_rot a.1 a.2 (φ * π / 180) h

end Osu.Rot
