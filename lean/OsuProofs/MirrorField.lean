import OsuProofs.RotationStress

/-! Mirror image (direction axis and wind direction negated) of the whole fields, the stresses, the
roughness and the wind inversion for the list model on a uniform direction grid starting at 0 (C09).
Parallel to `RotationField`, `RotationST4`, `RotationStress`. -/
namespace Osu.Rot

open Real Finset Osu.ST

variable {N : ℕ} [NeZero N]

/-- the spectrum with its direction axis mirrored -/
def mirField (rows : List (Fin N → ℝ)) : List (Fin N → ℝ) := rows.map mirE

/-- the wind with its direction negated -/
def flipWind (w : Wind ℝ) : Wind ℝ := { w with dirDeg := -w.dirDeg }

theorem zipWith_mirField {β : Type} (F F' : (Fin N → ℝ) → β → (Fin N → ℝ))
    (h : ∀ r b, F' (mirE r) b = mirE (F r b)) (rows : List (Fin N → ℝ)) (bs : List β) :
    List.zipWith F' (mirField rows) bs = mirField (List.zipWith F rows bs) := by
  simp only [mirField]
  induction rows generalizing bs with
  | nil => simp
  | cons r rows ih =>
    cases bs with
    | nil => simp
    | cons b bs => simp only [List.map_cons, List.zipWith_cons_cons, ih bs, h]

theorem zipWith2_mirField {β : Type} (F F' : (Fin N → ℝ) × (Fin N → ℝ) → β → (Fin N → ℝ))
    (h : ∀ r1 r2 b, F' (mirE r1, mirE r2) b = mirE (F (r1, r2) b))
    (R1 R2 : List (Fin N → ℝ)) (bs : List β) :
    List.zipWith F' ((mirField R1).zip (mirField R2)) bs = mirField (List.zipWith F (R1.zip R2) bs) := by
  simp only [mirField]
  induction R1 generalizing R2 bs with
  | nil => simp
  | cons r R1 ih =>
    cases R2 with
    | nil => simp
    | cons r2 R2 =>
      cases bs with
      | nil => simp
      | cons b bs => simp only [List.map_cons, List.zip_cons_cons, List.zipWith_cons_cons, ih R2 bs, h]

theorem sum_mir (x : Fin N → ℝ) : ∑ j, mirE x j = ∑ j, x j :=
  Fintype.sum_equiv (Equiv.neg (Fin N)) _ _ (fun j => by simp [mirE])

/-! ### wind input, ST6 -/

theorem st4Input_field_mir (p : GenP ℝ) (om df : List ℝ) (kin : Kin ℝ) (rows : List (Fin N → ℝ)) (w : Wind ℝ) (z0 : ℝ) :
    st4Input rfloor p (uniformGrid (N := N) 0 om df) kin (fieldOf (mirField rows)) (flipWind w) z0
      = fieldOf (mirField
          ((List.zipWith (fun (r : Fin N → ℝ) (ko : ℝ × ℝ) =>
              inputRow p ko.1 ko.2 (frictionVelocity p w z0) z0 0 w.dirDeg r) rows (kin.k.zip om)))) := by
  have hu : frictionVelocity p (flipWind w) z0 = frictionVelocity p w z0 := rfl
  rw [st4Input_field, hu]
  congr 1
  apply zipWith_mirField
  intro r ko
  exact inputRow_mirror p ko.1 ko.2 _ z0 w.dirDeg r

theorem dirIntegrate_mir (om df : List ℝ) (rows : List (Fin N → ℝ)) :
    dirIntegrate (uniformGrid (N := N) 0 om df) (fieldOf (mirField rows))
      = dirIntegrate (uniformGrid (N := N) 0 om df) (fieldOf rows) := by
  simp only [dirIntegrate, fieldOf, mirField, uniformGrid, List.map_map]
  apply List.map_congr_left
  intro r _
  simp only [Function.comp]
  rw [zipWith_ofFn, zipWith_ofFn, st_lsum_ofFn, st_lsum_ofFn, ← Finset.sum_mul, ← Finset.sum_mul, sum_mir]

theorem st6_field_mir (sp : St6P ℝ) (om df : List ℝ) (kin : Kin ℝ) (rows : List (Fin N → ℝ)) :
    ∃ D : List (Fin N → ℝ),
      st6Dissipation sp (uniformGrid (N := N) 0 om df) kin (fieldOf rows) = fieldOf D ∧
      st6Dissipation sp (uniformGrid (N := N) 0 om df) kin (fieldOf (mirField rows)) = fieldOf (mirField D) := by
  refine ⟨List.zipWith (fun (r : Fin N → ℝ) (c : ℝ × ℝ × ℝ) => fun j => st6Entry sp c.1 c.2.1 c.2.2 (r j)) rows
    ((st6Exceedance sp (uniformGrid (N := N) 0 om df) kin (fieldOf rows)).zip
      ((runSums 0 (List.zipWith (· * ·) (st6Exceedance sp (uniformGrid (N := N) 0 om df) kin (fieldOf rows)) df)).zip om)), ?_, ?_⟩
  · simp only [st6Dissipation, uniformGrid]
    apply zipWith_field
    intro r c
    rw [List.map_ofFn]; rfl
  · have hex : st6Exceedance sp (uniformGrid (N := N) 0 om df) kin (fieldOf (mirField rows))
        = st6Exceedance sp (uniformGrid (N := N) 0 om df) kin (fieldOf rows) := by
      simp only [st6Exceedance, dirIntegrate_mir]
    simp only [st6Dissipation, hex]
    simp only [uniformGrid]
    rw [zipWith_field (F := fun (r : Fin N → ℝ) (c : ℝ × ℝ × ℝ) => fun j => st6Entry sp c.1 c.2.1 c.2.2 (r j))]
    · congr 1
      apply zipWith_mirField
      intro r c
      rfl
    · intro r c
      rw [List.map_ofFn]; rfl

/-! ### ST4 dissipation -/

theorem lmax_mir (b : Fin N → ℝ) : lmax (List.ofFn (mirE b)) = lmax (List.ofFn b) := by
  obtain ⟨m1, l1⟩ := lmax_spec _ (ofFn_ne_nil (mirE b))
  obtain ⟨m2, l2⟩ := lmax_spec _ (ofFn_ne_nil b)
  apply le_antisymm
  · apply l2
    obtain ⟨i, hi⟩ := (List.mem_ofFn' _ _).mp m1
    exact (List.mem_ofFn' _ _).mpr ⟨-i, hi⟩
  · apply l1
    obtain ⟨i, hi⟩ := (List.mem_ofFn' _ _).mp m2
    exact (List.mem_ofFn' _ _).mpr ⟨-i, by simpa [mirE] using hi⟩

theorem bandRows_mir (bp : BrkP ℝ) (kin : Kin ℝ) (rows : List (Fin N → ℝ)) :
    bandRows bp 0 kin (mirField rows) = mirField (bandRows bp 0 kin rows) := by
  simp only [bandRows]
  apply zipWith_mirField
  intro r ck
  have : satOf (mirE r) ck = mirE (satOf r ck) := rfl
  rw [this, bandRow_mirror]

theorem satRows_mir (bp : BrkP ℝ) (om : List ℝ) (rows B : List (Fin N → ℝ)) :
    satRows bp om (mirField rows) (mirField B) = mirField (satRows bp om rows B) := by
  simp only [satRows]
  split
  · simp only [mirField, List.map_map]
    apply List.map_congr_left
    intro r _
    rfl
  · apply zipWith2_mirField
    intro r1 r2 w
    funext j
    simp only [isoExceedance, lmax_mir]
    rfl

theorem excessRows_mir (bp : BrkP ℝ) (B : List (Fin N → ℝ)) :
    excessRows bp (mirField B) = mirField (excessRows bp B) := by
  simp only [excessRows, mirField, List.map_map]
  apply List.map_congr_left
  intro b _
  rfl

theorem theta_neg_trig (j : Fin N) :
    Real.cos (deg2rad (theta (N := N) 0 (-j))) = Real.cos (deg2rad (theta (N := N) 0 j)) ∧
    Real.sin (deg2rad (theta (N := N) 0 (-j))) = -Real.sin (deg2rad (theta (N := N) 0 j)) := by
  obtain ⟨q, hq⟩ := theta_neg (N := N) j
  have h : deg2rad (theta (N := N) 0 (-j)) = -(deg2rad (theta (N := N) 0 j)) + (q : ℕ) * (2 * π) := by
    rw [hq, deg2rad_eq, deg2rad_eq]; ring
  rw [h]
  exact ⟨by rw [Real.cos_add_nat_mul_two_pi, Real.cos_neg], by rw [Real.sin_add_nat_mul_two_pi, Real.sin_neg]⟩

/-- the strength integral only sees the phase-velocity vector through the angle between the bins:
mirroring the field and the direction of the target bin leaves it unchanged -/
theorem strengthRow_mir_at (c c' w : ℝ) (X : Fin N → ℝ) (j : Fin N) :
    strengthRow 0 c c' w (mirE X) j = strengthRow 0 c c' w X (-j) := by
  rw [strengthRow_mirror]; rfl

theorem cumulativeStrength_mir (bp : BrkP ℝ) (om df : List ℝ) (kin : Kin ℝ) (T : List (Fin N → ℝ))
    (w c : ℝ) (j : Fin N) :
    cumulativeStrength bp (uniformGrid (N := N) 0 om df) kin (fieldOf (mirField T)) w
        (Transc.cos (deg2rad (theta 0 j)) * c) (Transc.sin (deg2rad (theta 0 j)) * c)
      = cumulativeStrength bp (uniformGrid (N := N) 0 om df) kin (fieldOf T) w
        (Transc.cos (deg2rad (theta 0 (-j))) * c) (Transc.sin (deg2rad (theta 0 (-j))) * c) := by
  simp only [cumulativeStrength, uniformGrid, fieldOf, mirField, List.map_map]
  generalize om.zip (kin.cg.zip (kin.c.zip df)) = M
  rw [List.zip_map_left, List.zip_map_left, List.takeWhile_map, List.takeWhile_map, List.map_map, List.map_map]
  congr 1
  apply List.map_congr_left
  intro r _
  simp only [Function.comp, Prod.map, id]
  rw [strength_inner_bridge, strength_inner_bridge]
  have : cumWeight (twoPi * (1 / r.2.2.1) * (Transc.pi / ((180 : ℕ) : ℝ))) (mirE r.1)
      = mirE (cumWeight (twoPi * (1 / r.2.2.1) * (Transc.pi / ((180 : ℕ) : ℝ))) r.1) := rfl
  rw [this, strengthRow_mir_at]

theorem cumRows_mir (bp : BrkP ℝ) (om df : List ℝ) (kin : Kin ℝ) (rows T : List (Fin N → ℝ)) :
    cumRows bp 0 om df kin (mirField rows) (mirField T) = mirField (cumRows bp 0 om df kin rows T) := by
  simp only [cumRows]
  split
  · simp only [mirField, List.map_map]
    apply List.map_congr_left
    intro r _
    rfl
  · apply zipWith_mirField
    intro r oc
    funext j
    simp only [cumulativeStrength_mir]
    rfl

theorem addRows_mir (A B : List (Fin N → ℝ)) :
    List.zipWith (fun a b j => a j + b j) (mirField A) (mirField B)
      = mirField (List.zipWith (fun a b j => a j + b j) A B) := by
  simp only [mirField]
  induction A generalizing B with
  | nil => simp
  | cons a A ih =>
    cases B with
    | nil => simp
    | cons b B =>
      simp only [List.map_cons, List.zipWith_cons_cons, ih B]
      rfl

/-- **ST4 dissipation, whole field, mirror image** -/
theorem st4DissRows_mir (bp : BrkP ℝ) (om df : List ℝ) (kin : Kin ℝ) (rows : List (Fin N → ℝ)) :
    st4DissRows bp 0 om df kin (mirField rows) = mirField (st4DissRows bp 0 om df kin rows) := by
  simp only [st4DissRows, bandRows_mir, excessRows_mir, cumRows_mir, satRows_mir, addRows_mir]


/-! ### stresses -/

/-- `v'` is `v` reflected in the east axis -/
def IsMir (v v' : ℝ × ℝ) : Prop := v'.1 = v.1 ∧ v'.2 = -v.2

theorem IsMir.add {a a' b b' : ℝ × ℝ} (ha : IsMir a a') (hb : IsMir b b') :
    IsMir (a.1 + b.1, a.2 + b.2) (a'.1 + b'.1, a'.2 + b'.2) := by
  obtain ⟨h1, h2⟩ := ha
  obtain ⟨h3, h4⟩ := hb
  constructor <;> simp only [h1, h2, h3, h4] <;> ring

theorem IsMir.smul {a a' : ℝ × ℝ} (ha : IsMir a a') (c : ℝ) : IsMir (a.1 * c, a.2 * c) (a'.1 * c, a'.2 * c) := by
  obtain ⟨h1, h2⟩ := ha
  constructor <;> simp only [h1, h2] <;> ring

theorem IsMir.neg {a a' : ℝ × ℝ} (ha : IsMir a a') : IsMir (-a.1, -a.2) (-a'.1, -a'.2) := by
  obtain ⟨h1, h2⟩ := ha
  constructor <;> simp only [h1, h2]

theorem IsMir.norm {a a' : ℝ × ℝ} (ha : IsMir a a') :
    Real.sqrt (a'.2 * a'.2 + a'.1 * a'.1) = Real.sqrt (a.2 * a.2 + a.1 * a.1) := by
  obtain ⟨h1, h2⟩ := ha
  rw [h1, h2]
  congr 1
  ring

theorem unit_mir (d : ℝ) :
    IsMir (Real.cos (deg2rad d), Real.sin (deg2rad d)) (Real.cos (deg2rad (-d)), Real.sin (deg2rad (-d))) := by
  have h : deg2rad (-d) = -(deg2rad d) := by rw [deg2rad_eq, deg2rad_eq]; ring
  exact ⟨by simp only [h, Real.cos_neg], by simp only [h, Real.sin_neg]⟩

theorem lsum_rows_mir {β : Type} (a b a' b' : (Fin N → ℝ) → β → ℝ)
    (h : ∀ r m, IsMir (a r m, b r m) (a' (mirE r) m, b' (mirE r) m))
    (rows : List (Fin N → ℝ)) (M : List β) :
    IsMir (lsum (List.zipWith a rows M), lsum (List.zipWith b rows M))
      (lsum (List.zipWith a' (mirField rows) M), lsum (List.zipWith b' (mirField rows) M)) := by
  simp only [mirField]
  induction rows generalizing M with
  | nil => simp [lsum, IsMir]
  | cons r rows ih =>
    cases M with
    | nil => simp [lsum, IsMir]
    | cons m M =>
      simp only [List.map_cons, List.zipWith_cons_cons, lsum]
      exact (h r m).add (ih M)

theorem resolvedStress_mir (p : GenP ℝ) (om df : List ℝ) (kin : Kin ℝ) (S : List (Fin N → ℝ)) :
    IsMir (resolvedStress p (uniformGrid (N := N) 0 om df) kin (fieldOf S))
      (resolvedStress p (uniformGrid (N := N) 0 om df) kin (fieldOf (mirField S))) := by
  simp only [resolvedStress, uniformGrid]
  apply IsMir.smul (a := (_, _)) (a' := (_, _))
  have hc : ∀ rows : List (Fin N → ℝ), List.zipWith (fun (row : List ℝ) (kod : ℝ × ℝ × ℝ) =>
        lsum (List.zipWith (fun (s : ℝ) (td : ℝ × ℝ) => Transc.cos td.1 * td.2 * s * (kod.1 / kod.2.1 * kod.2.2)) row
          ((List.ofFn fun j : Fin N => deg2rad (theta 0 j)).zip (List.ofFn fun _ : Fin N => dθ N))))
        (fieldOf rows) (kin.k.zip (om.zip df))
      = List.zipWith (fun (r : Fin N → ℝ) (kod : ℝ × ℝ × ℝ) => Acos 1 0 r * (kod.1 / kod.2.1 * kod.2.2)) rows (kin.k.zip (om.zip df)) :=
    fun rows => zipWith_field_scalar _ _ (fun r m => (stress_inner_bridge 0 _ r).1) rows _
  have hs : ∀ rows : List (Fin N → ℝ), List.zipWith (fun (row : List ℝ) (kod : ℝ × ℝ × ℝ) =>
        lsum (List.zipWith (fun (s : ℝ) (td : ℝ × ℝ) => Transc.sin td.1 * td.2 * s * (kod.1 / kod.2.1 * kod.2.2)) row
          ((List.ofFn fun j : Fin N => deg2rad (theta 0 j)).zip (List.ofFn fun _ : Fin N => dθ N))))
        (fieldOf rows) (kin.k.zip (om.zip df))
      = List.zipWith (fun (r : Fin N → ℝ) (kod : ℝ × ℝ × ℝ) => Bsin 1 0 r * (kod.1 / kod.2.1 * kod.2.2)) rows (kin.k.zip (om.zip df)) :=
    fun rows => zipWith_field_scalar _ _ (fun r m => (stress_inner_bridge 0 _ r).2) rows _
  rw [hc, hc, hs, hs]
  apply lsum_rows_mir
  intro r m
  constructor
  · show Acos 1 0 (mirE r) * _ = _
    rw [Acos_mir]
  · show Bsin 1 0 (mirE r) * _ = _
    rw [Bsin_mir]; ring

theorem cos_sep_mir (wd : ℝ) (j : Fin N) :
    Real.cos (deg2rad (theta (N := N) 0 j) - deg2rad (-wd)) = Real.cos (deg2rad (theta (N := N) 0 (-j)) - deg2rad wd) := by
  have h := cosWind_mirror (N := N) wd j
  simpa only [cosWind, cos_wrapPi] using h

theorem tailWeight_mir (wd : ℝ) (r : Fin N → ℝ) : tailWeight 0 (-wd) (mirE r) = mirE (tailWeight 0 wd r) := by
  funext j
  simp only [tailWeight, mirE, cos_sep_mir]

theorem tailDir_mir (wd : ℝ) (rows : List (Fin N → ℝ)) :
    IsMir
      (tailDir (N := N) 0 (deg2rad wd) Transc.cos ((fieldOf rows).getLastD []),
       tailDir (N := N) 0 (deg2rad wd) Transc.sin ((fieldOf rows).getLastD []))
      (tailDir (N := N) 0 (deg2rad (-wd)) Transc.cos ((fieldOf (mirField rows)).getLastD []),
       tailDir (N := N) 0 (deg2rad (-wd)) Transc.sin ((fieldOf (mirField rows)).getLastD [])) := by
  rw [getLastD_field, getLastD_field]
  simp only [mirField, List.getLast?_map]
  cases rows.getLast? with
  | none => simp [tailDir, lsum, IsMir]
  | some r =>
    simp only [Option.map_some, Option.getD_some]
    rw [(tailDir_bridge 0 wd r).1, (tailDir_bridge 0 wd r).2, (tailDir_bridge 0 _ (mirE r)).1,
      (tailDir_bridge 0 _ (mirE r)).2, tailWeight_mir]
    exact ⟨Acos_mir 1 _, Bsin_mir 1 _⟩

def OptMir : Option (ℝ × ℝ) → Option (ℝ × ℝ) → Prop
  | none, none => True
  | some a, some b => IsMir a b
  | _, _ => False

theorem wamTail_mir (p : GenP ℝ) (om df : List ℝ) (rows : List (Fin N → ℝ)) (w : Wind ℝ) (z0 : ℝ) :
    OptMir (wamTail p (uniformGrid (N := N) 0 om df) (fieldOf rows) w z0)
      (wamTail p (uniformGrid (N := N) 0 om df) (fieldOf (mirField rows)) (flipWind w) z0) := by
  have hu : frictionVelocity p (flipWind w) z0 = frictionVelocity p w z0 := rfl
  simp only [wamTail, hu, uniformGrid]
  cases wamTailIntegral p (frictionVelocity p w z0 * om.getLastD 0 / p.g)
      (z0 * p.g / (frictionVelocity p w z0 * frictionVelocity p w z0)) with
  | none => trivial
  | some fi =>
    simp only [OptMir]
    have hd := tailDir_mir w.dirDeg rows
    have hw := unit_mir w.dirDeg
    have h1 := ((hd.smul fi).smul (npow (om.getLastD 0) 5 / (twoPi * (p.g * p.g)) * (frictionVelocity p w z0 * frictionVelocity p w z0) * p.betamax / (p.kappa * p.kappa))).smul p.rhoAir
    have h2 := hw.smul (charnockPoint p (frictionVelocity p w z0) * charnockPoint p (frictionVelocity p w z0) / (z0 * z0) * (p.rhoAir * (frictionVelocity p w z0 * frictionVelocity p w z0)))
    exact h1.add h2

theorem st4Input_flip (p : GenP ℝ) (om df : List ℝ) (kin : Kin ℝ) (rows : List (Fin N → ℝ)) (w : Wind ℝ) (z0 : ℝ) :
    ∃ S : List (Fin N → ℝ),
      st4Input rfloor p (uniformGrid (N := N) 0 om df) kin (fieldOf rows) w z0 = fieldOf S ∧
      st4Input rfloor p (uniformGrid (N := N) 0 om df) kin (fieldOf (mirField rows)) (flipWind w) z0 = fieldOf (mirField S) :=
  ⟨_, st4Input_field p 0 om df kin rows w z0, st4Input_field_mir p om df kin rows w z0⟩

theorem totalStress_magnitude_mir (p : GenP ℝ) (om df : List ℝ) (kin : Kin ℝ) (rows : List (Fin N → ℝ)) (w : Wind ℝ) (z0 : ℝ) :
    (totalStress rfloor p (uniformGrid (N := N) 0 om df) kin (fieldOf (mirField rows)) (flipWind w) z0).map Prod.fst
      = (totalStress rfloor p (uniformGrid (N := N) 0 om df) kin (fieldOf rows) w z0).map Prod.fst := by
  have hu : frictionVelocity p (flipWind w) z0 = frictionVelocity p w z0 := rfl
  obtain ⟨S, hS, hS'⟩ := st4Input_flip p om df kin rows w z0
  have hr := resolvedStress_mir p om df kin S
  have ht := wamTail_mir p om df rows w z0
  simp only [totalStress, hu, hS, hS']
  split
  · rfl
  · revert ht
    cases wamTail p (uniformGrid (N := N) 0 om df) (fieldOf rows) w z0 with
    | none =>
      cases wamTail p (uniformGrid (N := N) 0 om df) (fieldOf (mirField rows)) (flipWind w) z0 with
      | none => intro _; rfl
      | some t' => intro h; exact absurd h (by simp [OptMir])
    | some t =>
      cases wamTail p (uniformGrid (N := N) 0 om df) (fieldOf (mirField rows)) (flipWind w) z0 with
      | none => intro h; exact absurd h (by simp [OptMir])
      | some t' =>
        intro h
        simp only [OptMir] at h
        have hw := (unit_mir w.dirDeg).smul (p.viscous * p.rhoAir * frictionVelocity p w z0 * p.nuAir / p.kappa / z0)
        have hall := (hr.add h).add hw
        have hn := hall.norm
        simp only [Option.map_some, Option.some.injEq]
        dsimp only at hn
        simp only [flipWind, Transc.sin, Transc.cos, Transc.sqrt]
        refine Eq.trans ?_ (Eq.trans hn ?_) <;> (congr 1; ring)

/-- the total stress vector is reflected (east kept, north negated) by the mirror image -/
theorem totalStressVec_mir (p : GenP ℝ) (om df : List ℝ) (kin : Kin ℝ) (rows : List (Fin N → ℝ)) (w : Wind ℝ) (z0 : ℝ) :
    OptMir (totalStressVec p (uniformGrid (N := N) 0 om df) kin (fieldOf rows) w z0)
      (totalStressVec p (uniformGrid (N := N) 0 om df) kin (fieldOf (mirField rows)) (flipWind w) z0) := by
  have hu : frictionVelocity p (flipWind w) z0 = frictionVelocity p w z0 := rfl
  obtain ⟨S, hS, hS'⟩ := st4Input_flip p om df kin rows w z0
  have hr := resolvedStress_mir p om df kin S
  have ht := wamTail_mir p om df rows w z0
  simp only [totalStressVec, hu, hS, hS']
  revert ht
  cases wamTail p (uniformGrid (N := N) 0 om df) (fieldOf rows) w z0 with
  | none =>
    cases wamTail p (uniformGrid (N := N) 0 om df) (fieldOf (mirField rows)) (flipWind w) z0 with
    | none => intro _; trivial
    | some t' => intro h; exact absurd h (by simp [OptMir])
  | some t =>
    cases wamTail p (uniformGrid (N := N) 0 om df) (fieldOf (mirField rows)) (flipWind w) z0 with
    | none => intro h; exact absurd h (by simp [OptMir])
    | some t' =>
      intro h
      simp only [OptMir] at h ⊢
      have hw := (unit_mir w.dirDeg).smul (p.viscous * p.rhoAir * frictionVelocity p w z0 * p.nuAir / p.kappa / z0)
      have hall := (hr.add h).add hw
      obtain ⟨h1, h2⟩ := hall
      dsimp only at h1 h2
      constructor
      · simp only [flipWind, Transc.sin, Transc.cos]
        linear_combination h1
      · simp only [flipWind, Transc.sin, Transc.cos]
        linear_combination h2

theorem stressBalance_mir (p : GenP ℝ) (om df : List ℝ) (kin : Kin ℝ) (rows : List (Fin N → ℝ)) (w : Wind ℝ) (lz : ℝ) :
    stressBalance rfloor p (uniformGrid (N := N) 0 om df) kin (fieldOf (mirField rows)) (flipWind w) lz
      = stressBalance rfloor p (uniformGrid (N := N) 0 om df) kin (fieldOf rows) w lz := by
  rw [stressBalance_eq_map, stressBalance_eq_map, totalStress_magnitude_mir]
  rfl

theorem roughnessOf_mir (nan : ℝ) (p : GenP ℝ) (om df : List ℝ) (kin : Kin ℝ) (rows : List (Fin N → ℝ)) (w : Wind ℝ) (guess : ℝ) :
    roughnessOf nan rfloor p (uniformGrid (N := N) 0 om df) kin (fieldOf (mirField rows)) (flipWind w) guess
      = roughnessOf nan rfloor p (uniformGrid (N := N) 0 om df) kin (fieldOf rows) w guess := by
  have hg : roughnessGuess p (flipWind w) guess = roughnessGuess p w guess := rfl
  have hs : (flipWind w).speed = w.speed := rfl
  have hb : balanceTotal nan rfloor p (uniformGrid (N := N) 0 om df) kin (fieldOf (mirField rows)) (flipWind w)
      = balanceTotal nan rfloor p (uniformGrid (N := N) 0 om df) kin (fieldOf rows) w := by
    funext lz
    simp only [balanceTotal, stressBalance_mir]
  simp only [roughnessOf, roughness, hb, hg, hs]

/-! ### bulk rates and the wind inversion -/

theorem bulk_mir (om df : List ℝ) (D : List (Fin N → ℝ)) :
    bulk (uniformGrid (N := N) 0 om df) (fieldOf (mirField D)) = bulk (uniformGrid (N := N) 0 om df) (fieldOf D) := by
  have h : ∀ rows : List (Fin N → ℝ),
      List.zipWith (fun (row : List ℝ) (f : ℝ) => lsum (List.zipWith (fun v dth => v * f * dth) row (List.ofFn fun _ : Fin N => dθ N)))
        (fieldOf rows) df = List.zipWith (fun (r : Fin N → ℝ) (f : ℝ) => ∑ j, r j * f * dθ N) rows df := by
    intro rows
    apply zipWith_field_scalar
    intro r f
    rw [zipWith_ofFn, st_lsum_ofFn]
  simp only [bulk, uniformGrid, h]
  congr 1
  simp only [mirField]
  generalize df = F
  induction D generalizing F with
  | nil => simp
  | cons r D ih =>
    cases F with
    | nil => simp
    | cons f F =>
      simp only [List.map_cons, List.zipWith_cons_cons, ih F]
      congr 1
      exact Fintype.sum_equiv (Equiv.neg (Fin N)) _ _ (fun j => by simp [mirE])

theorem activeRegion_mir (om df : List ℝ) (D G : List (Fin N → ℝ)) :
    activeRegionDerivative (uniformGrid (N := N) 0 om df) (fieldOf (mirField D)) (fieldOf (mirField G))
      = activeRegionDerivative (uniformGrid (N := N) 0 om df) (fieldOf D) (fieldOf G) := by
  have h : ∀ A B : List (Fin N → ℝ),
      List.zipWith (fun (rows : List ℝ × List ℝ) (f : ℝ) =>
          lsum (List.zipWith (fun (dg : ℝ × ℝ) (dth : ℝ) => if 0 < dg.2 then dg.1 * dth * f else 0)
            (rows.1.zip rows.2) (List.ofFn fun _ : Fin N => dθ N)))
        ((fieldOf A).zip (fieldOf B)) df
      = List.zipWith (fun (r : (Fin N → ℝ) × (Fin N → ℝ)) (f : ℝ) => ∑ j, if 0 < r.2 j then r.1 j * dθ N * f else 0) (A.zip B) df := by
    intro A B
    apply zipWith2_field_scalar
    intro r1 r2 f
    rw [List.zip, zipWith_ofFn, zipWith_ofFn, st_lsum_ofFn]
  simp only [activeRegionDerivative, uniformGrid, h]
  congr 1
  simp only [mirField]
  generalize df = F
  induction D generalizing G F with
  | nil => simp
  | cons r D ih =>
    cases G with
    | nil => simp
    | cons r2 G =>
      cases F with
      | nil => simp
      | cons f F =>
        simp only [List.map_cons, List.zip_cons_cons, List.zipWith_cons_cons, ih G F]
        congr 1
        exact Fintype.sum_equiv (Equiv.neg (Fin N)) _ _ (fun j => by simp only [mirE, Equiv.neg_apply]; rfl)

theorem u10Balance_mir (nan : ℝ) (p : GenP ℝ) (om df : List ℝ) (kin : Kin ℝ) (rows dEdt : List (Fin N → ℝ)) (dir target : ℝ) :
    u10Balance nan rfloor p (uniformGrid (N := N) 0 om df) kin (fieldOf (mirField rows)) (-dir) target (fieldOf (mirField dEdt))
      = u10Balance nan rfloor p (uniformGrid (N := N) 0 om df) kin (fieldOf rows) dir target (fieldOf dEdt) := by
  funext u
  simp only [u10Balance]
  split
  · rfl
  · have hw : ({ speed := u, dirDeg := -dir, isU10 := true } : Wind ℝ)
        = flipWind { speed := u, dirDeg := dir, isU10 := true } := rfl
    rw [hw, roughnessOf_mir]
    cases roughnessOf nan rfloor p (uniformGrid (N := N) 0 om df) kin (fieldOf rows) { speed := u, dirDeg := dir, isU10 := true } (-1) with
    | none => rfl
    | some z0 =>
      obtain ⟨S, hS, hS'⟩ := st4Input_flip p om df kin rows { speed := u, dirDeg := dir, isU10 := true } z0
      simp only [hS, hS', bulk_mir, activeRegion_mir]

theorem dissipationVector_mir (om df : List ℝ) (kin : Kin ℝ) (D : List (Fin N → ℝ)) :
    IsMir (dissipationVector (uniformGrid (N := N) 0 om df) kin (fieldOf D))
      (dissipationVector (uniformGrid (N := N) 0 om df) kin (fieldOf (mirField D))) := by
  simp only [dissipationVector, uniformGrid]
  apply IsMir.neg (a := (_, _)) (a' := (_, _))
  have hc : ∀ rows : List (Fin N → ℝ), List.zipWith (fun (row : List ℝ) (kd : ℝ × ℝ) =>
        lsum (List.zipWith (fun (d : ℝ) (td : ℝ × ℝ) => kd.1 * Transc.cos td.1 * d * kd.2 * td.2) row
          ((List.ofFn fun j : Fin N => deg2rad (theta 0 j)).zip (List.ofFn fun _ : Fin N => dθ N))))
        (fieldOf rows) (kin.k.zip df)
      = List.zipWith (fun (r : Fin N → ℝ) (kd : ℝ × ℝ) => Acos 1 0 r * (kd.1 * kd.2)) rows (kin.k.zip df) :=
    fun rows => zipWith_field_scalar _ _ (fun r m => (diss_inner_bridge 0 _ _ r).1) rows _
  have hs : ∀ rows : List (Fin N → ℝ), List.zipWith (fun (row : List ℝ) (kd : ℝ × ℝ) =>
        lsum (List.zipWith (fun (d : ℝ) (td : ℝ × ℝ) => kd.1 * Transc.sin td.1 * d * kd.2 * td.2) row
          ((List.ofFn fun j : Fin N => deg2rad (theta 0 j)).zip (List.ofFn fun _ : Fin N => dθ N))))
        (fieldOf rows) (kin.k.zip df)
      = List.zipWith (fun (r : Fin N → ℝ) (kd : ℝ × ℝ) => Bsin 1 0 r * (kd.1 * kd.2)) rows (kin.k.zip df) :=
    fun rows => zipWith_field_scalar _ _ (fun r m => (diss_inner_bridge 0 _ _ r).2) rows _
  rw [hc, hc, hs, hs]
  apply lsum_rows_mir
  intro r m
  constructor
  · show Acos 1 0 (mirE r) * _ = _
    rw [Acos_mir]
  · show Bsin 1 0 (mirE r) * _ = _
    rw [Bsin_mir]; ring

end Osu.Rot
