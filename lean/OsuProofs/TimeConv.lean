import OsuProofs.Cal.All

namespace Osu.TC

theorem isLeap_add (a k : Int) : isLeap (a + 400 * k) = isLeap a := by
  have h4 : (a + 400 * k) % 4 = a % 4 := by omega
  have h100 : (a + 400 * k) % 100 = a % 100 := by omega
  have h400 : (a + 400 * k) % 400 = a % 400 := by omega
  simp only [isLeap, h4, h100, h400]

theorem daysInMonth_add (a k : Int) (m : Nat) : daysInMonth (a + 400 * k) m = daysInMonth a m := by
  simp only [daysInMonth, isLeap_add]

attribute [local irreducible] civilOfDoe doeOfCivil daysInMonth

theorem civilFromDays_eq (z era : Int) (doe : Nat) (hz : z + 719468 = era * 146097 + doe) (hd : doe < 146097) :
    civilFromDays z =
      (if (civilOfDoe doe).2.1 ≤ 2 then ((civilOfDoe doe).1 : Int) + era * 400 + 1 else ((civilOfDoe doe).1 : Int) + era * 400,
       (civilOfDoe doe).2.1, (civilOfDoe doe).2.2) := by
  have e1 : (z + 719468) / 146097 = era := by omega
  have e2 : (z + 719468 - era * 146097).toNat = doe := by omega
  simp only [civilFromDays, e1, e2]

theorem daysFromCivil_eq (y : Int) (m d : Nat) (era : Int) (yoe : Nat)
    (hy : (if m ≤ 2 then y - 1 else y) = era * 400 + yoe) (hyoe : yoe < 400) :
    daysFromCivil y m d = era * 146097 + (doeOfCivil yoe m d : Nat) - 719468 := by
  have e1 : (if m ≤ 2 then y - 1 else y) / 400 = era := by rw [hy]; omega
  have e2 : ((if m ≤ 2 then y - 1 else y) - era * 400).toNat = yoe := by rw [hy]; omega
  simp only [daysFromCivil, e1, e2]

/-- days → civil → days, for every day number (all years). -/
theorem days_civil_days (z : Int) :
    daysFromCivil (civilFromDays z).1 (civilFromDays z).2.1 (civilFromDays z).2.2 = z := by
  obtain ⟨era, doe, hz, hdoe⟩ : ∃ era : Int, ∃ doe : Nat, z + 719468 = era * 146097 + doe ∧ doe < 146097 :=
    ⟨(z + 719468) / 146097, ((z + 719468) % 146097).toNat, by omega, by omega⟩
  have ht := tableA doe hdoe
  simp only [doeOK, Bool.and_eq_true, beq_iff_eq, decide_eq_true_eq] at ht
  obtain ⟨⟨⟨⟨⟨h1, h2⟩, h3⟩, h4⟩, h5⟩, h6⟩ := ht
  rw [civilFromDays_eq z era doe hz hdoe]
  simp only
  rw [daysFromCivil_eq _ _ _ era (civilOfDoe doe).1 (by split <;> omega) (by omega), h1]
  omega

/-- the calendar fields produced for a day number are a valid date -/
theorem civilFromDays_valid (z : Int) :
    1 ≤ (civilFromDays z).2.1 ∧ (civilFromDays z).2.1 ≤ 12 ∧ 1 ≤ (civilFromDays z).2.2 ∧
    (civilFromDays z).2.2 ≤ daysInMonth (civilFromDays z).1 (civilFromDays z).2.1 := by
  obtain ⟨era, doe, hz, hdoe⟩ : ∃ era : Int, ∃ doe : Nat, z + 719468 = era * 146097 + doe ∧ doe < 146097 :=
    ⟨(z + 719468) / 146097, ((z + 719468) % 146097).toNat, by omega, by omega⟩
  have ht := tableA doe hdoe
  simp only [doeOK, Bool.and_eq_true, beq_iff_eq, decide_eq_true_eq] at ht
  obtain ⟨⟨⟨⟨⟨h1, h2⟩, h3⟩, h4⟩, h5⟩, h6⟩ := ht
  rw [civilFromDays_eq z era doe hz hdoe]
  simp only
  refine ⟨h3, h4, h5, ?_⟩
  have : (if (civilOfDoe doe).2.1 ≤ 2 then ((civilOfDoe doe).1 : Int) + era * 400 + 1
        else ((civilOfDoe doe).1 : Int) + era * 400)
      = (if (civilOfDoe doe).2.1 ≤ 2 then ((civilOfDoe doe).1 : Int) + 1 else (civilOfDoe doe).1) + 400 * era := by
    split <;> omega
  rw [this, daysInMonth_add]
  exact h6

/-- civil → days → civil, for every valid calendar date (all years). -/
theorem civil_days_civil (y : Int) (m d : Nat) (h1 : 1 ≤ m) (h2 : m ≤ 12) (h3 : 1 ≤ d)
    (h4 : d ≤ daysInMonth y m) : civilFromDays (daysFromCivil y m d) = (y, m, d) := by
  obtain ⟨era, yoe, hy, hyoe⟩ : ∃ era : Int, ∃ yoe : Nat,
      (if m ≤ 2 then y - 1 else y) = era * 400 + yoe ∧ yoe < 400 :=
    ⟨(if m ≤ 2 then y - 1 else y) / 400, ((if m ≤ 2 then y - 1 else y) % 400).toNat, by omega, by omega⟩
  have hdim : daysInMonth (if m ≤ 2 then (yoe : Int) + 1 else yoe) m = daysInMonth y m := by
    have : y = (if m ≤ 2 then (yoe : Int) + 1 else yoe) + 400 * era := by
      split at hy <;> simp_all <;> omega
    rw [this, daysInMonth_add]
  have ht := tableB yoe hyoe m h1 h2 d h3 (by rw [hdim]; exact h4)
  simp only [civOK, Bool.and_eq_true, decide_eq_true_eq, beq_iff_eq] at ht
  obtain ⟨hlt, hc⟩ := ht
  rw [daysFromCivil_eq y m d era yoe hy hyoe]
  rw [civilFromDays_eq _ era (doeOfCivil yoe m d) (by omega) hlt, hc]
  simp only
  have : y = if m ≤ 2 then (yoe : Int) + era * 400 + 1 else (yoe : Int) + era * 400 := by
    split at hy <;> simp_all <;> omega
  rw [← this]

end Osu.TC
