import OsuProofs.Rotation

namespace Osu.Rot

open Real Finset

theorem cosd_neg (x : ℝ) : cosd (-x) = cosd x := by
  simp only [cosd]; rw [show -x * π / 180 = -(x * π / 180) by ring, Real.cos_neg]

theorem sind_neg (x : ℝ) : sind (-x) = -sind x := by
  simp only [sind]; rw [show -x * π / 180 = -(x * π / 180) by ring, Real.sin_neg]

theorem cosd_add_360 (x : ℝ) (q : ℕ) : cosd (x + q * 360) = cosd x := by
  have := cosd_sub_360 (x + q * 360) q
  rw [add_sub_cancel_right] at this; exact this.symm

theorem sind_add_360 (x : ℝ) (q : ℕ) : sind (x + q * 360) = sind x := by
  have := sind_sub_360 (x + q * 360) q
  rw [add_sub_cancel_right] at this; exact this.symm

variable {N : ℕ} [NeZero N]

/-- the mirror image of the direction axis: energy that was at `-θ` is now at `θ` -/
def mirE (E : Fin N → ℝ) : Fin N → ℝ := fun j => E (-j)

theorem theta_neg (j : Fin N) : ∃ q : ℕ, theta (N := N) 0 (-j) = -(theta (N := N) 0 j) + q * 360 := by
  have hN : (N : ℝ) ≠ 0 := Nat.cast_ne_zero.2 (NeZero.ne N)
  by_cases hj : j = 0
  · subst hj; exact ⟨0, by simp [theta]⟩
  · refine ⟨1, ?_⟩
    have hv : ((-j : Fin N) : ℕ) = N - (j : ℕ) := by
      rw [Fin.val_neg']
      have hpos : 0 < (j : ℕ) := Nat.pos_of_ne_zero (fun h => hj (Fin.ext h))
      exact Nat.mod_eq_of_lt (by omega)
    have hle : (j : ℕ) ≤ N := le_of_lt j.isLt
    simp only [theta, dθ, hv, Nat.cast_sub hle]
    field_simp
    ring

theorem eSum_mir (E : Fin N → ℝ) : eSum (mirE E) = eSum E := by
  simp only [eSum, mirE]
  exact Fintype.sum_equiv (Equiv.neg _) _ _ (fun j => by simp)

theorem Acos_mir (m : ℕ) (E : Fin N → ℝ) : Acos m 0 (mirE E) = Acos m 0 E := by
  simp only [Acos, mirE]
  rw [← Fintype.sum_equiv (Equiv.neg (Fin N)) (fun j => E j * cosd (m * theta 0 (-j)) * dθ N)
    (fun j => E (-j) * cosd (m * theta 0 j) * dθ N) (fun j => by simp)]
  apply Finset.sum_congr rfl
  intro j _
  obtain ⟨q, hq⟩ := theta_neg j
  rw [hq, show (m : ℝ) * (-(theta (N := N) 0 j) + q * 360) = -(m * theta 0 j) + ((m * q : ℕ) : ℝ) * 360 by
    push_cast; ring, cosd_add_360, cosd_neg]

theorem Bsin_mir (m : ℕ) (E : Fin N → ℝ) : Bsin m 0 (mirE E) = -Bsin m 0 E := by
  simp only [Bsin, mirE]
  rw [← Finset.sum_neg_distrib]
  rw [← Fintype.sum_equiv (Equiv.neg (Fin N)) (fun j => E j * sind (m * theta 0 (-j)) * dθ N)
    (fun j => E (-j) * sind (m * theta 0 j) * dθ N) (fun j => by simp)]
  apply Finset.sum_congr rfl
  intro j _
  obtain ⟨q, hq⟩ := theta_neg j
  rw [hq, show (m : ℝ) * (-(theta (N := N) 0 j) + q * 360) = -(m * theta 0 j) + ((m * q : ℕ) : ℝ) * 360 by
    push_cast; ring, sind_add_360, sind_neg]
  ring

/-! ### Direction as an angle -/

/-- direction of the vector (A, B) as an angle modulo a full turn -/
noncomputable def dirAngle (A B : ℝ) : Real.Angle := (Complex.arg ⟨A, B⟩ : Real.Angle)

theorem rot_complex (A B c s : ℝ) :
    (⟨c * A - s * B, s * A + c * B⟩ : ℂ) = (⟨A, B⟩ : ℂ) * ((c : ℂ) + (s : ℂ) * Complex.I) := by
  apply Complex.ext
  · simp only [Complex.mul_re, Complex.add_re, Complex.add_im, Complex.ofReal_re, Complex.ofReal_im,
      Complex.mul_im, Complex.I_re, Complex.I_im, mul_zero, mul_one, zero_mul, sub_zero, add_zero, zero_add]
    ring
  · simp only [Complex.mul_re, Complex.add_re, Complex.add_im, Complex.ofReal_re, Complex.ofReal_im,
      Complex.mul_im, Complex.I_re, Complex.I_im, mul_zero, mul_one, zero_mul, sub_zero, add_zero, zero_add]
    ring

/-- rotating a non-zero vector by `φ` adds `φ` to its direction (mod 2π) -/
theorem dirAngle_rot (A B φ : ℝ) (h : A ≠ 0 ∨ B ≠ 0) :
    dirAngle (Real.cos φ * A - Real.sin φ * B) (Real.sin φ * A + Real.cos φ * B) =
      dirAngle A B + (φ : Real.Angle) := by
  have hz : (⟨A, B⟩ : ℂ) ≠ 0 := by
    intro hc
    have h1 := congrArg Complex.re hc
    have h2 := congrArg Complex.im hc
    simp only [Complex.zero_re, Complex.zero_im] at h1 h2
    rcases h with h | h
    · exact h h1
    · exact h h2
  have hw : ((Real.cos φ : ℝ) : ℂ) + ((Real.sin φ : ℝ) : ℂ) * Complex.I ≠ 0 := by
    intro hc
    have h1 := congrArg Complex.re hc
    have h2 := congrArg Complex.im hc
    simp only [Complex.add_re, Complex.add_im, Complex.ofReal_re, Complex.ofReal_im, Complex.mul_re,
      Complex.mul_im, Complex.I_re, Complex.I_im, mul_zero, mul_one, sub_zero, add_zero, zero_add,
      Complex.zero_re, Complex.zero_im, sub_self] at h1 h2
    have := Real.cos_sq_add_sin_sq φ
    rw [h1, h2] at this; norm_num at this
  unfold dirAngle
  rw [rot_complex, Complex.arg_mul_coe_angle hz hw]
  congr 1
  have := Complex.arg_cos_add_sin_mul_I_coe_angle (φ : Real.Angle)
  rw [Real.Angle.cos_coe, Real.Angle.sin_coe] at this
  exact this

/-- mirroring negates the direction (mod 2π) -/
theorem dirAngle_mirror (A B : ℝ) (h : A ≠ 0 ∨ B ≠ 0) : dirAngle A (-B) = -dirAngle A B := by
  unfold dirAngle
  have : (⟨A, -B⟩ : ℂ) = (starRingEnd ℂ) ⟨A, B⟩ := by apply Complex.ext <;> simp
  rw [this, Complex.arg_conj_coe_angle]

end Osu.Rot
