import OsuModel.Interp
import OsuProofs.Directional

namespace Osu.Interp
open Osu.Spec

variable {α : Type} [Field α] [LinearOrder α] [IsStrictOrderedRing α]
set_option linter.unusedSectionVars false

theorem fill0_some (x : α) : fill0 (some x) = x := rfl
theorem fill0_none : fill0 (none : Option α) = 0 := rfl

/-! ### `searchsorted` on a strictly increasing grid -/

theorem countLE_nil (x : α) : countLE ([] : List α) x = 0 := rfl

theorem countLE_cons (a : α) (r : List α) (x : α) :
    countLE (a :: r) x = (if a ≤ x then 1 else 0) + countLE r x := by
  simp only [countLE, List.filter_cons]
  split <;> simp_all
  omega

theorem countLE_le_length (xp : List α) (x : α) : countLE xp x ≤ xp.length := by
  simp only [countLE]; exact List.length_filter_le _ _

/-- below the first node of a sorted grid nothing is counted -/
theorem countLE_eq_zero (xp : List α) (x : α) (hs : xp.Pairwise (· < ·)) (h : ∀ a ∈ xp.head?, x < a) :
    countLE xp x = 0 := by
  induction xp with
  | nil => rfl
  | cons a r ih =>
    rw [List.pairwise_cons] at hs
    have ha : x < a := h a (by simp)
    rw [countLE_cons, if_neg (not_le.2 ha), zero_add]
    apply ih hs.2
    intro b hb
    cases r with
    | nil => simp at hb
    | cons c r' =>
      simp at hb; subst hb
      exact lt_trans ha (hs.1 c (by simp))

/-- `countLE_spec`: with `c = countLE xp x` on a strictly increasing grid, exactly the first `c`
nodes are `≤ x` -/
theorem countLE_spec (xp : List α) (x : α) (hs : xp.Pairwise (· < ·)) :
    (∀ i, i < countLE xp x → getD0 xp i ≤ x) ∧
    (∀ i, countLE xp x ≤ i → i < xp.length → x < getD0 xp i) := by
  induction xp with
  | nil => simp [countLE_nil]
  | cons a r ih =>
    rw [List.pairwise_cons] at hs
    obtain ⟨ih1, ih2⟩ := ih hs.2
    by_cases ha : a ≤ x
    · rw [countLE_cons, if_pos ha]
      constructor
      · intro i hi
        cases i with
        | zero => simpa [getD0] using ha
        | succ i => simpa [getD0] using ih1 i (by omega)
      · intro i h1 h2
        cases i with
        | zero => omega
        | succ i => simpa [getD0] using ih2 i (by omega) (by simpa using h2)
    · have hx : x < a := not_le.1 ha
      have hz : countLE r x = 0 := by
        apply countLE_eq_zero r x hs.2
        intro b hb
        have : b ∈ r := List.mem_of_mem_head? hb
        exact lt_trans hx (hs.1 b this)
      rw [countLE_cons, if_neg ha, hz]
      constructor
      · intro i hi; omega
      · intro i _ h2
        cases i with
        | zero => simpa [getD0] using hx
        | succ i =>
          have : r[i]? ≠ none := by
            simp at h2; simp [List.getElem?_eq_none_iff]; omega
          have hmem : getD0 r i ∈ r := by
            simp only [getD0, List.getD_eq_getElem?_getD]
            have hi : i < r.length := by simpa using h2
            simp [List.getElem?_eq_getElem hi]
          simpa [getD0] using lt_trans hx (hs.1 _ hmem)

/-- on an ascending grid with at least two nodes `flip` is the identity -/
theorem flip_ascending (xp : List α) (hs : xp.Pairwise (· < ·)) : flip xp = (xp, id) := by
  simp only [flip]
  cases hh : xp.head? with
  | none => rfl
  | some a =>
    cases hl : xp.getLast? with
    | none => rfl
    | some b =>
      simp only
      have : ¬ b < a := by
        cases xp with
        | nil => simp at hh
        | cons c r =>
          simp at hh; subst hh
          cases r with
          | nil => simp at hl; subst hl; exact lt_irrefl _
          | cons d r' =>
            rw [List.pairwise_cons] at hs
            have hmem := List.mem_of_getLast? hl
            rcases List.mem_cons.1 hmem with h | h
            · rw [h]; exact lt_irrefl _
            · exact not_lt.2 (le_of_lt (hs.1 b h))
      simp [this]


/-- the grid seen by the theorems: strictly increasing with at least two nodes -/
structure Grid (xp : List α) : Prop where
  sorted : xp.Pairwise (· < ·)
  two : 2 ≤ xp.length

theorem first_lt_last {xp : List α} (g : Grid xp) : getD0 xp 0 < getD0 xp (xp.length - 1) := by
  obtain ⟨hs, h2⟩ := g
  match xp, h2 with
  | a :: b :: r, _ =>
    rw [List.pairwise_cons] at hs
    have hlast : getD0 (a :: b :: r) ((a :: b :: r).length - 1) ∈ b :: r := by
      simp only [getD0, List.length_cons, Nat.add_sub_cancel, List.getD_cons_succ]
      have : r.length < (b :: r).length := by simp
      simp only [List.getD_eq_getElem?_getD, List.getElem?_eq_getElem this]
      exact List.getElem_mem _
    simpa [getD0] using hs.1 _ hlast

/-- `enclosing_inside`: for a target inside the grid, the enclosing indices are adjacent and
bracket the target -/
theorem enclosing_inside {xp : List α} (g : Grid xp) (x : α)
    (h1 : getD0 xp 0 ≤ x) (h2 : x < getD0 xp (xp.length - 1)) :
    ∃ k, k + 1 < xp.length ∧ enclosing xp x = (k, k + 1) ∧ getD0 xp k ≤ x ∧ x < getD0 xp (k + 1) := by
  obtain ⟨s1, s2⟩ := countLE_spec xp x g.sorted
  have hn := g.two
  have hc1 : 1 ≤ countLE xp x := by
    by_contra hc
    have : countLE xp x = 0 := by omega
    have := s2 0 (by omega) (by omega)
    exact absurd h1 (not_le.2 this)
  have hc2 : countLE xp x ≤ xp.length - 1 := by
    by_contra hc
    have hle := countLE_le_length xp x
    have := s1 (xp.length - 1) (by omega)
    exact absurd h2 (not_lt.2 this)
  refine ⟨countLE xp x - 1, by omega, ?_, s1 _ (by omega), ?_⟩
  · simp only [enclosing, flip_ascending xp g.sorted, id]
    have e1 : min (countLE xp x - 1) (xp.length - 1) = countLE xp x - 1 := by omega
    have e2 : min (countLE xp x) (xp.length - 1) = countLE xp x - 1 + 1 := by omega
    rw [e1, e2]
  · have : countLE xp x - 1 + 1 = countLE xp x := by omega
    rw [this]; exact s2 _ (le_refl _) (by omega)

theorem fracOf_inside {xp : List α} (g : Grid xp) (x : α) (k : ℕ)
    (h1 : getD0 xp 0 ≤ x) (h2 : x < getD0 xp (xp.length - 1)) (he : enclosing xp x = (k, k + 1)) :
    fracOf xp x = some ((x - getD0 xp k) / (getD0 xp (k + 1) - getD0 xp k)) := by
  simp only [fracOf, flip_ascending xp g.sorted, id, he]
  rw [if_neg (ne_of_lt h2), if_pos ⟨h1, h2⟩]

theorem fracOf_outside {xp : List α} (g : Grid xp) (x : α)
    (h : x < getD0 xp 0 ∨ getD0 xp (xp.length - 1) < x) : fracOf xp x = none := by
  have hfl := first_lt_last g
  simp only [fracOf, flip_ascending xp g.sorted, id]
  rcases h with h | h
  · rw [if_neg (by intro he; rw [he] at h; exact absurd hfl (not_lt.2 (le_of_lt h)))]
    rw [if_neg (by intro hh; exact absurd hh.1 (not_le.2 h))]
  · rw [if_neg (ne_of_gt h)]
    rw [if_neg (by intro hh; exact absurd hh.2 (not_lt.2 (le_of_lt h)))]

theorem fracOf_right_end {xp : List α} (g : Grid xp) :
    fracOf xp (getD0 xp (xp.length - 1)) = some 0 := by
  simp only [fracOf, flip_ascending xp g.sorted, id, if_true]

theorem enclosing_right_end {xp : List α} (g : Grid xp) :
    enclosing xp (getD0 xp (xp.length - 1)) = (xp.length - 1, xp.length - 1) := by
  obtain ⟨s1, s2⟩ := countLE_spec xp (getD0 xp (xp.length - 1)) g.sorted
  have hn := g.two
  have hc : countLE xp (getD0 xp (xp.length - 1)) = xp.length := by
    by_contra hne
    have hle := countLE_le_length xp (getD0 xp (xp.length - 1))
    have := s2 (xp.length - 1) (by omega) (by omega)
    exact lt_irrefl _ this
  simp only [enclosing, flip_ascending xp g.sorted, id, hc]
  congr 1 <;> omega

end Osu.Interp
