import OsuProofs.EstRotation
import OsuProofs.RotationDir

/-! The damped Newton iteration of MEM2 is rotation-equivariant (C06), given an equivariant
Newton step. -/
namespace Osu.Est

open Real Finset

/-! ### `rotLam` as a linear isometry of 4-vectors -/

theorem rotLam_length (φ : ℝ) (v : List ℝ) : (rotLam φ v).length = 4 := rfl

theorem norm2_rotLam (φ : ℝ) (v : List ℝ) (hv : v.length = 4) : norm2 (rotLam φ v) = norm2 v := by
  match v, hv with
  | [a, b, c, d], _ =>
    simp only [norm2, rotLam, List.getD_cons_zero, List.getD_cons_succ, List.map_cons, List.map_nil, lsum]
    congr 1
    have h1 := Real.cos_sq_add_sin_sq φ
    have h2 := Real.cos_sq_add_sin_sq (2 * φ)
    nlinarith [h1, h2]

theorem rotLam_vadd_vscale (φ t : ℝ) (a b : List ℝ) (ha : a.length = 4) (hb : b.length = 4) :
    rotLam φ (vadd a (vscale t b)) = vadd (rotLam φ a) (vscale t (rotLam φ b)) := by
  match a, ha, b, hb with
  | [a0, a1, a2, a3], _, [b0, b1, b2, b3], _ =>
    simp only [rotLam, vadd, vscale, List.map_cons, List.map_nil, List.zipWith_cons_cons, List.zipWith_nil_right,
      List.getD_cons_zero, List.getD_cons_succ]
    congr 1 <;> [ring; skip]
    congr 1 <;> [ring; skip]
    congr 1 <;> [ring; skip]
    congr 1
    ring

theorem rotLam_neg (φ : ℝ) (f : List ℝ) (hf : f.length = 4) :
    rotLam φ (f.map fun x => -x) = (rotLam φ f).map fun x => -x := by
  match f, hf with
  | [a, b, c, d], _ =>
    simp only [rotLam, List.map_cons, List.map_nil, List.getD_cons_zero, List.getD_cons_succ]
    congr 1 <;> [ring; skip]
    congr 1 <;> [ring; skip]
    congr 1 <;> [ring; skip]
    congr 1
    ring

theorem vadd_length (a b : List ℝ) (ha : a.length = 4) (hb : b.length = 4) : (vadd a (vscale 1 b)).length = 4 := by
  simp [vadd, vscale, ha, hb]

/-! ### the reconstructed moments rotate with the multipliers -/

theorem recon_bridge {N : ℕ} (lam : List ℝ) (Δ : ℝ) (cols : Fin N → List ℝ) (m : ℕ) :
    recon lam (List.ofFn fun _ : Fin N => Δ) (List.ofFn cols) m
      = ∑ j, (cols j).getD m 0 * distF (fun j => ipOf lam (cols j)) Δ j * Δ := by
  simp only [recon]
  rw [dist_bridge]
  have hz : (List.ofFn (distF (fun j => ipOf lam (cols j)) Δ)).zip (List.ofFn fun _ : Fin N => Δ)
      = List.ofFn (fun j => (distF (fun j => ipOf lam (cols j)) Δ j, Δ)) := by
    rw [List.zip_eq_zipWith]
    exact Osu.Rot.zipWith_ofFn _ _ _
  rw [hz, Osu.Rot.zipWith_ofFn, est_lsum_ofFn]

variable {N : ℕ} [NeZero N]

/-- direction `j` of the uniform grid, in radians -/
noncomputable def thetaR (θ0 : ℝ) (j : Fin N) : ℝ := Osu.Rot.theta θ0 j * π / 180

/-- the rotation angle of `k` bins, in radians -/
noncomputable def phiR (k : Fin N) : ℝ := (k : ℕ) * Osu.Rot.dθ N * π / 180

theorem thetaR_add (θ0 : ℝ) (j k : Fin N) : ∃ q : ℕ, thetaR θ0 (j + k) = thetaR θ0 j + phiR k - q * (2 * π) := by
  obtain ⟨q, hq⟩ := Osu.Rot.theta_add θ0 j k
  refine ⟨q, ?_⟩
  simp only [thetaR, phiR, hq]; ring

/-- moments of a distribution `D` on the grid (harmonics 1 and 2) -/
noncomputable def gridMoment (θ0 Δ : ℝ) (D : Fin N → ℝ) (m : ℕ) : ℝ :=
  ∑ j, (twiddleCol (thetaR θ0 j)).getD m 0 * D j * Δ

theorem gridMoment_rot (θ0 Δ : ℝ) (k : Fin N) (D : Fin N → ℝ) :
    [gridMoment θ0 Δ (Osu.Rot.rotE k D) 0, gridMoment θ0 Δ (Osu.Rot.rotE k D) 1,
     gridMoment θ0 Δ (Osu.Rot.rotE k D) 2, gridMoment θ0 Δ (Osu.Rot.rotE k D) 3]
    = rotLam (phiR k) [gridMoment θ0 Δ D 0, gridMoment θ0 Δ D 1, gridMoment θ0 Δ D 2, gridMoment θ0 Δ D 3] := by
  -- re-index each sum by j ↦ j + k and expand the angle sums
  have hre : ∀ m, gridMoment θ0 Δ (Osu.Rot.rotE k D) m = ∑ j, (twiddleCol (thetaR θ0 (j + k))).getD m 0 * D j * Δ := by
    intro m
    simp only [gridMoment, Osu.Rot.rotE]
    exact (Fintype.sum_equiv (Equiv.addRight k) (fun j => (twiddleCol (thetaR θ0 (j + k))).getD m 0 * D j * Δ)
      (fun j => (twiddleCol (thetaR θ0 j)).getD m 0 * D (j - k) * Δ) (fun j => by simp)).symm
  have hc : ∀ j : Fin N, Real.cos (thetaR θ0 (j + k)) = Real.cos (thetaR θ0 j) * Real.cos (phiR k) - Real.sin (thetaR θ0 j) * Real.sin (phiR k) := by
    intro j; obtain ⟨q, hq⟩ := thetaR_add θ0 j k
    rw [hq, Real.cos_sub_nat_mul_two_pi, Real.cos_add]
  have hs : ∀ j : Fin N, Real.sin (thetaR θ0 (j + k)) = Real.sin (thetaR θ0 j) * Real.cos (phiR k) + Real.cos (thetaR θ0 j) * Real.sin (phiR k) := by
    intro j; obtain ⟨q, hq⟩ := thetaR_add θ0 j k
    rw [hq, Real.sin_sub_nat_mul_two_pi, Real.sin_add]
  have hc2 : ∀ j : Fin N, Real.cos (2 * thetaR θ0 (j + k)) = Real.cos (2 * thetaR θ0 j) * Real.cos (2 * phiR k) - Real.sin (2 * thetaR θ0 j) * Real.sin (2 * phiR k) := by
    intro j; obtain ⟨q, hq⟩ := thetaR_add θ0 j k
    rw [hq, show 2 * (thetaR θ0 j + phiR k - ↑q * (2 * π)) = (2 * thetaR θ0 j + 2 * phiR k) - ((2 * q : ℕ) : ℝ) * (2 * π) by push_cast; ring,
      Real.cos_sub_nat_mul_two_pi, Real.cos_add]
  have hs2 : ∀ j : Fin N, Real.sin (2 * thetaR θ0 (j + k)) = Real.sin (2 * thetaR θ0 j) * Real.cos (2 * phiR k) + Real.cos (2 * thetaR θ0 j) * Real.sin (2 * phiR k) := by
    intro j; obtain ⟨q, hq⟩ := thetaR_add θ0 j k
    rw [hq, show 2 * (thetaR θ0 j + phiR k - ↑q * (2 * π)) = (2 * thetaR θ0 j + 2 * phiR k) - ((2 * q : ℕ) : ℝ) * (2 * π) by push_cast; ring,
      Real.sin_sub_nat_mul_two_pi, Real.sin_add]
  simp only [hre, rotLam, List.getD_cons_zero, List.getD_cons_succ]
  simp only [gridMoment, twiddleCol, List.getD_cons_zero, List.getD_cons_succ, hc, hs, hc2, hs2]
  congr 1
  · simp only [Finset.sum_mul, ← Finset.sum_sub_distrib]; apply Finset.sum_congr rfl; intro j _; ring
  congr 1
  · simp only [Finset.sum_mul, ← Finset.sum_add_distrib]; apply Finset.sum_congr rfl; intro j _; ring
  congr 1
  · simp only [Finset.sum_mul, ← Finset.sum_sub_distrib]; apply Finset.sum_congr rfl; intro j _; ring
  congr 1
  · simp only [Finset.sum_mul, ← Finset.sum_add_distrib]; apply Finset.sum_congr rfl; intro j _; ring

/-- the twiddle table and increments of the uniform grid, as the model takes them -/
noncomputable def gridT (θ0 : ℝ) : List (List ℝ) := List.ofFn fun j : Fin N => twiddleCol (thetaR θ0 j)
noncomputable def gridDelta (N : ℕ) (Δ : ℝ) : List ℝ := List.ofFn fun _ : Fin N => Δ

theorem recon_grid (θ0 Δ : ℝ) (lam : List ℝ) (m : ℕ) :
    recon lam (gridDelta N Δ) (gridT (N := N) θ0) m
      = gridMoment θ0 Δ (distF (fun j : Fin N => ipOf lam (twiddleCol (thetaR θ0 j))) Δ) m := by
  simp only [gridDelta, gridT, recon_bridge, gridMoment]

/-- the reconstructed moments of rotated multipliers are the rotated reconstructed moments -/
theorem recon_rot (θ0 Δ : ℝ) (k : Fin N) (lam : List ℝ) :
    [recon (rotLam (phiR k) lam) (gridDelta N Δ) (gridT (N := N) θ0) 0, recon (rotLam (phiR k) lam) (gridDelta N Δ) (gridT (N := N) θ0) 1,
     recon (rotLam (phiR k) lam) (gridDelta N Δ) (gridT (N := N) θ0) 2, recon (rotLam (phiR k) lam) (gridDelta N Δ) (gridT (N := N) θ0) 3]
    = rotLam (phiR k) [recon lam (gridDelta N Δ) (gridT (N := N) θ0) 0, recon lam (gridDelta N Δ) (gridT (N := N) θ0) 1,
        recon lam (gridDelta N Δ) (gridT (N := N) θ0) 2, recon lam (gridDelta N Δ) (gridT (N := N) θ0) 3] := by
  simp only [recon_grid]
  have hD : distF (fun j : Fin N => ipOf (rotLam (phiR k) lam) (twiddleCol (thetaR θ0 j))) Δ
      = Osu.Rot.rotE k (distF (fun j : Fin N => ipOf lam (twiddleCol (thetaR θ0 j))) Δ) := by
    have := exponents_rot θ0 k lam
    simp only [thetaR, phiR]
    rw [this, distF_rot]
  rw [hD]
  exact gridMoment_rot θ0 Δ k _

/-- the constraint function is equivariant: `F(Rλ; RM) = R F(λ; M)` -/
theorem constraints_rot (θ0 Δ : ℝ) (k : Fin N) (lam M : List ℝ) (hM : M.length = 4) :
    constraints (rotLam (phiR k) lam) (rotLam (phiR k) M) (gridDelta N Δ) (gridT (N := N) θ0)
      = rotLam (phiR k) (constraints lam M (gridDelta N Δ) (gridT (N := N) θ0)) := by
  have hr := recon_rot θ0 Δ k lam
  simp only [rotLam, List.getD_cons_zero, List.getD_cons_succ, List.cons.injEq, and_true] at hr
  obtain ⟨h0, h1, h2, h3⟩ := hr
  match M, hM with
  | [m0, m1, m2, m3], _ =>
    rw [constraints_eq, constraints_eq]
    simp only [List.range, List.range.loop, List.map_cons, List.map_nil, rotLam, List.getD_cons_zero, List.getD_cons_succ]
    rw [h0, h1, h2, h3]
    congr 1 <;> [ring; skip]
    congr 1 <;> [ring; skip]
    congr 1 <;> [ring; skip]
    congr 1
    ring

theorem constraints_length (lam M delta : List ℝ) (T : List (List ℝ)) : (constraints lam M delta T).length = 4 := by
  simp [constraints_eq]

/-! ### line search and Newton loop -/

theorem vadd_vscale_length (a b : List ℝ) (t : ℝ) (ha : a.length = 4) (hb : b.length = 4) :
    (vadd a (vscale t b)).length = 4 := by simp [vadd, vscale, ha, hb]

theorem lineSearch_lengths (M delta : List ℝ) (T : List (List ℝ)) (cur upd : List ℝ) (mc mu mf : ℝ)
    (hc : cur.length = 4) (hu : upd.length = 4) (depth : ℕ) (factor : ℝ) (next nf : List ℝ)
    (h : lineSearch M delta T cur upd mc mu mf depth factor = some (next, nf)) :
    next.length = 4 ∧ nf.length = 4 := by
  induction depth generalizing factor with
  | zero => simp [lineSearch] at h
  | succ d ih =>
    simp only [lineSearch] at h
    split at h
    · simp only [Option.some.injEq, Prod.mk.injEq] at h
      obtain ⟨rfl, rfl⟩ := h
      exact ⟨vadd_vscale_length _ _ _ hc hu, constraints_length _ _ _ _⟩
    · exact ih _ h

/-- the line search of rotated data makes the same decisions and returns the rotated iterate -/
theorem lineSearch_rot (θ0 Δ : ℝ) (k : Fin N) (M cur upd : List ℝ) (mc mu mf : ℝ)
    (hM : M.length = 4) (hc : cur.length = 4) (hu : upd.length = 4) (depth : ℕ) (factor : ℝ) :
    lineSearch (rotLam (phiR k) M) (gridDelta N Δ) (gridT (N := N) θ0) (rotLam (phiR k) cur) (rotLam (phiR k) upd) mc mu mf depth factor
      = (lineSearch M (gridDelta N Δ) (gridT (N := N) θ0) cur upd mc mu mf depth factor).map
          fun p => (rotLam (phiR k) p.1, rotLam (phiR k) p.2) := by
  induction depth generalizing factor with
  | zero => simp [lineSearch]
  | succ d ih =>
    simp only [lineSearch]
    rw [← rotLam_vadd_vscale _ _ _ _ hc hu, constraints_rot θ0 Δ k _ M hM,
      norm2_rotLam _ _ (constraints_length _ _ _ _)]
    split
    · simp
    · exact ih _

/-- the Newton step (Jacobian + linear solve) is equivariant — for an exact solve this follows from
`J(Rλ) = R J(λ) Rᵀ`; stated as a hypothesis on `solve` -/
def StepEquivariant (solve : List (List ℝ) → List ℝ → List ℝ) (θ0 Δ : ℝ) (k : Fin N) : Prop :=
  (∀ lam g : List ℝ, lam.length = 4 → g.length = 4 →
    solve (jacobian (rotLam (phiR k) lam) (gridDelta N Δ) (gridT (N := N) θ0)) (rotLam (phiR k) g)
      = rotLam (phiR k) (solve (jacobian lam (gridDelta N Δ) (gridT (N := N) θ0)) g)) ∧
  (∀ J g, (solve J g).length = 4)

theorem newtonLoop_rot (solve : List (List ℝ) → List ℝ → List ℝ) (atol : ℝ) (lsDepth : ℕ) (θ0 Δ : ℝ) (k : Fin N)
    (hS : StepEquivariant solve θ0 Δ k) (M : List ℝ) (hM : M.length = 4) (fuel it : ℕ) (cur f : List ℝ)
    (hc : cur.length = 4) (hf : f.length = 4) :
    let r := newtonLoop solve atol lsDepth M (gridDelta N Δ) (gridT (N := N) θ0) fuel it cur f
    let r' := newtonLoop solve atol lsDepth (rotLam (phiR k) M) (gridDelta N Δ) (gridT (N := N) θ0) fuel it
      (rotLam (phiR k) cur) (rotLam (phiR k) f)
    r'.lam = rotLam (phiR k) r.lam ∧ r'.converged = r.converged ∧ r'.iterations = r.iterations := by
  induction fuel generalizing it cur f with
  | zero => simp [newtonLoop]
  | succ n ih =>
    simp only [newtonLoop]
    rw [norm2_rotLam _ f hf, norm2_rotLam _ cur hc]
    split
    · exact ⟨rfl, rfl, rfl⟩
    · have hneg : (f.map fun x => -x).length = 4 := by simpa using hf
      rw [← rotLam_neg _ f hf, hS.1 cur _ hc hneg, norm2_rotLam _ _ (hS.2 _ _),
        lineSearch_rot θ0 Δ k M cur _ _ _ _ hM hc (hS.2 _ _)]
      cases hls : lineSearch M (gridDelta N Δ) (gridT (N := N) θ0) cur
          (solve (jacobian cur (gridDelta N Δ) (gridT (N := N) θ0)) (f.map fun x => -x))
          (norm2 cur) (norm2 (solve (jacobian cur (gridDelta N Δ) (gridT (N := N) θ0)) (f.map fun x => -x))) (norm2 f) lsDepth 1 with
      | none => exact ⟨rfl, rfl, rfl⟩
      | some p =>
        obtain ⟨next, nf⟩ := p
        obtain ⟨l1, l2⟩ := lineSearch_lengths _ _ _ _ _ _ _ _ hc (hS.2 _ _) _ _ _ _ hls
        simp only [Option.map_some]
        exact ih (it + 1) next nf l1 l2

/-- the distribution of rotated multipliers on the grid (list form) -/
theorem dist_grid_rot (θ0 Δ : ℝ) (k : Fin N) (lam : List ℝ) :
    dist lam (gridDelta N Δ) (gridT (N := N) θ0) = List.ofFn (distF (fun j : Fin N => ipOf lam (twiddleCol (thetaR θ0 j))) Δ) ∧
    dist (rotLam (phiR k) lam) (gridDelta N Δ) (gridT (N := N) θ0)
      = List.ofFn (Osu.Rot.rotE k (distF (fun j : Fin N => ipOf lam (twiddleCol (thetaR θ0 j))) Δ)) := by
  simp only [gridDelta, gridT, dist_bridge]
  refine ⟨trivial, ?_⟩
  have := exponents_rot θ0 k lam
  simp only [thetaR, phiR]
  rw [this, distF_rot]

/-- **MEM2 / Newton rotates with its input**: on every uniform grid, for every rotation by `k` bins,
every tolerance, iteration cap and line-search depth, and every equivariant Newton step, the
distribution returned for the rotated moments is the distribution returned for the original
moments rotated by `k` bins — whether or not the iteration converged -/
theorem mem2Newton_rot (solve : List (List ℝ) → List ℝ → List ℝ) (atol : ℝ) (maxIter lsDepth : ℕ) (θ0 Δ : ℝ) (k : Fin N)
    (hS : StepEquivariant solve θ0 Δ k) (a1 b1 a2 b2 : ℝ) :
    ∃ D : Fin N → ℝ,
      mem2Newton solve atol maxIter lsDepth [a1, b1, a2, b2] (gridDelta N Δ) (gridT (N := N) θ0) = List.ofFn D ∧
      mem2Newton solve atol maxIter lsDepth (rotLam (phiR k) [a1, b1, a2, b2]) (gridDelta N Δ) (gridT (N := N) θ0)
        = List.ofFn (Osu.Rot.rotE k D) := by
  -- first guesses
  have hg : initialValue ((rotLam (phiR k) [a1, b1, a2, b2]).getD 0 0) ((rotLam (phiR k) [a1, b1, a2, b2]).getD 1 0)
      ((rotLam (phiR k) [a1, b1, a2, b2]).getD 2 0) ((rotLam (phiR k) [a1, b1, a2, b2]).getD 3 0)
      = rotLam (phiR k) (initialValue a1 b1 a2 b2) := by
    have := initialValue_rot (phiR k) a1 b1 a2 b2
    simpa [rotLam, rotMoments] using this
  have hlen : (initialValue a1 b1 a2 b2).length = 4 := rfl
  -- the Newton run
  have hrun := newtonLoop_rot solve atol lsDepth θ0 Δ k hS [a1, b1, a2, b2] rfl maxIter 0 (initialValue a1 b1 a2 b2)
    (constraints (initialValue a1 b1 a2 b2) [a1, b1, a2, b2] (gridDelta N Δ) (gridT (N := N) θ0)) hlen (constraints_length _ _ _ _)
  simp only at hrun
  rw [← constraints_rot θ0 Δ k _ _ rfl] at hrun
  obtain ⟨hlam, _, _⟩ := hrun
  refine ⟨distF (fun j : Fin N => ipOf (newton solve atol maxIter lsDepth [a1, b1, a2, b2] (gridDelta N Δ) (gridT (N := N) θ0)
      (initialValue a1 b1 a2 b2)).lam (twiddleCol (thetaR θ0 j))) Δ, ?_, ?_⟩
  · simp only [mem2Newton, List.getD_cons_zero, List.getD_cons_succ]
    exact (dist_grid_rot θ0 Δ k _).1
  · simp only [mem2Newton]
    rw [hg]
    have : (newton solve atol maxIter lsDepth (rotLam (phiR k) [a1, b1, a2, b2]) (gridDelta N Δ) (gridT (N := N) θ0)
        (rotLam (phiR k) (initialValue a1 b1 a2 b2))).lam
        = rotLam (phiR k) (newton solve atol maxIter lsDepth [a1, b1, a2, b2] (gridDelta N Δ) (gridT (N := N) θ0)
            (initialValue a1 b1 a2 b2)).lam := by
      simp only [newton]
      exact hlam
    rw [this]
    exact (dist_grid_rot θ0 Δ k _).2

end Osu.Est
