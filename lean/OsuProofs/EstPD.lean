import OsuProofs.EstPSD
import OsuProofs.NewtonRotation
import OsuProofs.Parseval

/-! The MEM2 Jacobian on a uniform grid with at least five directions is positive *definite* (C06). -/
namespace Osu.Est

open Real Finset

/-- a weighted sum of shifted squares is positive as soon as one record is off the shift -/
theorem wsum_sq_pos (g : List ℝ → ℝ) (c : ℝ) (lam : List ℝ) (recs : List (List ℝ × ℝ)) (h : ∀ r ∈ recs, 0 < r.2)
    (hex : ∃ r ∈ recs, g r.1 ≠ c) :
    0 < wsum (fun col => (g col - c) * (g col - c)) lam recs := by
  simp only [wsum]
  induction recs with
  | nil => obtain ⟨r, hr, _⟩ := hex; simp at hr
  | cons r recs ih =>
    simp only [List.map_cons, lsum]
    have h1 := h r List.mem_cons_self
    have h3 := Real.exp_pos (-(ipOf lam r.1))
    have hrest : 0 ≤ lsum (recs.map fun r => (g r.1 - c) * (g r.1 - c) * r.2 * Real.exp (-(ipOf lam r.1))) :=
      wsum_sq_nonneg g c lam recs (fun r' hr' => (h r' (List.mem_cons_of_mem _ hr')).le)
    by_cases hr : g r.1 = c
    · have h4 : (g r.1 - c) * (g r.1 - c) * r.2 * Real.exp (-(ipOf lam r.1)) = 0 := by rw [hr]; ring
      rw [h4, zero_add]
      apply ih (fun r' hr' => h r' (List.mem_cons_of_mem _ hr'))
      obtain ⟨r', hr', hne⟩ := hex
      rcases List.mem_cons.mp hr' with rfl | hmem
      · exact absurd hr hne
      · exact ⟨r', hmem, hne⟩
    · have h4 : 0 < (g r.1 - c) * (g r.1 - c) := mul_self_pos.2 (sub_ne_zero.2 hr)
      have : 0 < (g r.1 - c) * (g r.1 - c) * r.2 * Real.exp (-(ipOf lam r.1)) := by positivity
      linarith

/-- variance under positive weights is positive for a function that is not constant on the records -/
theorem variance_pos (g : List ℝ → ℝ) (lam : List ℝ) (recs : List (List ℝ × ℝ))
    (h : ∀ r ∈ recs, 0 < r.2) (hne : recs ≠ []) (hnc : ∀ c : ℝ, ∃ r ∈ recs, g r.1 ≠ c) :
    0 < wsum (fun col => g col * g col) lam recs / wsum (fun _ => 1) lam recs
        - (wsum g lam recs / wsum (fun _ => 1) lam recs) ^ 2 := by
  have hZ := wsum_pos lam recs h hne
  set Z := wsum (fun _ => 1) lam recs
  set A := wsum g lam recs
  have key := wsum_sq_pos g (A / Z) lam recs h (hnc (A / Z))
  have hexp : wsum (fun col => (g col - A / Z) * (g col - A / Z)) lam recs
      = wsum (fun col => g col * g col) lam recs - 2 * (A / Z) * A + (A / Z) ^ 2 * Z := by
    have : (fun col : List ℝ => (g col - A / Z) * (g col - A / Z))
        = fun col => (g col * g col + (-(2 * (A / Z))) * g col) + (A / Z) ^ 2 * 1 := by
      funext col; ring
    rw [this, wsum_add, wsum_add, wsum_smul, wsum_smul]
    ring
  rw [hexp] at key
  have hZ0 : Z ≠ 0 := ne_of_gt hZ
  have : wsum (fun col => g col * g col) lam recs / Z - (A / Z) ^ 2
      = (wsum (fun col => g col * g col) lam recs - 2 * (A / Z) * A + (A / Z) ^ 2 * Z) / Z := by
    field_simp; ring
  rw [this]
  exact div_pos key hZ


/-! ### `x·T(θ)` is not constant on five or more equally spaced directions -/

/-- the linear form of the four twiddle factors -/
def yForm (x0 x1 x2 x3 : ℝ) (col : List ℝ) : ℝ :=
  x0 * col.getD 0 0 + x1 * col.getD 1 0 + x2 * col.getD 2 0 + x3 * col.getD 3 0

theorem yForm_twiddle (x0 x1 x2 x3 θ : ℝ) :
    yForm x0 x1 x2 x3 (twiddleCol θ) = x0 * cos θ + x1 * sin θ + x2 * cos (2 * θ) + x3 * sin (2 * θ) := by
  simp [yForm, twiddleCol]

variable {N : ℕ} [NeZero N]

theorem thetaR_eq (θ0 : ℝ) (j : Fin N) : thetaR θ0 j = θ0 * π / 180 + 2 * π * (j : ℕ) / N := by
  have hN : (N : ℝ) ≠ 0 := Nat.cast_ne_zero.2 (NeZero.ne N)
  simp only [thetaR, Osu.Rot.theta, Osu.Rot.dθ]
  field_simp
  ring

/-- on the uniform grid `x·T` is the two-harmonic signal of `Parseval.lean` -/
theorem yForm_is_signal (θ0 x0 x1 x2 x3 : ℝ) (t : ℕ) (ht : t < N) :
    yForm x0 x1 x2 x3 (twiddleCol (thetaR θ0 (⟨t, ht⟩ : Fin N)))
      = Osu.Parseval.signal N 2 0
          (fun k => if k = 1 then (x0 * cos (θ0 * π / 180) + x1 * sin (θ0 * π / 180)) / 2
                    else (x2 * cos (2 * (θ0 * π / 180)) + x3 * sin (2 * (θ0 * π / 180))) / 2)
          (fun k => if k = 1 then (x0 * sin (θ0 * π / 180) - x1 * cos (θ0 * π / 180)) / 2
                    else (x2 * sin (2 * (θ0 * π / 180)) - x3 * cos (2 * (θ0 * π / 180))) / 2) t := by
  rw [yForm_twiddle, thetaR_eq]
  simp only [Osu.Parseval.signal, Osu.Parseval.harm, Finset.sum_range_succ, Finset.sum_range_zero, zero_add]
  norm_num
  have h1 : θ0 * π / 180 + 2 * π * (t : ℝ) / N = θ0 * π / 180 + 2 * π * t / N := rfl
  have e2 : 2 * (θ0 * π / 180 + 2 * π * (t : ℝ) / N) = 2 * (θ0 * π / 180) + 2 * π * 2 * t / N := by ring
  rw [e2, Real.cos_add, Real.sin_add, Real.cos_add, Real.sin_add]
  ring


/-- **trigonometric independence on the grid**: with at least five equally spaced directions
`x₀ cos θ + x₁ sin θ + x₂ cos 2θ + x₃ sin 2θ` cannot take the same value at every direction unless
`x = 0` (its sample variance over the grid is `(x₀² + x₁² + x₂² + x₃²)/2` — discrete Parseval) -/
theorem yForm_not_constant (hN : 5 ≤ N) (θ0 x0 x1 x2 x3 : ℝ) (hx : x0 ≠ 0 ∨ x1 ≠ 0 ∨ x2 ≠ 0 ∨ x3 ≠ 0) (c : ℝ) :
    ∃ j : Fin N, yForm x0 x1 x2 x3 (twiddleCol (thetaR θ0 j)) ≠ c := by
  by_contra hcon
  push_neg at hcon
  set p : ℕ → ℝ := fun k => if k = 1 then (x0 * cos (θ0 * π / 180) + x1 * sin (θ0 * π / 180)) / 2
                    else (x2 * cos (2 * (θ0 * π / 180)) + x3 * sin (2 * (θ0 * π / 180))) / 2 with hp
  set q : ℕ → ℝ := fun k => if k = 1 then (x0 * sin (θ0 * π / 180) - x1 * cos (θ0 * π / 180)) / 2
                    else (x2 * sin (2 * (θ0 * π / 180)) - x3 * cos (2 * (θ0 * π / 180))) / 2 with hq
  have hs : ∀ t ∈ Finset.range N, Osu.Parseval.signal N 2 0 p q t = c := by
    intro t ht
    have ht' := Finset.mem_range.1 ht
    rw [← yForm_is_signal θ0 x0 x1 x2 x3 t ht']
    exact hcon ⟨t, ht'⟩
  have hvar := Osu.Parseval.signal_variance N 2 0 p q (by omega)
  have hN0 : (N : ℝ) ≠ 0 := Nat.cast_ne_zero.2 (NeZero.ne N)
  rw [Finset.sum_congr rfl (fun t ht => by rw [hs t ht]), Finset.sum_congr rfl (fun t ht => hs t ht)] at hvar
  simp only [Finset.sum_const, Finset.card_range, nsmul_eq_mul, Finset.sum_range_succ, Finset.sum_range_zero, zero_add] at hvar
  have h0 : (N : ℝ) * c ^ 2 / N - ((N : ℝ) * c / N) ^ 2 = 0 := by field_simp; ring
  rw [h0] at hvar
  have hp1 : p (0 + 1) = (x0 * cos (θ0 * π / 180) + x1 * sin (θ0 * π / 180)) / 2 := by simp [hp]
  have hq1 : q (0 + 1) = (x0 * sin (θ0 * π / 180) - x1 * cos (θ0 * π / 180)) / 2 := by simp [hq]
  have hp2 : p (1 + 1) = (x2 * cos (2 * (θ0 * π / 180)) + x3 * sin (2 * (θ0 * π / 180))) / 2 := by simp [hp]
  have hq2 : q (1 + 1) = (x2 * sin (2 * (θ0 * π / 180)) - x3 * cos (2 * (θ0 * π / 180))) / 2 := by simp [hq]
  rw [hp1, hq1, hp2, hq2] at hvar
  have c1 := Real.cos_sq_add_sin_sq (θ0 * π / 180)
  have c2 := Real.cos_sq_add_sin_sq (2 * (θ0 * π / 180))
  generalize cos (θ0 * π / 180) = ca at hvar c1
  generalize sin (θ0 * π / 180) = sa at hvar c1
  generalize cos (2 * (θ0 * π / 180)) = cb at hvar c2
  generalize sin (2 * (θ0 * π / 180)) = sb at hvar c2
  have hsum : x0 ^ 2 + x1 ^ 2 + x2 ^ 2 + x3 ^ 2 = 0 := by
    linear_combination (-2) * hvar + (-(x0 ^ 2 + x1 ^ 2)) * c1 + (-(x2 ^ 2 + x3 ^ 2)) * c2
  have s0 := sq_nonneg x0
  have s1 := sq_nonneg x1
  have s2 := sq_nonneg x2
  have s3 := sq_nonneg x3
  have this : x0 = 0 ∧ x1 = 0 ∧ x2 = 0 ∧ x3 = 0 :=
    ⟨pow_eq_zero_iff (two_ne_zero) |>.1 (by linarith), pow_eq_zero_iff (two_ne_zero) |>.1 (by linarith),
     pow_eq_zero_iff (two_ne_zero) |>.1 (by linarith), pow_eq_zero_iff (two_ne_zero) |>.1 (by linarith)⟩
  rcases hx with h | h | h | h
  · exact h this.1
  · exact h this.2.1
  · exact h this.2.2.1
  · exact h this.2.2.2

end Osu.Est
