import OsuProofs.RotationField

/-! Whole-field rotation of the ST4 dissipation (band saturation, saturation term, cumulative term)
for the list model on a uniform direction grid (C09). -/
namespace Osu.Rot

open Real Finset Osu.ST

variable {N : ℕ} [NeZero N]

/-! ### generic row-wise lemmas -/

theorem zipWith_field {β : Type} (G : List ℝ → β → List ℝ) (F : (Fin N → ℝ) → β → (Fin N → ℝ))
    (h : ∀ r b, G (List.ofFn r) b = List.ofFn (F r b)) (rows : List (Fin N → ℝ)) (bs : List β) :
    List.zipWith G (fieldOf rows) bs = fieldOf (List.zipWith F rows bs) := by
  simp only [fieldOf]
  induction rows generalizing bs with
  | nil => simp
  | cons r rows ih =>
    cases bs with
    | nil => simp
    | cons b bs => simp only [List.map_cons, List.zipWith_cons_cons, ih bs, h]

theorem zipWith_rotField {β : Type} (F F' : (Fin N → ℝ) → β → (Fin N → ℝ)) (k : Fin N)
    (h : ∀ r b, F' (rotE k r) b = rotE k (F r b)) (rows : List (Fin N → ℝ)) (bs : List β) :
    List.zipWith F' (rotField k rows) bs = rotField k (List.zipWith F rows bs) := by
  simp only [rotField]
  induction rows generalizing bs with
  | nil => simp
  | cons r rows ih =>
    cases bs with
    | nil => simp
    | cons b bs => simp only [List.map_cons, List.zipWith_cons_cons, ih bs, h]

theorem zipWith2_field {β : Type} (G : List ℝ × List ℝ → β → List ℝ)
    (F : (Fin N → ℝ) × (Fin N → ℝ) → β → (Fin N → ℝ))
    (h : ∀ r1 r2 b, G (List.ofFn r1, List.ofFn r2) b = List.ofFn (F (r1, r2) b))
    (R1 R2 : List (Fin N → ℝ)) (bs : List β) :
    List.zipWith G ((fieldOf R1).zip (fieldOf R2)) bs = fieldOf (List.zipWith F (R1.zip R2) bs) := by
  simp only [fieldOf]
  induction R1 generalizing R2 bs with
  | nil => simp
  | cons r R1 ih =>
    cases R2 with
    | nil => simp
    | cons r2 R2 =>
      cases bs with
      | nil => simp
      | cons b bs => simp only [List.map_cons, List.zip_cons_cons, List.zipWith_cons_cons, ih R2 bs, h]

theorem zipWith2_rotField {β : Type} (F F' : (Fin N → ℝ) × (Fin N → ℝ) → β → (Fin N → ℝ)) (k : Fin N)
    (h : ∀ r1 r2 b, F' (rotE k r1, rotE k r2) b = rotE k (F (r1, r2) b))
    (R1 R2 : List (Fin N → ℝ)) (bs : List β) :
    List.zipWith F' ((rotField k R1).zip (rotField k R2)) bs = rotField k (List.zipWith F (R1.zip R2) bs) := by
  simp only [rotField]
  induction R1 generalizing R2 bs with
  | nil => simp
  | cons r R1 ih =>
    cases R2 with
    | nil => simp
    | cons r2 R2 =>
      cases bs with
      | nil => simp
      | cons b bs => simp only [List.map_cons, List.zip_cons_cons, List.zipWith_cons_cons, ih R2 bs, h]

/-! ### the largest entry of a row does not depend on the order -/

theorem foldl_max_spec (as : List ℝ) (a : ℝ) :
    let m := as.foldl (fun m x => if m < x then x else m) a
    (m = a ∨ m ∈ as) ∧ a ≤ m ∧ ∀ x ∈ as, x ≤ m := by
  induction as generalizing a with
  | nil => simp
  | cons b bs ih =>
    simp only [List.foldl_cons]
    obtain ⟨h1, h2, h3⟩ := ih (if a < b then b else a)
    refine ⟨?_, ?_, ?_⟩
    · rcases h1 with h | h
      · by_cases hab : a < b
        · right; rw [h, if_pos hab]; exact List.mem_cons_self
        · left; rw [h, if_neg hab]
      · right; exact List.mem_cons_of_mem _ h
    · refine le_trans ?_ h2
      split
      · exact le_of_lt ‹_›
      · exact le_refl _
    · intro x hx
      rcases List.mem_cons.mp hx with h | h
      · subst h
        refine le_trans ?_ h2
        split
        · exact le_refl _
        · exact not_lt.mp ‹_›
      · exact h3 x h

theorem lmax_spec (l : List ℝ) (hl : l ≠ []) : lmax l ∈ l ∧ ∀ x ∈ l, x ≤ lmax l := by
  cases l with
  | nil => exact absurd rfl hl
  | cons a as =>
    obtain ⟨h1, h2, h3⟩ := foldl_max_spec as a
    simp only [lmax]
    refine ⟨?_, ?_⟩
    · rcases h1 with h | h
      · rw [h]; exact List.mem_cons_self
      · exact List.mem_cons_of_mem _ h
    · intro x hx
      rcases List.mem_cons.mp hx with h | h
      · subst h; exact h2
      · exact h3 x h

theorem ofFn_ne_nil (f : Fin N → ℝ) : List.ofFn f ≠ [] := by
  intro h
  have := congrArg List.length h
  simp at this
  exact NeZero.ne N this

theorem lmax_rot (k : Fin N) (b : Fin N → ℝ) : lmax (List.ofFn (rotE k b)) = lmax (List.ofFn b) := by
  obtain ⟨m1, l1⟩ := lmax_spec _ (ofFn_ne_nil (rotE k b))
  obtain ⟨m2, l2⟩ := lmax_spec _ (ofFn_ne_nil b)
  apply le_antisymm
  · apply l2
    obtain ⟨i, hi⟩ := (List.mem_ofFn' _ _).mp m1
    exact (List.mem_ofFn' _ _).mpr ⟨i - k, hi⟩
  · apply l1
    obtain ⟨i, hi⟩ := (List.mem_ofFn' _ _).mp m2
    exact (List.mem_ofFn' _ _).mpr ⟨i + k, by simpa [rotE] using hi⟩

theorem isoExceedance_rot (bp : BrkP ℝ) (k : Fin N) (b : Fin N → ℝ) :
    isoExceedance bp (List.ofFn (rotE k b)) = isoExceedance bp (List.ofFn b) := by
  simp only [isoExceedance, lmax_rot]


/-! ### band saturation -/

/-- the per-bin saturation `E·cg·k³/2/π` of a row -/
noncomputable def satOf (r : Fin N → ℝ) (ck : ℝ × ℝ) : Fin N → ℝ :=
  fun j => r j * ck.1 * (ck.2 * ck.2 * ck.2) / Solv.two / Transc.pi

/-- band-integrated saturation of all rows in function form -/
noncomputable def bandRows (bp : BrkP ℝ) (θ0 : ℝ) (kin : Kin ℝ) (rows : List (Fin N → ℝ)) : List (Fin N → ℝ) :=
  List.zipWith (fun r ck => bandRow bp θ0 (satOf r ck)) rows (kin.cg.zip kin.k)

theorem bandSaturation_field (bp : BrkP ℝ) (θ0 : ℝ) (om df : List ℝ) (kin : Kin ℝ) (rows : List (Fin N → ℝ)) :
    bandSaturation rfloor bp (uniformGrid (N := N) θ0 om df) kin (fieldOf rows) = fieldOf (bandRows bp θ0 kin rows) := by
  simp only [bandSaturation, bandRows]
  apply zipWith_field
  intro r ck
  exact band_row_bridge bp θ0 ck.1 ck.2 r om df

theorem bandRows_rot (bp : BrkP ℝ) (θ0 : ℝ) (kin : Kin ℝ) (rows : List (Fin N → ℝ)) (k : Fin N) :
    bandRows bp θ0 kin (rotField k rows) = rotField k (bandRows bp θ0 kin rows) := by
  simp only [bandRows]
  apply zipWith_rotField
  intro r ck
  have : satOf (rotE k r) ck = rotE k (satOf r ck) := rfl
  rw [this, bandRow_rot]

/-! ### saturation term -/

noncomputable def satRows (bp : BrkP ℝ) (om : List ℝ) (rows B : List (Fin N → ℝ)) : List (Fin N → ℝ) :=
  if ¬ (0 < bp.csat) then rows.map (fun _ _ => 0) else
  List.zipWith (fun (eb : (Fin N → ℝ) × (Fin N → ℝ)) (w : ℝ) =>
    fun j => satEntry bp w (isoExceedance bp (List.ofFn eb.2)) (eb.1 j) (eb.2 j)) (rows.zip B) om

theorem saturationBreaking_field (bp : BrkP ℝ) (θ0 : ℝ) (om df : List ℝ) (rows B : List (Fin N → ℝ)) :
    saturationBreaking bp (uniformGrid (N := N) θ0 om df) (fieldOf rows) (fieldOf B) = fieldOf (satRows bp om rows B) := by
  simp only [saturationBreaking, satRows]
  split
  · simp only [fieldOf, List.map_map]
    apply List.map_congr_left
    intro r _
    simp only [Function.comp, List.map_ofFn]
    rfl
  · simp only [uniformGrid]
    apply zipWith2_field
    intro r1 r2 w
    exact zipWith_ofFn _ r1 r2

theorem satRows_rot (bp : BrkP ℝ) (om : List ℝ) (rows B : List (Fin N → ℝ)) (k : Fin N) :
    satRows bp om (rotField k rows) (rotField k B) = rotField k (satRows bp om rows B) := by
  simp only [satRows]
  split
  · simp only [rotField, List.map_map]
    apply List.map_congr_left
    intro r _
    rfl
  · apply zipWith2_rotField
    intro r1 r2 w
    funext j
    simp only [isoExceedance_rot]
    rfl

/-! ### cumulative term -/

/-- weight of a longer-wave bin in the strength integral -/
noncomputable def cumWeight (jac : ℝ) (X : Fin N → ℝ) : Fin N → ℝ :=
  fun j => if X j ≤ 0 then 0 else X j * X j * jac

/-- the inner direction sum of the cumulative strength is `strengthRow` -/
theorem strength_inner_bridge (θ0 c c' df' jac : ℝ) (X : Fin N → ℝ) (j : Fin N) :
    lsum (List.zipWith (fun (t : ℝ) (td : ℝ × ℝ) =>
        if t ≤ 0 then 0 else
          let de := Transc.cos td.1 * c' - Transc.cos (deg2rad (theta θ0 j)) * c
          let dn := Transc.sin td.1 * c' - Transc.sin (deg2rad (theta θ0 j)) * c
          df' * td.2 * Transc.sqrt (de * de + dn * dn) * (t * t * jac))
      (List.ofFn X) ((List.ofFn fun j : Fin N => deg2rad (theta θ0 j)).zip (List.ofFn fun _ : Fin N => dθ N)))
      = strengthRow θ0 c c' (df' * dθ N) (cumWeight jac X) j := by
  rw [List.zip, zipWith_ofFn, zipWith_ofFn, st_lsum_ofFn]
  simp only [strengthRow, cumWeight]
  apply Finset.sum_congr rfl
  intro j' _
  split
  · simp
  · rfl

theorem cumulativeStrength_rot (bp : BrkP ℝ) (θ0 : ℝ) (om df : List ℝ) (kin : Kin ℝ) (T : List (Fin N → ℝ))
    (w c : ℝ) (k j : Fin N) :
    cumulativeStrength bp (uniformGrid (N := N) θ0 om df) kin (fieldOf (rotField k T)) w
        (Transc.cos (deg2rad (theta θ0 j)) * c) (Transc.sin (deg2rad (theta θ0 j)) * c)
      = cumulativeStrength bp (uniformGrid (N := N) θ0 om df) kin (fieldOf T) w
        (Transc.cos (deg2rad (theta θ0 (j - k))) * c) (Transc.sin (deg2rad (theta θ0 (j - k))) * c) := by
  simp only [cumulativeStrength, uniformGrid, fieldOf, rotField, List.map_map]
  generalize om.zip (kin.cg.zip (kin.c.zip df)) = M
  rw [List.zip_map_left, List.zip_map_left, List.takeWhile_map, List.takeWhile_map, List.map_map, List.map_map]
  congr 1
  apply List.map_congr_left
  intro r _
  simp only [Function.comp, Prod.map, id]
  rw [strength_inner_bridge, strength_inner_bridge]
  have : cumWeight (twoPi * (1 / r.2.2.1) * (Transc.pi / ((180 : ℕ) : ℝ))) (rotE k r.1)
      = rotE k (cumWeight (twoPi * (1 / r.2.2.1) * (Transc.pi / ((180 : ℕ) : ℝ))) r.1) := rfl
  rw [this, strengthRow_rot]
  rfl


/-- threshold exceedance `√B − √B_r` of the band saturation, row by row -/
noncomputable def excessRows (bp : BrkP ℝ) (B : List (Fin N → ℝ)) : List (Fin N → ℝ) :=
  B.map fun b j => Transc.sqrt (b j) - Transc.sqrt bp.threshold

theorem excessRows_rot (bp : BrkP ℝ) (B : List (Fin N → ℝ)) (k : Fin N) :
    excessRows bp (rotField k B) = rotField k (excessRows bp B) := by
  simp only [excessRows, rotField, List.map_map]
  apply List.map_congr_left
  intro b _
  rfl

noncomputable def cumRows (bp : BrkP ℝ) (θ0 : ℝ) (om df : List ℝ) (kin : Kin ℝ) (rows T : List (Fin N → ℝ)) :
    List (Fin N → ℝ) :=
  if ¬ (0 < bp.ccu) then rows.map (fun _ _ => 0) else
  List.zipWith (fun (r : Fin N → ℝ) (oc : ℝ × ℝ) => fun j =>
    cumEntry bp (cumulativeStrength bp (uniformGrid (N := N) θ0 om df) kin (fieldOf T) oc.1
      (Transc.cos (deg2rad (theta θ0 j)) * oc.2) (Transc.sin (deg2rad (theta θ0 j)) * oc.2)) (r j)) rows (om.zip kin.c)

theorem cumulativeBreaking_field (bp : BrkP ℝ) (θ0 : ℝ) (om df : List ℝ) (kin : Kin ℝ) (rows B : List (Fin N → ℝ)) :
    cumulativeBreaking bp (uniformGrid (N := N) θ0 om df) kin (fieldOf rows) (fieldOf B)
      = fieldOf (cumRows bp θ0 om df kin rows (excessRows bp B)) := by
  simp only [cumulativeBreaking, cumRows]
  split
  · simp only [fieldOf, List.map_map]
    apply List.map_congr_left
    intro r _
    simp only [Function.comp, List.map_ofFn]
    rfl
  · have hT : (fieldOf B).map (fun row => row.map fun b => Transc.sqrt b - Transc.sqrt bp.threshold)
        = fieldOf (excessRows bp B) := by
      simp only [fieldOf, excessRows, List.map_map]
      apply List.map_congr_left
      intro b _
      simp only [Function.comp, List.map_ofFn]
      rfl
    simp only [hT]
    apply zipWith_field
    intro r oc
    exact zipWith_ofFn _ r _

theorem cumRows_rot (bp : BrkP ℝ) (θ0 : ℝ) (om df : List ℝ) (kin : Kin ℝ) (rows T : List (Fin N → ℝ)) (k : Fin N) :
    cumRows bp θ0 om df kin (rotField k rows) (rotField k T) = rotField k (cumRows bp θ0 om df kin rows T) := by
  simp only [cumRows]
  split
  · simp only [rotField, List.map_map]
    apply List.map_congr_left
    intro r _
    rfl
  · apply zipWith_rotField
    intro r oc
    funext j
    simp only [cumulativeStrength_rot]
    rfl

/-! ### the sum of the two terms -/

theorem addFields_field (A B : List (Fin N → ℝ)) :
    addFields (fieldOf A) (fieldOf B) = fieldOf (List.zipWith (fun a b j => a j + b j) A B) := by
  simp only [addFields, fieldOf]
  induction A generalizing B with
  | nil => simp
  | cons a A ih =>
    cases B with
    | nil => simp
    | cons b B =>
      simp only [List.map_cons, List.zipWith_cons_cons, ih B]
      congr 1
      exact zipWith_ofFn _ a b

theorem addRows_rot (A B : List (Fin N → ℝ)) (k : Fin N) :
    List.zipWith (fun a b j => a j + b j) (rotField k A) (rotField k B)
      = rotField k (List.zipWith (fun a b j => a j + b j) A B) := by
  simp only [rotField]
  induction A generalizing B with
  | nil => simp
  | cons a A ih =>
    cases B with
    | nil => simp
    | cons b B =>
      simp only [List.map_cons, List.zipWith_cons_cons, ih B]
      rfl

/-- the ST4 dissipation of all rows in function form -/
noncomputable def st4DissRows (bp : BrkP ℝ) (θ0 : ℝ) (om df : List ℝ) (kin : Kin ℝ) (rows : List (Fin N → ℝ)) :
    List (Fin N → ℝ) :=
  List.zipWith (fun a b j => a j + b j)
    (cumRows bp θ0 om df kin rows (excessRows bp (bandRows bp θ0 kin rows)))
    (satRows bp om rows (bandRows bp θ0 kin rows))

theorem st4Dissipation_field (bp : BrkP ℝ) (θ0 : ℝ) (om df : List ℝ) (kin : Kin ℝ) (rows : List (Fin N → ℝ)) :
    st4Dissipation rfloor bp (uniformGrid (N := N) θ0 om df) kin (fieldOf rows)
      = fieldOf (st4DissRows bp θ0 om df kin rows) := by
  simp only [st4Dissipation, st4DissRows, bandSaturation_field, cumulativeBreaking_field,
    saturationBreaking_field, addFields_field]

/-- **ST4 dissipation, whole field**: band saturation, saturation term and cumulative term all
rotate with the spectrum, for every frequency grid, every kinematics table and parameter set -/
theorem st4DissRows_rot (bp : BrkP ℝ) (θ0 : ℝ) (om df : List ℝ) (kin : Kin ℝ) (rows : List (Fin N → ℝ)) (k : Fin N) :
    st4DissRows bp θ0 om df kin (rotField k rows) = rotField k (st4DissRows bp θ0 om df kin rows) := by
  simp only [st4DissRows, bandRows_rot, excessRows_rot, cumRows_rot, satRows_rot, addRows_rot]

end Osu.Rot
