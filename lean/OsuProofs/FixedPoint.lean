import OsuProofs.RealTransc
import OsuModel.Solvers
import Mathlib.Tactic.Linarith
import Mathlib.Data.List.Forall2

/-! `fixed_point_iteration`: a missing (NaN) element stays missing. -/
namespace Osu.Solv

variable {β : Type}

/-- an element whose three iterates are all NaN -/
def Dead (e : FPElem β ℝ) : Prop := e.x0 = none ∧ e.x1 = none ∧ e.x2 = none

theorem fpNext_dead (F : β → ℝ → ℝ) (cfg : FPConfig ℝ) (a : Bool) (e : FPElem β ℝ) (h : Dead e) :
    fpNext F cfg a e = none := by
  obtain ⟨h0, h1, h2⟩ := h
  simp [fpNext, h0]

theorem fpConverged_none_right (cfg : FPConfig ℝ) (p : Option ℝ) : fpConverged cfg p none = false := by
  cases p <;> simp [fpConverged]

theorem forall₂_map_left {γ δ ε : Type} (R : δ → ε → Prop) (g : γ → δ) (l : List γ) (m : List ε)
    (h : List.Forall₂ (fun a b => R (g a) b) l m) : List.Forall₂ R (l.map g) m := by
  induction h with
  | nil => exact List.Forall₂.nil
  | cons hab _ ih => exact List.Forall₂.cons hab ih

theorem forall₂_self_map {γ ε : Type} (R : γ → ε → Prop) (g : γ → ε) (l : List γ) (h : ∀ a ∈ l, R a (g a)) :
    List.Forall₂ R l (l.map g) := by
  induction l with
  | nil => exact List.Forall₂.nil
  | cons a l ih =>
    exact List.Forall₂.cons (h a List.mem_cons_self) (ih fun b hb => h b (List.mem_cons_of_mem _ hb))

/-- position by position: a dead element of the state gives `none` in the output -/
theorem fpLoop_dead (F : β → ℝ → ℝ) (cfg : FPConfig ℝ) (active fuel n : ℕ) (es : List (FPElem β ℝ)) :
    List.Forall₂ (fun e r => Dead e → r = none) es (fpLoop F cfg active fuel n es) := by
  induction fuel generalizing n es with
  | zero =>
    simp only [fpLoop]
    exact forall₂_self_map _ _ _ (fun _ _ _ => rfl)
  | succ k ih =>
    simp only [fpLoop]
    -- the stepped state: dead elements stay dead
    have hstep : ∀ e : FPElem β ℝ, Dead e →
        Dead ({ p := e.p, x0 := e.x1, x1 := e.x2, x2 := fpNext F cfg (cfg.aitken && n % 3 == 0) e } : FPElem β ℝ) := by
      intro e he
      exact ⟨he.2.1, he.2.2, fpNext_dead F cfg _ e he⟩
    split
    · rw [List.map_map]
      apply forall₂_self_map
      intro e _ he
      exact (hstep e he).2.2
    · split
      · simp only [fpMask, List.map_map]
        apply forall₂_self_map
        intro e _ he
        have hd : fpNext F cfg (cfg.aitken && n % 3 == 0) e = none := fpNext_dead F cfg _ e he
        simp only [Function.comp, hd, fpConverged_none_right]
        simp
      · have := ih (n + 1) (es.map fun e =>
          ({ p := e.p, x0 := e.x1, x1 := e.x2, x2 := fpNext F cfg (cfg.aitken && n % 3 == 0) e } : FPElem β ℝ))
        -- transfer along the map
        have h2 : List.Forall₂ (fun e r => Dead e → r = none) es
            (fpLoop F cfg active k (n + 1) (es.map fun e =>
              ({ p := e.p, x0 := e.x1, x1 := e.x2, x2 := fpNext F cfg (cfg.aitken && n % 3 == 0) e } : FPElem β ℝ))) := by
          generalize fpLoop F cfg active k (n + 1) _ = out at this
          clear ih
          rw [List.forall₂_map_left_iff] at this
          exact this.imp fun {e r} hab he => hab (hstep e he)
        exact h2

/-- `fixed_point_iteration`: a missing guess (a missing wind speed) gives a missing result, element by element -/
theorem fixedPoint_missing (F : β → ℝ → ℝ) (cfg : FPConfig ℝ) (guess : List (β × Option ℝ)) :
    List.Forall₂ (fun g r => g.2 = none → r = none) guess (fixedPoint F cfg guess) := by
  simp only [fixedPoint]
  have := fpLoop_dead F cfg (guess.filter fun g => g.2.isSome).length cfg.maxIter 1
    (guess.map fun g => ({ p := g.1, x0 := g.2, x1 := g.2, x2 := g.2 } : FPElem β ℝ))
  generalize fpLoop F cfg _ cfg.maxIter 1 _ = out at this
  rw [List.forall₂_map_left_iff] at this
  exact this.imp fun {g r} hab hg => hab ⟨hg, hg, hg⟩

end Osu.Solv
