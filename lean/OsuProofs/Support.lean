import OsuProofs.SourceTerms

/-! Positional support of a field: where the spectrum has no energy the source term is zero (C08).
Fields are lists of rows; an entry outside a list reads as `0`, a row outside the field as `[]`. -/
namespace Osu.ST

/-- entry `(i, j)` of a field -/
def entry (F : List (List ℝ)) (i j : ℕ) : ℝ := (F.getD i []).getD j 0

/-- `D` vanishes wherever `E` does -/
def Supp (E D : List (List ℝ)) : Prop := ∀ i j, entry E i j = 0 → entry D i j = 0

def SuppRow (row out : List ℝ) : Prop := ∀ j, row.getD j 0 = 0 → out.getD j 0 = 0

theorem suppRow_zipWith {γ : Type} (f : ℝ → γ → ℝ) (h0 : ∀ c, f 0 c = 0) (row : List ℝ) (cs : List γ) :
    SuppRow row (List.zipWith f row cs) := by
  intro j hj
  simp only [List.getD_eq_getElem?_getD, List.getElem?_zipWith] at hj ⊢
  cases hr : row[j]? with
  | none => simp
  | some e =>
    cases hc : cs[j]? with
    | none => simp
    | some c =>
      simp only [hr, Option.getD_some] at hj
      simp [hj, h0]

theorem suppRow_map (f : ℝ → ℝ) (h0 : f 0 = 0) (row : List ℝ) : SuppRow row (row.map f) := by
  intro j hj
  simp only [List.getD_eq_getElem?_getD, List.getElem?_map] at hj ⊢
  cases hr : row[j]? with
  | none => simp
  | some e =>
    simp only [hr, Option.getD_some] at hj
    simp [hj, h0]

theorem supp_zipWith {β : Type} (G : List ℝ → β → List ℝ) (h : ∀ row b, SuppRow row (G row b))
    (E : List (List ℝ)) (bs : List β) : Supp E (List.zipWith G E bs) := by
  intro i j hij
  simp only [entry, List.getD_eq_getElem?_getD, List.getElem?_zipWith] at hij ⊢
  cases hr : E[i]? with
  | none => simp
  | some row =>
    cases hb : bs[i]? with
    | none => simp
    | some b =>
      simp only [hr, Option.getD_some] at hij
      have := h row b j (by simpa [List.getD_eq_getElem?_getD] using hij)
      simpa [List.getD_eq_getElem?_getD] using this

theorem supp_zipWith_zip {β : Type} (G : List ℝ × List ℝ → β → List ℝ) (h : ∀ eb b, SuppRow eb.1 (G eb b))
    (E B : List (List ℝ)) (bs : List β) : Supp E (List.zipWith G (E.zip B) bs) := by
  intro i j hij
  simp only [entry, List.getD_eq_getElem?_getD, List.getElem?_zipWith, List.getElem?_zip_eq_some] at hij ⊢
  cases hr : E[i]? with
  | none => simp [List.zip, List.getElem?_zipWith, hr]
  | some row =>
    cases hB : B[i]? with
    | none => simp [List.zip, List.getElem?_zipWith, hr, hB]
    | some brow =>
      cases hb : bs[i]? with
      | none => simp
      | some b =>
        simp only [hr, Option.getD_some] at hij
        have := h (row, brow) b j (by simpa [List.getD_eq_getElem?_getD] using hij)
        simpa [List.zip, List.getElem?_zipWith, hr, hB, List.getD_eq_getElem?_getD] using this

theorem supp_map_zero (E : List (List ℝ)) : Supp E (E.map fun row => row.map fun _ => (0 : ℝ)) := by
  intro i j _
  simp only [entry, List.getD_eq_getElem?_getD, List.getElem?_map]
  cases E[i]? with
  | none => simp
  | some row =>
    simp only [Option.map_some, Option.getD_some, List.getElem?_map]
    cases row[j]? <;> simp

theorem supp_add (E A B : List (List ℝ)) (hA : Supp E A) (hB : Supp E B) : Supp E (addFields A B) := by
  intro i j hij
  have ha := hA i j hij
  have hb := hB i j hij
  simp only [entry, addFields, List.getD_eq_getElem?_getD, List.getElem?_zipWith] at ha hb ⊢
  cases hr : A[i]? with
  | none => simp
  | some ra =>
    cases hr2 : B[i]? with
    | none => simp
    | some rb =>
      simp only [hr, hr2, Option.getD_some] at ha hb
      simp only [Option.map_some, Option.bind_some, Option.getD_some, List.getElem?_zipWith]
      cases h1 : ra[j]? with
      | none => simp
      | some x =>
        cases h2 : rb[j]? with
        | none => simp
        | some y =>
          simp only [h1, h2, Option.getD_some] at ha hb
          simp [ha, hb]

end Osu.ST
