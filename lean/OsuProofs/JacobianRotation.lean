import OsuProofs.NewtonRotation
import Mathlib.Algebra.BigOperators.Intervals
import Mathlib.Tactic.IntervalCases

/-! The MEM2 Jacobian of rotated multipliers is `R J Rᵀ` (C06). -/
namespace Osu.Est

open Real Finset

variable {N : ℕ} [NeZero N]

/-- entries of the rotation `R` acting on 4-vectors of multipliers / moments -/
noncomputable def Rmat (φ : ℝ) (m a : ℕ) : ℝ :=
  match m, a with
  | 0, 0 => cos φ | 0, 1 => -sin φ
  | 1, 0 => sin φ | 1, 1 => cos φ
  | 2, 2 => cos (2 * φ) | 2, 3 => -sin (2 * φ)
  | 3, 2 => sin (2 * φ) | 3, 3 => cos (2 * φ)
  | _, _ => 0

/-- component `m` of the twiddle column of direction `θ` -/
noncomputable def tw (θ : ℝ) (m : ℕ) : ℝ := (twiddleCol θ).getD m 0

theorem tw_shift (θ0 : ℝ) (j k : Fin N) (m : ℕ) (hm : m < 4) :
    tw (thetaR θ0 (j + k)) m = ∑ a ∈ range 4, Rmat (phiR k) m a * tw (thetaR θ0 j) a := by
  obtain ⟨q, hq⟩ := thetaR_add θ0 j k
  have h2 : 2 * thetaR θ0 (j + k) = (2 * thetaR θ0 j + 2 * phiR k) - ((2 * q : ℕ) : ℝ) * (2 * π) := by
    rw [hq]; push_cast; ring
  have c1 : cos (thetaR θ0 (j + k)) = cos (thetaR θ0 j) * cos (phiR k) - sin (thetaR θ0 j) * sin (phiR k) := by
    rw [hq, Real.cos_sub_nat_mul_two_pi, Real.cos_add]
  have s1 : sin (thetaR θ0 (j + k)) = sin (thetaR θ0 j) * cos (phiR k) + cos (thetaR θ0 j) * sin (phiR k) := by
    rw [hq, Real.sin_sub_nat_mul_two_pi, Real.sin_add]
  have c2 : cos (2 * thetaR θ0 (j + k)) = cos (2 * thetaR θ0 j) * cos (2 * phiR k) - sin (2 * thetaR θ0 j) * sin (2 * phiR k) := by
    rw [h2, Real.cos_sub_nat_mul_two_pi, Real.cos_add]
  have s2 : sin (2 * thetaR θ0 (j + k)) = sin (2 * thetaR θ0 j) * cos (2 * phiR k) + cos (2 * thetaR θ0 j) * sin (2 * phiR k) := by
    rw [h2, Real.sin_sub_nat_mul_two_pi, Real.sin_add]
  simp only [Finset.sum_range_succ, Finset.sum_range_zero, zero_add]
  interval_cases m
  · simp only [tw, twiddleCol, Rmat, List.getD_cons_zero, List.getD_cons_succ]; rw [c1]; ring
  · simp only [tw, twiddleCol, Rmat, List.getD_cons_zero, List.getD_cons_succ]; rw [s1]; ring
  · simp only [tw, twiddleCol, Rmat, List.getD_cons_zero, List.getD_cons_succ]; rw [c2]; ring
  · simp only [tw, twiddleCol, Rmat, List.getD_cons_zero, List.getD_cons_succ]; rw [s2]; ring

/-- first and second moments of the twiddle factors under weights `w` on the grid -/
noncomputable def mom1 (θ0 : ℝ) (w : Fin N → ℝ) (m : ℕ) : ℝ := ∑ j, tw (thetaR θ0 j) m * w j
noncomputable def mom2 (θ0 : ℝ) (w : Fin N → ℝ) (m n : ℕ) : ℝ := ∑ j, tw (thetaR θ0 j) m * tw (thetaR θ0 j) n * w j

theorem mom1_rot (θ0 : ℝ) (k : Fin N) (w : Fin N → ℝ) (m : ℕ) (hm : m < 4) :
    mom1 θ0 (Osu.Rot.rotE k w) m = ∑ a ∈ range 4, Rmat (phiR k) m a * mom1 θ0 w a := by
  have hre : mom1 θ0 (Osu.Rot.rotE k w) m = ∑ j, tw (thetaR θ0 (j + k)) m * w j := by
    simp only [mom1, Osu.Rot.rotE]
    exact (Fintype.sum_equiv (Equiv.addRight k) (fun j => tw (thetaR θ0 (j + k)) m * w j)
      (fun j => tw (thetaR θ0 j) m * w (j - k)) (fun j => by simp)).symm
  rw [hre]
  simp only [tw_shift θ0 _ k m hm, mom1, Finset.sum_mul, Finset.mul_sum]
  rw [Finset.sum_comm]
  apply Finset.sum_congr rfl; intro a _
  apply Finset.sum_congr rfl; intro j _
  ring

theorem mom2_rot (θ0 : ℝ) (k : Fin N) (w : Fin N → ℝ) (m n : ℕ) (hm : m < 4) (hn : n < 4) :
    mom2 θ0 (Osu.Rot.rotE k w) m n
      = ∑ a ∈ range 4, ∑ b ∈ range 4, Rmat (phiR k) m a * Rmat (phiR k) n b * mom2 θ0 w a b := by
  have hre : mom2 θ0 (Osu.Rot.rotE k w) m n = ∑ j, tw (thetaR θ0 (j + k)) m * tw (thetaR θ0 (j + k)) n * w j := by
    simp only [mom2, Osu.Rot.rotE]
    exact (Fintype.sum_equiv (Equiv.addRight k) (fun j => tw (thetaR θ0 (j + k)) m * tw (thetaR θ0 (j + k)) n * w j)
      (fun j => tw (thetaR θ0 j) m * tw (thetaR θ0 j) n * w (j - k)) (fun j => by simp)).symm
  rw [hre]
  simp only [tw_shift θ0 _ k m hm, tw_shift θ0 _ k n hn, mom2]
  -- push everything into one triple sum
  have : ∀ j : Fin N, (∑ a ∈ range 4, Rmat (phiR k) m a * tw (thetaR θ0 j) a) * (∑ b ∈ range 4, Rmat (phiR k) n b * tw (thetaR θ0 j) b) * w j
      = ∑ a ∈ range 4, ∑ b ∈ range 4, Rmat (phiR k) m a * Rmat (phiR k) n b * (tw (thetaR θ0 j) a * tw (thetaR θ0 j) b * w j) := by
    intro j
    rw [Finset.sum_mul_sum, Finset.sum_mul]
    apply Finset.sum_congr rfl; intro a _
    rw [Finset.sum_mul]
    apply Finset.sum_congr rfl; intro b _
    ring
  simp only [this]
  rw [Finset.sum_comm]
  apply Finset.sum_congr rfl; intro a _
  rw [Finset.sum_comm]
  apply Finset.sum_congr rfl; intro b _
  rw [Finset.mul_sum]

/-- the weights `Δ exp(-λ·T)` of rotated multipliers are the rotated weights -/
theorem weights_rot (θ0 Δ : ℝ) (k : Fin N) (lam : List ℝ) :
    (fun j : Fin N => Δ * Real.exp (-(ipOf (rotLam (phiR k) lam) (twiddleCol (thetaR θ0 j)))))
      = Osu.Rot.rotE k (fun j : Fin N => Δ * Real.exp (-(ipOf lam (twiddleCol (thetaR θ0 j))))) := by
  have := exponents_rot θ0 k lam
  simp only [thetaR, phiR] at this ⊢
  funext j
  have hj := congrFun this j
  simp only [Osu.Rot.rotE] at hj ⊢
  rw [hj]

/-- the covariance (= Jacobian entry) in terms of grid moments -/
noncomputable def covF (θ0 : ℝ) (w : Fin N → ℝ) (m n : ℕ) : ℝ :=
  mom2 θ0 w m n / (∑ j, w j) - mom1 θ0 w m * mom1 θ0 w n / (∑ j, w j) ^ 2

/-- `wsum` on the grid as a sum over bins -/
theorem wsum_grid (g : List ℝ → ℝ) (θ0 Δ : ℝ) (lam : List ℝ) :
    wsum g lam ((gridT (N := N) θ0).zip (gridDelta N Δ))
      = ∑ j : Fin N, g (twiddleCol (thetaR θ0 j)) * (Δ * Real.exp (-(ipOf lam (twiddleCol (thetaR θ0 j))))) := by
  simp only [wsum, gridT, gridDelta]
  rw [List.zip_eq_zipWith, Osu.Rot.zipWith_ofFn, List.map_ofFn, est_lsum_ofFn]
  apply Finset.sum_congr rfl; intro j _
  simp only [Function.comp]; ring

theorem covEntry_grid (θ0 Δ : ℝ) (lam : List ℝ) (m n : ℕ) :
    covEntry lam ((gridT (N := N) θ0).zip (gridDelta N Δ)) m n
      = covF θ0 (fun j : Fin N => Δ * Real.exp (-(ipOf lam (twiddleCol (thetaR θ0 j))))) m n := by
  simp only [covEntry, wsum_grid, covF, mom1, mom2, tw, one_mul]

/-- **`J(Rλ) = R J(λ) Rᵀ`**: the Jacobian of rotated multipliers is the Jacobian conjugated by the rotation -/
theorem covEntry_rot (θ0 Δ : ℝ) (k : Fin N) (lam : List ℝ) (m n : ℕ) (hm : m < 4) (hn : n < 4) :
    covEntry (rotLam (phiR k) lam) ((gridT (N := N) θ0).zip (gridDelta N Δ)) m n
      = ∑ a ∈ range 4, ∑ b ∈ range 4, Rmat (phiR k) m a * Rmat (phiR k) n b *
          covEntry lam ((gridT (N := N) θ0).zip (gridDelta N Δ)) a b := by
  simp only [covEntry_grid]
  rw [weights_rot θ0 Δ k lam]
  set w := fun j : Fin N => Δ * Real.exp (-(ipOf lam (twiddleCol (thetaR θ0 j))))
  have hZ : ∑ j, Osu.Rot.rotE k w j = ∑ j, w j :=
    Fintype.sum_equiv (Equiv.subRight k) _ _ (fun j => by simp [Osu.Rot.rotE])
  simp only [covF, hZ, mom1_rot θ0 k w m hm, mom1_rot θ0 k w n hn, mom2_rot θ0 k w m n hm hn]
  set Z := ∑ j, w j
  -- both sides are finite sums over a, b ∈ range 4: expand and compare
  simp only [Finset.sum_range_succ, Finset.sum_range_zero, zero_add]
  ring

end Osu.Est
