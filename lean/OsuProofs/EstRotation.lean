import OsuProofs.EstJacobian
import OsuProofs.RotationBridge
import Mathlib.Analysis.SpecialFunctions.Trigonometric.Basic
import Mathlib.Analysis.Complex.Trigonometric

/-! Rotation equivariance of the MEM2 building blocks (C06): first guess and distribution. -/
namespace Osu.Est

open Real

/-- the moments of a distribution rotated by `φ`: `c1 ↦ c1 e^{iφ}`, `c2 ↦ c2 e^{2iφ}` -/
noncomputable def rotMoments (φ a1 b1 a2 b2 : ℝ) : ℝ × ℝ × ℝ × ℝ :=
  (a1 * cos φ - b1 * sin φ, a1 * sin φ + b1 * cos φ,
   a2 * cos (2 * φ) - b2 * sin (2 * φ), a2 * sin (2 * φ) + b2 * cos (2 * φ))

/-- the same rotation applied to a multiplier vector `[λ1, λ2, λ3, λ4]` -/
noncomputable def rotLam (φ : ℝ) (lam : List ℝ) : List ℝ :=
  [lam.getD 0 0 * cos φ - lam.getD 1 0 * sin φ, lam.getD 0 0 * sin φ + lam.getD 1 0 * cos φ,
   lam.getD 2 0 * cos (2 * φ) - lam.getD 3 0 * sin (2 * φ), lam.getD 2 0 * sin (2 * φ) + lam.getD 3 0 * cos (2 * φ)]

/-- the first guess (MEM AP2) of rotated moments is the rotated first guess -/
theorem initialValue_rot (φ a1 b1 a2 b2 : ℝ) :
    initialValue (rotMoments φ a1 b1 a2 b2).1 (rotMoments φ a1 b1 a2 b2).2.1
        (rotMoments φ a1 b1 a2 b2).2.2.1 (rotMoments φ a1 b1 a2 b2).2.2.2
      = rotLam φ (initialValue a1 b1 a2 b2) := by
  have h := Real.cos_sq_add_sin_sq φ
  have hc2 := Real.cos_two_mul φ
  have hs2 := Real.sin_two_mul φ
  have hc2' : cos (2 * φ) = cos φ ^ 2 - sin φ ^ 2 := by rw [hc2]; linarith [h]
  simp only [initialValue, rotMoments, rotLam, two, List.getD_cons_zero, List.getD_cons_succ, Nat.cast_ofNat]
  rw [hc2', hs2]
  set c := cos φ
  set s := sin φ
  have hfac : (1 : ℝ) + (a1 * c - b1 * s) * (a1 * c - b1 * s) + (a1 * s + b1 * c) * (a1 * s + b1 * c) +
      (a2 * (c ^ 2 - s ^ 2) - b2 * (2 * s * c)) * (a2 * (c ^ 2 - s ^ 2) - b2 * (2 * s * c)) +
      (a2 * (2 * s * c) + b2 * (c ^ 2 - s ^ 2)) * (a2 * (2 * s * c) + b2 * (c ^ 2 - s ^ 2))
      = 1 + a1 * a1 + b1 * b1 + a2 * a2 + b2 * b2 := by
    have h2 : (c ^ 2 + s ^ 2) ^ 2 = 1 := by rw [h]; ring
    nlinarith [h, h2]
  rw [hfac]
  set fac := 1 + a1 * a1 + b1 * b1 + a2 * a2 + b2 * b2
  congr 1
  · linear_combination (2 * (c * (a1 * a2 + b1 * b2) - s * (a1 * b2 - b1 * a2))) * h
  congr 1
  · linear_combination (2 * (s * (a1 * a2 + b1 * b2) + c * (a1 * b2 - b1 * a2))) * h
  congr 1
  · ring
  congr 1
  · ring

/-- the twiddle column of direction `θ` (radians) -/
noncomputable def twiddleCol (θ : ℝ) : List ℝ := [cos θ, sin θ, cos (2 * θ), sin (2 * θ)]

/-- `λ·T(θ)` for the rotated multipliers is `λ·T(θ − φ)`: the exponent of the MEM2 distribution
moves with the rotation -/
theorem ipOf_rot (φ θ : ℝ) (lam : List ℝ) :
    ipOf (rotLam φ lam) (twiddleCol θ) = ipOf lam (twiddleCol (θ - φ)) := by
  have e1 : cos (θ - φ) = cos θ * cos φ + sin θ * sin φ := Real.cos_sub θ φ
  have e2 : sin (θ - φ) = sin θ * cos φ - cos θ * sin φ := Real.sin_sub θ φ
  have e3 : cos (2 * (θ - φ)) = cos (2 * θ) * cos (2 * φ) + sin (2 * θ) * sin (2 * φ) := by
    rw [show 2 * (θ - φ) = 2 * θ - 2 * φ by ring, Real.cos_sub]
  have e4 : sin (2 * (θ - φ)) = sin (2 * θ) * cos (2 * φ) - cos (2 * θ) * sin (2 * φ) := by
    rw [show 2 * (θ - φ) = 2 * θ - 2 * φ by ring, Real.sin_sub]
  rcases lam with _ | ⟨l1, _ | ⟨l2, _ | ⟨l3, _ | ⟨l4, rest⟩⟩⟩⟩ <;>
    simp [ipOf, rotLam, twiddleCol, lsum, e1, e2, e3, e4] <;> ring

/-- the MEM2 distribution on `N` directions as a function of the exponents -/
noncomputable def distF {N : ℕ} (ip : Fin N → ℝ) (Δ : ℝ) : Fin N → ℝ :=
  fun j => Real.exp (-(ip j)) / (∑ j', Real.exp (-(ip j')) * Δ)

/-- rotating the exponents by `k` bins rotates the distribution by `k` bins (the normalisation
is a sum over all bins, hence unchanged) -/
theorem distF_rot {N : ℕ} [NeZero N] (k : Fin N) (ip : Fin N → ℝ) (Δ : ℝ) :
    distF (Osu.Rot.rotE k ip) Δ = Osu.Rot.rotE k (distF ip Δ) := by
  funext j
  simp only [distF, Osu.Rot.rotE]
  congr 1
  exact Fintype.sum_equiv (Equiv.subRight k) _ _ (fun j' => by simp)

/-- on the uniform grid `θ_j = (θ0 + j·360/N)°`, rotating the multipliers by `k` bins
(`φ = k·2π/N`) rotates the exponents by `k` bins -/
theorem exponents_rot {N : ℕ} [NeZero N] (θ0 : ℝ) (k : Fin N) (lam : List ℝ) :
    (fun j : Fin N => ipOf (rotLam ((k : ℕ) * Osu.Rot.dθ N * π / 180) lam) (twiddleCol (Osu.Rot.theta θ0 j * π / 180)))
      = Osu.Rot.rotE k (fun j : Fin N => ipOf lam (twiddleCol (Osu.Rot.theta θ0 j * π / 180))) := by
  funext j
  simp only [Osu.Rot.rotE]
  rw [ipOf_rot]
  obtain ⟨q, hq⟩ := Osu.Rot.theta_add θ0 (j - k) k
  rw [sub_add_cancel] at hq
  -- θ_{j-k} = θ_j − kΔ + 360 q: all four twiddle factors are 2π-periodic
  have hθ : Osu.Rot.theta θ0 j * π / 180 - (k : ℕ) * Osu.Rot.dθ N * π / 180
      = Osu.Rot.theta θ0 (j - k) * π / 180 - (q : ℕ) * (2 * π) := by rw [hq]; ring
  rw [hθ]
  simp only [ipOf, twiddleCol]
  have h2 : 2 * (Osu.Rot.theta θ0 (j - k) * π / 180 - (q : ℕ) * (2 * π))
      = 2 * (Osu.Rot.theta θ0 (j - k) * π / 180) - ((2 * q : ℕ) : ℝ) * (2 * π) := by push_cast; ring
  rw [h2, Real.cos_sub_nat_mul_two_pi, Real.sin_sub_nat_mul_two_pi, Real.cos_sub_nat_mul_two_pi, Real.sin_sub_nat_mul_two_pi]

theorem est_lsum_ofFn : ∀ {n : ℕ} (a : Fin n → ℝ), lsum (List.ofFn a) = ∑ j, a j
  | 0, _ => by simp [lsum]
  | n + 1, a => by
    rw [List.ofFn_succ, Fin.sum_univ_succ]
    simp only [lsum]
    rw [est_lsum_ofFn (fun i => a i.succ)]

/-- the list model's distribution on a uniform grid is `distF` of the exponents -/
theorem dist_bridge {N : ℕ} (lam : List ℝ) (Δ : ℝ) (cols : Fin N → List ℝ) :
    dist lam (List.ofFn fun _ : Fin N => Δ) (List.ofFn cols)
      = List.ofFn (distF (fun j => ipOf lam (cols j)) Δ) := by
  rw [dist_eq_distWith, distWith_shift _ _ 0 _]
  have hip : innerProduct lam (List.ofFn cols) = List.ofFn (fun j => ipOf lam (cols j)) := by
    simp only [innerProduct, List.map_ofFn]; rfl
  rw [hip]
  simp only [distWith, shapeOf, List.map_ofFn, sub_zero]
  rw [Osu.Rot.zipWith_ofFn]
  rw [est_lsum_ofFn]
  congr 1
  funext j
  simp only [Function.comp, distF]
  ring

/-- **the `approximate` variant rotates with its input**, for every `N`, `θ0` and `k`: the
distribution of the first guess of moments rotated by `k` bins is the distribution of the first
guess of the original moments, rotated by `k` bins -/
theorem approximate_rot {N : ℕ} [NeZero N] (θ0 Δ : ℝ) (k : Fin N) (a1 b1 a2 b2 : ℝ) :
    let φ := (k : ℕ) * Osu.Rot.dθ N * π / 180
    let m' := rotMoments φ a1 b1 a2 b2
    distF (fun j : Fin N => ipOf (initialValue m'.1 m'.2.1 m'.2.2.1 m'.2.2.2) (twiddleCol (Osu.Rot.theta θ0 j * π / 180))) Δ
      = Osu.Rot.rotE k (distF (fun j : Fin N => ipOf (initialValue a1 b1 a2 b2) (twiddleCol (Osu.Rot.theta θ0 j * π / 180))) Δ) := by
  intro φ m'
  rw [show initialValue m'.1 m'.2.1 m'.2.2.1 m'.2.2.2 = rotLam φ (initialValue a1 b1 a2 b2) from initialValue_rot φ a1 b1 a2 b2]
  rw [exponents_rot θ0 k (initialValue a1 b1 a2 b2), distF_rot]

end Osu.Est
