import OsuProofs.RealTransc
import OsuModel.Estimators
import Mathlib.Tactic.Ring
import Mathlib.Tactic.Linarith
import Mathlib.Tactic.Positivity
import Mathlib.Tactic.FieldSimp
import Mathlib.Analysis.SpecialFunctions.Exp

namespace Osu.Est

open Real

theorem lsum_map_mul (c : ℝ) (l : List ℝ) : lsum (l.map (· * c)) = lsum l * c := by
  induction l with
  | nil => simp [lsum]
  | cons a l ih => simp only [List.map_cons, lsum, ih]; ring

theorem zipWith_map_left_mul (c : ℝ) (l r : List ℝ) :
    List.zipWith (· * ·) (l.map (· * c)) r = (List.zipWith (· * ·) l r).map (· * c) := by
  induction l generalizing r with
  | nil => simp
  | cons a l ih =>
    cases r with
    | nil => simp
    | cons b r => simp only [List.map_cons, List.zipWith_cons_cons, ih]; congr 1; ring

theorem lsum_pos_of_pos (l : List ℝ) (h : ∀ x ∈ l, 0 < x) (hne : l ≠ []) : 0 < lsum l := by
  induction l with
  | nil => exact absurd rfl hne
  | cons a l ih =>
    simp only [lsum]
    have ha := h a List.mem_cons_self
    by_cases hl : l = []
    · subst hl; simp [lsum]; exact ha
    · have := ih (fun x hx => h x (List.mem_cons_of_mem _ hx)) hl
      linarith

/-- the (shifted) exponential shape of the MEM2 distribution -/
noncomputable def shapeOf (ip : List ℝ) (c : ℝ) : List ℝ := ip.map fun x => Real.exp (-(x - c))

/-- the distribution built with an arbitrary shift `c` instead of `min ip` -/
noncomputable def distWith (ip delta : List ℝ) (c : ℝ) : List ℝ :=
  (shapeOf ip c).map (· * (1 / lsum (List.zipWith (· * ·) (shapeOf ip c) delta)))

theorem dist_eq_distWith (lam delta : List ℝ) (T : List (List ℝ)) :
    dist lam delta T = distWith (innerProduct lam T) delta (lmin (innerProduct lam T)) := by
  simp [dist, distWith, shapeOf, Transc.exp]

theorem shapeOf_shift (ip : List ℝ) (c c' : ℝ) :
    shapeOf ip c' = (shapeOf ip c).map (· * Real.exp (c' - c)) := by
  simp only [shapeOf, List.map_map]
  apply List.map_congr_left
  intro x _
  simp only [Function.comp]
  rw [← Real.exp_add]; congr 1; ring

/-- `dist_shift`: the constant subtracted from the exponent (the code uses `min ip` against
overflow) does not change the distribution -/
theorem distWith_shift (ip delta : List ℝ) (c c' : ℝ) : distWith ip delta c' = distWith ip delta c := by
  simp only [distWith]
  rw [shapeOf_shift ip c c', zipWith_map_left_mul, lsum_map_mul, List.map_map]
  apply List.map_congr_left
  intro x _
  simp only [Function.comp]
  have he : Real.exp (c' - c) ≠ 0 := Real.exp_ne_zero _
  by_cases hz : lsum (List.zipWith (· * ·) (shapeOf ip c) delta) = 0
  · simp [hz]
  · field_simp

theorem shapeOf_pos (ip : List ℝ) (c : ℝ) : ∀ x ∈ shapeOf ip c, 0 < x := by
  intro x hx
  simp only [shapeOf, List.mem_map] at hx
  obtain ⟨y, _, rfl⟩ := hx
  exact Real.exp_pos _

theorem zipWith_mul_pos (l r : List ℝ) (hl : ∀ x ∈ l, 0 < x) (hr : ∀ x ∈ r, 0 < x) :
    ∀ x ∈ List.zipWith (· * ·) l r, 0 < x := by
  induction l generalizing r with
  | nil => simp
  | cons a l ih =>
    cases r with
    | nil => simp
    | cons b r =>
      intro x hx
      simp only [List.zipWith_cons_cons, List.mem_cons] at hx
      rcases hx with rfl | hx
      · exact mul_pos (hl a List.mem_cons_self) (hr b List.mem_cons_self)
      · exact ih r (fun y hy => hl y (List.mem_cons_of_mem _ hy)) (fun y hy => hr y (List.mem_cons_of_mem _ hy)) x hx

theorem zipWith_ne_nil {β γ δ : Type} (f : β → γ → δ) (l : List β) (r : List γ) (hl : l ≠ []) (hr : r ≠ []) :
    List.zipWith f l r ≠ [] := by
  cases l with
  | nil => exact absurd rfl hl
  | cons a l => cases r with
    | nil => exact absurd rfl hr
    | cons b r => simp

/-- normalising constant is positive for positive direction increments -/
theorem z_pos (ip delta : List ℝ) (c : ℝ) (hδ : ∀ d ∈ delta, 0 < d) (hip : ip ≠ []) (hd : delta ≠ []) :
    0 < lsum (List.zipWith (· * ·) (shapeOf ip c) delta) := by
  apply lsum_pos_of_pos _ (zipWith_mul_pos _ _ (shapeOf_pos ip c) hδ)
  apply zipWith_ne_nil _ _ _ _ hd
  simp [shapeOf, hip]


/-! ### MEM -/

theorem lsum_map_div (c : ℝ) (l : List ℝ) : lsum (l.map (· / c)) = lsum l / c := by
  induction l with
  | nil => simp [lsum]
  | cons a l ih => simp only [List.map_cons, lsum, ih]; ring

theorem lsum_map_const_mul {β : Type} (c : ℝ) (g : β → ℝ) (l : List β) :
    lsum (l.map fun t => c * g t) = c * lsum (l.map g) := by
  induction l with
  | nil => simp [lsum]
  | cons a l ih => simp only [List.map_cons, lsum, ih]; ring

theorem lsum_map_nonneg {β : Type} (g : β → ℝ) (hg : ∀ t, 0 ≤ g t) (l : List β) : 0 ≤ lsum (l.map g) := by
  induction l with
  | nil => simp [lsum]
  | cons a l ih => simp only [List.map_cons, lsum]; exact add_nonneg (hg a) ih

/-- `1/den/(2π)` for one direction -/
noncomputable def memG (a1 b1 a2 b2 : ℝ) (t : ℝ × ℝ × ℝ × ℝ) : ℝ :=
  1 / memDenom (memCoeffs a1 b1 a2 b2).1 (memCoeffs a1 b1 a2 b2).2.1 t.1 t.2.1 t.2.2.1 t.2.2.2 / Real.pi / 2

theorem memG_nonneg (a1 b1 a2 b2 : ℝ) (t : ℝ × ℝ × ℝ × ℝ) : 0 ≤ memG a1 b1 a2 b2 t := by
  have : 0 ≤ memDenom (memCoeffs a1 b1 a2 b2).1 (memCoeffs a1 b1 a2 b2).2.1 t.1 t.2.1 t.2.2.1 t.2.2.2 := by
    simp only [memDenom, cnormSq]; exact add_nonneg (mul_self_nonneg _) (mul_self_nonneg _)
  have := Real.pi_pos
  simp only [memG]
  positivity

/-- `mem` written with the numerator factored out of the un-normalised values -/
theorem mem_eq (a1 b1 a2 b2 : ℝ) (trig : List (ℝ × ℝ × ℝ × ℝ)) :
    mem a1 b1 a2 b2 trig =
      (trig.map fun t => (memCoeffs a1 b1 a2 b2).2.2 * memG a1 b1 a2 b2 t).map
        (· / ((memCoeffs a1 b1 a2 b2).2.2 * lsum (trig.map (memG a1 b1 a2 b2)) * Real.pi * 2 / (trig.length : ℝ))) := by
  rw [← lsum_map_const_mul]
  have h : ∀ t : ℝ × ℝ × ℝ × ℝ, (memCoeffs a1 b1 a2 b2).2.2 * memG a1 b1 a2 b2 t =
      (memCoeffs a1 b1 a2 b2).2.2 / memDenom (memCoeffs a1 b1 a2 b2).1 (memCoeffs a1 b1 a2 b2).2.1 t.1 t.2.1 t.2.2.1 t.2.2.2 / Real.pi / 2 := by
    intro t; simp only [memG]; ring
  simp only [h]
  show mem a1 b1 a2 b2 trig = _
  simp only [mem, Transc.pi, two]
  push_cast
  rfl

end Osu.Est
