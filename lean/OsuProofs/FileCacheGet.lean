import OsuProofs.FileCacheEvict

namespace Osu.FC

variable (resOf : Nat → Nat)

/-! ### One download worker -/

structure WorkerEffect (s s' : State) (q : Req) : Prop where
  entries : s'.entries = s.entries
  maxSize : s'.maxSize = s.maxSize
  slack : s'.slack = s.slack
  tolerant : s'.tolerant = s.tolerant
  clock : s.clock ≤ s'.clock
  known : ∀ k, k ∈ s.known → k ∈ s'.known
  other : ∀ n, n ≠ .cache q.key → n ≠ .tmp q.key → s'.disk n = s.disk n
  fail : q.succeeds = false → s'.disk (.cache q.key) = s.disk (.cache q.key)
  ok : q.succeeds = true → ∃ f pp, s'.disk (.cache q.key) = some f ∧
        f.content = .full (resOf q.key) pp ∧ s.clock ≤ f.stamp

theorem worker_effect (s : State) (q : Req) :
    WorkerEffect resOf s (execs s (workerActs resOf q)) q := by
  unfold workerActs
  cases hq : q.outcome <;> by_cases hp : q.postprocess <;> by_cases ht : s.tolerant <;>
    simp only [hp, if_true] <;>
    constructor <;>
    simp [execs, exec, upd, Req.succeeds, hq, hp, ht] <;>
    first
      | omega
      | (intro m h1 h2; simp [h1, h2])
      | (intro k hk; exact Or.inr hk)


/-! ### The download phase: the workers that ran, one after the other -/

structure DownloadEffect (s s' : State) (rr : List Req) : Prop where
  entries : s'.entries = s.entries
  maxSize : s'.maxSize = s.maxSize
  slack : s'.slack = s.slack
  tolerant : s'.tolerant = s.tolerant
  clock : s.clock ≤ s'.clock
  known : ∀ k, k ∈ s.known → k ∈ s'.known
  other : ∀ n, (∀ q ∈ rr, n ≠ .cache q.key ∧ n ≠ .tmp q.key) → s'.disk n = s.disk n
  fail : ∀ q ∈ rr, q.succeeds = false → s'.disk (.cache q.key) = s.disk (.cache q.key)
  ok : ∀ q ∈ rr, q.succeeds = true → ∃ f pp, s'.disk (.cache q.key) = some f ∧
        f.content = .full (resOf q.key) pp ∧ s.clock ≤ f.stamp

theorem download_effect (s : State) (rr : List Req)
    (hd : rr.Pairwise (fun a b => a.key ≠ b.key)) :
    DownloadEffect resOf s (execs s (downloadActs resOf rr)) rr := by
  unfold downloadActs
  induction rr generalizing s with
  | nil => constructor <;> simp [execs_nil]
  | cons q qs ih =>
    rw [List.flatMap_cons, execs_append]
    rw [List.pairwise_cons] at hd
    have w := worker_effect resOf s q
    have d := ih (execs s (workerActs resOf q)) hd.2
    constructor
    · rw [d.entries, w.entries]
    · rw [d.maxSize, w.maxSize]
    · rw [d.slack, w.slack]
    · rw [d.tolerant, w.tolerant]
    · exact Nat.le_trans w.clock d.clock
    · intro k hk; exact d.known k (w.known k hk)
    · intro n hn
      rw [d.other n (fun q' hq' => hn q' (List.mem_cons_of_mem _ hq'))]
      exact w.other n (hn q List.mem_cons_self).1 (hn q List.mem_cons_self).2
    · intro q' hq' hf
      rcases List.mem_cons.1 hq' with h | h
      · subst h
        rw [d.other _ (fun q'' hq'' => ⟨by simpa using hd.1 q'' hq'', by simp⟩)]
        exact w.fail hf
      · rw [d.fail q' h hf]
        exact w.other _ (by simpa using (hd.1 q' h).symm) (by simp)
    · intro q' hq' hf
      rcases List.mem_cons.1 hq' with h | h
      · subst h
        obtain ⟨f, pp, h1, h2, h3⟩ := w.ok hf
        refine ⟨f, pp, ?_, h2, h3⟩
        rw [d.other _ (fun q'' hq'' => ⟨by simpa using hd.1 q'' hq'', by simp⟩)]
        exact h1
      · obtain ⟨f, pp, h1, h2, h3⟩ := d.ok q' h hf
        exact ⟨f, pp, h1, h2, Nat.le_trans w.clock h3⟩

/-! ### Touching the hits -/

structure TouchEffect (s s' : State) (ks : List Nat) : Prop where
  entries : s'.entries = s.entries
  maxSize : s'.maxSize = s.maxSize
  slack : s'.slack = s.slack
  tolerant : s'.tolerant = s.tolerant
  known : s'.known = s.known
  clock : s.clock ≤ s'.clock
  other : ∀ n, (∀ k ∈ ks, n ≠ .cache k) → s'.disk n = s.disk n
  data : ∀ n, (s'.disk n).map (fun f => (f.content, f.size)) = (s.disk n).map (fun f => (f.content, f.size))
  stamp : ∀ c0, c0 ≤ s.clock → ∀ k, (c0 ≤ stampOf s k ∨ (k ∈ ks ∧ present s k = true)) → c0 ≤ stampOf s' k

theorem touch_effect (s : State) (ks : List Nat) :
    TouchEffect s (execs s (ks.map Act.touch)) ks := by
  induction ks generalizing s with
  | nil => constructor <;> simp [execs_nil, present]
  | cons k ks ih =>
    rw [List.map_cons, execs_cons]
    have d := ih (exec s (.touch k))
    cases hk : s.disk (.cache k) with
    | none =>
      have he : exec s (.touch k) = s := by simp [exec, hk]
      rw [he] at d ⊢
      constructor
      · exact d.entries
      · exact d.maxSize
      · exact d.slack
      · exact d.tolerant
      · exact d.known
      · exact d.clock
      · intro n hn; exact d.other n (fun j hj => hn j (List.mem_cons_of_mem _ hj))
      · exact d.data
      · intro c0 hc j hj
        apply d.stamp c0 hc j
        rcases hj with h | ⟨h1, h2⟩
        · exact Or.inl h
        · rcases List.mem_cons.1 h1 with h | h
          · subst h; simp [present, hk] at h2
          · exact Or.inr ⟨h, h2⟩
    | some g =>
      have he : exec s (.touch k) =
          { s with disk := upd s.disk (.cache k) (some { g with stamp := s.clock }),
                   clock := s.clock + 1 } := by simp [exec, hk]
      rw [he] at d ⊢
      constructor
      · exact d.entries
      · exact d.maxSize
      · exact d.slack
      · exact d.tolerant
      · exact d.known
      · have := d.clock; simp at this; omega
      · intro n hn
        rw [d.other n (fun j hj => hn j (List.mem_cons_of_mem _ hj))]
        simp [upd, hn k List.mem_cons_self]
      · intro n
        rw [d.data n]
        simp only [upd]
        split
        · next h => subst h; simp [hk]
        · rfl
      · intro c0 hc j hj
        apply d.stamp c0 (by simp; omega) j
        by_cases hjk : j = k
        · subst hjk; left; simp [stampOf, upd]; exact hc
        · rcases hj with h | ⟨h1, h2⟩
          · left; simpa [stampOf, upd, hjk] using h
          · right
            rcases List.mem_cons.1 h1 with h | h
            · exact absurd h hjk
            · exact ⟨h, by simpa [present, upd, hjk] using h2⟩

/-! ### Registering the completed downloads -/

theorem register_effect (s : State) (ks : List Nat) :
    let s' := execs s (ks.map Act.register)
    s'.disk = s.disk ∧ s'.maxSize = s.maxSize ∧ s'.slack = s.slack ∧ s'.tolerant = s.tolerant ∧
    s'.known = s.known ∧ s'.clock = s.clock ∧ (s.entries.Nodup → s'.entries.Nodup) ∧
    (∀ k, k ∈ s'.entries ↔ k ∈ s.entries ∨ k ∈ ks) := by
  induction ks generalizing s with
  | nil => simp [execs_nil]
  | cons k ks ih =>
    simp only [List.map_cons, execs_cons]
    have d := ih (exec s (.register k))
    by_cases hk : k ∈ s.entries
    · have he : exec s (.register k) = s := by simp [exec, hk]
      rw [he] at d ⊢
      obtain ⟨d1, d2, d3, d4, d5, d6, d7, d8⟩ := d
      refine ⟨d1, d2, d3, d4, d5, d6, d7, ?_⟩
      intro j; rw [d8 j]; simp only [List.mem_cons]
      constructor
      · rintro (h | h)
        · exact Or.inl h
        · exact Or.inr (Or.inr h)
      · rintro (h | h | h)
        · exact Or.inl h
        · exact Or.inl (h ▸ hk)
        · exact Or.inr h
    · have he : exec s (.register k) = { s with entries := s.entries ++ [k] } := by simp [exec, hk]
      rw [he] at d ⊢
      obtain ⟨d1, d2, d3, d4, d5, d6, d7, d8⟩ := d
      refine ⟨d1, d2, d3, d4, d5, d6, ?_, ?_⟩
      · intro hn
        apply d7
        simp only
        rw [List.nodup_append]
        refine ⟨hn, by simp, ?_⟩
        intro a ha b hb
        simp at hb; subst hb
        intro h; exact hk (h ▸ ha)
      · intro j; rw [d8 j]; simp only [List.mem_append, List.mem_cons, List.mem_singleton, List.not_mem_nil, or_false]
        constructor
        · rintro ((h | h) | h)
          · exact Or.inl h
          · exact Or.inr (Or.inl h)
          · exact Or.inr (Or.inr h)
        · rintro (h | h | h)
          · exact Or.inl (Or.inl h)
          · exact Or.inl (Or.inr h)
          · exact Or.inr h

end Osu.FC
