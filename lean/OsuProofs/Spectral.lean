import OsuModel.Spectral
import Mathlib.Tactic.Ring
import Mathlib.Tactic.Linarith
import Mathlib.Tactic.Positivity
import Mathlib.Tactic.FieldSimp
import Mathlib.Algebra.Order.Field.Basic
import Mathlib.Algebra.BigOperators.Group.List.Basic

namespace Osu.Spec

variable {α : Type} [Field α] [LinearOrder α] [IsStrictOrderedRing α]
set_option linter.unusedSectionVars false

theorem npow_eq_pow (x : α) (k : ℕ) : npow x k = x ^ k := by
  induction k with
  | zero => simp [npow]
  | succ k ih => simp [npow, ih, pow_succ]

theorem lsum_eq_sum (l : List α) : lsum l = l.sum := by
  induction l with
  | nil => rfl
  | cons a as ih => simp [lsum, ih]

theorem two_eq : (two : α) = 2 := by simp [two]

/-! ### Linearity of the trapezoidal rule -/

theorem trapz_smul (c : α) (l : List (α × α)) :
    trapz (l.map fun q => (q.1, c * q.2)) = c * trapz l := by
  induction l with
  | nil => simp [trapz]
  | cons a l ih =>
    cases l with
    | nil => simp [trapz]
    | cons b r =>
      simp only [List.map_cons, trapz] at ih ⊢
      rw [ih]; ring

theorem trapz_add (l : List (α × α × α)) :
    trapz (l.map fun q => (q.1, q.2.1 + q.2.2)) =
      trapz (l.map fun q => (q.1, q.2.1)) + trapz (l.map fun q => (q.1, q.2.2)) := by
  induction l with
  | nil => simp [trapz]
  | cons a l ih =>
    cases l with
    | nil => simp [trapz]
    | cons b r =>
      simp only [List.map_cons, trapz] at ih ⊢
      rw [ih]; ring

theorem trapz_lin2 (a b : α) (l : List (α × α × α)) :
    trapz (l.map fun q => (q.1, a * q.2.1 + b * q.2.2)) =
      a * trapz (l.map fun q => (q.1, q.2.1)) + b * trapz (l.map fun q => (q.1, q.2.2)) := by
  induction l with
  | nil => simp [trapz]
  | cons x l ih =>
    cases l with
    | nil => simp [trapz]
    | cons y r =>
      simp only [List.map_cons, trapz] at ih ⊢
      rw [ih]; ring

/-! ### The trapezoidal rule as a sum over non-negative "atoms"

Each pair of adjacent nodes contributes two atoms `(Δ/2 · e, f)`: a moment is
`Σ_atoms a · φ^p`. -/

/-- atoms (weight, frequency) of a list of nodes (frequency, energy) -/
def atoms : List (α × α) → List (α × α)
  | (f0, e0) :: (f1, e1) :: r =>
      ((f1 - f0) / 2 * e0, f0) :: ((f1 - f0) / 2 * e1, f1) :: atoms ((f1, e1) :: r)
  | _ => []

/-- Σ a φ^p -/
def S (p : ℕ) (l : List (α × α)) : α := (l.map fun q => q.1 * q.2 ^ p).sum

theorem trapz_eq_S (p : ℕ) (nodes : List (α × α)) :
    trapz (nodes.map fun q => (q.1, q.2 * q.1 ^ p)) = S p (atoms nodes) := by
  induction nodes with
  | nil => simp [trapz, atoms, S]
  | cons a l ih =>
    cases l with
    | nil => simp [trapz, atoms, S]
    | cons b r =>
      obtain ⟨f0, e0⟩ := a
      obtain ⟨f1, e1⟩ := b
      simp only [List.map_cons, trapz, atoms, S, List.sum_cons] at ih ⊢
      rw [ih, two_eq]; ring

theorem atoms_nonneg (nodes : List (α × α))
    (hs : nodes.Pairwise (fun a b => a.1 < b.1)) (he : ∀ q ∈ nodes, 0 ≤ q.2) :
    ∀ q ∈ atoms nodes, 0 ≤ q.1 := by
  induction nodes with
  | nil => simp [atoms]
  | cons a l ih =>
    cases l with
    | nil => simp [atoms]
    | cons b r =>
      obtain ⟨f0, e0⟩ := a
      obtain ⟨f1, e1⟩ := b
      rw [List.pairwise_cons] at hs
      have hlt : f0 < f1 := hs.1 (f1, e1) (by simp)
      have h0 : 0 ≤ e0 := he (f0, e0) (by simp)
      have h1 : 0 ≤ e1 := he (f1, e1) (by simp)
      intro q hq
      simp only [atoms, List.mem_cons] at hq
      rcases hq with rfl | rfl | hq
      · have : 0 ≤ (f1 - f0) / 2 := by linarith
        exact mul_nonneg this h0
      · have : 0 ≤ (f1 - f0) / 2 := by linarith
        exact mul_nonneg this h1
      · exact ih hs.2 (fun q hq => he q (List.mem_cons_of_mem _ hq)) q hq

theorem atoms_freq_mem (nodes : List (α × α)) :
    ∀ q ∈ atoms nodes, ∃ n ∈ nodes, n.1 = q.2 := by
  induction nodes with
  | nil => simp [atoms]
  | cons a l ih =>
    cases l with
    | nil => simp [atoms]
    | cons b r =>
      obtain ⟨f0, e0⟩ := a
      obtain ⟨f1, e1⟩ := b
      intro q hq
      simp only [atoms, List.mem_cons] at hq
      rcases hq with rfl | rfl | hq
      · exact ⟨(f0, e0), by simp, rfl⟩
      · exact ⟨(f1, e1), by simp, rfl⟩
      · obtain ⟨n, hn, h⟩ := ih q hq
        exact ⟨n, List.mem_cons_of_mem _ hn, h⟩

/-! ### Cauchy–Schwarz and bounds for sums over non-negative atoms -/

/-- Σ a (x - φ)² = x² S0 - 2 x S1 + S2 -/
theorem quad_eq (l : List (α × α)) (x : α) :
    (l.map fun q => q.1 * (x - q.2) ^ 2).sum = x ^ 2 * S 0 l - 2 * x * S 1 l + S 2 l := by
  induction l with
  | nil => simp [S]
  | cons a l ih =>
    simp only [List.map_cons, List.sum_cons, S] at ih ⊢
    rw [ih]; ring

theorem quad_nonneg (l : List (α × α)) (h : ∀ q ∈ l, 0 ≤ q.1) (x : α) :
    0 ≤ x ^ 2 * S 0 l - 2 * x * S 1 l + S 2 l := by
  rw [← quad_eq]
  apply List.sum_nonneg
  intro y hy
  simp only [List.mem_map] at hy
  obtain ⟨q, hq, rfl⟩ := hy
  exact mul_nonneg (h q hq) (sq_nonneg _)

theorem S0_nonneg (l : List (α × α)) (h : ∀ q ∈ l, 0 ≤ q.1) : 0 ≤ S 0 l := by
  apply List.sum_nonneg
  intro y hy
  simp only [List.mem_map] at hy
  obtain ⟨q, hq, rfl⟩ := hy
  simpa using h q hq

/-- Cauchy–Schwarz: m1² ≤ m0 · m2 -/
theorem cauchy_schwarz (l : List (α × α)) (h : ∀ q ∈ l, 0 ≤ q.1) :
    S 1 l ^ 2 ≤ S 0 l * S 2 l := by
  have h0 := S0_nonneg l h
  rcases h0.lt_or_eq with hpos | hzero
  · -- discriminant of the non-negative quadratic at x = S1/S0
    have hq := quad_nonneg l h (S 1 l / S 0 l)
    have hne : S 0 l ≠ 0 := ne_of_gt hpos
    have : (S 1 l / S 0 l) ^ 2 * S 0 l - 2 * (S 1 l / S 0 l) * S 1 l + S 2 l =
        (S 0 l * S 2 l - S 1 l ^ 2) / S 0 l := by
      field_simp; ring
    rw [this] at hq
    have := (div_nonneg_iff.1 hq)
    rcases this with ⟨h1, _⟩ | ⟨_, h2⟩
    · linarith
    · exact absurd hpos (not_lt.2 h2)
  · -- S0 = 0: the quadratic -2 x S1 + S2 ≥ 0 for all x forces S1 = 0
    have hq := fun x => quad_nonneg l h x
    rw [← hzero] at hq
    have h1 : S 1 l = 0 := by
      by_contra hne
      have hq1 := hq ((S 2 l + 1) / (2 * S 1 l))
      have : (0 : α) ^ 2 = 0 := by ring
      have e : ((S 2 l + 1) / (2 * S 1 l)) ^ 2 * 0 - 2 * ((S 2 l + 1) / (2 * S 1 l)) * S 1 l + S 2 l = -1 := by
        field_simp; ring
      rw [e] at hq1
      linarith
    rw [h1, ← hzero]; simp

theorem S_succ_le (p : ℕ) (l : List (α × α)) (h : ∀ q ∈ l, 0 ≤ q.1) (hi : α)
    (hφ : ∀ q ∈ l, 0 ≤ q.2 ∧ q.2 ≤ hi) : S (p + 1) l ≤ hi * S p l := by
  induction l with
  | nil => simp [S]
  | cons a l ih =>
    simp only [S, List.map_cons, List.sum_cons] at ih ⊢
    have h1 := ih (fun q hq => h q (List.mem_cons_of_mem _ hq)) (fun q hq => hφ q (List.mem_cons_of_mem _ hq))
    have ha := h a List.mem_cons_self
    have hb := hφ a List.mem_cons_self
    have : a.1 * a.2 ^ (p + 1) ≤ hi * (a.1 * a.2 ^ p) := by
      have hp : 0 ≤ a.1 * a.2 ^ p := mul_nonneg ha (pow_nonneg hb.1 p)
      calc a.1 * a.2 ^ (p + 1) = a.2 * (a.1 * a.2 ^ p) := by ring
        _ ≤ hi * (a.1 * a.2 ^ p) := mul_le_mul_of_nonneg_right hb.2 hp
    linarith

theorem S_succ_ge (p : ℕ) (l : List (α × α)) (h : ∀ q ∈ l, 0 ≤ q.1) (lo : α) (hlo : 0 ≤ lo)
    (hφ : ∀ q ∈ l, lo ≤ q.2) : lo * S p l ≤ S (p + 1) l := by
  induction l with
  | nil => simp [S]
  | cons a l ih =>
    simp only [S, List.map_cons, List.sum_cons] at ih ⊢
    have h1 := ih (fun q hq => h q (List.mem_cons_of_mem _ hq)) (fun q hq => hφ q (List.mem_cons_of_mem _ hq))
    have ha := h a List.mem_cons_self
    have hb := hφ a List.mem_cons_self
    have : lo * (a.1 * a.2 ^ p) ≤ a.1 * a.2 ^ (p + 1) := by
      have hp : 0 ≤ a.1 * a.2 ^ p := mul_nonneg ha (pow_nonneg (le_trans hlo hb) p)
      calc lo * (a.1 * a.2 ^ p) ≤ a.2 * (a.1 * a.2 ^ p) := mul_le_mul_of_nonneg_right hb hp
        _ = a.1 * a.2 ^ (p + 1) := by ring
    linarith

end Osu.Spec
