import OsuProofs.FileCache

namespace Osu.FC

/-! ### Sums over duplicate-free lists of keys -/

theorem sum_map_filter_ne (f : Nat → Nat) (l : List Nat) (y : Nat) (hl : l.Nodup) (hy : y ∈ l) :
    (l.map f).sum = f y + ((l.filter (· != y)).map f).sum := by
  induction l with
  | nil => simp at hy
  | cons x xs ih =>
    rw [List.nodup_cons] at hl
    by_cases hxy : x = y
    · subst hxy
      have : xs.filter (· != x) = xs := by
        apply List.filter_eq_self.2
        intro a ha
        have : a ≠ x := fun h => hl.1 (h ▸ ha)
        simp [this]
      simp [this]
    · have hy' : y ∈ xs := by
        rcases List.mem_cons.1 hy with h | h
        · exact absurd h.symm hxy
        · exact h
      have := ih hl.2 hy'
      simp [hxy, this]
      omega

theorem sum_map_le_of_subset (f : Nat → Nat) (l₁ l₂ : List Nat) (h1 : l₁.Nodup)
    (hs : ∀ x ∈ l₁, x ∈ l₂) : (l₁.map f).sum ≤ (l₂.map f).sum := by
  induction l₂ generalizing l₁ with
  | nil =>
    cases l₁ with
    | nil => simp
    | cons x xs => exact absurd (hs x List.mem_cons_self) (by simp)
  | cons y ys ih =>
    by_cases hy : y ∈ l₁
    · rw [sum_map_filter_ne f l₁ y h1 hy]
      have : ((l₁.filter (· != y)).map f).sum ≤ (ys.map f).sum := by
        apply ih
        · exact h1.filter _
        · intro x hx
          simp at hx
          rcases List.mem_cons.1 (hs x hx.1) with h | h
          · exact absurd h hx.2
          · exact h
      simp; omega
    · have : (l₁.map f).sum ≤ (ys.map f).sum := by
        apply ih _ h1
        intro x hx
        rcases List.mem_cons.1 (hs x hx) with h | h
        · exact absurd (h ▸ hx) hy
        · exact h
      simp; omega

theorem sum_map_filter_le (f : Nat → Nat) (p : Nat → Bool) (l : List Nat) :
    ((l.filter p).map f).sum ≤ (l.map f).sum := by
  induction l with
  | nil => simp
  | cons x xs ih =>
    simp only [List.filter_cons]
    split <;> simp <;> omega

/-! ### Eviction -/

theorem evictLoop_eq_execs (l : List Nat) (s : State) :
    evictLoop l s = execs s ((evictedBy l s).map Act.rmCache) := by
  induction l generalizing s with
  | nil => simp [evictLoop, evictedBy, execs_nil]
  | cons k ks ih =>
    simp only [evictLoop, evictedBy]
    split
    · simp [execs_cons, ih]
    · simp [execs_nil]

/-- LRU: the evicted keys are an initial segment of the oldest-first order. -/
theorem evictedBy_prefix (l : List Nat) (s : State) : ∃ n, evictedBy l s = l.take n := by
  induction l generalizing s with
  | nil => exact ⟨0, rfl⟩
  | cons k ks ih =>
    simp only [evictedBy]
    split
    · obtain ⟨n, hn⟩ := ih (exec s (.rmCache k))
      exact ⟨n + 1, by simp [hn]⟩
    · exact ⟨0, rfl⟩

theorem sizeOf_rmCache (s : State) (k j : Nat) (h : j ≠ k) :
    sizeOf (exec s (.rmCache k)) j = sizeOf s j := by
  simp [sizeOf, exec, upd, h]

theorem stampOf_rmCache (s : State) (k j : Nat) (h : j ≠ k) :
    stampOf (exec s (.rmCache k)) j = stampOf s j := by
  simp [stampOf, exec, upd, h]

theorem total_rmCache_le (s : State) (k : Nat) : total (exec s (.rmCache k)) ≤ total s := by
  unfold total
  have h1 : ((exec s (.rmCache k)).entries.map (sizeOf (exec s (.rmCache k)))) =
      ((s.entries.filter (· != k)).map (sizeOf s)) := by
    simp only [exec]
    apply List.map_congr_left
    intro a ha
    simp at ha
    simp [sizeOf, upd, ha.2]
  rw [h1]
  exact sum_map_filter_le _ _ _

/-- The loop ends with the index inside the size limit. -/
theorem total_evictLoop_le (l : List Nat) (s : State) (hl : ∀ k ∈ s.entries, k ∈ l) :
    total (evictLoop l s) ≤ (evictLoop l s).maxSize := by
  induction l generalizing s with
  | nil =>
    have : s.entries = [] := by
      cases h : s.entries with
      | nil => rfl
      | cons a as => exact absurd (hl a (by simp [h])) (by simp)
    simp [evictLoop, total, this]
  | cons k ks ih =>
    simp only [evictLoop]
    split
    · apply ih
      intro j hj
      simp [exec] at hj
      rcases List.mem_cons.1 (hl j hj.1) with h | h
      · exact absurd h hj.2
      · exact h
    · omega

theorem maxSize_evictLoop (l : List Nat) (s : State) : (evictLoop l s).maxSize = s.maxSize := by
  induction l generalizing s with
  | nil => rfl
  | cons k ks ih =>
    simp only [evictLoop]
    split
    · rw [ih]; rfl
    · rfl

/-- Minimality: each evicted key was evicted because the index was still over the limit
just before its removal. -/
theorem evictedBy_needed (l : List Nat) (s : State) (n : Nat) (hn : n < (evictedBy l s).length) :
    total (execs s (((evictedBy l s).take n).map Act.rmCache)) > s.maxSize := by
  induction l generalizing s n with
  | nil => simp [evictedBy] at hn
  | cons k ks ih =>
    simp only [evictedBy] at hn ⊢
    split
    next h =>
      cases n with
      | zero => simpa [execs_nil] using h
      | succ n =>
        simp only [h, ite_true, List.length_cons] at hn
        have := ih (exec s (.rmCache k)) n (by omega)
        simpa [execs_cons, exec] using this
    next h => simp [h] at hn

/-- Files that are newer than everything else and fit inside the limit are never evicted. -/
theorem protected_not_evicted (l : List Nat) (s : State) (R : List Nat)
    (hnd : s.entries.Nodup) (hlnd : l.Nodup)
    (hl : ∀ k, k ∈ l ↔ k ∈ s.entries)
    (hsorted : l.Pairwise (fun a b => stampOf s a ≤ stampOf s b))
    (hRnd : R.Nodup)
    (hnewer : ∀ r ∈ R, ∀ e ∈ s.entries, e ∉ R → stampOf s e < stampOf s r)
    (hfit : (R.map (sizeOf s)).sum ≤ s.maxSize) :
    ∀ r ∈ R, r ∉ evictedBy l s := by
  induction l generalizing s with
  | nil => simp [evictedBy]
  | cons k ks ih =>
    intro r hr
    simp only [evictedBy]
    split
    next hover =>
      -- k is not protected: otherwise the whole index is protected and fits
      have hkR : k ∉ R := by
        intro hk
        have hsub : ∀ e ∈ s.entries, e ∈ R := by
          intro e he
          apply Classical.byContradiction
          intro heR
          have h1 := hnewer k hk e he heR
          have hel : e ∈ k :: ks := (hl e).2 he
          rcases List.mem_cons.1 hel with h | h
          · subst h; exact heR hk
          · have := (List.pairwise_cons.1 hsorted).1 e h
            omega
        have := sum_map_le_of_subset (sizeOf s) s.entries R hnd hsub
        unfold total at hover
        omega
      have hrk : r ≠ k := fun h => hkR (h ▸ hr)
      rw [List.nodup_cons] at hlnd
      have hent : (exec s (.rmCache k)).entries = s.entries.filter (· != k) := rfl
      have ih' := ih (exec s (.rmCache k)) (by rw [hent]; exact hnd.filter _) hlnd.2
        (by
          intro j
          rw [hent]
          simp
          constructor
          · intro hj
            exact ⟨(hl j).1 (List.mem_cons_of_mem _ hj), fun h => hlnd.1 (h ▸ hj)⟩
          · intro ⟨hj, hne⟩
            rcases List.mem_cons.1 ((hl j).2 hj) with h | h
            · exact absurd h hne
            · exact h)
        (by
          have := (List.pairwise_cons.1 hsorted).2
          refine this.imp_of_mem ?_
          intro a b ha hb hab
          have hak : a ≠ k := fun h => hlnd.1 (h ▸ ha)
          have hbk : b ≠ k := fun h => hlnd.1 (h ▸ hb)
          rw [stampOf_rmCache s k a hak, stampOf_rmCache s k b hbk]; exact hab)
        (by
          intro r' hr' e he heR
          rw [hent] at he
          simp at he
          have hr'k : r' ≠ k := fun h => hkR (h ▸ hr')
          rw [stampOf_rmCache s k e he.2, stampOf_rmCache s k r' hr'k]
          exact hnewer r' hr' e he.1 heR)
        (by
          have : R.map (sizeOf (exec s (.rmCache k))) = R.map (sizeOf s) := by
            apply List.map_congr_left
            intro a ha
            exact sizeOf_rmCache s k a (fun h => hkR (h ▸ ha))
          rw [this]; exact hfit)
      simp only [List.mem_cons, not_or]
      exact ⟨hrk, ih' r hr⟩
    next => simp

end Osu.FC
