import OsuModel.TimeIntegration
import Mathlib.Tactic.Ring
import Mathlib.Tactic.Linarith
import Mathlib.Tactic.FieldSimp
import Mathlib.Algebra.Order.Field.Basic
import Mathlib.Data.Rat.Defs
import Mathlib.Algebra.Order.Ring.Rat
import Mathlib.Algebra.Field.Rat

namespace Osu.TI

/-! ### Weighted sums over the stencil nodes 0, 1, 2, … -/

/-- Σ_j W[j] * f (base + j) -/
def wsumFrom (W : List ℚ) (f : ℕ → ℚ) (base : ℕ) : ℚ :=
  lsum (List.zipWith (fun w i => w * f i) W (List.range' base W.length))

def wsum (W : List ℚ) (f : ℕ → ℚ) : ℚ := wsumFrom W f 0

theorem wsumFrom_nil (f : ℕ → ℚ) (b : ℕ) : wsumFrom [] f b = 0 := rfl

theorem wsumFrom_cons (w : ℚ) (W : List ℚ) (f : ℕ → ℚ) (b : ℕ) :
    wsumFrom (w :: W) f b = w * f b + wsumFrom W f (b + 1) := by
  simp [wsumFrom, List.range'_succ, lsum]

theorem wsumFrom_add (W : List ℚ) (f g : ℕ → ℚ) (b : ℕ) :
    wsumFrom W (fun i => f i + g i) b = wsumFrom W f b + wsumFrom W g b := by
  induction W generalizing b with
  | nil => simp [wsumFrom_nil]
  | cons w W ih => simp only [wsumFrom_cons, ih]; ring

theorem wsumFrom_smul (W : List ℚ) (a : ℚ) (f : ℕ → ℚ) (b : ℕ) :
    wsumFrom W (fun i => a * f i) b = a * wsumFrom W f b := by
  induction W generalizing b with
  | nil => simp [wsumFrom_nil]
  | cons w W ih => simp only [wsumFrom_cons, ih]; ring

theorem wsumFrom_zero (W : List ℚ) (b : ℕ) : wsumFrom W (fun _ => 0) b = 0 := by
  induction W generalizing b with
  | nil => simp [wsumFrom_nil]
  | cons w W ih => simp only [wsumFrom_cons, ih]; ring

theorem npow_eq_pow (x : ℚ) (k : ℕ) : npow x k = x ^ k := by
  induction k with
  | zero => simp [npow]
  | succ k ih => simp [npow, ih, pow_succ]

/-! ### The exactness table -/

/-- Σ_i W[i] * i^k, as the model computes it -/
def moment (W : List ℚ) (k : ℕ) : ℚ :=
  lsum (List.zipWith (fun w i => w * npow ((i : ℕ) : ℚ) k) W (List.range W.length))

/-- ∫_{m-1}^{m} x^k dx -/
def exactMoment (m : ℚ) (k : ℕ) : ℚ :=
  (npow m (k + 1) - npow (m - 1) (k + 1)) / ((k + 1 : ℕ) : ℚ)

/-- every order ≤ `maxOrder`, every number of implicit points, every monomial below the order -/
def tableOK (maxOrder : ℕ) : Bool :=
  (List.range maxOrder).all fun o' =>
    let order := o' + 1
    (List.range order).all fun n' =>
      let n := n' + 1
      let W : List ℚ := stencil order n
      W.length == order &&
      (List.range order).all fun k =>
        moment W k == exactMoment (((order - n : ℕ) : ℚ)) k

set_option maxRecDepth 100000 in
theorem table8 : tableOK 8 = true := by decide +kernel

theorem table_entry {order n k : ℕ} (ho : 1 ≤ order) (ho8 : order ≤ 8) (hn : 1 ≤ n) (hno : n ≤ order)
    (hk : k < order) :
    (stencil order n : List ℚ).length = order ∧
    moment (stencil order n) k = exactMoment (((order - n : ℕ) : ℚ)) k := by
  have h := table8
  simp only [tableOK, List.all_eq_true, List.mem_range, Bool.and_eq_true, beq_iff_eq] at h
  have h1 := h (order - 1) (by omega) (n - 1) (by omega)
  have e1 : order - 1 + 1 = order := by omega
  have e2 : n - 1 + 1 = n := by omega
  rw [e1, e2] at h1
  exact ⟨h1.1, h1.2 k hk⟩

theorem moment_eq_wsum (W : List ℚ) (k : ℕ) : moment W k = wsum W (fun i => (i : ℚ) ^ k) := by
  simp [moment, wsum, wsumFrom, npow_eq_pow, List.range_eq_range']

/-! ### From monomials to all polynomials below the order -/

/-- Σ_k c[k] x^(j+k) (coefficients lowest power first) -/
def polyEvalFrom : List ℚ → ℕ → ℚ → ℚ
  | [], _, _ => 0
  | a :: as, j, x => a * x ^ j + polyEvalFrom as (j + 1) x

/-- ∫_a^b Σ_k c[k] x^(j+k) dx -/
def polyIntFrom : List ℚ → ℕ → ℚ → ℚ → ℚ
  | [], _, _, _ => 0
  | c :: cs, j, a, b => c * ((b ^ (j + 1) - a ^ (j + 1)) / ((j + 1 : ℕ) : ℚ)) + polyIntFrom cs (j + 1) a b

theorem exact_of_moments (W : List ℚ) (m : ℚ) (d : ℕ)
    (h : ∀ k < d, wsum W (fun i => (i : ℚ) ^ k) = (m ^ (k + 1) - (m - 1) ^ (k + 1)) / ((k + 1 : ℕ) : ℚ))
    (c : List ℚ) (j : ℕ) (hc : j + c.length ≤ d) :
    wsum W (fun i => polyEvalFrom c j (i : ℚ)) = polyIntFrom c j (m - 1) m := by
  induction c generalizing j with
  | nil => simp [polyEvalFrom, polyIntFrom, wsum, wsumFrom_zero]
  | cons a as ih =>
    simp only [polyEvalFrom, polyIntFrom]
    unfold wsum at *
    rw [wsumFrom_add, wsumFrom_smul]
    have h1 := h j (by simp at hc; omega)
    have h2 := ih (j + 1) (by simp at hc ⊢; omega)
    rw [h1, h2]

end Osu.TI
