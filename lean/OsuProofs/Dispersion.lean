import OsuProofs.RealTransc
import OsuModel.Dispersion
import Mathlib.Analysis.SpecialFunctions.Trigonometric.DerivHyp
import Mathlib.Analysis.Calculus.Deriv.MeanValue
import Mathlib.Analysis.SpecialFunctions.Sqrt
import Mathlib.Tactic.Positivity
import Mathlib.Tactic.FieldSimp
import Mathlib.Tactic.Linarith

namespace Osu.Disp

open Real

/-! ### tanh on the reals -/

theorem hasDerivAt_tanh (x : ℝ) : HasDerivAt Real.tanh (1 / Real.cosh x ^ 2) x := by
  have hc : Real.cosh x ≠ 0 := ne_of_gt (Real.cosh_pos x)
  have h := (Real.hasDerivAt_sinh x).div (Real.hasDerivAt_cosh x) hc
  have e : (Real.sinh / Real.cosh) = Real.tanh := by
    funext y; simp [Real.tanh_eq_sinh_div_cosh]
  rw [e] at h
  have hnum : Real.cosh x * Real.cosh x - Real.sinh x * Real.sinh x = 1 := by
    nlinarith [Real.cosh_sq x]
  rw [hnum] at h
  exact h

theorem tanh_strictMono : StrictMono Real.tanh := by
  apply strictMono_of_deriv_pos
  intro x
  rw [(hasDerivAt_tanh x).deriv]
  have := Real.cosh_pos x
  positivity

theorem tanh_pos {x : ℝ} (hx : 0 < x) : 0 < Real.tanh x := by
  have := tanh_strictMono hx
  rwa [Real.tanh_zero] at this

theorem tanh_nonneg {x : ℝ} (hx : 0 ≤ x) : 0 ≤ Real.tanh x := by
  rcases hx.lt_or_eq with h | h
  · exact le_of_lt (tanh_pos h)
  · rw [← h, Real.tanh_zero]

/-- `tanh x ≤ x` for `x ≥ 0` -/
theorem tanh_le_self {x : ℝ} (hx : 0 ≤ x) : Real.tanh x ≤ x := by
  have hmono : MonotoneOn (fun y => y - Real.tanh y) (Set.Ici 0) := by
    apply monotoneOn_of_deriv_nonneg (convex_Ici 0)
    · apply ContinuousOn.sub continuousOn_id
      exact fun y _ => (hasDerivAt_tanh y).continuousAt.continuousWithinAt
    · intro y _
      exact ((hasDerivAt_id y).sub (hasDerivAt_tanh y)).differentiableAt.differentiableWithinAt
    · intro y _
      have : deriv (fun y => y - Real.tanh y) y = 1 - 1 / Real.cosh y ^ 2 :=
        ((hasDerivAt_id y).sub (hasDerivAt_tanh y)).deriv
      rw [this]
      have h1 := Real.one_le_cosh y
      have : 1 / Real.cosh y ^ 2 ≤ 1 := by
        rw [div_le_one (by positivity)]; nlinarith
      linarith
  have := hmono (Set.mem_Ici.2 (le_refl 0)) (Set.mem_Ici.2 hx) hx
  simp only [Real.tanh_zero, sub_zero] at this
  linarith

/-! ### The dispersion relation at ℝ -/

/-- `ω² = g k tanh(k d)` as a function of `k` (finite depth) -/
noncomputable def omegaSq (g d k : ℝ) : ℝ := g * k * Real.tanh (k * d)

theorem omega_finite (g k d : ℝ) : omega g k (.finite d) = Real.sqrt (omegaSq g d k) := by
  simp [omega, tanhKd, omegaSq, Transc.sqrt, Transc.tanh]

theorem omega_deep (g k : ℝ) : omega g k (.deep : Depth ℝ) = Real.sqrt (g * k) := by
  simp [omega, tanhKd, Transc.sqrt]

theorem omegaSq_pos {g d k : ℝ} (hg : 0 < g) (hd : 0 < d) (hk : 0 < k) : 0 < omegaSq g d k := by
  have := tanh_pos (mul_pos hk hd)
  unfold omegaSq; positivity

theorem omegaSq_strictMono {g d : ℝ} (hg : 0 < g) (hd : 0 < d) {k1 k2 : ℝ} (h1 : 0 < k1) (h : k1 < k2) :
    omegaSq g d k1 < omegaSq g d k2 := by
  have t1 := tanh_pos (mul_pos h1 hd)
  have t2 : Real.tanh (k1 * d) < Real.tanh (k2 * d) := tanh_strictMono (mul_lt_mul_of_pos_right h hd)
  unfold omegaSq
  have : g * k1 * Real.tanh (k1 * d) < g * k2 * Real.tanh (k1 * d) := by
    apply mul_lt_mul_of_pos_right _ t1
    exact mul_lt_mul_of_pos_left h hg
  have h2 : g * k2 * Real.tanh (k1 * d) < g * k2 * Real.tanh (k2 * d) := by
    apply mul_lt_mul_of_pos_left t2
    have := lt_trans h1 h
    positivity
  linarith

theorem omegaSq_mono_d {g k : ℝ} (hg : 0 < g) (hk : 0 < k) {d1 d2 : ℝ} (h : d1 ≤ d2) :
    omegaSq g d1 k ≤ omegaSq g d2 k := by
  unfold omegaSq
  apply mul_le_mul_of_nonneg_left _ (by positivity)
  exact tanh_strictMono.monotone (mul_le_mul_of_nonneg_left h hk.le)

/-- `omega_strictMono_k` -/
theorem omega_strictMono_k {g d : ℝ} (hg : 0 < g) (hd : 0 < d) {k1 k2 : ℝ} (h1 : 0 < k1) (h : k1 < k2) :
    omega g k1 (.finite d) < omega g k2 (.finite d) := by
  rw [omega_finite, omega_finite]
  exact Real.sqrt_lt_sqrt (le_of_lt (omegaSq_pos hg hd h1)) (omegaSq_strictMono hg hd h1 h)

/-- `omega_mono_d` -/
theorem omega_mono_d {g k : ℝ} (hg : 0 < g) (hk : 0 < k) {d1 d2 : ℝ} (h : d1 ≤ d2) :
    omega g k (.finite d1) ≤ omega g k (.finite d2) := by
  rw [omega_finite, omega_finite]
  exact Real.sqrt_le_sqrt (omegaSq_mono_d hg hk h)

/-- finite depth is never faster than deep water -/
theorem omega_le_deep {g k d : ℝ} (hg : 0 < g) (hk : 0 < k) :
    omega g k (.finite d) ≤ omega g k .deep := by
  rw [omega_finite, omega_deep]
  apply Real.sqrt_le_sqrt
  unfold omegaSq
  have := Real.tanh_lt_one (k * d)
  have hgk : 0 < g * k := by positivity
  nlinarith

end Osu.Disp
