import OsuModel.Scalar
import Mathlib.Analysis.SpecialFunctions.Complex.Arg
import Mathlib.Analysis.SpecialFunctions.Trigonometric.Angle
import Mathlib.Analysis.SpecialFunctions.Log.Basic
import Mathlib.Analysis.SpecialFunctions.Sqrt
import Mathlib.Analysis.SpecialFunctions.Trigonometric.Deriv

/-! The real-number instance of the scalar interface: the functions the theorems talk about. -/

noncomputable instance Osu.instTranscReal : Osu.Transc ℝ where
  sqrt := Real.sqrt
  exp := Real.exp
  log := Real.log
  cos := Real.cos
  sin := Real.sin
  tanh := Real.tanh
  sinh := Real.sinh
  cosh := Real.cosh
  atan2 y x := Complex.arg ⟨x, y⟩
  pi := Real.pi
