import OsuProofs.Spectral

namespace Osu.Spec

variable {α : Type} [Field α] [LinearOrder α] [IsStrictOrderedRing α]
set_option linter.unusedSectionVars false

/-- the selected nodes (f, e) with missing energies counted as zero -/
def nodes (fmin : α) (fmax : Option α) (fs : List α) (es : List (Option α)) : List (α × α) :=
  (selectBand fmin fmax fs es).map fun q => (q.1, fill0 q.2)

theorem fill0_mul (e : Option α) (x : α) : fill0 (e.map (· * x)) = fill0 e * x := by
  cases e <;> simp [fill0]

/-- the moment in closed form: a sum over the atoms of the selected nodes -/
theorem moment_eq_S (p : ℕ) (fmin : α) (fmax : Option α) (fs : List α) (es : List (Option α)) :
    moment p fmin fmax fs es = S p (atoms (nodes fmin fmax fs es)) := by
  rw [← trapz_eq_S]
  simp only [moment, nodes, List.map_map]
  congr 1
  apply List.map_congr_left
  intro q _
  simp [fill0_mul, npow_eq_pow]

theorem selectBand_map {β γ : Type} (g : β → γ) (fmin : α) (fmax : Option α) (fs : List α) (vs : List β) :
    selectBand fmin fmax fs (vs.map g) = (selectBand fmin fmax fs vs).map fun q => (q.1, g q.2) := by
  simp only [selectBand]
  have : fs.zip (vs.map g) = (fs.zip vs).map fun q => (q.1, g q.2) := by
    rw [← List.map_id fs, List.zip_map, List.map_id]
    apply List.map_congr_left
    intro q _; rfl
  rw [this, List.filter_map]
  rfl

theorem moment_smul (p : ℕ) (c : α) (fmin : α) (fmax : Option α) (fs : List α) (es : List (Option α)) :
    moment p fmin fmax fs (es.map (Option.map (c * ·))) = c * moment p fmin fmax fs es := by
  simp only [moment]
  rw [selectBand_map, List.map_map, ← trapz_smul]
  congr 1
  simp only [List.map_map]
  apply List.map_congr_left
  intro q _
  cases h : q.2 <;> simp [fill0, h, mul_assoc]

/-- sum of two energies, NaN if either is NaN (float semantics) -/
def optAdd : Option α → Option α → Option α
  | some x, some y => some (x + y)
  | _, _ => none

theorem moment_add (p : ℕ) (fmin : α) (fmax : Option α) (l : List (α × Option α × Option α))
    (hmask : ∀ q ∈ l, q.2.1.isSome = q.2.2.isSome) :
    moment p fmin fmax (l.map (·.1)) (l.map fun q => optAdd q.2.1 q.2.2) =
      moment p fmin fmax (l.map (·.1)) (l.map (·.2.1)) +
      moment p fmin fmax (l.map (·.1)) (l.map (·.2.2)) := by
  have hz : ∀ (g : α × Option α × Option α → Option α),
      selectBand fmin fmax (l.map (·.1)) (l.map g) =
        (l.filter fun q => inBand fmin fmax q.1).map fun q => (q.1, g q) := by
    intro g
    simp only [selectBand, List.zip_map', List.filter_map]
    rfl
  simp only [moment, hz, List.map_map]
  let T := (l.filter fun q => inBand fmin fmax q.1).map fun q =>
    (q.1, fill0 (q.2.1.map (· * npow q.1 p)), fill0 (q.2.2.map (· * npow q.1 p)))
  have e1 : (l.filter fun q => inBand fmin fmax q.1).map
      ((fun q : α × Option α => (q.1, fill0 (q.2.map (· * npow q.1 p)))) ∘ fun q => (q.1, q.2.1)) =
      T.map fun q => (q.1, q.2.1) := by
    simp only [T, List.map_map]; rfl
  have e2 : (l.filter fun q => inBand fmin fmax q.1).map
      ((fun q : α × Option α => (q.1, fill0 (q.2.map (· * npow q.1 p)))) ∘ fun q => (q.1, q.2.2)) =
      T.map fun q => (q.1, q.2.2) := by
    simp only [T, List.map_map]; rfl
  have e0 : (l.filter fun q => inBand fmin fmax q.1).map
      ((fun q : α × Option α => (q.1, fill0 (q.2.map (· * npow q.1 p)))) ∘ fun q => (q.1, optAdd q.2.1 q.2.2)) =
      T.map fun q => (q.1, q.2.1 + q.2.2) := by
    simp only [T, List.map_map]
    apply List.map_congr_left
    intro q hq
    have hm := hmask q (List.mem_filter.1 hq).1
    obtain ⟨f, e1, e2⟩ := q
    cases e1 <;> cases e2 <;> simp_all [optAdd, fill0, add_mul]
  rw [e0, e1, e2]
  exact trapz_add T

/-! ### Facts about the selected nodes -/

theorem nodes_mem (fmin : α) (fmax : Option α) (fs : List α) (es : List (Option α)) :
    ∀ n ∈ nodes fmin fmax fs es, n.1 ∈ fs ∧ inBand fmin fmax n.1 = true ∧
      ∃ e ∈ es, n.2 = fill0 e := by
  intro n hn
  simp only [nodes, selectBand, List.mem_map, List.mem_filter] at hn
  obtain ⟨q, ⟨hq, hb⟩, rfl⟩ := hn
  exact ⟨(List.of_mem_zip hq).1, hb, q.2, (List.of_mem_zip hq).2, rfl⟩

theorem nodes_sorted (fmin : α) (fmax : Option α) (fs : List α) (es : List (Option α))
    (hs : fs.Pairwise (· < ·)) : (nodes fmin fmax fs es).Pairwise (fun a b => a.1 < b.1) := by
  simp only [nodes, selectBand]
  rw [List.pairwise_map]
  apply List.Pairwise.filter
  have : (fs.zip es).Pairwise (fun a b => a.1 < b.1) := by
    induction fs generalizing es with
    | nil => simp
    | cons f fs ih =>
      cases es with
      | nil => simp
      | cons e es =>
        rw [List.pairwise_cons] at hs
        simp only [List.zip_cons_cons, List.pairwise_cons]
        refine ⟨?_, ih es hs.2⟩
        intro q hq
        exact hs.1 q.1 (List.of_mem_zip hq).1
  exact this

end Osu.Spec
