import OsuProofs.FileCachePhase

namespace Osu.FC

variable (resOf : Nat → Nat)

/-! ### `dedup`, `evictOrder` -/

theorem mem_dedup (l : List Nat) (k : Nat) : k ∈ dedup l ↔ k ∈ l := by
  induction l with
  | nil => simp [dedup]
  | cons a as ih =>
    simp only [dedup]
    split
    · next h =>
      rw [ih]; simp only [List.mem_cons]
      constructor
      · exact Or.inr
      · rintro (h' | h')
        · subst h'; exact (ih).1 h
        · exact h'
    · simp [ih]

theorem nodup_dedup (l : List Nat) : (dedup l).Nodup := by
  induction l with
  | nil => exact List.nodup_nil
  | cons a as ih =>
    simp only [dedup]
    split
    · exact ih
    · next h => exact List.nodup_cons.2 ⟨h, ih⟩

theorem mem_insertBy (st : Nat → Nat) (k j : Nat) (l : List Nat) :
    j ∈ insertBy st k l ↔ j = k ∨ j ∈ l := by
  induction l with
  | nil => simp [insertBy]
  | cons x xs ih =>
    simp only [insertBy]
    split
    · simp
    · simp only [List.mem_cons, ih]
      constructor
      · rintro (h | h | h)
        · exact Or.inr (Or.inl h)
        · exact Or.inl h
        · exact Or.inr (Or.inr h)
      · rintro (h | h | h)
        · exact Or.inr (Or.inl h)
        · exact Or.inl h
        · exact Or.inr (Or.inr h)

theorem mem_sortAsc (st : Nat → Nat) (j : Nat) (l : List Nat) : j ∈ sortAsc st l ↔ j ∈ l := by
  induction l with
  | nil => simp [sortAsc]
  | cons x xs ih => simp [sortAsc, mem_insertBy, ih]

theorem nodup_insertBy (st : Nat → Nat) (k : Nat) (l : List Nat) (hl : l.Nodup) (hk : k ∉ l) :
    (insertBy st k l).Nodup := by
  induction l with
  | nil => simp [insertBy]
  | cons x xs ih =>
    rw [List.nodup_cons] at hl
    simp only [insertBy]
    split
    · exact List.nodup_cons.2 ⟨hk, List.nodup_cons.2 hl⟩
    · refine List.nodup_cons.2 ⟨?_, ih hl.2 (fun h => hk (List.mem_cons_of_mem _ h))⟩
      rw [mem_insertBy]
      rintro (h | h)
      · exact hk (h ▸ List.mem_cons_self)
      · exact hl.1 h

theorem nodup_sortAsc (st : Nat → Nat) (l : List Nat) (hl : l.Nodup) : (sortAsc st l).Nodup := by
  induction l with
  | nil => simp [sortAsc]
  | cons x xs ih =>
    rw [List.nodup_cons] at hl
    exact nodup_insertBy st x _ (ih hl.2) (fun h => hl.1 ((mem_sortAsc st x xs).1 h))

theorem sorted_insertBy (st : Nat → Nat) (k : Nat) (l : List Nat)
    (hl : l.Pairwise (fun a b => st a ≤ st b)) :
    (insertBy st k l).Pairwise (fun a b => st a ≤ st b) := by
  induction l with
  | nil => simp [insertBy]
  | cons x xs ih =>
    rw [List.pairwise_cons] at hl
    simp only [insertBy]
    split
    · next hlt =>
      refine List.pairwise_cons.2 ⟨?_, List.pairwise_cons.2 hl⟩
      intro a ha
      rcases List.mem_cons.1 ha with h | h
      · subst h; omega
      · have := hl.1 a h; omega
    · next hge =>
      refine List.pairwise_cons.2 ⟨?_, ih hl.2⟩
      intro a ha
      rcases (mem_insertBy st k a xs).1 ha with h | h
      · subst h; omega
      · exact hl.1 a h

theorem sorted_sortAsc (st : Nat → Nat) (l : List Nat) :
    (sortAsc st l).Pairwise (fun a b => st a ≤ st b) := by
  induction l with
  | nil => simp [sortAsc]
  | cons x xs ih => exact sorted_insertBy st x _ ih

theorem evictOrder_mem (s : State) (k : Nat) : k ∈ evictOrder s ↔ k ∈ s.entries :=
  mem_sortAsc _ _ _

theorem evictOrder_nodup (s : State) (h : s.entries.Nodup) : (evictOrder s).Nodup :=
  nodup_sortAsc _ _ h

/-- The eviction order is oldest first. -/
theorem evictOrder_sorted (s : State) :
    (evictOrder s).Pairwise (fun a b => stampOf s a ≤ stampOf s b) :=
  sorted_sortAsc _ _

/-! ### Preservation of the invariant by the remaining operations -/

theorem inv_of_same {s s' : State} (h : Inv resOf s) (hd : DiskInv resOf s')
    (he : s'.entries = s.entries) (hp : ∀ k, present s' k = present s k) : Inv resOf s' :=
  ⟨hd, he ▸ h.nodup, fun k => by rw [he, hp]; exact h.idx k⟩

theorem inv_rmCache {s : State} (h : Inv resOf s) (k : Nat) : Inv resOf (exec s (.rmCache k)) := by
  refine ⟨diskInv_exec resOf _ h.disk trivial, h.nodup.filter _, ?_⟩
  intro j
  simp only [exec, present, upd]
  by_cases hj : j = k
  · subst hj; simp
  · have := h.idx j
    simp only [present] at this
    simp [hj, this]

theorem inv_rmCaches {s : State} (h : Inv resOf s) (ks : List Nat) :
    Inv resOf (execs s (ks.map Act.rmCache)) := by
  induction ks generalizing s with
  | nil => exact h
  | cons k ks ih => exact ih (inv_rmCache resOf h k)

theorem inv_setMax {s : State} (h : Inv resOf s) (n : Nat) : Inv resOf (exec s (.setMax n)) :=
  inv_of_same resOf h (diskInv_exec resOf _ h.disk trivial) rfl (fun _ => rfl)

theorem inv_enlarge {s : State} (h : Inv resOf s) (ks : List Nat) : Inv resOf (enlarge s ks) := by
  unfold enlarge
  simp only []
  split
  · exact inv_setMax resOf h _
  · exact h

theorem inv_evict {s : State} (h : Inv resOf s) : Inv resOf (evict s) := by
  unfold evict
  rw [evictLoop_eq_execs]
  exact inv_rmCaches resOf h _

theorem inv_touch {s : State} (h : Inv resOf s) (k : Nat) : Inv resOf (exec s (.touch k)) := by
  refine inv_of_same resOf h (diskInv_exec resOf _ h.disk trivial) ?_ ?_
  · simp only [exec]; split <;> rfl
  · intro j
    simp only [exec, present]
    split
    · next f hf =>
      simp only [upd]
      by_cases hj : j = k
      · subst hj; simp [hf]
      · simp [hj]
    · rfl

theorem diskInv_crash {s : State} (h : DiskInv resOf s) : DiskInv resOf (crash s) :=
  ⟨h.cache_full, h.known, h.stamp_lt, h.stamp_inj⟩

/-- Reopening rebuilds a correct index from any directory that satisfies the disk invariant. -/
theorem inv_rebuild {s : State} (h : DiskInv resOf s) : Inv resOf (rebuild s) := by
  refine ⟨⟨h.cache_full, h.known, h.stamp_lt, h.stamp_inj⟩, (nodup_dedup _).filter _, ?_⟩
  intro k
  simp only [rebuild, List.mem_filter, mem_dedup]
  constructor
  · exact fun h => h.2
  · intro hp
    refine ⟨?_, hp⟩
    simp only [present] at hp
    cases hd : s.disk (.cache k) with
    | none => simp [hd] at hp
    | some f => exact h.known k f hd

theorem inv_reopen {s : State} (h : DiskInv resOf s) (ev : Bool) : Inv resOf (reopen s ev).1 := by
  unfold reopen
  simp only []
  split
  · exact inv_evict resOf (inv_rebuild resOf h)
  · split <;> exact inv_rebuild resOf h

theorem inv_foreign {s : State} (h : Inv resOf s) (n size : Nat) :
    Inv resOf { s with disk := upd s.disk (.foreign n) (some ⟨.foreign n, size, s.clock⟩),
                       clock := s.clock + 1 } := by
  obtain ⟨⟨h1, h2, h3, h4⟩, hn, hi⟩ := h
  refine ⟨⟨?_, ?_, ?_, ?_⟩, hn, ?_⟩
  · intro k f hf; simp [upd] at hf; exact h1 k f hf
  · intro k f hf; simp [upd] at hf; exact h2 k f hf
  · intro m f hf
    simp only [upd] at hf
    split at hf
    · cases hf; simp
    · have := h3 m f hf; simp only; omega
  · intro m m' f f' hf hf' he
    simp only [upd] at hf hf'
    split at hf <;> split at hf'
    · simp_all
    · cases hf; have := h3 m' f' hf'; simp at he; omega
    · cases hf'; have := h3 m f hf; simp at he; omega
    · exact h4 m m' f f' hf hf' he
  · intro k; simp [present, upd]; have := hi k; simpa [present] using this


/-! ### Unfolding `get` -/

theorem getHyp_of_scheduleOk {s : State} {reqs : List Req} {ran : List Nat} (hinv : Inv resOf s)
    (hkeys : reqs.Pairwise (fun a b => a.key ≠ b.key))
    (hs : scheduleOk s.tolerant (reqs.filter (isMiss s)) ran = true) : GetHyp resOf s reqs ran := by
  simp only [scheduleOk, Bool.and_eq_true] at hs
  obtain ⟨⟨h1, h2⟩, _⟩ := hs
  refine ⟨hinv, hkeys, nodup_of_nodupB h2, ?_⟩
  intro k hk
  rw [List.all_eq_true] at h1
  have := h1 k hk
  rw [List.any_eq_true] at this
  obtain ⟨q, hq, hqk⟩ := this
  simp at hq hqk
  exact ⟨q, hq.1, hq.2, hqk⟩

/-- The state just before eviction. -/
def preEvict (s : State) (reqs : List Req) (ran : List Nat) : State :=
  enlarge (phase4 resOf s reqs ran) ((returned s reqs ran).map (·.key))

theorem get_state {s : State} {reqs : List Req} {ran : List Nat}
    (hs : scheduleOk s.tolerant (reqs.filter (isMiss s)) ran = true) :
    (get resOf s reqs ran).state =
      if (reqs.filter (isMiss s)).isEmpty then preEvict resOf s reqs ran
      else evict (preEvict resOf s reqs ran) := by
  simp [get, hs, preEvict]

theorem get_evicted {s : State} {reqs : List Req} {ran : List Nat}
    (hs : scheduleOk s.tolerant (reqs.filter (isMiss s)) ran = true) :
    (get resOf s reqs ran).evicted =
      if (reqs.filter (isMiss s)).isEmpty then []
      else evictedBy (evictOrder (preEvict resOf s reqs ran)) (preEvict resOf s reqs ran) := by
  simp [get, hs, preEvict]

theorem get_bad {s : State} {reqs : List Req} {ran : List Nat}
    (hs : scheduleOk s.tolerant (reqs.filter (isMiss s)) ran = false) :
    get resOf s reqs ran = ⟨s, .badSchedule, [], []⟩ := by
  simp [get, hs]

theorem get_out_paths {s : State} {reqs : List Req} {ran : List Nat} {ks : List Nat}
    (h : (get resOf s reqs ran).out = .paths ks) :
    scheduleOk s.tolerant (reqs.filter (isMiss s)) ran = true ∧
      ks = (returned s reqs ran).map (·.key) := by
  cases hs : scheduleOk s.tolerant (reqs.filter (isMiss s)) ran
  · rw [get_bad resOf hs] at h; simp at h
  · refine ⟨rfl, ?_⟩
    simp only [get, hs, Bool.not_true, Bool.false_eq_true, if_false] at h
    split at h
    · split at h <;> simp at h
    · simp at h; exact h.symm

/-- Facts about the state just before eviction. -/
theorem preEvict_facts {s : State} {reqs : List Req} {ran : List Nat} (h : GetHyp resOf s reqs ran) :
    let s5 := preEvict resOf s reqs ran
    let s4 := phase4 resOf s reqs ran
    Inv resOf s5 ∧ s5.disk = s4.disk ∧ s5.entries = s4.entries ∧
    (((returned s reqs ran).map (·.key)).map (sizeOf s5)).sum ≤ s5.maxSize ∧
    (s5.maxSize = s.maxSize ∨
      (s.maxSize < (((returned s reqs ran).map (·.key)).map (sizeOf s5)).sum ∧
       s5.maxSize = (((returned s reqs ran).map (·.key)).map (sizeOf s5)).sum + s.slack)) := by
  have f := phase4_facts resOf s reqs ran h
  have hsz : ∀ n, sizeOf (exec (phase4 resOf s reqs ran) (.setMax n)) = sizeOf (phase4 resOf s reqs ran) :=
    fun n => rfl
  simp only [preEvict, enlarge]
  split
  · next hgt =>
    refine ⟨inv_setMax resOf f.inv _, rfl, rfl, ?_, ?_⟩
    · rw [hsz]; simp only [exec]; omega
    · right
      rw [f.maxSize] at hgt
      rw [hsz]
      refine ⟨hgt, ?_⟩
      simp only [exec, f.slack]
  · next hle =>
    refine ⟨f.inv, rfl, rfl, by omega, Or.inl f.maxSize⟩

end Osu.FC
