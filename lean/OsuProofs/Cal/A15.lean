import OsuProofs.Cal.Defs
namespace Osu.TC
set_option maxRecDepth 1000000 in
theorem calA15 : rangeA 136980 9117 = true := by decide +kernel
end Osu.TC
