import OsuProofs.Cal.Defs
namespace Osu.TC
set_option maxRecDepth 1000000 in
theorem calA03 : rangeA 27396 9132 = true := by decide +kernel
end Osu.TC
