import OsuProofs.Cal.Defs
namespace Osu.TC
set_option maxRecDepth 1000000 in
theorem calA06 : rangeA 54792 9132 = true := by decide +kernel
end Osu.TC
