import OsuModel.TimeConv

/-! Kernel-evaluated tables over one 400-year era (146097 days), in chunks. -/
namespace Osu.TC

/-- day of era → (yoe, m, d) → day of era, with range facts -/
def doeOK (doe : Nat) : Bool :=
  let r := civilOfDoe doe
  doeOfCivil r.1 r.2.1 r.2.2 == doe && r.1 ≤ 399 && 1 ≤ r.2.1 && r.2.1 ≤ 12 && 1 ≤ r.2.2 &&
  r.2.2 ≤ daysInMonth (if r.2.1 ≤ 2 then (r.1 : Int) + 1 else r.1) r.2.1

def rangeA : Nat → Nat → Bool
  | _, 0 => true
  | lo, n + 1 => doeOK lo && rangeA (lo + 1) n

theorem rangeA_spec (lo n : Nat) (h : rangeA lo n = true) : ∀ i, lo ≤ i → i < lo + n → doeOK i = true := by
  induction n generalizing lo with
  | zero => intro i h1 h2; omega
  | succ n ih =>
    intro i h1 h2
    simp only [rangeA, Bool.and_eq_true] at h
    by_cases hi : i = lo
    · subst hi; exact h.1
    · exact ih (lo + 1) h.2 i (by omega) (by omega)

/-- (yoe, m, d) → day of era → (yoe, m, d) for every valid day of the month -/
def civOK (yoe m d : Nat) : Bool :=
  let doe := doeOfCivil yoe m d
  decide (doe < 146097) && civilOfDoe doe == (yoe, m, d)

def daysB (yoe m : Nat) : Nat → Bool
  | 0 => true
  | d + 1 => civOK yoe m (d + 1) && daysB yoe m d

def monthsB (yoe : Nat) : Nat → Bool
  | 0 => true
  | m + 1 => daysB yoe (m + 1) (daysInMonth (if m + 1 ≤ 2 then (yoe : Int) + 1 else yoe) (m + 1)) && monthsB yoe m

def rangeB : Nat → Nat → Bool
  | _, 0 => true
  | lo, n + 1 => monthsB lo 12 && rangeB (lo + 1) n

theorem daysB_spec (yoe m n : Nat) (h : daysB yoe m n = true) : ∀ d, 1 ≤ d → d ≤ n → civOK yoe m d = true := by
  induction n with
  | zero => intro d h1 h2; omega
  | succ n ih =>
    intro d h1 h2
    simp only [daysB, Bool.and_eq_true] at h
    by_cases hd : d = n + 1
    · subst hd; exact h.1
    · exact ih h.2 d h1 (by omega)

theorem monthsB_spec (yoe n : Nat) (h : monthsB yoe n = true) : ∀ m, 1 ≤ m → m ≤ n →
    ∀ d, 1 ≤ d → d ≤ daysInMonth (if m ≤ 2 then (yoe : Int) + 1 else yoe) m → civOK yoe m d = true := by
  induction n with
  | zero => intro m h1 h2; omega
  | succ n ih =>
    intro m h1 h2
    simp only [monthsB, Bool.and_eq_true] at h
    by_cases hm : m = n + 1
    · subst hm; exact daysB_spec _ _ _ h.1
    · exact ih h.2 m h1 (by omega)

theorem rangeB_spec (lo n : Nat) (h : rangeB lo n = true) : ∀ y, lo ≤ y → y < lo + n →
    ∀ m, 1 ≤ m → m ≤ 12 → ∀ d, 1 ≤ d → d ≤ daysInMonth (if m ≤ 2 then (y : Int) + 1 else y) m →
      civOK y m d = true := by
  induction n generalizing lo with
  | zero => intro y h1 h2; omega
  | succ n ih =>
    intro y h1 h2
    simp only [rangeB, Bool.and_eq_true] at h
    by_cases hy : y = lo
    · subst hy; exact monthsB_spec _ _ h.1
    · exact ih (lo + 1) h.2 y (by omega) (by omega)

end Osu.TC
