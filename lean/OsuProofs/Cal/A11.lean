import OsuProofs.Cal.Defs
namespace Osu.TC
set_option maxRecDepth 1000000 in
theorem calA11 : rangeA 100452 9132 = true := by decide +kernel
end Osu.TC
