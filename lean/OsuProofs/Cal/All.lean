import OsuProofs.Cal.A00
import OsuProofs.Cal.A01
import OsuProofs.Cal.A02
import OsuProofs.Cal.A03
import OsuProofs.Cal.A04
import OsuProofs.Cal.A05
import OsuProofs.Cal.A06
import OsuProofs.Cal.A07
import OsuProofs.Cal.A08
import OsuProofs.Cal.A09
import OsuProofs.Cal.A10
import OsuProofs.Cal.A11
import OsuProofs.Cal.A12
import OsuProofs.Cal.A13
import OsuProofs.Cal.A14
import OsuProofs.Cal.A15
import OsuProofs.Cal.B00
import OsuProofs.Cal.B01
import OsuProofs.Cal.B02
import OsuProofs.Cal.B03
import OsuProofs.Cal.B04
import OsuProofs.Cal.B05
import OsuProofs.Cal.B06
import OsuProofs.Cal.B07
import OsuProofs.Cal.B08
import OsuProofs.Cal.B09
import OsuProofs.Cal.B10
import OsuProofs.Cal.B11
import OsuProofs.Cal.B12
import OsuProofs.Cal.B13
import OsuProofs.Cal.B14
import OsuProofs.Cal.B15

namespace Osu.TC

/-- every day of the era: civilOfDoe then doeOfCivil is the identity, with range facts -/
theorem tableA (i : Nat) (h : i < 146097) : doeOK i = true := by
  by_cases hA00 : i < 9132
  · exact rangeA_spec 0 9132 calA00 i (by omega) (by omega)
  by_cases hA01 : i < 18264
  · exact rangeA_spec 9132 9132 calA01 i (by omega) (by omega)
  by_cases hA02 : i < 27396
  · exact rangeA_spec 18264 9132 calA02 i (by omega) (by omega)
  by_cases hA03 : i < 36528
  · exact rangeA_spec 27396 9132 calA03 i (by omega) (by omega)
  by_cases hA04 : i < 45660
  · exact rangeA_spec 36528 9132 calA04 i (by omega) (by omega)
  by_cases hA05 : i < 54792
  · exact rangeA_spec 45660 9132 calA05 i (by omega) (by omega)
  by_cases hA06 : i < 63924
  · exact rangeA_spec 54792 9132 calA06 i (by omega) (by omega)
  by_cases hA07 : i < 73056
  · exact rangeA_spec 63924 9132 calA07 i (by omega) (by omega)
  by_cases hA08 : i < 82188
  · exact rangeA_spec 73056 9132 calA08 i (by omega) (by omega)
  by_cases hA09 : i < 91320
  · exact rangeA_spec 82188 9132 calA09 i (by omega) (by omega)
  by_cases hA10 : i < 100452
  · exact rangeA_spec 91320 9132 calA10 i (by omega) (by omega)
  by_cases hA11 : i < 109584
  · exact rangeA_spec 100452 9132 calA11 i (by omega) (by omega)
  by_cases hA12 : i < 118716
  · exact rangeA_spec 109584 9132 calA12 i (by omega) (by omega)
  by_cases hA13 : i < 127848
  · exact rangeA_spec 118716 9132 calA13 i (by omega) (by omega)
  by_cases hA14 : i < 136980
  · exact rangeA_spec 127848 9132 calA14 i (by omega) (by omega)
  by_cases hA15 : i < 146097
  · exact rangeA_spec 136980 9117 calA15 i (by omega) (by omega)
  omega

/-- every valid (year of era, month, day): doeOfCivil then civilOfDoe is the identity -/
theorem tableB (y : Nat) (hy : y < 400) (m : Nat) (h1 : 1 ≤ m) (h2 : m ≤ 12) (d : Nat) (h3 : 1 ≤ d)
    (h4 : d ≤ daysInMonth (if m ≤ 2 then (y : Int) + 1 else y) m) : civOK y m d = true := by
  by_cases hB00 : y < 25
  · exact rangeB_spec 0 25 calB00 y (by omega) (by omega) m h1 h2 d h3 h4
  by_cases hB01 : y < 50
  · exact rangeB_spec 25 25 calB01 y (by omega) (by omega) m h1 h2 d h3 h4
  by_cases hB02 : y < 75
  · exact rangeB_spec 50 25 calB02 y (by omega) (by omega) m h1 h2 d h3 h4
  by_cases hB03 : y < 100
  · exact rangeB_spec 75 25 calB03 y (by omega) (by omega) m h1 h2 d h3 h4
  by_cases hB04 : y < 125
  · exact rangeB_spec 100 25 calB04 y (by omega) (by omega) m h1 h2 d h3 h4
  by_cases hB05 : y < 150
  · exact rangeB_spec 125 25 calB05 y (by omega) (by omega) m h1 h2 d h3 h4
  by_cases hB06 : y < 175
  · exact rangeB_spec 150 25 calB06 y (by omega) (by omega) m h1 h2 d h3 h4
  by_cases hB07 : y < 200
  · exact rangeB_spec 175 25 calB07 y (by omega) (by omega) m h1 h2 d h3 h4
  by_cases hB08 : y < 225
  · exact rangeB_spec 200 25 calB08 y (by omega) (by omega) m h1 h2 d h3 h4
  by_cases hB09 : y < 250
  · exact rangeB_spec 225 25 calB09 y (by omega) (by omega) m h1 h2 d h3 h4
  by_cases hB10 : y < 275
  · exact rangeB_spec 250 25 calB10 y (by omega) (by omega) m h1 h2 d h3 h4
  by_cases hB11 : y < 300
  · exact rangeB_spec 275 25 calB11 y (by omega) (by omega) m h1 h2 d h3 h4
  by_cases hB12 : y < 325
  · exact rangeB_spec 300 25 calB12 y (by omega) (by omega) m h1 h2 d h3 h4
  by_cases hB13 : y < 350
  · exact rangeB_spec 325 25 calB13 y (by omega) (by omega) m h1 h2 d h3 h4
  by_cases hB14 : y < 375
  · exact rangeB_spec 350 25 calB14 y (by omega) (by omega) m h1 h2 d h3 h4
  by_cases hB15 : y < 400
  · exact rangeB_spec 375 25 calB15 y (by omega) (by omega) m h1 h2 d h3 h4
  omega

end Osu.TC
