import OsuProofs.Cal.Defs
namespace Osu.TC
set_option maxRecDepth 1000000 in
theorem calA14 : rangeA 127848 9132 = true := by decide +kernel
end Osu.TC
