import OsuProofs.Cal.Defs
namespace Osu.TC
set_option maxRecDepth 1000000 in
theorem calA01 : rangeA 9132 9132 = true := by decide +kernel
end Osu.TC
