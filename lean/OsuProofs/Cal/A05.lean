import OsuProofs.Cal.Defs
namespace Osu.TC
set_option maxRecDepth 1000000 in
theorem calA05 : rangeA 45660 9132 = true := by decide +kernel
end Osu.TC
