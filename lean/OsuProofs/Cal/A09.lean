import OsuProofs.Cal.Defs
namespace Osu.TC
set_option maxRecDepth 1000000 in
theorem calA09 : rangeA 82188 9132 = true := by decide +kernel
end Osu.TC
