import OsuProofs.Cal.Defs
namespace Osu.TC
set_option maxRecDepth 1000000 in
theorem calB08 : rangeB 200 25 = true := by decide +kernel
end Osu.TC
