import OsuProofs.Cal.Defs
namespace Osu.TC
set_option maxRecDepth 1000000 in
theorem calB14 : rangeB 350 25 = true := by decide +kernel
end Osu.TC
